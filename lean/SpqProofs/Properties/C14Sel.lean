/-
  C14, kernel SELECTION of `init_reim_to_znx64_precomp` (spqlios/reim/reim_conversions.c), the sibling of
  `C14.from_znx64_selection`, `C14.to_tnx_selection`, `C14.cplx_to_tnx32_selection`:

      if (m & (m - 1)) return spqlios_error(..);  if (is_not_pow2_double(&divisor)) return spqlios_error(..);
      if (log2bound > 64) return spqlios_error(..);
      resf = reim_to_znx64_ref;
      if (CPU_SUPPORTS("avx2") && m >= 8) { resf = log2bound <= 50 ? .._avx2_bnd50_fma : .._avx2_bnd63_fma; }

  Model: `Conv.initToZnx64 m divisor log2bound avx2 : Option ToZnx64Variant` (`Spq/Conv.lean`; `none` = `spqlios_error`).
  It is already compared with the library: stream `f6_conv` (`harness/f6.cpp`, op `f6 to_znx64 api0|api1 m= log2bound=
  div=`) prints the NAME of `p->function` after `new_reim_to_znx64_precomp` and `Spq/Drv/Conv.lean` prints the variant
  returned by `initToZnx64` — no new stream is needed.

  The per-kernel theorems `C14.to_znx64_{ref,bnd50,bnd63}` have the hypothesis `(2*m) % 4 = 0` for the 4-lane
  do-while kernels; here it is DERIVED from the constructor (`to_znx64_avx_lanes`), and `to_znx64_dispatch` composes
  constructor + selected kernel into one statement about `reim_to_znx64` (`Conv.toZnx64 v`).

  Property theorems only; helper lemmas: `SpqProofs/Lemmas/ConvSel.lean`.
-/
import SpqProofs.Properties.C14
import SpqProofs.Lemmas.ConvSel
import Gen.Dispatch

namespace Spq.C14
open Spq Spq.F64 Spq.Conv

/-- which kernel `init_reim_to_znx64_precomp` installs, and under which argument checks it succeeds:
    * success implies `m & (m-1) == 0`, the divisor passes `is_not_pow2_double`, `log2bound ≤ 64`;
    * `bnd50`  ⟺  AVX2 ∧ `m ≥ 8` ∧ `log2bound ≤ 50`;
    * `bnd63`  ⟺  AVX2 ∧ `m ≥ 8` ∧ `50 < log2bound` (`≤ 64`);
    * `ref`    ⟺  no AVX2 ∨ `m < 8`. -/
theorem to_znx64_selection (m divisor log2bound : Nat) (avx2 : Bool) (v : ToZnx64Variant)
    (h : initToZnx64 m divisor log2bound avx2 = some v) :
    notPow2U32 m = false ∧ isNotPow2Double divisor = 0 ∧ log2bound ≤ 64 ∧
    (v = .bnd50 ↔ (avx2 = true ∧ 8 ≤ m ∧ log2bound ≤ 50)) ∧
    (v = .bnd63 ↔ (avx2 = true ∧ 8 ≤ m ∧ 50 < log2bound)) ∧
    (v = .ref ↔ (avx2 = false ∨ m < 8)) := by
  obtain ⟨h1, h2, h3, hv⟩ := initToZnx64_some m divisor log2bound avx2 v h
  refine ⟨h1, h2, h3, ?_⟩
  subst hv
  cases avx2 <;> by_cases hm : 8 ≤ m <;> by_cases hl : log2bound ≤ 50 <;> simp [hm, hl] <;> omega

/-- a 4-lane AVX kernel (`bnd50` or `bnd63`) is installed only when `8 ≤ m` (a uint32 power of two), hence
    `2m` is a multiple of 4 — the hypothesis `hdiv` of `to_znx64_bnd50` / `to_znx64_bnd63` / `to_znx64_bnd63_wide`:
    the do-while loops of the kernels never run past `2m` doubles -/
theorem to_znx64_avx_lanes (m divisor log2bound : Nat) (avx2 : Bool) (v : ToZnx64Variant)
    (hm32 : m < 4294967296) (h : initToZnx64 m divisor log2bound avx2 = some v) (hv : v ≠ .ref) :
    avx2 = true ∧ 8 ≤ m ∧ m % 2 = 0 ∧ (2 * m) % 4 = 0 := by
  obtain ⟨h1, _, _, _, _, hr⟩ := to_znx64_selection m divisor log2bound avx2 v h
  have hnr : ¬ (avx2 = false ∨ m < 8) := fun hh => hv (hr.2 hh)
  have ha : avx2 = true := by cases avx2 <;> simp_all
  have hm : 8 ≤ m := by
    rcases Nat.lt_or_ge m 8 with hlt | hge
    · exact absurd (Or.inr hlt) hnr
    · exact hge
  have he := even_of_notPow2U32 m hm32 (by omega) h1
  exact ⟨ha, hm, he, by omega⟩

/-- the constructor is total on the documented domain: uint32 power of two `m`, divisor `2^j`, `log2bound ≤ 64` -/
theorem to_znx64_init_defined (m : Nat) (j : Int) (log2bound : Nat) (avx2 : Bool)
    (hm : notPow2U32 m = false) (hL : log2bound ≤ 64) :
    ∃ v, initToZnx64 m (pow2 j) log2bound avx2 = some v :=
  ⟨_, initToZnx64_pow2 m j log2bound avx2 hm hL⟩

/-- constructor + dispatched kernel (`reim_to_znx64(precomp, r, a)` = `precomp->function`): for a precomp built with
    divisor `2^j` and `log2bound = L`, every finite input with `|x/d| < 2^min(L,52)` is converted to an integer within
    1/2 of `x/d`, whichever of the three kernels was installed.  (`L ≤ 50`: the `bnd50` domain; `50 < L`: the
    proved `Within` range of `bnd63`, `2^52` — beyond it see `to_znx64_bnd63_wide`.) -/
theorem to_znx64_dispatch (m : Nat) (j : Int) (L : Nat) (avx2 : Bool) (v : ToZnx64Variant)
    (hm32 : m < 4294967296) (hinit : initToZnx64 m (pow2 j) L avx2 = some v)
    (hj1 : -1020 ≤ j) (hj2 : j ≤ 971) (x : Array Nat) (i : Nat) (hi : i < 2 * m)
    (hfin : F64.isFinite (x.getD i 0) = true) (hx64 : x.getD i 0 < 18446744073709551616)
    (hdom : MagLt (x.getD i 0) (pow2 j) (2 ^ min L 52)) :
    ∃ r, (toZnx64 v m (pow2 j) x)[i]? = some r ∧ Within r (x.getD i 0) (pow2 j) := by
  have hd0 : (0 : Int) ≤ toScaled (pow2 j) := by
    rw [toScaled_pow2 j (by omega) (by omega)]; positivity
  have mono : ∀ B : Int, (2 : Int) ^ min L 52 ≤ B → MagLt (x.getD i 0) (pow2 j) B := fun B hB =>
    lt_of_lt_of_le hdom (mul_le_mul_of_nonneg_right hB hd0)
  have hpow : ∀ e : Nat, min L 52 ≤ e → (2 : Int) ^ min L 52 ≤ 2 ^ e := fun e he =>
    pow_le_pow_right₀ (by norm_num) he
  obtain ⟨_, _, _, h50, h63, _⟩ := to_znx64_selection m (pow2 j) L avx2 v hinit
  cases v with
  | ref =>
    exact to_znx64_ref m j (by omega) (by omega) x i hi hfin (mono _ (by simpa using hpow 63 (by omega)))
  | bnd50 =>
    have hl := (h50.1 rfl).2.2
    have hdiv := (to_znx64_avx_lanes m (pow2 j) L avx2 _ hm32 hinit (by simp)).2.2.2
    exact to_znx64_bnd50 m j (by omega) hj2 x i hi hdiv (mono _ (by simpa using hpow 50 (by omega)))
  | bnd63 =>
    have hdiv := (to_znx64_avx_lanes m (pow2 j) L avx2 _ hm32 hinit (by simp)).2.2.2
    exact to_znx64_bnd63 m j hj1 hj2 x i hi hdiv hx64 (mono _ (by simpa using hpow 52 (by omega)))

/-! ### the hypotheses are satisfiable; the three branches are reached -/

example : initToZnx64 8 (pow2 (-3)) 50 true = some .bnd50 ∧ initToZnx64 8 (pow2 (-3)) 51 true = some .bnd63 ∧
    initToZnx64 8 (pow2 (-3)) 64 true = some .bnd63 ∧ initToZnx64 4 (pow2 (-3)) 40 true = some .ref ∧
    initToZnx64 1024 (pow2 5) 40 false = some .ref ∧ initToZnx64 8 (pow2 0) 65 true = none ∧
    initToZnx64 12 (pow2 0) 40 true = none ∧
    initToZnx64 8 4617315517961601024 40 true = none ∧            -- divisor 5.0 is refused, but
    initToZnx64 8 4613937818241073152 40 true = some .bnd50 := by  -- divisor 3.0 = 1.5·2 is ACCEPTED:
  -- `is_not_pow2_double` masks with 0x7FFFFFFFFFFFF (51 bits, the mantissa has 52); hence `to_znx64_selection`
  -- concludes `isNotPow2Double divisor = 0`, not `divisor = pow2 j` (known: comment and `na` verdict in `case_init32`, harness/cv.cpp)
  decide +kernel

/-- an instance of `to_znx64_dispatch`: m = 8, d = 8, L = 50, x[1] = 2^53 - 1 = (2^50 - 1/8)·8 -/
example : ∃ r, (toZnx64 .bnd50 8 (pow2 3) (Array.replicate 16 4845873199050653695))[1]? = some r ∧
    Within r 4845873199050653695 (pow2 3) := by
  have h := to_znx64_dispatch 8 3 50 true .bnd50 (by norm_num) (by decide +kernel) (by norm_num) (by norm_num)
    (Array.replicate 16 4845873199050653695) 1 (by norm_num) (by decide +kernel) (by decide +kernel)
    (by unfold MagLt; decide +kernel)
  simpa using h


/-! ### the constructor model against the LIVE library (regenerated dispatch facts) -/

/-- the kernel a variant stands for -/
def variantKernel : ToZnx64Variant → String
  | .ref => "reim_to_znx64_ref"
  | .bnd50 => "reim_to_znx64_avx2_bnd50_fma"
  | .bnd63 => "reim_to_znx64_avx2_bnd63_fma"

/-- is AVX2 available under CPU mask `i` of `Gen.Dispatch` (masks = disable (avx2, fma, avx512):
    (0,0,0), (1,1,1), (1,0,0), (0,1,0), (0,0,1)) -/
def avx2UnderMask : Nat → Bool
  | 1 => false
  | 2 => false
  | _ => true

/-- the `log2bound` values at which `tools/gen_dispatch.py` calls `new_reim_to_znx64_precomp` -/
def toZnx64Bounds : List (String × Nat) :=
  [("new_reim_to_znx64_precomp/50", 50), ("new_reim_to_znx64_precomp/51", 51),
   ("new_reim_to_znx64_precomp/52", 52), ("new_reim_to_znx64_precomp/63", 63)]

/-- Gen obligation: for every bound in {50, 51, 52, 63}, every CPU mask and every dimension `m = 2^0 .. 2^16`, the kernel
    that the LIVE library's `new_reim_to_znx64_precomp` installed (read back from the object on this run) is the one the
    model of the constructor `Conv.initToZnx64` selects — so `to_znx64_selection` / `to_znx64_dispatch` are about the
    constructor the library runs (in particular the 50/51 threshold), not only about a hand-typed copy of it.
    The second conjunct is the non-vacuity floor: all four bounds occur with both an AVX and a reference row. -/
theorem to_znx64_constructor_matches_library :
    (toZnx64Bounds.all fun nb =>
      (Gen.Dispatch.rows.filter fun r => r.1 == nb.1).all fun r =>
        r.2.2.2.all fun lg =>
          (initToZnx64 (2 ^ lg) (pow2 2) nb.2 (avx2UnderMask r.2.1)).map variantKernel == some r.2.2.1) = true ∧   -- divisor 4.0, as tools/gen_dispatch.py calls it
    (toZnx64Bounds.all fun nb =>
      (Gen.Dispatch.rows.any fun r => r.1 == nb.1 && r.2.2.1 == "reim_to_znx64_ref") &&
      (Gen.Dispatch.rows.any fun r => r.1 == nb.1 && r.2.2.1 != "reim_to_znx64_ref" && r.2.2.2.length ≥ 14)) = true := by
  decide +kernel

end Spq.C14
