/-
  C06.4 — the a-priori rounding bound of the forward reim FFT, for the binary64 drivers of `Spq/Fft`.

  1. `reim_fft_structural`: for ANY value type and ANY butterfly functions (no ring laws) the forward reim schedule
     (leaves 2/4/8/16, `bfs16` odd pass + radix-4 passes, `rec16`; every `m = 2^k`) is the radix-2 level network `VN`
     in which block `b` of level `ℓ` runs the butterfly `gNet F c s k ℓ d b` — the plain butterfly with the stored
     twiddle of exponent `twE ℓ d b`, or (odd blocks of the levels `clv`) the `i·ω` butterfly with the stored
     twiddle of block `b − 1`.  Schedules decide WHEN a butterfly runs, never what it computes.
  2. `reim_fft_err`: binary64.  Run the same model function on flagged patterns (`aOk`: the flag of a result says
     that every operation it depends on had finite operands and an exact result that is 0 or in the normal range).
     If the flags of the outputs hold and the stored twiddles (patterns `cN e`, `sN e`, table
     `reimFftEnts.map (valP cN sN)`) are within `τ = 3.5·2^-53` of the exact roots `ζ^e` (`ζ` a unit-modulus element
     of `Cplx K`, `K` any ordered field, e.g. ℝ, with `ζ^m = i`; stream `ff_tables` measures 3.11·2^-53), then every
     bit-level output is finite and
         Σ_j |val(out_j) − FFT(val x)_j|²  ≤  ((1 + 8·2^-53)^k − 1)² · Σ_j |FFT(val x)_j|²
     (2-norms squared, so no square root is needed), for the reference and the FMA/assembly implementation.
  3. `reim_fft_err_prop`: for `k ≤ 16` this is the property's bound `8·log2(2m)·2^-53`.

  Hypothesis on the table, explicit: equal exponents hold equal stored values (`T = ents.map (valP cN sN)`), true of
  the real tables (same argument to `cos`/`sin`), and the overflow/underflow side condition is the flag hypothesis.
  4. `reim_ifft_structural`, `reim_ifft_err`, `reim_ifft_err_prop`: the same for the inverse reim transform, against the
     exact inverse network `exactInv ζi` (inverse root `ζi`, `|ζi| = 1`, `ζi^m = −i`; levels
     `(x_p, x_{p+h}) ← (x_p + x_{p+h}, ζi^e·(x_p − x_{p+h}))`).  `exactInv_fwd` / `exactInv_of_evals` identify it: it is the
     two-sided inverse of the exact forward network up to the factor `m` (`FFT(exactInv y) = m·y`, `exactInv(FFT a) = m·a`).
  5. cplx layout (interleaved): `cplx_fft_structural`, `cplx_ifft_structural` (per-block butterflies `gNetC`, `gNetCI`:
     `cbfs2` for m ≤ 8 with the `(ω, −ω)` butterfly at the last level, `cbfs16` for m ≤ 2048, `crec16` above; in the
     inverse the odd-log pass runs right after the leaves, so the `−i·ω̄` levels depend on the parity of the region),
     `cplx_fft_err(_prop)`, `cplx_ifft_err(_prop)` for both implementations (`fma` is the AVX2/FMA code, used for m > 4).
     The `addsub(0, ω)` trick of the FMA code is exact: `rnd (val b) = val b` (`Spq.F64.rnd_val`).
     The forward table holds four kinds of entries (cos, sin, −sin, −cos: patterns `cN sN nsN ncN`); `(ncN, nsN)` is
     only used by the `h = 1` level of `m ≤ 8` and must be within `τ` of `−ζ^e`.
  Not done: discharging the flags a priori from a magnitude box (agent M's `InBox`).
-/
import SpqProofs.Lemmas.FftErrSchedCIFin
namespace Spq.C06Err
open Finset Spq.Fft Spq.Fft.Alg Spq.Fft.SimP Spq.Fft.LevelN Spq.Fft.SchedN Spq.Fft.SchedC Spq.Fft.RelN Spq.FftErr Spq.F64

/-- **Structural schedule theorem** (law-free), every `m = 2^k`, any `Flav`. -/
theorem reim_fft_structural {R : Type} [Inhabited R] (F : Flav R) (c s : ℕ → R) (k : ℕ) (s0 : RI R)
    (hs : Sim.Valid (2 ^ k) s0) (p : ℕ) (hp : p < 2 ^ k) :
    prs (fftRI F (2 ^ k) (((reimFftEnts (2 ^ k)).map (valP c s)).toArray) s0) p
      = VN (gNet F c s k) (prs s0) k 0 p :=
  (fftRI_struct F c s k s0 hs).1 p hp

variable {K : Type} [Field K] [LinearOrder K] [IsStrictOrderedRing K]

/-- **`reim_fft_err`** -/
theorem reim_fft_err (fma : Bool) (k : ℕ) (ζ : Cplx K) (hζ : nsq ζ = 1) (hI : ζ ^ 2 ^ k = Ic) (cN sN : ℕ → ℕ)
    (hcs : ∀ ℓ d b, ℓ + d + 1 = k → b < 2 ^ ℓ →
      nsq (toC (((val (cN (twE ℓ d b)) : ℚ) : K), ((val (sN (twE ℓ d b)) : ℚ) : K)) - ζ ^ twE ℓ d b) ≤
        (((7 / 2 * u64 : ℚ)) : K) ^ 2)
    (data : Array ℕ) (hdata : data.size = 2 * 2 ^ k)
    (hok : ∀ p, p < 2 * 2 ^ k →
      ((reimFftA (famOf fma aOk) (2 ^ k) ((((reimFftEnts (2 ^ k)).map (valP cN sN)).toArray).map lift)
        (data.map lift))[p]!).2) :
    (∀ p, p < 2 * 2 ^ k →
      Fin64 ((reimFft (if fma then "fma" else "ref") (2 ^ k) ((reimFftEnts (2 ^ k)).map (valP cN sN)).toArray data)[p]!)) ∧
    ∑ j ∈ range (2 ^ k),
        nsq (outC (reimFft (if fma then "fma" else "ref") (2 ^ k) ((reimFftEnts (2 ^ k)).map (valP cN sN)).toArray data) k j
          - exactOut ζ k data j) ≤
      ((1 + ((8 * u64 : ℚ) : K)) ^ k - 1) ^ 2 * ∑ j ∈ range (2 ^ k), nsq (exactOut ζ k data j) := by
  rw [reimFft_eq]
  cases fma
  · exact fft_err_fam (fun {α} A => fwdRef (α := α) A) famRef (fun A u τ sm hτ => fwdRef_errOK A u τ sm hτ)
      k ζ hζ hI cN sN hcs data hdata hok
  · exact fft_err_fam (fun {α} A => fwdFma (α := α) A) famFma (fun A u τ sm hτ => fwdFma_errOK A u τ sm hτ)
      k ζ hζ hI cN sN hcs data hdata hok

/-- **the property's bound** `8·log2(2m)·2^-53` (`log2(2m) = k + 1`) for `m ≤ 65536` -/
theorem reim_fft_err_prop (fma : Bool) (k : ℕ) (hk : k ≤ 16) (ζ : Cplx K) (hζ : nsq ζ = 1) (hI : ζ ^ 2 ^ k = Ic)
    (cN sN : ℕ → ℕ)
    (hcs : ∀ ℓ d b, ℓ + d + 1 = k → b < 2 ^ ℓ →
      nsq (toC (((val (cN (twE ℓ d b)) : ℚ) : K), ((val (sN (twE ℓ d b)) : ℚ) : K)) - ζ ^ twE ℓ d b) ≤
        (((7 / 2 * u64 : ℚ)) : K) ^ 2)
    (data : Array ℕ) (hdata : data.size = 2 * 2 ^ k)
    (hok : ∀ p, p < 2 * 2 ^ k →
      ((reimFftA (famOf fma aOk) (2 ^ k) ((((reimFftEnts (2 ^ k)).map (valP cN sN)).toArray).map lift)
        (data.map lift))[p]!).2) :
    ∑ j ∈ range (2 ^ k),
        nsq (outC (reimFft (if fma then "fma" else "ref") (2 ^ k) ((reimFftEnts (2 ^ k)).map (valP cN sN)).toArray data) k j
          - exactOut ζ k data j) ≤
      (((8 * (k + 1 : ℚ) * u64 : ℚ)) : K) ^ 2 * ∑ j ∈ range (2 ^ k), nsq (exactOut ζ k data j) := by
  have h := (reim_fft_err fma k ζ hζ hI cN sN hcs data hdata hok).2
  refine le_trans h (mul_le_mul_of_nonneg_right ?_ (sum_nonneg (fun j _ => nsq_nonneg _)))
  have hb := bound16 k hk
  have h1 : (1 : ℚ) ≤ (1 + 8 * u64) ^ k := one_le_pow₀ (by unfold u64; norm_num)
  have h2 : ((1 + 8 * u64) ^ k - 1) ^ 2 ≤ (8 * (k + 1 : ℚ) * u64) ^ 2 :=
    pow_le_pow_left₀ (by linarith) hb 2
  have := (Rat.cast_le (K := K)).2 h2
  push_cast at this ⊢
  exact this

/-! ### inverse transform -/

/-- **Structural schedule theorem, inverse** (law-free), every `m = 2^k`, any `Flav`. -/
theorem reim_ifft_structural {R : Type} [Inhabited R] (F : Flav R) (c s : ℕ → R) (k : ℕ) (s0 : RI R)
    (hs : Sim.Valid (2 ^ k) s0) (p : ℕ) (hp : p < 2 ^ k) :
    prs (ifftRI F (2 ^ k) (((reimIfftEnts (2 ^ k)).map (valP c s)).toArray) s0) p
      = VNI k (gNet F c s k) (prs s0) k p :=
  (ifftRI_struct F c s k s0 hs).1 p hp

/-- **`reim_ifft_err`** -/
theorem reim_ifft_err (fma : Bool) (k : ℕ) (ζi : Cplx K) (hζ : nsq ζi = 1) (hI : ζi ^ 2 ^ k = -Ic) (cN sN : ℕ → ℕ)
    (hcs : ∀ ℓ d b, ℓ + d + 1 = k → b < 2 ^ ℓ →
      nsq (toC (((val (cN (twE ℓ d b)) : ℚ) : K), ((val (sN (twE ℓ d b)) : ℚ) : K)) - ζi ^ twE ℓ d b) ≤
        (((7 / 2 * u64 : ℚ)) : K) ^ 2)
    (data : Array ℕ) (hdata : data.size = 2 * 2 ^ k)
    (hok : ∀ p, p < 2 * 2 ^ k →
      ((reimIfftA (ifamOf fma aOk) (2 ^ k) ((((reimIfftEnts (2 ^ k)).map (valP cN sN)).toArray).map lift)
        (data.map lift))[p]!).2) :
    (∀ p, p < 2 * 2 ^ k →
      Fin64 ((reimIfft (if fma then "fma" else "ref") (2 ^ k) ((reimIfftEnts (2 ^ k)).map (valP cN sN)).toArray data)[p]!)) ∧
    ∑ j ∈ range (2 ^ k),
        nsq (outC (reimIfft (if fma then "fma" else "ref") (2 ^ k) ((reimIfftEnts (2 ^ k)).map (valP cN sN)).toArray data) k j
          - exactInv ζi k data j) ≤
      ((1 + ((8 * u64 : ℚ) : K)) ^ k - 1) ^ 2 * ∑ j ∈ range (2 ^ k), nsq (exactInv ζi k data j) := by
  rw [reimIfft_eq]
  cases fma
  · exact ifft_err_fam (fun {α} A => invRef (α := α) A) famIRef (fun A u τ sm hτ => invRef_errOK A u τ sm hτ)
      k ζi hζ hI cN sN hcs data hdata hok
  · exact ifft_err_fam (fun {α} A => invFma (α := α) A) famIFma (fun A u τ sm hτ => invFma_errOK A u τ sm hτ)
      k ζi hζ hI cN sN hcs data hdata hok

/-- **the property's bound** for the inverse transform, `m ≤ 65536` -/
theorem reim_ifft_err_prop (fma : Bool) (k : ℕ) (hk : k ≤ 16) (ζi : Cplx K) (hζ : nsq ζi = 1) (hI : ζi ^ 2 ^ k = -Ic)
    (cN sN : ℕ → ℕ)
    (hcs : ∀ ℓ d b, ℓ + d + 1 = k → b < 2 ^ ℓ →
      nsq (toC (((val (cN (twE ℓ d b)) : ℚ) : K), ((val (sN (twE ℓ d b)) : ℚ) : K)) - ζi ^ twE ℓ d b) ≤
        (((7 / 2 * u64 : ℚ)) : K) ^ 2)
    (data : Array ℕ) (hdata : data.size = 2 * 2 ^ k)
    (hok : ∀ p, p < 2 * 2 ^ k →
      ((reimIfftA (ifamOf fma aOk) (2 ^ k) ((((reimIfftEnts (2 ^ k)).map (valP cN sN)).toArray).map lift)
        (data.map lift))[p]!).2) :
    ∑ j ∈ range (2 ^ k),
        nsq (outC (reimIfft (if fma then "fma" else "ref") (2 ^ k) ((reimIfftEnts (2 ^ k)).map (valP cN sN)).toArray data) k j
          - exactInv ζi k data j) ≤
      (((8 * (k + 1 : ℚ) * u64 : ℚ)) : K) ^ 2 * ∑ j ∈ range (2 ^ k), nsq (exactInv ζi k data j) := by
  have h := (reim_ifft_err fma k ζi hζ hI cN sN hcs data hdata hok).2
  refine le_trans h (mul_le_mul_of_nonneg_right ?_ (sum_nonneg (fun j _ => nsq_nonneg _)))
  have hb := bound16 k hk
  have h1 : (1 : ℚ) ≤ (1 + 8 * u64) ^ k := one_le_pow₀ (by unfold u64; norm_num)
  have h2 : ((1 + 8 * u64) ^ k - 1) ^ 2 ≤ (8 * (k + 1 : ℚ) * u64) ^ 2 :=
    pow_le_pow_left₀ (by linarith) hb 2
  have := (Rat.cast_le (K := K)).2 h2
  push_cast at this ⊢
  exact this

/-- what `exactInv` is (1): its exact forward transform is `m ·` the input -/
theorem exactInv_fwd (k : ℕ) (ζ ζi : Cplx K) (hinv : ζ * ζi = 1) (data : Array ℕ) (j : ℕ) :
    V ζ (fun q => exactInv ζi k data q) k 0 j =
      2 ^ k * toC (((val data[j]! : ℚ) : K), ((val data[2 ^ k + j]! : ℚ) : K)) := by
  have := V_of_WIk k ζ ζi hinv (fun p => toC (((val data[p]! : ℚ) : K), ((val data[2 ^ k + p]! : ℚ) : K))) k (le_refl k) j
  rw [Nat.sub_self] at this
  exact this

/-- what `exactInv` is (2): on the exact forward transform of `a` it returns `m · a` -/
theorem exactInv_of_evals (k : ℕ) (ζ ζi : Cplx K) (hinv : ζ * ζi = 1) (a : ℕ → Cplx K) (data : Array ℕ)
    (hdata : ∀ p, p < 2 ^ k → toC (((val data[p]! : ℚ) : K), ((val data[2 ^ k + p]! : ℚ) : K)) = V ζ a k 0 p)
    (j : ℕ) (hj : j < 2 ^ k) : exactInv ζi k data j = 2 ^ k * a j := by
  unfold exactInv WIk
  rw [WI_congr_on _ k _ (fun p => V ζ a k 0 p) hdata k j (le_refl k) hj]
  have := WIk_of_evals k ζi ζ hinv a k (le_refl k) j
  rw [Nat.sub_self] at this
  exact this

/-! ### cplx layout -/

/-- **Structural schedule theorem, forward cplx** (law-free), every `m = 2^k`, any `CFlav`. -/
theorem cplx_fft_structural {R : Type} [Inhabited R] (F : CFlav R) (c s ns nc : ℕ → R) (k : ℕ) (s0 : RI R)
    (hs : Sim.Valid (2 ^ k) s0) (p : ℕ) (hp : p < 2 ^ k) :
    prs (cfftRI F (2 ^ k) (((cplxFftEnts (2 ^ k)).map (valQ c s ns nc)).toArray) s0) p
      = VN (gNetC F c s ns nc k) (prs s0) k 0 p :=
  (cfftRI_struct F c s ns nc k s0 hs).1 p hp

/-- **Structural schedule theorem, inverse cplx** (law-free); `lanesOdd = false` holds for both implementations. -/
theorem cplx_ifft_structural {R : Type} [Inhabited R] (F : CFlav R) (hl : F.lanesOdd = false) (c s : ℕ → R) (k : ℕ)
    (s0 : RI R) (hs : Sim.Valid (2 ^ k) s0) (p : ℕ) (hp : p < 2 ^ k) :
    prs (cifftRI F (2 ^ k) (((cplxIfftEnts (2 ^ k)).map (valP c s)).toArray) s0) p
      = VNI k (gNetCI F c s k) (prs s0) k p :=
  (cifftRI_struct F c s k hl s0 hs).1 p hp

/-- **`cplx_fft_err`** -/
theorem cplx_fft_err (fma : Bool) (k : ℕ) (ζ : Cplx K) (hζ : nsq ζ = 1) (hI : ζ ^ 2 ^ k = Ic) (cN sN nsN ncN : ℕ → ℕ)
    (hcs : ∀ ℓ d b, ℓ + d + 1 = k → b < 2 ^ ℓ →
      nsq (toC (((val (cN (twE ℓ d b)) : ℚ) : K), ((val (sN (twE ℓ d b)) : ℚ) : K)) - ζ ^ twE ℓ d b) ≤
        (((7 / 2 * u64 : ℚ)) : K) ^ 2)
    (hncs : ∀ ℓ b, ℓ + 1 = k → b < 2 ^ ℓ →
      nsq (toC (((val (ncN (twE ℓ 0 b)) : ℚ) : K), ((val (nsN (twE ℓ 0 b)) : ℚ) : K)) - -ζ ^ twE ℓ 0 b) ≤
        (((7 / 2 * u64 : ℚ)) : K) ^ 2)
    (data : Array ℕ) (hdata : data.size = 2 * 2 ^ k)
    (hok : ∀ p, p < 2 * 2 ^ k →
      ((cplxFftA (cfamB fma (2 ^ k) aOk (lift 0)) (2 ^ k)
        ((((cplxFftEnts (2 ^ k)).map (valQ cN sN nsN ncN)).toArray).map lift) (data.map lift))[p]!).2) :
    (∀ p, p < 2 * 2 ^ k → Fin64 ((cplxFft (if fma then "fma" else "ref") (2 ^ k)
        ((cplxFftEnts (2 ^ k)).map (valQ cN sN nsN ncN)).toArray data)[p]!)) ∧
    ∑ j ∈ range (2 ^ k),
        nsq (cellC (cplxFft (if fma then "fma" else "ref") (2 ^ k)
          ((cplxFftEnts (2 ^ k)).map (valQ cN sN nsN ncN)).toArray data) j - exactOutC ζ k data j) ≤
      ((1 + ((8 * u64 : ℚ) : K)) ^ k - 1) ^ 2 * ∑ j ∈ range (2 ^ k), nsq (exactOutC ζ k data j) := by
  rw [cplxFft_eq]
  exact cfft_err_fam fma k ζ hζ hI cN sN nsN ncN hcs hncs data hdata hok

/-- **the property's bound** for the forward cplx transform, `m ≤ 65536` -/
theorem cplx_fft_err_prop (fma : Bool) (k : ℕ) (hk : k ≤ 16) (ζ : Cplx K) (hζ : nsq ζ = 1) (hI : ζ ^ 2 ^ k = Ic)
    (cN sN nsN ncN : ℕ → ℕ)
    (hcs : ∀ ℓ d b, ℓ + d + 1 = k → b < 2 ^ ℓ →
      nsq (toC (((val (cN (twE ℓ d b)) : ℚ) : K), ((val (sN (twE ℓ d b)) : ℚ) : K)) - ζ ^ twE ℓ d b) ≤
        (((7 / 2 * u64 : ℚ)) : K) ^ 2)
    (hncs : ∀ ℓ b, ℓ + 1 = k → b < 2 ^ ℓ →
      nsq (toC (((val (ncN (twE ℓ 0 b)) : ℚ) : K), ((val (nsN (twE ℓ 0 b)) : ℚ) : K)) - -ζ ^ twE ℓ 0 b) ≤
        (((7 / 2 * u64 : ℚ)) : K) ^ 2)
    (data : Array ℕ) (hdata : data.size = 2 * 2 ^ k)
    (hok : ∀ p, p < 2 * 2 ^ k →
      ((cplxFftA (cfamB fma (2 ^ k) aOk (lift 0)) (2 ^ k)
        ((((cplxFftEnts (2 ^ k)).map (valQ cN sN nsN ncN)).toArray).map lift) (data.map lift))[p]!).2) :
    ∑ j ∈ range (2 ^ k),
        nsq (cellC (cplxFft (if fma then "fma" else "ref") (2 ^ k)
          ((cplxFftEnts (2 ^ k)).map (valQ cN sN nsN ncN)).toArray data) j - exactOutC ζ k data j) ≤
      (((8 * (k + 1 : ℚ) * u64 : ℚ)) : K) ^ 2 * ∑ j ∈ range (2 ^ k), nsq (exactOutC ζ k data j) :=
  le_trans (cplx_fft_err fma k ζ hζ hI cN sN nsN ncN hcs hncs data hdata hok).2
    (mul_le_mul_of_nonneg_right (bound16K k hk) (sum_nonneg (fun j _ => nsq_nonneg _)))

/-- **`cplx_ifft_err`** -/
theorem cplx_ifft_err (fma : Bool) (k : ℕ) (ζi : Cplx K) (hζ : nsq ζi = 1) (hI : ζi ^ 2 ^ k = -Ic) (cN sN : ℕ → ℕ)
    (hcs : ∀ ℓ d b, ℓ + d + 1 = k → b < 2 ^ ℓ →
      nsq (toC (((val (cN (twE ℓ d b)) : ℚ) : K), ((val (sN (twE ℓ d b)) : ℚ) : K)) - ζi ^ twE ℓ d b) ≤
        (((7 / 2 * u64 : ℚ)) : K) ^ 2)
    (data : Array ℕ) (hdata : data.size = 2 * 2 ^ k)
    (hok : ∀ p, p < 2 * 2 ^ k →
      ((cplxIfftA (cifamB fma (2 ^ k) aOk (lift 0)) (2 ^ k)
        ((((cplxIfftEnts (2 ^ k)).map (valP cN sN)).toArray).map lift) (data.map lift))[p]!).2) :
    (∀ p, p < 2 * 2 ^ k → Fin64 ((cplxIfft (if fma then "fma" else "ref") (2 ^ k)
        ((cplxIfftEnts (2 ^ k)).map (valP cN sN)).toArray data)[p]!)) ∧
    ∑ j ∈ range (2 ^ k),
        nsq (cellC (cplxIfft (if fma then "fma" else "ref") (2 ^ k)
          ((cplxIfftEnts (2 ^ k)).map (valP cN sN)).toArray data) j - exactInvC ζi k data j) ≤
      ((1 + ((8 * u64 : ℚ) : K)) ^ k - 1) ^ 2 * ∑ j ∈ range (2 ^ k), nsq (exactInvC ζi k data j) := by
  rw [cplxIfft_eq]
  exact cifft_err_fam fma k ζi hζ hI cN sN hcs data hdata hok

/-- **the property's bound** for the inverse cplx transform, `m ≤ 65536` -/
theorem cplx_ifft_err_prop (fma : Bool) (k : ℕ) (hk : k ≤ 16) (ζi : Cplx K) (hζ : nsq ζi = 1) (hI : ζi ^ 2 ^ k = -Ic)
    (cN sN : ℕ → ℕ)
    (hcs : ∀ ℓ d b, ℓ + d + 1 = k → b < 2 ^ ℓ →
      nsq (toC (((val (cN (twE ℓ d b)) : ℚ) : K), ((val (sN (twE ℓ d b)) : ℚ) : K)) - ζi ^ twE ℓ d b) ≤
        (((7 / 2 * u64 : ℚ)) : K) ^ 2)
    (data : Array ℕ) (hdata : data.size = 2 * 2 ^ k)
    (hok : ∀ p, p < 2 * 2 ^ k →
      ((cplxIfftA (cifamB fma (2 ^ k) aOk (lift 0)) (2 ^ k)
        ((((cplxIfftEnts (2 ^ k)).map (valP cN sN)).toArray).map lift) (data.map lift))[p]!).2) :
    ∑ j ∈ range (2 ^ k),
        nsq (cellC (cplxIfft (if fma then "fma" else "ref") (2 ^ k)
          ((cplxIfftEnts (2 ^ k)).map (valP cN sN)).toArray data) j - exactInvC ζi k data j) ≤
      (((8 * (k + 1 : ℚ) * u64 : ℚ)) : K) ^ 2 * ∑ j ∈ range (2 ^ k), nsq (exactInvC ζi k data j) :=
  le_trans (cplx_ifft_err fma k ζi hζ hI cN sN hcs data hdata hok).2
    (mul_le_mul_of_nonneg_right (bound16K k hk) (sum_nonneg (fun j _ => nsq_nonneg _)))

/-- what `exactInvC` is: `FFT(exactInvC y) = m·y` and `exactInvC(FFT a) = m·a` -/
theorem exactInvC_fwd (k : ℕ) (ζ ζi : Cplx K) (hinv : ζ * ζi = 1) (data : Array ℕ) (j : ℕ) :
    V ζ (fun q => exactInvC ζi k data q) k 0 j = 2 ^ k * cellC data j :=
  exactInvC_fwd' k ζ ζi hinv data j

theorem exactInvC_of_evals (k : ℕ) (ζ ζi : Cplx K) (hinv : ζ * ζi = 1) (a : ℕ → Cplx K) (data : Array ℕ)
    (hdata : ∀ p, p < 2 ^ k → cellC data p = V ζ a k 0 p) (j : ℕ) (hj : j < 2 ^ k) :
    exactInvC ζi k data j = 2 ^ k * a j :=
  exactInvC_of_evals' k ζ ζi hinv a data hdata j hj

/-- the hypotheses of `reim_fft_err` are satisfiable (K = ℚ, m = 1, `ζ = i`, data `(+0, +0)`); for `m ≥ 2` the roots
are irrational: take `K = ℝ`, `ζ = exp(iπ/2m)` -/
example : ∃ (ζ : Cplx ℚ) (data : Array ℕ), nsq ζ = 1 ∧ ζ ^ 2 ^ 0 = Ic ∧ data.size = 2 * 2 ^ 0 ∧
    ∀ p, p < 2 * 2 ^ 0 → ((reimFftA (famOf false aOk) (2 ^ 0)
      ((((reimFftEnts (2 ^ 0)).map (valP (fun _ => 0) (fun _ => 0))).toArray).map lift) (data.map lift))[p]!).2 := by
  refine ⟨Ic, #[0, 0], by simp [nsq, Ic], by simp, rfl, ?_⟩
  intro p hp
  have : p = 0 ∨ p = 1 := by omega
  rcases this with rfl | rfl <;> simp [reimFftA, fftRI, joinRI, splitRI, lift, fin64_zero]

/-- the hypotheses of `reim_ifft_err` are satisfiable (K = ℚ, m = 1, `ζi = −i`) -/
example : ∃ (ζi : Cplx ℚ) (data : Array ℕ), nsq ζi = 1 ∧ ζi ^ 2 ^ 0 = -Ic ∧ data.size = 2 * 2 ^ 0 ∧
    ∀ p, p < 2 * 2 ^ 0 → ((reimIfftA (ifamOf false aOk) (2 ^ 0)
      ((((reimIfftEnts (2 ^ 0)).map (valP (fun _ => 0) (fun _ => 0))).toArray).map lift) (data.map lift))[p]!).2 := by
  refine ⟨-Ic, #[0, 0], by simp [nsq, Ic], by simp, rfl, ?_⟩
  intro p hp
  have : p = 0 ∨ p = 1 := by omega
  rcases this with rfl | rfl <;> simp [reimIfftA, ifftRI, joinRI, splitRI, lift, fin64_zero]

/-- the hypotheses of `cplx_fft_err` / `cplx_ifft_err` are satisfiable (K = ℚ, m = 1) -/
example : ∃ (ζ : Cplx ℚ) (data : Array ℕ), nsq ζ = 1 ∧ ζ ^ 2 ^ 0 = Ic ∧ data.size = 2 * 2 ^ 0 ∧
    ∀ p, p < 2 * 2 ^ 0 → ((cplxFftA (cfamB false (2 ^ 0) aOk (lift 0)) (2 ^ 0)
      ((((cplxFftEnts (2 ^ 0)).map (valQ (fun _ => 0) (fun _ => 0) (fun _ => 0) (fun _ => 0))).toArray).map lift)
      (data.map lift))[p]!).2 := by
  refine ⟨Ic, #[0, 0], by simp [nsq, Ic], by simp, rfl, ?_⟩
  intro p hp
  have : p = 0 ∨ p = 1 := by omega
  rcases this with rfl | rfl <;> simp [cplxFftA, cfftRI, interleave, deinterleave, lift, fin64_zero]

example : ∃ (ζi : Cplx ℚ) (data : Array ℕ), nsq ζi = 1 ∧ ζi ^ 2 ^ 0 = -Ic ∧ data.size = 2 * 2 ^ 0 ∧
    ∀ p, p < 2 * 2 ^ 0 → ((cplxIfftA (cifamB false (2 ^ 0) aOk (lift 0)) (2 ^ 0)
      ((((cplxIfftEnts (2 ^ 0)).map (valP (fun _ => 0) (fun _ => 0))).toArray).map lift) (data.map lift))[p]!).2 := by
  refine ⟨-Ic, #[0, 0], by simp [nsq, Ic], by simp, rfl, ?_⟩
  intro p hp
  have : p = 0 ∨ p = 1 := by omega
  rcases this with rfl | rfl <;> simp [cplxIfftA, cifftRI, interleave, deinterleave, lift, fin64_zero]

end Spq.C06Err
