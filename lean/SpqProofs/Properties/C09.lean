/-
  C09 — rotation, automorphism and (X^p-1) product are the ring maps of Z[X]/(X^N+1) for every p;
  the in-place variants compute the same function as the out-of-place ones.

  Property theorems only (helper lemmas: SpqProofs/Lemmas/{RqSpec,CoeffsBasic,CoeffsRotate,CoeffsWalk,
  CoeffsOrbit,CoeffsInplace,CoeffsAutom,CoeffsCompose,CoeffsPow5,CoeffsAutRel,CoeffsPairWalk,
  CoeffsAutLevel,CoeffsFold,CoeffsAutCases,CoeffsAutInplace}.lean).  Every theorem quantifies over all ring dimensions `nn`, all
  `p : Int` (the C masks `(-p) & (2nn-1)`, `(j+p) & (2nn-1)` are reductions modulo `2nn`; that is what
  `negMask`/`posMask` say) and an arbitrary coefficient type with operations `o : Ops α`
  (in particular wrapping int64 and binary64 bit patterns).  Algebraic laws on `o` are assumed only
  where stated.

  Spec (`SpqProofs/Lemmas/RqSpec.lean`):
   * `rotCoeff o nn p a k`   = `s · a[(k-p) mod nn]`, `s = -1` iff `(k-p) mod 2nn ≥ nn`   (coefficient k of X^p·a)
   * `mulXpCoeff o nn p a k` = `rotCoeff o nn p a k - a[k]`
   * `autExp nn p i` = `i·p mod 2nn`,  `autVal` = `±a[i]` (minus iff `autExp ≥ nn`)
-/
import SpqProofs.Lemmas.CoeffsInplace
import SpqProofs.Lemmas.CoeffsAutom
import SpqProofs.Lemmas.CoeffsAutInplace
import SpqProofs.Lemmas.CoeffsCompose
namespace Spq.C09
open Spq Rq
variable {α : Type}

/-! ### 1. out-of-place rotation and (X^p - 1) product -/

/-- `znx_rotate_i64` / `rnx_rotate_f64` return `X^p · a`, for every `nn > 0`, `p : Int`. -/
theorem rotate_spec (o : Ops α) (nn : Nat) (p : Int) (inp : Array α) :
    (Coeffs.rotate o nn p inp).size = nn ∧
    ∀ k, k < nn → (Coeffs.rotate o nn p inp)[k]? = some (rotCoeff o nn p inp k) := by
  refine ⟨rotate_size o nn p inp, fun k hk => ?_⟩
  have h : k < (Coeffs.rotate o nn p inp).size := by rw [rotate_size]; exact hk
  rw [Array.getElem?_eq_getElem h, rotate_getElem o nn p inp k hk, rotCoeff_eq_sget o nn (by omega)]

/-- `znx_mul_xp_minus_one` / `rnx_mul_xp_minus_one` return `X^p · a - a`. -/
theorem mulxp_spec (o : Ops α) (nn : Nat) (p : Int) (inp : Array α) :
    (Coeffs.mulXpMinusOne o nn p inp).size = nn ∧
    ∀ k, k < nn → (Coeffs.mulXpMinusOne o nn p inp)[k]? = some (mulXpCoeff o nn p inp k) := by
  refine ⟨mulXp_size o nn p inp, fun k hk => ?_⟩
  have h : k < (Coeffs.mulXpMinusOne o nn p inp).size := by rw [mulXp_size]; exact hk
  rw [Array.getElem?_eq_getElem h, mulXp_getElem o nn p inp k hk, mulXpCoeff,
    rotCoeff_eq_sget o nn (by omega)]

/-- `(X^p - 1)·a = X^p·a - a`, as an identity between the two models -/
theorem mulxp_eq_rotate_sub (o : Ops α) (nn : Nat) (p : Int) (a : Array α) :
    Coeffs.mulXpMinusOne o nn p a = Coeffs.sub o nn (Coeffs.rotate o nn p a) a := by
  apply Array.ext (by simp [Coeffs.mulXpMinusOne, Coeffs.sub])
  intro k hk1 hk2
  have hk : k < nn := by rw [mulXp_size] at hk1; exact hk1
  rw [mulXp_getElem o nn p a k hk]
  simp only [Coeffs.sub, Array.getElem_ofFn]
  rw [rotate_getD o nn p a k hk]

/-! ### 2. out-of-place automorphism `X ↦ X^p`, odd `p`, `nn = 2^t` -/

/-- `znx_automorphism_i64` / `rnx_automorphism_f64`: coefficient `i` of the input lands at position
    `(i·p mod 2nn) mod nn`, negated iff `i·p mod 2nn ≥ nn`; these positions cover `[0,nn)`, so every
    cell of the output is written. -/
theorem autom_spec (o : Ops α) (t : Nat) (p : Int) (hp : p % 2 = 1) (inp res0 : Array α)
    (hr : res0.size = 2 ^ t) :
    (Coeffs.automorphism o (2 ^ t) p inp res0).size = 2 ^ t ∧
    (∀ i, i < 2 ^ t → (Coeffs.automorphism o (2 ^ t) p inp res0)[autExp (2 ^ t) p i % 2 ^ t]? =
        some (autVal o (2 ^ t) p inp i)) ∧
    (∀ k, k < 2 ^ t → ∃ i, i < 2 ^ t ∧ autExp (2 ^ t) p i % 2 ^ t = k) := by
  have hn : 0 < 2 ^ t := Nat.pow_pos (by norm_num)
  have hs : (Coeffs.automorphism o (2 ^ t) p inp res0).size = 2 ^ t := by rw [autom_size, hr]
  refine ⟨hs, ?_, fun k hk => autPos_surj t p hp k hk⟩
  intro i hi
  rw [getElem?_of_getD o.zero (by rw [hs]; exact Nat.mod_lt _ hn), autom_scatter o t p hp inp res0 hr i hi]

/-- the result does not depend on the prior content of the output buffer -/
theorem autom_res0_indep (o : Ops α) (t : Nat) (p : Int) (hp : p % 2 = 1) (inp res0 res0' : Array α)
    (hr : res0.size = 2 ^ t) (hr' : res0'.size = 2 ^ t) :
    Coeffs.automorphism o (2 ^ t) p inp res0 = Coeffs.automorphism o (2 ^ t) p inp res0' := by
  obtain ⟨s1, v1, -⟩ := autom_spec o t p hp inp res0 hr
  obtain ⟨s2, v2, -⟩ := autom_spec o t p hp inp res0' hr'
  apply Array.ext (by rw [s1, s2])
  intro k hk1 hk2
  obtain ⟨i, hi, e⟩ := autPos_surj t p hp k (by rw [← s1]; exact hk1)
  have a := v1 i hi
  have b := v2 i hi
  rw [e] at a b
  rw [Array.getElem?_eq_getElem hk1] at a
  rw [Array.getElem?_eq_getElem hk2] at b
  exact Option.some.inj (a.trans b.symm)

/-! ### 3. in-place rotation and (X^p - 1) product (cycle walk, leaders `0,1,2,…`)
    Termination with the model's fuel (`nn` steps per cycle, `nn` leaders) is part of the statement.
    Holds for every `nn` (not only powers of two) and needs no law on `o`. -/

theorem rotate_inplace_eq (o : Ops α) (nn : Nat) (p : Int) (x : Array α) (hx : x.size = nn) :
    Coeffs.rotateInplace o nn p x = Coeffs.rotate o nn p x := by
  rcases Nat.eq_zero_or_pos nn with h0 | hn
  · subst h0
    have : x = #[] := Array.eq_empty_of_size_eq_zero hx
    subst this; rfl
  · obtain ⟨h1, h2⟩ := walkAll_result o nn hn p false x hx
    apply Array.ext
    · rw [rotate_size]; exact h1
    · intro k hk1 hk2
      have hk : k < nn := by rw [rotate_size] at hk2; exact hk2
      have a := h2 k hk
      have b := rotate_getD o nn p x k hk o.zero
      simp only [Array.getD_eq_getD_getElem?, Array.getElem?_eq_getElem hk2, Option.getD_some] at b
      unfold Coeffs.rotateInplace at hk1 ⊢
      simp only [Array.getD_eq_getD_getElem?, Array.getElem?_eq_getElem hk1, Option.getD_some] at a
      rw [a, b]; rfl

theorem mulxp_inplace_eq (o : Ops α) (nn : Nat) (p : Int) (x : Array α) (hx : x.size = nn) :
    Coeffs.mulXpMinusOneInplace o nn p x = Coeffs.mulXpMinusOne o nn p x := by
  rcases Nat.eq_zero_or_pos nn with h0 | hn
  · subst h0
    have : x = #[] := Array.eq_empty_of_size_eq_zero hx
    subst this; rfl
  · obtain ⟨h1, h2⟩ := walkAll_result o nn hn p true x hx
    apply Array.ext
    · rw [mulXp_size]; exact h1
    · intro k hk1 hk2
      have hk : k < nn := by rw [mulXp_size] at hk2; exact hk2
      have a := h2 k hk
      have b := mulXp_getD o nn p x k hk o.zero
      simp only [Array.getD_eq_getD_getElem?, Array.getElem?_eq_getElem hk2, Option.getD_some] at b
      unfold Coeffs.mulXpMinusOneInplace at hk1 ⊢
      simp only [Array.getD_eq_getD_getElem?, Array.getElem?_eq_getElem hk1, Option.getD_some] at a
      rw [a, b]; rfl

/-! ### 4. in-place automorphism (valuation classes, four special cases, paired cycle walks with
    leaders `B, 5B, 25B, …`) = out-of-place automorphism, for every `nn = 2^t` and every odd `p`.
    No law on `o` is needed (every cell is moved once, with a single negation exactly where the
    out-of-place code negates).  Termination of all three nested loops with the model's fuel is part
    of the statement.  The proof uses `(Z/2^s)^× = ⟨-1⟩ × ⟨5⟩` (from Mathlib's `ZMod.orderOf_five`). -/

/-- the level loop with any fuel `≥ t` (no bound on `t`) -/
theorem autom_inplace_levels_eq (o : Ops α) (t fuel : Nat) (ht : t ≤ fuel) (p : Int) (hp : p % 2 = 1)
    (x x0 : Array α) (hx : x.size = 2 ^ t) (hx0 : x0.size = 2 ^ t) :
    Coeffs.autLevels o (2 ^ t) (posMask p (2 * 2 ^ t)) fuel 1 (posMask p (2 * 2 ^ t)) (2 ^ t / 2) x =
      Coeffs.automorphism o (2 ^ t) p x x0 :=
  automLevels_eq o t fuel ht p hp x x0 hx hx0

/-- `znx_automorphism_inplace_i64` / `rnx_automorphism_inplace_f64` = out-of-place automorphism.
    `t ≤ 64` is the model's level fuel (the C loop variable `binval` is a `uint64_t`; the C contract
    `2·nn ≤ 2^64` gives `t ≤ 63`). -/
theorem autom_inplace_eq (o : Ops α) (t : Nat) (ht : t ≤ 64) (p : Int) (hp : p % 2 = 1)
    (x x0 : Array α) (hx : x.size = 2 ^ t) (hx0 : x0.size = 2 ^ t) :
    Coeffs.automorphismInplace o (2 ^ t) p x = Coeffs.automorphism o (2 ^ t) p x x0 :=
  automInplace_eq o t ht p hp x x0 hx hx0

/-- in-place automorphism in specification form -/
theorem autom_inplace_spec (o : Ops α) (t : Nat) (ht : t ≤ 64) (p : Int) (hp : p % 2 = 1)
    (x : Array α) (hx : x.size = 2 ^ t) :
    (Coeffs.automorphismInplace o (2 ^ t) p x).size = 2 ^ t ∧
    ∀ i, i < 2 ^ t → (Coeffs.automorphismInplace o (2 ^ t) p x)[autExp (2 ^ t) p i % 2 ^ t]? =
        some (autVal o (2 ^ t) p x i) := by
  rw [autom_inplace_eq o t ht p hp x x hx hx]
  exact ⟨(autom_spec o t p hp x x hx).1, (autom_spec o t p hp x x hx).2.1⟩

/-! ### 5. composition: rotations add, automorphisms multiply (exponents modulo `2nn`).
    These need `-(-v) = v` for the entries `v` of the input (true for every int64 under wrapping
    negation, including `INT64_MIN`, and for every binary64 pattern). -/

theorem rotate_compose (o : Ops α) (nn : Nat) (p q : Int) (a : Array α)
    (hneg : ∀ i, i < nn → o.neg (o.neg (a.getD i o.zero)) = a.getD i o.zero) :
    Coeffs.rotate o nn p (Coeffs.rotate o nn q a) = Coeffs.rotate o nn (p + q) a :=
  rotate_rotate o nn p q a hneg

/-- rotation depends on `p` only modulo `2nn` -/
theorem rotate_periodic (o : Ops α) (nn : Nat) (p : Int) (c : Int) (a : Array α) :
    Coeffs.rotate o nn (p + c * (2 * nn : Nat)) a = Coeffs.rotate o nn p a := by
  have : negMask (p + c * (2 * nn : Nat)) (2 * nn) = negMask p (2 * nn) := by
    unfold negMask
    have : -(p + c * ((2 * nn : Nat) : Int)) = -p + ((2 * nn : Nat) : Int) * (-c) := by ring
    rw [this, Int.add_mul_emod_self_left]
  unfold Coeffs.rotate
  rw [this]

theorem autom_compose (o : Ops α) (t : Nat) (p q : Int) (hp : p % 2 = 1) (hq : q % 2 = 1)
    (a r0 r1 r2 : Array α)
    (hneg : ∀ i, i < 2 ^ t → o.neg (o.neg (a.getD i o.zero)) = a.getD i o.zero)
    (h0 : r0.size = 2 ^ t) (h1 : r1.size = 2 ^ t) (h2 : r2.size = 2 ^ t) :
    Coeffs.automorphism o (2 ^ t) p (Coeffs.automorphism o (2 ^ t) q a r0) r1 =
      Coeffs.automorphism o (2 ^ t) (p * q) a r2 :=
  autom_autom o t p q hp hq a r0 r1 r2 hneg h0 h1 h2

/-! ### examples: the hypotheses are satisfiable by concrete non-trivial instances (int64 arithmetic) -/

example : Coeffs.rotateInplace i64Ops 4 (-3) #[1, 2, 3, 4] = Coeffs.rotate i64Ops 4 (-3) #[1, 2, 3, 4] :=
  rotate_inplace_eq i64Ops 4 (-3) #[1, 2, 3, 4] rfl

example : Coeffs.mulXpMinusOneInplace i64Ops 6 1000000007 #[1, 2, 3, 4, 5, 6] =
    Coeffs.mulXpMinusOne i64Ops 6 1000000007 #[1, 2, 3, 4, 5, 6] :=
  mulxp_inplace_eq i64Ops 6 1000000007 _ rfl

example : Coeffs.automorphismInplace i64Ops (2 ^ 3) (-5) #[1, 2, 3, 4, 5, 6, 7, 8] =
    Coeffs.automorphism i64Ops (2 ^ 3) (-5) #[1, 2, 3, 4, 5, 6, 7, 8] #[0, 0, 0, 0, 0, 0, 0, 0] :=
  autom_inplace_eq i64Ops 3 (by decide) (-5) (by decide) _ _ rfl rfl

example : Coeffs.rotate i64Ops 4 5 (Coeffs.rotate i64Ops 4 (-9223372036854775807) #[1, -2, 3, -9223372036854775808]) =
    Coeffs.rotate i64Ops 4 (5 + -9223372036854775807) #[1, -2, 3, -9223372036854775808] :=
  rotate_compose i64Ops 4 5 _ _ (by
    intro i hi
    have : i = 0 ∨ i = 1 ∨ i = 2 ∨ i = 3 := by omega
    rcases this with rfl | rfl | rfl | rfl <;> decide)

example : (Coeffs.rotate i64Ops 4 1 #[1, 2, 3, 4])[0]? = some (rotCoeff i64Ops 4 1 #[1, 2, 3, 4] 0) :=
  (rotate_spec i64Ops 4 1 #[1, 2, 3, 4]).2 0 (by decide)

example : (Coeffs.automorphism i64Ops (2 ^ 2) 3 #[1, 2, 3, 4] #[9, 9, 9, 9])[autExp (2 ^ 2) 3 1 % 2 ^ 2]? =
    some (autVal i64Ops (2 ^ 2) 3 #[1, 2, 3, 4] 1) :=
  (autom_spec i64Ops 2 3 (by decide) #[1, 2, 3, 4] #[9, 9, 9, 9] rfl).2.1 1 (by decide)

example : Coeffs.automorphism i64Ops (2 ^ 2) 3 (Coeffs.automorphism i64Ops (2 ^ 2) 5 #[1, 2, 3, 4] #[0, 0, 0, 0])
      #[0, 0, 0, 0] = Coeffs.automorphism i64Ops (2 ^ 2) (3 * 5) #[1, 2, 3, 4] #[0, 0, 0, 0] :=
  autom_compose i64Ops 2 3 5 (by decide) (by decide) _ _ _ _ (by
    intro i hi
    have : i = 0 ∨ i = 1 ∨ i = 2 ∨ i = 3 := by
      have : (2 : Nat) ^ 2 = 4 := by norm_num
      omega
    rcases this with rfl | rfl | rfl | rfl <;> decide) rfl rfl rfl

end Spq.C09
