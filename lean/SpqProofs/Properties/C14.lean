/-
  C14 — numeric layout conversions are exact or correctly rounded on their whole domain.

  Property theorems only (helper lemmas: SpqProofs/Lemmas/{F64Pack,F64Arith,F64Magic,F64Rint,F64Quot,
  ConvFrom,ConvToZnx,ConvToTnx,ConvToTnx32,ConvVec}.lean).  Everything is stated on the bit-exact soft-float
  model `Spq/F64.lean` and the model `Spq/Conv.lean` of the C functions (both validated bit-for-bit against
  the compiled library by the stream `f6_conv`).

  Real numbers.  A double is its 64-bit pattern `b`; the real number it denotes is `F64.toScaled b / 2^1074`
  (`toScaled b` is an integer: every finite double is a multiple of 2^-1074).  The divisor is `d = 2^j`
  (`F64.pow2 j`).  So, with `xs = toScaled x`, `ds = toScaled d`:
      `|x/d| < B`            is   `|xs| < B * ds`
      `|r − x/d| ≤ 1/2`      is   `2 * |r * ds − xs| ≤ ds`          (`Within r x d` below)
      "the double `b` is exactly the integer `v`"      is `toScaled b = v * 2^1074`
      "the double `b` is exactly `v·2^-32`"            is `toScaled b = v * 2^1042`.
  The theorems hold for every dimension `m` (vector-level statements go through the loop structure of the
  C code: scalar loops, 4-lane do-while loops, 8-lane loops, the 8-complex shuffle networks of the cplx
  kernels), every element index, every divisor exponent `j` for which the table constants are finite
  doubles, every `log2overhead ≤ 48`, and every input pattern in the stated magnitude domain.  Inf/NaN
  patterns are not modelled by `Spq.F64`: the magnitude bound excludes them wherever `B·2^j ≤ 2^1024` (bnd50, bnd63, wide,
  to_tnx, cplx_to_tnx32: j ≤ 971 / 961 / 900); `to_znx64_ref` and `to_tnx_basic_ref_partial`, whose divisor range is wider,
  carry an explicit finiteness hypothesis.
-/
import SpqProofs.Lemmas.ConvVec
import SpqProofs.Lemmas.ConvToTnx32
import SpqProofs.Lemmas.ConvBnd63Wide
import SpqProofs.Lemmas.ConvToTnxBasic
namespace Spq.C14
open Spq Spq.F64 Spq.Conv

/-- `r` is an integer within 1/2 of `x/d` -/
def Within (r : Int) (x d : Nat) : Prop := 2 * |r * toScaled d - toScaled x| ≤ toScaled d

/-- `|x/d| < B` -/
def MagLt (x d : Nat) (B : Int) : Prop := |toScaled x| < B * toScaled d

/-! ### 1. int64 → double (`reim_from_znx64`): exact for |x| < 2^50, both variants, every m -/

/-- plain cast (`reim_from_znx64_ref`) and magic-constant trick (`reim_from_znx64_bnd50_fma`: add 2^51 as
    integers, OR the exponent of 2^52, subtract 3·2^51) return the double whose value is exactly `x[i]`. -/
theorem from_znx64_exact (m : Nat) (x : Array Int) (i : Nat) (hi : i < 2 * m)
    (hx : -1125899906842624 < x.getD i 0 ∧ x.getD i 0 < 1125899906842624) :
    (∃ b, (fromZnx64Ref m x)[i]? = some b ∧ toScaled b = x.getD i 0 * 2 ^ 1074) ∧
    ((2 * m) % 4 = 0 → ∃ b, (fromZnx64Bnd50 m x)[i]? = some b ∧ toScaled b = x.getD i 0 * 2 ^ 1074) := by
  constructor
  · refine ⟨_, scalarLoop_getElem? _ _ i hi, fromZnx64RefLane_exact _ (by omega)⟩
  · intro hdiv
    refine ⟨_, chunks4_getElem? _ m i (by omega) hdiv hi, fromZnx64Bnd50Lane_exact _ (by omega) (by omega)⟩

/-- the two variants agree bit for bit on the (wider) window −2^51 ≤ x < 2^51 -/
theorem from_znx64_bnd50_eq_ref (x : Int) (h1 : -2251799813685248 ≤ x) (h2 : x < 2251799813685248) :
    fromZnx64Bnd50Lane x = fromZnx64RefLane x :=
  fromZnx64Bnd50Lane_eq_ofInt x h1 h2

/-- the constructor never selects the 4-lane variant below m = 8 (and rejects log2bound > 50) -/
theorem from_znx64_selection (m log2bound : Nat) (avx2 : Bool) (v : FromZnx64Variant)
    (h : initFromZnx64 m log2bound avx2 = some v) :
    log2bound ≤ 50 ∧ (v = .bnd50 → 8 ≤ m ∧ avx2 = true) := by
  unfold initFromZnx64 at h
  split at h
  · exact absurd h (by simp)
  · split at h
    · exact absurd h (by simp)
    · rename_i h2
      refine ⟨by omega, ?_⟩
      intro hv
      subst hv
      simp only [Option.some.injEq] at h
      split at h
      · rename_i hc
        simp only [Bool.and_eq_true, decide_eq_true_eq] at hc
        exact hc
      · exact absurd h (by simp)

example : ∃ x : Array Int, -1125899906842624 < x.getD 1 0 ∧ x.getD 1 0 < 1125899906842624 ∧ x.getD 1 0 ≠ 0 :=
  ⟨#[0, -1125899906842623], by decide⟩

/-! ### 2. double → int64 with divisor 2^j (`reim_to_znx64`): within 1/2 of x/d -/

/-- `reim_to_znx64_ref` (`(int64_t)rint(x * (1/d))`): for |x/d| < 2^63 (contains the documented 2^52) -/
theorem to_znx64_ref (m : Nat) (j : Int) (hj1 : -1022 ≤ j) (hj2 : j ≤ 1022) (x : Array Nat) (i : Nat) (hi : i < 2 * m)
    (_hfin : F64.isFinite (x.getD i 0) = true)   -- Inf/NaN patterns are not modelled (for j ≥ 962 the magnitude bound alone admits them)
    (hdom : MagLt (x.getD i 0) (pow2 j) 9223372036854775808) :
    ∃ r, (toZnx64Ref m (pow2 j) x)[i]? = some r ∧ Within r (x.getD i 0) (pow2 j) := by
  refine ⟨_, scalarLoop_getElem? _ _ i hi, ?_⟩
  exact toZnx64RefLane_spec j hj1 hj2 _ hdom

/-- `reim_to_znx64_avx2_bnd50_fma` (add 3·2^51·d, keep the 52 fraction bits, subtract 2^51): |x/d| < 2^50 -/
theorem to_znx64_bnd50 (m : Nat) (j : Int) (hj1 : -1022 ≤ j) (hj2 : j ≤ 971) (x : Array Nat) (i : Nat) (hi : i < 2 * m)
    (hdiv : (2 * m) % 4 = 0) (hdom : MagLt (x.getD i 0) (pow2 j) 1125899906842624) :
    ∃ r, (toZnx64Bnd50 m (pow2 j) x)[i]? = some r ∧ Within r (x.getD i 0) (pow2 j) := by
  refine ⟨_, chunks4_getElem? _ m i (by omega) hdiv hi, ?_⟩
  exact toZnx64Bnd50Lane_spec j hj1 hj2 _ hdom

/-- `reim_to_znx64_avx2_bnd63_fma` with the repair of D7 (`offset = divisor * (0.5 - 0x1p-54)`, i.e. pred(d/2); the
    kernel computes `sign(x)·⌊|fl(x + sign(x)·offset)| / d⌋` by exponent difference and variable shifts): for every
    input with |x/d| < 2^52 the result is within 1/2 of `x/d`, ties included, with no hypothesis on the rounding of
    the addition (a representable `x` never lies within `d·2^-54` above a half-integer multiple of `d`, and the
    rounded sum never crosses a multiple of `d` in the wrong direction). -/
theorem to_znx64_bnd63 (m : Nat) (j : Int) (hj1 : -1020 ≤ j) (hj2 : j ≤ 971) (x : Array Nat) (i : Nat)
    (hi : i < 2 * m) (hdiv : (2 * m) % 4 = 0) (hx64 : x.getD i 0 < 18446744073709551616)
    (hdom : MagLt (x.getD i 0) (pow2 j) 4503599627370496) :
    ∃ r, (toZnx64Bnd63 m (pow2 j) x)[i]? = some r ∧ Within r (x.getD i 0) (pow2 j) := by
  refine ⟨_, chunks4_getElem? _ m i (by omega) hdiv hi, ?_⟩
  exact toZnx64Bnd63Lane_spec j hj1 hj2 _ hx64 hdom

/-- the extended range of the repaired kernel, 2^52 ≤ |x/d| < 2^63 (`x/d` is then an integer): `x + sign(x)·pred(d/2)`
    rounds back to `x` and the left-shift branch returns exactly `x/d` (`r·d = x`) -/
theorem to_znx64_bnd63_wide (m : Nat) (j : Int) (hj1 : -1020 ≤ j) (hj2 : j ≤ 961) (x : Array Nat) (i : Nat)
    (hi : i < 2 * m) (hdiv : (2 * m) % 4 = 0) (hx64 : x.getD i 0 < 18446744073709551616)
    (hlo : 4503599627370496 * toScaled (pow2 j) ≤ |toScaled (x.getD i 0)|)
    (hhi : MagLt (x.getD i 0) (pow2 j) 9223372036854775808) :
    ∃ r, (toZnx64Bnd63 m (pow2 j) x)[i]? = some r ∧ r * toScaled (pow2 j) = toScaled (x.getD i 0) := by
  refine ⟨_, chunks4_getElem? _ m i (by omega) hdiv hi, ?_⟩
  exact toZnx64Bnd63Lane_wide j hj1 hj2 _ hx64 hlo hhi

/-- Why the repair was needed (finding D7): with the original `offset = divisor / 2.` the kernel violated the
    contract in-domain — for `d = 1`, `x = 0.49999999999999994` (pattern 0x3FDFFFFFFFFFFFFF) `x + 0.5` rounds to 1.0
    and the result is 1, at distance 1/2 + 2^-54 from `x` — and on the extended range it rounded odd integers of
    [2^52, 2^53) to even (`2^52 + 1 ↦ 2^52 + 2`).  The repaired kernel returns 0 and 2^52 + 1. -/
theorem to_znx64_bnd63_old_violation :
    MagLt 4602678819172646911 (pow2 0) 4503599627370496 ∧
    toZnx64Bnd63Lane (bnd63OffsetOld (pow2 0)) (bnd63DiviBits (pow2 0)) 4602678819172646911 = 1 ∧
    ¬ Within 1 4602678819172646911 (pow2 0) ∧
    toZnx64Bnd63Lane (bnd63OffsetOld (pow2 0)) (bnd63DiviBits (pow2 0)) 4841369599423283201 = 4503599627370498 ∧
    toZnx64Bnd63Lane (bnd63Offset (pow2 0)) (bnd63DiviBits (pow2 0)) 4602678819172646911 = 0 ∧
    toZnx64Bnd63Lane (bnd63Offset (pow2 0)) (bnd63DiviBits (pow2 0)) 4841369599423283201 = 4503599627370497 := by
  unfold Within MagLt
  decide +kernel

example : ∃ x, x < 18446744073709551616 ∧ MagLt x (pow2 (-4)) 4503599627370496 ∧ toScaled x ≠ 0 :=
  ⟨13808036457517940735, by unfold MagLt; decide +kernel⟩   -- x = -pred(1/2)·2^-4, d = 2^-4: a former failing input

example : ∃ x, MagLt x (pow2 3) 1125899906842624 ∧ toScaled x ≠ 0 :=
  ⟨4845873199050653695, by unfold MagLt; decide +kernel⟩   -- x = 2^53 - 1 = (2^50 - 1/8)·8

/-! ### 3. int32 → complex double (`cplx_from_znx32`, `cplx_from_tnx32`): exact for every int32 -/

/-- integer scaling: output complex `s` is exactly `(x[s], x[m+s])`, reference loop (any m) and AVX2 kernel
    (8 ∣ m; shuffles + exponent word 0x43300000 + subtraction of 2^52+2^31), for every int32 incl. INT32_MIN -/
theorem cplx_from_znx32_exact (m : Nat) (x : Array Int) (s : Nat) (hs : s < m)
    (hre : -2147483648 ≤ x.getD s 0 ∧ x.getD s 0 < 2147483648)
    (him : -2147483648 ≤ x.getD (m + s) 0 ∧ x.getD (m + s) 0 < 2147483648) :
    (∃ a b, (cplxFromZnx32Ref m x)[2 * s]? = some a ∧ (cplxFromZnx32Ref m x)[2 * s + 1]? = some b ∧
      toScaled a = x.getD s 0 * 2 ^ 1074 ∧ toScaled b = x.getD (m + s) 0 * 2 ^ 1074) ∧
    (m % 8 = 0 → ∃ a b, (cplxFromZnx32Avx m x)[2 * s]? = some a ∧ (cplxFromZnx32Avx m x)[2 * s + 1]? = some b ∧
      toScaled a = x.getD s 0 * 2 ^ 1074 ∧ toScaled b = x.getD (m + s) 0 * 2 ^ 1074) := by
  constructor
  · obtain ⟨h1, h2⟩ := cplxFromRef_getElem? cplxFromZnx32RefLane m x s hs
    exact ⟨_, _, h1, h2, toScaled_ofInt (by omega), toScaled_ofInt (by omega)⟩
  · intro hm
    obtain ⟨h1, h2⟩ := cplxFromAnyAvx_getElem? ZNX32_C ZNX32_R m x hm s hs
    exact ⟨_, _, h1, h2, cplxFromZnx32AvxLane_exact _ hre.1 hre.2, cplxFromZnx32AvxLane_exact _ him.1 him.2⟩

/-- torus scaling by 2^-32: output complex `s` is exactly `(x[s]·2^-32, x[m+s]·2^-32)` -/
theorem cplx_from_tnx32_exact (m : Nat) (x : Array Int) (s : Nat) (hs : s < m)
    (hre : -2147483648 ≤ x.getD s 0 ∧ x.getD s 0 < 2147483648)
    (him : -2147483648 ≤ x.getD (m + s) 0 ∧ x.getD (m + s) 0 < 2147483648) :
    (∃ a b, (cplxFromTnx32Ref m x)[2 * s]? = some a ∧ (cplxFromTnx32Ref m x)[2 * s + 1]? = some b ∧
      toScaled a = x.getD s 0 * 2 ^ 1042 ∧ toScaled b = x.getD (m + s) 0 * 2 ^ 1042) ∧
    (m % 8 = 0 → ∃ a b, (cplxFromTnx32Avx m x)[2 * s]? = some a ∧ (cplxFromTnx32Avx m x)[2 * s + 1]? = some b ∧
      toScaled a = x.getD s 0 * 2 ^ 1042 ∧ toScaled b = x.getD (m + s) 0 * 2 ^ 1042) := by
  constructor
  · obtain ⟨h1, h2⟩ := cplxFromRef_getElem? cplxFromTnx32RefLane m x s hs
    exact ⟨_, _, h1, h2, cplxFromTnx32RefLane_exact _ (by omega), cplxFromTnx32RefLane_exact _ (by omega)⟩
  · intro hm
    obtain ⟨h1, h2⟩ := cplxFromAnyAvx_getElem? TNX32_C TNX32_R m x hm s hs
    exact ⟨_, _, h1, h2, cplxFromTnx32AvxLane_exact _ hre.1 hre.2, cplxFromTnx32AvxLane_exact _ him.1 him.2⟩

/-- the AVX2 integer-scaling kernel returns bit for bit what the cast returns -/
theorem cplx_from_znx32_avx_eq_ref (x : Int) (h1 : -2147483648 ≤ x) (h2 : x < 2147483648) :
    cplxFromAnyLane ZNX32_C ZNX32_R x = cplxFromZnx32RefLane x :=
  cplxFromZnx32AvxLane_eq_ofInt x h1 h2

/-! ### 4. complex double → torus32 (`cplx_to_tnx32`): round(x·2^32/d) modulo 2^32 -/

/-- `r` is an int32 congruent modulo 2^32 to an integer within 1/2 of `x·2^32/d` -/
def Tnx32 (r : Int) (x d : Nat) : Prop :=
  ∃ n : Int, (r - n) % 4294967296 = 0 ∧ 2 * |n * toScaled d - toScaled x * 4294967296| ≤ toScaled d ∧
    -2147483648 ≤ r ∧ r < 2147483648

/-- reference loop (any m; `(int32_t)(int64_t)rint(x·(2^32/d))`) and AVX2 kernel (8 ∣ m; add (0.5+3·2^19)·d,
    low mantissa word, flip the top bit, de-interleave): output `s` / `m+s` is the torus32 value of the
    real / imaginary part of complex `s`, for |x/d| < 2^18 -/
theorem cplx_to_tnx32_spec (m : Nat) (j : Int) (hj1 : -990 ≤ j) (hj2 : j ≤ 900) (x : Array Nat) (s : Nat) (hs : s < m)
    (hre : MagLt (x.getD (2 * s) 0) (pow2 j) 262144) (him : MagLt (x.getD (2 * s + 1) 0) (pow2 j) 262144) :
    (∃ a b, (cplxToTnx32Ref m (pow2 j) x)[s]? = some a ∧ (cplxToTnx32Ref m (pow2 j) x)[m + s]? = some b ∧
      Tnx32 a (x.getD (2 * s) 0) (pow2 j) ∧ Tnx32 b (x.getD (2 * s + 1) 0) (pow2 j)) ∧
    (m % 8 = 0 → ∃ a b, (cplxToTnx32Avx m (pow2 j) x)[s]? = some a ∧ (cplxToTnx32Avx m (pow2 j) x)[m + s]? = some b ∧
      Tnx32 a (x.getD (2 * s) 0) (pow2 j) ∧ Tnx32 b (x.getD (2 * s + 1) 0) (pow2 j)) := by
  have hpos : 0 ≤ toScaled (pow2 j) := by rw [toScaled_pow2 j (by omega) (by omega)]; positivity
  have widen : ∀ y, MagLt y (pow2 j) 262144 → |toScaled y| < 1073741824 * toScaled (pow2 j) := by
    intro y hy; unfold MagLt at hy; nlinarith
  constructor
  · obtain ⟨h1, h2⟩ := cplxToTnx32Ref_getElem? m (pow2 j) x s hs
    exact ⟨_, _, h1, h2, cplxToTnx32RefLane_spec j hj1 (by omega) _ (widen _ hre),
      cplxToTnx32RefLane_spec j hj1 (by omega) _ (widen _ him)⟩
  · intro hm
    obtain ⟨h1, h2⟩ := cplxToTnx32Avx_getElem? m (pow2 j) x hm s hs
    exact ⟨_, _, h1, h2, cplxToTnx32AvxLane_spec j (by omega) hj2 _ hre, cplxToTnx32AvxLane_spec j (by omega) hj2 _ him⟩

/-- the constructor selects the AVX2 kernel only for `log2overhead ≤ 18` and `m ≥ 8` -/
theorem cplx_to_tnx32_selection (m divisor log2overhead : Nat) (avx2 : Bool)
    (h : initCplxToTnx32 m divisor log2overhead avx2 = some true) : log2overhead ≤ 18 ∧ 8 ≤ m ∧ avx2 = true := by
  unfold initCplxToTnx32 at h
  split at h
  · exact absurd h (by simp)
  · split at h
    · exact absurd h (by simp)
    · split at h
      · exact absurd h (by simp)
      · simp only [Option.some.injEq, Bool.and_eq_true, decide_eq_true_eq] at h
        exact ⟨h.1.2, h.2, h.1.1⟩

example : ∃ x, MagLt x (pow2 (-2)) 262144 ∧ toScaled x ≠ 0 :=
  ⟨4679240012837945343, by unfold MagLt; decide +kernel⟩   -- x = 65536 - 2^-37 = (2^18 - 2^-35)/4

/-! ### 5. double → torus double (`reim_to_tnx`): x/d minus an integer, within 2^(log2overhead−51) -/

/-- `r` (a double) is `x/d − n` for some integer `n`, up to `2^(L−51)`, and lies in `[−1/2, 1/2)`:
      `|r − (x/d − n)| ≤ 2^(L−51)`  ⟺  `2^51·|rs·ds − xs·2^1074 + n·ds·2^1074| ≤ 2^L·2^1074·ds`
    (`rs, xs, ds` the values scaled by 2^1074).  Since `|r| ≤ 1/2`, `n` is a nearest integer of `x/d` up to the
    same tolerance: this is "x/d minus its nearest integer within 2^(L−50)" with the rounding direction at exact
    (or nearly exact) .5 ties left open, as in the property statement. -/
def TnxRes (r x d : Nat) (L : Nat) : Prop :=
  ∃ n : Int,
    2 ^ 51 * |toScaled r * toScaled d - toScaled x * 2 ^ 1074 + n * toScaled d * 2 ^ 1074|
      ≤ 2 ^ L * 2 ^ 1074 * toScaled d ∧
    -(2 ^ 1073) ≤ toScaled r ∧ toScaled r < 2 ^ 1073

/-- For every table `p` built by `init_reim_to_tnx_precomp(m, 2^j, L)` with `L ≤ 48` (constants
    `add_cst = (0.5 + 6·2^L)·d`, `mask_and`, `mask_or`, `sub_cst` recomputed by the model of the constructor, 64-bit
    shift) and every input with `|x/d| ≤ 2^L`: the reference loop (union trick) and, when `8 ∣ 2m`, the AVX loop
    (add/and/or/sub) return at every index a double satisfying `TnxRes`. -/
theorem to_tnx_spec (m : Nat) (j : Int) (L : Nat) (avx2 : Bool) (p : ToTnxPrecomp)
    (hm : notPow2U32 m = false) (hj1 : -1022 ≤ j) (hj2 : j ≤ 900) (hL : L ≤ 48)
    (hinit : initToTnx m (pow2 j) L avx2 = some p)
    (x : Array Nat) (i : Nat) (hi : i < 2 * m)
    (hdom : |toScaled (x.getD i 0)| ≤ 2 ^ L * toScaled (pow2 j)) :
    (∃ r, (toTnxRef p x)[i]? = some r ∧ TnxRes r (x.getD i 0) (pow2 j) L) ∧
    ((2 * m) % 8 = 0 → ∃ r, (toTnxAvx p x)[i]? = some r ∧ TnxRes r (x.getD i 0) (pow2 j) L) := by
  obtain ⟨_, hpm, _⟩ := toTnxLane_of_init m j L avx2 p 0 hm hL hinit
  have hspec := toTnxLane_spec m j L avx2 p (x.getD i 0) hm hj1 hj2 hL hinit hdom
  constructor
  · refine ⟨_, ?_, hspec⟩
    unfold toTnxRef; rw [hpm]; exact scalarLoop_getElem? _ _ i hi
  · intro hdiv
    refine ⟨_, ?_, hspec⟩
    unfold toTnxAvx; rw [hpm]; exact chunks8_getElem? _ m i hdiv hi

/-- reference and AVX loops return the same vector bit for bit (same lane function, `8 ∣ 2m`) -/
theorem to_tnx_ref_eq_avx (p : ToTnxPrecomp) (x : Array Nat) (hdiv : (2 * p.m) % 8 = 0) :
    toTnxAvx p x = toTnxRef p x := by
  apply Array.ext_getElem?
  intro i
  unfold toTnxAvx toTnxRef
  by_cases hi : i < 2 * p.m
  · rw [chunks8_getElem? _ p.m i hdiv hi, scalarLoop_getElem? _ _ i hi]
  · have h1 : (chunks 8 (fun i => toTnxLane p (x.getD i 0)) ((2 * p.m + 7) / 8)).size ≤ i := by
      rw [chunks8_size _ p.m hdiv]; omega
    have h2 : (scalarLoop (2 * p.m) fun i => toTnxLane p (x.getD i 0)).size ≤ i := by
      rw [scalarLoop_size]; omega
    rw [Array.getElem?_eq_none h1, Array.getElem?_eq_none h2]

/- `reim_to_tnx_basic_ref` (`ri = x/d; r = ri − rint(ri)`; not reachable from the dispatcher).
   Full statement: ∀ m j x i, i < 2m → |x[i]/d| ≤ 2^L → r = x[i]/d − n within 2^(L−50) for an integer n, |r| ≤ 1/2.
   Proved part: the result is *exactly* `x/d − n` (both the division by 2^j and `y − rint(y)` are exact) and
   `|r| ≤ 1/2`, under the explicit extra hypothesis `hnz` that the quotient does not underflow (`x = 0` or
   `|x/d| ≥ 2^-1022`); below that threshold `x/d` is rounded to a multiple of 2^-1074 (error ≤ 2^-1075, still far
   inside the tolerance) — that last rounding is not covered. -/
theorem to_tnx_basic_ref_partial (m : Nat) (j : Int) (hj1 : -1022 ≤ j) (hj2 : j ≤ 1023) (x : Array Nat) (i : Nat)
    (hi : i < 2 * m)
    (_hfin : F64.isFinite (x.getD i 0) = true)   -- Inf/NaN patterns are not modelled (for j ≥ 25 the magnitude bound alone admits them)
    (hnz : toScaled (x.getD i 0) = 0 ∨ toScaled (pow2 j) ≤ |toScaled (x.getD i 0)| * 2 ^ 1022)
    (hdom : |toScaled (x.getD i 0)| < 2 ^ 1000 * toScaled (pow2 j)) :
    ∃ r, (toTnxBasicRef m (pow2 j) x)[i]? = some r ∧
      ∃ n : Int, toScaled r * toScaled (pow2 j) = (toScaled (x.getD i 0) - n * toScaled (pow2 j)) * 2 ^ 1074 ∧
        2 * |toScaled r| ≤ 2 ^ 1074 := by
  refine ⟨_, scalarLoop_getElem? _ _ i hi, ?_⟩
  exact toTnxBasicLane_spec j hj1 hj2 _ hnz hdom

/-- the dispatcher runs the AVX loop only for `m ≥ 8` -/
theorem to_tnx_selection (m : Nat) (j : Int) (L : Nat) (avx2 : Bool) (p : ToTnxPrecomp)
    (hm : notPow2U32 m = false) (hL : L ≤ 48) (hinit : initToTnx m (pow2 j) L avx2 = some p) :
    p.useAvx = true → 8 ≤ m ∧ avx2 = true := by
  obtain ⟨_, _, hu⟩ := toTnxLane_of_init m j L avx2 p 0 hm hL hinit
  intro h
  rw [hu] at h
  simp only [Bool.and_eq_true, decide_eq_true_eq] at h
  exact ⟨h.2, h.1⟩

example : ∃ p, initToTnx 8 (pow2 (-3)) 30 true = some p ∧ p.useAvx = true := ⟨_, rfl, by decide +kernel⟩
example : ∃ x, |toScaled x| ≤ 2 ^ 30 * toScaled (pow2 (-3)) ∧ toScaled x ≠ 0 :=
  ⟨4728779608739020800, by decide +kernel⟩   -- x = 2^27 = 2^30 / 8: the boundary itself

end Spq.C14
