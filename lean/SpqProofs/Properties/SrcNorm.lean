/-
  SrcNorm: the C SOURCE equals the hand-written model, for all inputs — znx_normalize, six pointer shapes (property C05).
  Split of the translator-based tie (agent T); conventions of the statements:
  Conventions of the statements:
  * `mem : Mem` is the whole memory (array of buffers of 64-bit cells); pointer parameter `i` is bound to
    `some (b, 0)` = start of buffer `b`; the buffers passed have EXACTLY `nn` cells (`(buf mem b).size = nn`);
  * buffer indices may coincide where the C contract allows aliasing (element-wise kernels: any aliasing);
  * `∀ fuel, F nn ≤ fuel → …`: explicit sufficient fuel (one unit per loop iteration);
  * `src_<f>_no_oob`: for EVERY fuel the run is not an out-of-bounds / null / overlap / ub / unsupported error
    (it is the model result, or `Err.fuel` when the fuel is below the bound).
-/
import Gen.CSrc
import Spq.Coeffs
import SpqProofs.Lemmas.SrcFill
import SpqProofs.Lemmas.SrcFuel
import SpqProofs.Lemmas.SrcTac
import SpqProofs.Lemmas.SrcNorm
namespace Spq.Src
open Spq Spq.CIR

/-! ### `znx_normalize(nn, base_k, out, carry_out, in, carry_in)`: one statement per pointer shape (null pointers
    select one of the six loops of the C function; the helpers `get_base_k_digit` / `get_base_k_carry` are inlined
    by the translator).  Every `nn < 2^64`, `1 ≤ base_k ≤ 63` (the shifts by `64 - base_k` and `base_k` must be
    `< 64`), ANY aliasing of `out` / `carry_out` with `in` / `carry_in` (the in-place uses of the library), `out` and
    `carry_out` different buffers.  The model returns the pair (digits, carries); the C code stores the components
    whose pointer is non-null. -/

theorem src_znx_normalize_out_eq_model (nn : Nat) (hnn : nn < 18446744073709551616) (k : Nat)
    (hk1 : 1 ≤ k) (hk2 : k ≤ 63) (mem : Mem) (o i : Nat) (ho : (buf mem o).size = nn) (hi : (buf mem i).size = nn) :
    ∀ fuel, nn ≤ fuel →
      run fuel Gen.CSrc.znx_normalize [(nn : Int), (k : Int)] [some (o, 0), none, some (i, 0), none] mem
        = .ok (mem.setIfInBounds o (Coeffs.znxNormalize nn k (buf mem i) none).1) :=
  norm_out_only nn hnn k hk1 hk2 mem o i ho hi

theorem src_znx_normalize_out_cin_eq_model (nn : Nat) (hnn : nn < 18446744073709551616) (k : Nat)
    (hk1 : 1 ≤ k) (hk2 : k ≤ 63) (mem : Mem) (o i ci : Nat) (ho : (buf mem o).size = nn) (hi : (buf mem i).size = nn) (hci : (buf mem ci).size = nn) :
    ∀ fuel, nn ≤ fuel →
      run fuel Gen.CSrc.znx_normalize [(nn : Int), (k : Int)] [some (o, 0), none, some (i, 0), some (ci, 0)] mem
        = .ok (mem.setIfInBounds o (Coeffs.znxNormalize nn k (buf mem i) (some (buf mem ci))).1) :=
  norm_out_cin nn hnn k hk1 hk2 mem o i ci ho hi hci

theorem src_znx_normalize_out_cout_eq_model (nn : Nat) (hnn : nn < 18446744073709551616) (k : Nat)
    (hk1 : 1 ≤ k) (hk2 : k ≤ 63) (mem : Mem) (o c i : Nat) (hoc : c ≠ o) (ho : (buf mem o).size = nn) (hc : (buf mem c).size = nn)
    (hi : (buf mem i).size = nn) :
    ∀ fuel, nn ≤ fuel →
      run fuel Gen.CSrc.znx_normalize [(nn : Int), (k : Int)] [some (o, 0), some (c, 0), some (i, 0), none] mem
        = .ok ((mem.setIfInBounds o (Coeffs.znxNormalize nn k (buf mem i) none).1).setIfInBounds c
            (Coeffs.znxNormalize nn k (buf mem i) none).2) :=
  norm_out_cout nn hnn k hk1 hk2 mem o c i hoc ho hc hi

theorem src_znx_normalize_out_cout_cin_eq_model (nn : Nat) (hnn : nn < 18446744073709551616) (k : Nat)
    (hk1 : 1 ≤ k) (hk2 : k ≤ 63) (mem : Mem) (o c i ci : Nat) (hoc : c ≠ o) (ho : (buf mem o).size = nn) (hc : (buf mem c).size = nn)
    (hi : (buf mem i).size = nn) (hci : (buf mem ci).size = nn) :
    ∀ fuel, nn ≤ fuel →
      run fuel Gen.CSrc.znx_normalize [(nn : Int), (k : Int)] [some (o, 0), some (c, 0), some (i, 0), some (ci, 0)] mem
        = .ok ((mem.setIfInBounds o (Coeffs.znxNormalize nn k (buf mem i) (some (buf mem ci))).1).setIfInBounds c
            (Coeffs.znxNormalize nn k (buf mem i) (some (buf mem ci))).2) :=
  norm_out_cout_cin nn hnn k hk1 hk2 mem o c i ci hoc ho hc hi hci

theorem src_znx_normalize_cout_eq_model (nn : Nat) (hnn : nn < 18446744073709551616) (k : Nat)
    (hk1 : 1 ≤ k) (hk2 : k ≤ 63) (mem : Mem) (c i : Nat) (hc : (buf mem c).size = nn) (hi : (buf mem i).size = nn) :
    ∀ fuel, nn ≤ fuel →
      run fuel Gen.CSrc.znx_normalize [(nn : Int), (k : Int)] [none, some (c, 0), some (i, 0), none] mem
        = .ok (mem.setIfInBounds c (Coeffs.znxNormalize nn k (buf mem i) none).2) :=
  norm_cout nn hnn k hk1 hk2 mem c i hc hi

theorem src_znx_normalize_cout_cin_eq_model (nn : Nat) (hnn : nn < 18446744073709551616) (k : Nat)
    (hk1 : 1 ≤ k) (hk2 : k ≤ 63) (mem : Mem) (c i ci : Nat) (hc : (buf mem c).size = nn) (hi : (buf mem i).size = nn) (hci : (buf mem ci).size = nn) :
    ∀ fuel, nn ≤ fuel →
      run fuel Gen.CSrc.znx_normalize [(nn : Int), (k : Int)] [none, some (c, 0), some (i, 0), some (ci, 0)] mem
        = .ok (mem.setIfInBounds c (Coeffs.znxNormalize nn k (buf mem i) (some (buf mem ci))).2) :=
  norm_cout_cin nn hnn k hk1 hk2 mem c i ci hc hi hci

theorem src_znx_normalize_out_no_oob (nn : Nat) (hnn : nn < 18446744073709551616) (k : Nat)
    (hk1 : 1 ≤ k) (hk2 : k ≤ 63) (mem : Mem) (o i : Nat) (ho : (buf mem o).size = nn) (hi : (buf mem i).size = nn) :
    ∀ fuel e, e ≠ .fuel →
      run fuel Gen.CSrc.znx_normalize [(nn : Int), (k : Int)] [some (o, 0), none, some (i, 0), none] mem ≠ .err e :=
  run_no_other_error _ _ _ _ _ nn (norm_out_only nn hnn k hk1 hk2 mem o i ho hi)

theorem src_znx_normalize_out_cin_no_oob (nn : Nat) (hnn : nn < 18446744073709551616) (k : Nat)
    (hk1 : 1 ≤ k) (hk2 : k ≤ 63) (mem : Mem) (o i ci : Nat) (ho : (buf mem o).size = nn) (hi : (buf mem i).size = nn) (hci : (buf mem ci).size = nn) :
    ∀ fuel e, e ≠ .fuel →
      run fuel Gen.CSrc.znx_normalize [(nn : Int), (k : Int)] [some (o, 0), none, some (i, 0), some (ci, 0)] mem ≠ .err e :=
  run_no_other_error _ _ _ _ _ nn (norm_out_cin nn hnn k hk1 hk2 mem o i ci ho hi hci)

theorem src_znx_normalize_out_cout_no_oob (nn : Nat) (hnn : nn < 18446744073709551616) (k : Nat)
    (hk1 : 1 ≤ k) (hk2 : k ≤ 63) (mem : Mem) (o c i : Nat) (hoc : c ≠ o) (ho : (buf mem o).size = nn) (hc : (buf mem c).size = nn)
    (hi : (buf mem i).size = nn) :
    ∀ fuel e, e ≠ .fuel →
      run fuel Gen.CSrc.znx_normalize [(nn : Int), (k : Int)] [some (o, 0), some (c, 0), some (i, 0), none] mem ≠ .err e :=
  run_no_other_error _ _ _ _ _ nn (norm_out_cout nn hnn k hk1 hk2 mem o c i hoc ho hc hi)

theorem src_znx_normalize_out_cout_cin_no_oob (nn : Nat) (hnn : nn < 18446744073709551616) (k : Nat)
    (hk1 : 1 ≤ k) (hk2 : k ≤ 63) (mem : Mem) (o c i ci : Nat) (hoc : c ≠ o) (ho : (buf mem o).size = nn) (hc : (buf mem c).size = nn)
    (hi : (buf mem i).size = nn) (hci : (buf mem ci).size = nn) :
    ∀ fuel e, e ≠ .fuel →
      run fuel Gen.CSrc.znx_normalize [(nn : Int), (k : Int)] [some (o, 0), some (c, 0), some (i, 0), some (ci, 0)] mem ≠ .err e :=
  run_no_other_error _ _ _ _ _ nn (norm_out_cout_cin nn hnn k hk1 hk2 mem o c i ci hoc ho hc hi hci)

theorem src_znx_normalize_cout_no_oob (nn : Nat) (hnn : nn < 18446744073709551616) (k : Nat)
    (hk1 : 1 ≤ k) (hk2 : k ≤ 63) (mem : Mem) (c i : Nat) (hc : (buf mem c).size = nn) (hi : (buf mem i).size = nn) :
    ∀ fuel e, e ≠ .fuel →
      run fuel Gen.CSrc.znx_normalize [(nn : Int), (k : Int)] [none, some (c, 0), some (i, 0), none] mem ≠ .err e :=
  run_no_other_error _ _ _ _ _ nn (norm_cout nn hnn k hk1 hk2 mem c i hc hi)

theorem src_znx_normalize_cout_cin_no_oob (nn : Nat) (hnn : nn < 18446744073709551616) (k : Nat)
    (hk1 : 1 ≤ k) (hk2 : k ≤ 63) (mem : Mem) (c i ci : Nat) (hc : (buf mem c).size = nn) (hi : (buf mem i).size = nn) (hci : (buf mem ci).size = nn) :
    ∀ fuel e, e ≠ .fuel →
      run fuel Gen.CSrc.znx_normalize [(nn : Int), (k : Int)] [none, some (c, 0), some (i, 0), some (ci, 0)] mem ≠ .err e :=
  run_no_other_error _ _ _ _ _ nn (norm_cout_cin nn hnn k hk1 hk2 mem c i ci hc hi hci)

/-- `znx_normalize` in place (`out == in`, `carry_out == carry_in`), base 2^3: digits in [-4, 4), exact carries;
    `base_k = 64` is rejected by the source-level semantics (shift by 64 in `get_base_k_carry`), and a call with
    `out == carry_out == NULL` dereferences a null pointer. -/
example :
    run 3 Gen.CSrc.znx_normalize [3, 3] [some (0, 0), some (1, 0), some (0, 0), some (1, 0)]
        #[#[5, -9, 100], #[1, 0, -1]] = .ok #[#[-2, -1, 3], #[1, -1, 12]]
    ∧ run 3 Gen.CSrc.znx_normalize [3, 64] [some (0, 0), some (1, 0), some (0, 0), some (1, 0)]
        #[#[5, -9, 100], #[1, 0, -1]] = .err .ub
    ∧ run 3 Gen.CSrc.znx_normalize [3, 3] [none, none, some (0, 0), none] #[#[5, -9, 100]] = .err .null := by
  decide


end Spq.Src
