/-
  C03, module level — `ntt120_vec_znx_dft_avx`, `ntt120_vec_znx_idft_avx`, `ntt120_vec_znx_idft_tmp_a_avx`
  (spqlios/arithmetic/vec_znx_dft.c): int64 limbs -> residues -> NTT -> … -> inverse NTT -> CRT lift.

  Property theorems only (helper lemmas: SpqProofs/Lemmas/NttMod{Basic,Limb,Eval,Inplace,Vec}.lean).

  Objects.  `Spq/ModuleNtt.lean` is the executable model the stream `mn_model` (harness/mn.cpp) compares bit-exactly
  with the three real functions (DFT cells as uint64, big coefficients as 128-bit integers, clobbered source of
  `_tmp_a`, the whole shared buffer of the in-place call), for n = 1..65536, limb counts 0..4, all strides:
     vecDft M res_size a a_size a_sl            the 4·nn·res_size cells of `res`
     vecIdft M res_size dft a_size              the nn·res_size 128-bit coefficients of `res` (res, a_dft disjoint)
     vecIdftTmpA M res_size dft a_size          (res, a_dft after the call)
     vecIdftInplace M res_size a_size buf       the shared buffer of 64-bit cells after the call with res == a_dft
  `curMod k` is the module of dimension `nn = 2^k` of the current build: level / reduction metadata of the live
  precomp objects (`Gen.nttMeta`, `Gen.inttMeta`, regenerated on every run), twiddle tables of the table model
  (`tableFwd`, `tableInv`: stream `qn_tables`), primes and CRT constants of `q120_common.h` (`curParams`).
  The hypotheses on tables / constants are exactly those of C03 / C10 / C04: the kernel-checked certificates
  `cert_current` (no-wrap intervals, roots) and `crtOK_current`, `bigQ_gt_current`, `primes_small_current`.

  Domain: every `k ≤ 16` (nn = 1 … 65536, `k = 0` included), every int64 value (INT64_MIN, INT64_MAX included), every
  `a_size`, `dft_size`, `res_size` (0 and unequal included), every stride `a_sl` (`a_sl ≥ nn` is what the C contract
  asks; the theorems do not need it: limb `i` is read at coefficients `i·a_sl … i·a_sl + nn - 1` whatever `a_sl`).
-/
import SpqProofs.Lemmas.NttModVec

namespace Spq.C03Mod
open Spq Spq.Q120 Spq.Q120Ntt Spq.ModuleNtt Finset

/-- **(a) round trip, all 64-bit data**: for every `nn = 2^k ≤ 2^16`, every vector of int64 limbs and every
    `(a_size, dft_size, res_size, a_sl)`: coefficient `t` of limb `i < res_size` of `vec_znx_idft(vec_znx_dft(a))`,
    a 128-bit integer, is coefficient `t` of limb `i` of `a` (sign-extended) if `i < min(a_size, dft_size)` and `0`
    otherwise.  Unconditional on the values. -/
theorem ntt120_dft_idft_roundtrip (k : Nat) (hk : k ≤ 16) (a : Array Int) (ha : ∀ t, IsI64 (a.getD t 0))
    (aSize dftSize resSize aSl : Nat) (i t : Nat) (hi : i < resSize) (ht : t < 2 ^ k) :
    (vecIdft (curMod k) resSize (vecDft (curMod k) dftSize a aSize aSl) dftSize).getD (2 ^ k * i + t) 0
      = if i < aSize ∧ i < dftSize then a.getD (i * aSl + t) 0 else 0 :=
  getD_vecIdft_vecDft k hk a ha aSize dftSize resSize aSl i t hi ht

/-- **(b1) `_tmp_a` = disjoint call** (any module description, any cells): `vec_znx_idft_tmp_a` returns the big vector
    of `vec_znx_idft`; in its source, limbs `i < min(res_size, a_size)` are replaced by the raw lanes of the inverse
    transform of that limb and all other cells are untouched. -/
theorem ntt120_idft_tmp_a_eq (M : ModPre) (resSize : Nat) (dft : Array Nat) (aSize : Nat) :
    (vecIdftTmpA M resSize dft aSize).1 = vecIdft M resSize dft aSize
    ∧ (vecIdftTmpA M resSize dft aSize).2.size = dft.size
    ∧ ∀ i c, c < 4 * 2 ^ M.k → 4 * 2 ^ M.k * i + c < dft.size →
        (vecIdftTmpA M resSize dft aSize).2.getD (4 * 2 ^ M.k * i + c) 0
          = if i < min resSize aSize then (inttCells M (cellsAt dft (4 * 2 ^ M.k * i) (4 * 2 ^ M.k))).getD c 0
            else dft.getD (4 * 2 ^ M.k * i + c) 0 :=
  ⟨vecIdftTmpA_fst M resSize dft aSize, size_vecIdftTmpA_snd M resSize dft aSize,
   fun i c hc hsz => getD_vecIdftTmpA_snd M resSize dft aSize i c hc hsz⟩

/-- **(b2) round trip through `_tmp_a`** -/
theorem ntt120_dft_idft_tmp_a_roundtrip (k : Nat) (hk : k ≤ 16) (a : Array Int) (ha : ∀ t, IsI64 (a.getD t 0))
    (aSize dftSize resSize aSl : Nat) (i t : Nat) (hi : i < resSize) (ht : t < 2 ^ k) :
    (vecIdftTmpA (curMod k) resSize (vecDft (curMod k) dftSize a aSize aSl) dftSize).1.getD (2 ^ k * i + t) 0
      = if i < aSize ∧ i < dftSize then a.getD (i * aSl + t) 0 else 0 := by
  rw [vecIdftTmpA_fst]
  exact getD_vecIdft_vecDft k hk a ha aSize dftSize resSize aSl i t hi ht

/-- **(b3) in place = out of place (C13)**, any module description whose CRT constants pass `crtOK`, ANY content of
    the buffer: after `vec_znx_idft(module, buf, res_size, buf, a_size, tmp)` on a buffer of 64-bit cells that holds at
    least the `res_size` result limbs, the buffer read as 128-bit integers (`readBig`, two's complement, little endian)
    holds what the disjoint call returns for the original cells; the cells behind the result are not touched. -/
theorem ntt120_idft_inplace_eq_outofplace (M : ModPre) (ok : crtOK M.P = true) (resSize aSize : Nat) (buf : Array Nat)
    (hsz : 2 * 2 ^ M.k * resSize ≤ buf.size) :
    (vecIdftInplace M resSize aSize buf).size = buf.size
    ∧ (∀ i t, i < resSize → t < 2 ^ M.k →
        readBig (vecIdftInplace M resSize aSize buf) (2 ^ M.k * i + t) = (vecIdft M resSize buf aSize).getD (2 ^ M.k * i + t) 0)
    ∧ ∀ c, 2 * 2 ^ M.k * resSize ≤ c → (vecIdftInplace M resSize aSize buf).getD c 0 = buf.getD c 0 :=
  ⟨(vecIdftInplace_frame M resSize aSize buf hsz _ (Nat.le_refl _)).1,
   fun i t hi ht => readBig_vecIdftInplace M ok resSize aSize buf hsz i t hi ht,
   fun c hc => (vecIdftInplace_frame M resSize aSize buf hsz c hc).2⟩

/-- **(b4) round trip in place**: the buffer starts with the `dft_size` limbs of `vec_znx_dft(a)` (whatever follows
    them) and is large enough for the `res_size` result limbs -/
theorem ntt120_dft_idft_inplace_roundtrip (k : Nat) (hk : k ≤ 16) (a : Array Int) (ha : ∀ t, IsI64 (a.getD t 0))
    (aSize dftSize resSize aSl : Nat) (buf : Array Nat)
    (hres : 2 * 2 ^ k * resSize ≤ buf.size)
    (hbuf : ∀ c < 4 * 2 ^ k * dftSize, buf.getD c 0 = (vecDft (curMod k) dftSize a aSize aSl).getD c 0)
    (i t : Nat) (hi : i < resSize) (ht : t < 2 ^ k) :
    readBig (vecIdftInplace (curMod k) resSize dftSize buf) (2 ^ k * i + t)
      = if i < aSize ∧ i < dftSize then a.getD (i * aSl + t) 0 else 0 := by
  have h := readBig_vecIdftInplace (curMod k) crtOK_current resSize dftSize buf hres i t hi ht
  have g := getD_vecIdft_congr (curMod k) resSize buf (vecDft (curMod k) dftSize a aSize aSl) dftSize hbuf i t hi ht
  exact (h.trans g).trans (getD_vecIdft_vecDft k hk a ha aSize dftSize resSize aSl i t hi ht)

/-- **(c1) the DFT vector is the vector of residues of the evaluations** (every `k ≤ 16`): with
    `w_j = OMEGA_j^(2^16/nn)` (a primitive `2nn`-th root of unity modulo `q_j`: `w_j^nn = -1`), cell `4p + j` of limb
    `i < min(dft_size, a_size)` is, in `ZMod q_j`, the value of the limb polynomial `Σ_t a[i·a_sl + t] X^t` at
    `w_j^(2·brev_k(p) + 1)` — the `nn` roots of `X^nn + 1`, in bit-reversed order; the limbs
    `min(dft_size, a_size) ≤ i < dft_size` are zero. -/
theorem ntt120_dft_is_evaluation (k : Nat) (hk : k ≤ 16) (a : Array Int) (ha : ∀ t, IsI64 (a.getD t 0))
    (aSize dftSize aSl : Nat) (i : Nat) (hi : i < dftSize) (j : Nat) (hj : j < 4) :
    let q := Gen.q120_q j
    let w : ZMod q := ((omegaN q (Gen.q120_omega j) k : Nat) : ZMod q)
    w ^ (2 ^ k) = -1 ∧
    ∀ p < 2 ^ k,
      (((vecDft (curMod k) dftSize a aSize aSl).getD (4 * 2 ^ k * i + (4 * p + j)) 0 : Nat) : ZMod q)
        = if i < aSize then ∑ t ∈ range (2 ^ k), ((a.getD (i * aSl + t) 0 : Int) : ZMod q) * w ^ (t * (2 * brev k p + 1))
          else 0 := by
  intro q w
  have hI : ∀ t, IsI64 ((limbI64 a (i * aSl) (2 ^ k)).getD t 0) := fun t => by
    by_cases h : t < 2 ^ k
    · rw [getD_limbI64 _ _ _ _ h]; exact ha _
    · rw [getD_of_size_le _ _ _ (by rw [size_limbI64]; omega)]; unfold IsI64; omega
  obtain ⟨hw, hev⟩ := dft_limb_eval_all k j hk hj (limbI64 a (i * aSl) (2 ^ k)) hI
  refine ⟨hw, fun p hp => ?_⟩
  have g := getD_vecDft (curMod k) dftSize a aSize aSl i (4 * p + j) hi (show 4 * p + j < 4 * 2 ^ k by omega)
  rw [show (curMod k).k = k from rfl] at g
  rw [g]
  by_cases hs : i < aSize
  · rw [if_pos (by omega : i < min dftSize aSize), if_pos hs, hev p hp]
    apply sum_congr rfl
    intro t ht
    rw [getD_limbI64 _ _ _ _ (mem_range.1 ht)]
  · rw [if_neg (by omega : ¬ i < min dftSize aSize), if_neg hs]; simp

/-- **(c2) products in DFT space are negacyclic products modulo `Q`** (the NTT120 side of C16), every `k ≤ 16`:
    let `X = vec_znx_dft(a)`, `Y = vec_znx_dft(b)` and let `P` be ANY vector of 64-bit cells whose limb `ip` is, lane by
    lane, congruent modulo `q_j` to the product of limb `ia` of `X` and limb `ib` of `Y`.  Then coefficient `t` of limb
    `ip` of `vec_znx_idft(P)` is congruent modulo every `q_j` (hence modulo `Q = q0 q1 q2 q3`) to coefficient `t` of
    the negacyclic product of the two int64 limbs (`nprodZ`, an exact integer), lies in `[-(Q-1)/2, (Q-1)/2]`, and is
    that integer whenever it lies in this range. -/
theorem ntt120_dft_product_is_negacyclic (k : Nat) (hk : k ≤ 16)
    (a b : Array Int) (ha : ∀ t, IsI64 (a.getD t 0)) (hb : ∀ t, IsI64 (b.getD t 0))
    (aSize aSl xSize bSize bSl ySize : Nat) (P : Array Nat) (hP : ∀ c, P.getD c 0 < W64) (pSize resSize : Nat)
    (ia ib ip : Nat) (hia : ia < min xSize aSize) (hib : ib < min ySize bSize) (hip : ip < min resSize pSize)
    (hprod : ∀ t < 2 ^ k, ∀ j < 4,
      P.getD (4 * 2 ^ k * ip + (4 * t + j)) 0 % Gen.q120_q j
        = ((vecDft (curMod k) xSize a aSize aSl).getD (4 * 2 ^ k * ia + (4 * t + j)) 0
            * (vecDft (curMod k) ySize b bSize bSl).getD (4 * 2 ^ k * ib + (4 * t + j)) 0) % Gen.q120_q j)
    (t : Nat) (ht : t < 2 ^ k) :
    let r := (vecIdft (curMod k) resSize P pSize).getD (2 ^ k * ip + t) 0
    let c := nprodZ (2 ^ k) (limbI64 a (ia * aSl) (2 ^ k)) (limbI64 b (ib * bSl) (2 ^ k)) t
    (∀ j < 4, r % (Gen.q120_q j : Int) = c % (Gen.q120_q j : Int))
    ∧ -(((bigQN curParams : Int) - 1) / 2) ≤ r ∧ r ≤ ((bigQN curParams : Int) - 1) / 2
    ∧ (-(((bigQN curParams : Int) - 1) / 2) ≤ c ∧ c ≤ ((bigQN curParams : Int) - 1) / 2 → r = c) := by
  dsimp only
  have hkk : (curMod k).k = k := rfl
  have hI : ∀ (v : Array Int) (o : Nat), (∀ t, IsI64 (v.getD t 0)) → ∀ t, IsI64 ((limbI64 v o (2 ^ k)).getD t 0) :=
    fun v o hv t => by
      by_cases h : t < 2 ^ k
      · rw [getD_limbI64 _ _ _ _ h]; exact hv _
      · rw [getD_of_size_le _ _ _ (by rw [size_limbI64]; omega)]; unfold IsI64; omega
  have g := getD_vecIdft (curMod k) resSize P pSize ip t (by omega) (by rw [hkk]; exact ht)
  rw [hkk, if_pos hip] at g
  rw [g]
  apply idft_prod_limb k hk _ _ (hI a _ ha) (hI b _ hb) _ (by rw [size_cellsAt])
    (fun c => by
      by_cases h : c < 4 * 2 ^ k
      · rw [getD_cellsAt _ _ _ _ h]; exact hP _
      · rw [getD_of_size_le _ _ _ (by rw [size_cellsAt]; omega)]; decide) _ t ht
  intro t' ht' j hj
  have hc : 4 * t' + j < 4 * 2 ^ k := by omega
  have gx := getD_vecDft (curMod k) xSize a aSize aSl ia (4 * t' + j) (by omega) (by rw [hkk]; exact hc)
  have gy := getD_vecDft (curMod k) ySize b bSize bSl ib (4 * t' + j) (by omega) (by rw [hkk]; exact hc)
  rw [hkk, if_pos hia] at gx
  rw [hkk, if_pos hib] at gy
  rw [getD_cellsAt _ _ _ _ hc, ← gx, ← gy]
  exact hprod t' ht' j hj

/-! ### the hypotheses are satisfiable / the statements are not vacuous (kernel-evaluated instances of the model) -/

/-- every entry of a concrete vector with INT64_MIN / INT64_MAX is an int64 (the hypothesis `ha`) -/
example : ∀ t, IsI64 ((#[-9223372036854775808, 9223372036854775807, -1, 5] : Array Int).getD t 0) := by
  intro t
  have : t = 0 ∨ t = 1 ∨ t = 2 ∨ t = 3 ∨ 4 ≤ t := by omega
  rcases this with rfl | rfl | rfl | rfl | h
  · unfold IsI64; decide
  · unfold IsI64; decide
  · unfold IsI64; decide
  · unfold IsI64; decide
  · rw [getD_of_size_le _ _ _ (by simpa using h)]; unfold IsI64; decide

/-- n = 4, `a_size = 2`, `a_sl = 5` (one unused coefficient between the limbs), `dft_size = res_size = 3`: the round
    trip returns the two limbs (INT64_MIN, INT64_MAX included) and a zero limb; the third DFT limb is zero-filled and
    the first one is not the input -/
example :
    let a : Array Int := #[-9223372036854775808, 9223372036854775807, -1, 5, 77, 0, 1, -2, 3, 99]
    vecIdft (curMod 2) 3 (vecDft (curMod 2) 3 a 2 5) 3
      = #[-9223372036854775808, 9223372036854775807, -1, 5, 0, 1, -2, 3, 0, 0, 0, 0]
    ∧ (vecDft (curMod 2) 3 a 2 5).extract 32 48 = Array.replicate 16 0
    ∧ (vecDft (curMod 2) 3 a 2 5).getD 0 0 ≠ 0 := by
  decide +kernel

/-- n = 2, in place with a result (3 limbs = 12 cells) longer than what the 2 source limbs need to stay disjoint:
    the shared buffer read as 128-bit integers is the disjoint result, i.e. the input limbs and a zero limb; `_tmp_a`
    gives the same and overwrites its source -/
example :
    let a : Array Int := #[-9223372036854775808, 9223372036854775807, -7, 12345678901234567]
    let buf := vecDft (curMod 1) 2 a 2 2
    buf.size = 16
    ∧ bigOf (vecIdftInplace (curMod 1) 3 2 buf) 6 = vecIdft (curMod 1) 3 buf 2
    ∧ vecIdft (curMod 1) 3 buf 2 = #[-9223372036854775808, 9223372036854775807, -7, 12345678901234567, 0, 0]
    ∧ (vecIdftTmpA (curMod 1) 3 buf 2).1 = vecIdft (curMod 1) 3 buf 2
    ∧ (vecIdftTmpA (curMod 1) 3 buf 2).2 ≠ buf := by
  decide +kernel

/-- products in DFT space, n = 2: `(1 + 2X)(3 + 4X) = -5 + 10X mod X^2 + 1`; the product limb is formed lane by lane
    with a plain `%` (any representative would do) -/
example :
    let X := vecDft (curMod 1) 1 #[1, 2] 1 2
    let Y := vecDft (curMod 1) 1 #[3, 4] 1 2
    let P : Array Nat := Array.ofFn (n := 8) fun c => (X.getD c.val 0 * Y.getD c.val 0) % Gen.q120_q (c.val % 4)
    vecIdft (curMod 1) 1 P 1 = #[-5, 10]
    ∧ nprodZ 2 #[1, 2] #[3, 4] 0 = -5 ∧ nprodZ 2 #[1, 2] #[3, 4] 1 = 10 := by
  refine ⟨by decide +kernel, by decide +kernel, by decide +kernel⟩

end Spq.C03Mod
