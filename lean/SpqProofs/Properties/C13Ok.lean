/-
  C13, strengthened (DESIGN.md §16): the `*_call_indep` / `*_inplace*` theorems of `Properties/C13.lean` conclude equality
  of the output cells only, and their `SameSrc` hypothesis compares `getD` reads — so they also hold when a source
  extent lies outside the heap and both reads default to zero, and they say nothing about the model's
  out-of-bounds flag `.ok`.

  Here: under the in-bounds hypotheses of C08 (`InBounds … a (min asz rsz) asl` for every source of both calls,
  the hypotheses of `C08.*_no_fault`) and `ok = true` on entry, the aliased call and the separate-buffer call BOTH
  finish with `ok = true` (no access of either call is out of bounds, so every compared source read is a real read)
  AND every output coefficient is the same.  Short corollaries of `C08.*_no_fault` and the C13 theorems.

  In the `*_inplace*_ok` forms the aliased source needs no extra hypothesis: its extent `(res, min asz rsz, rsl)` is
  inside the output extent `(res, rsz, rsl)`.

  Property theorems only.
-/
import SpqProofs.Properties.C13
namespace Spq.C13
open Spq Heap C08
variable {α : Type}

/-! ### any aliasing pattern (each source = the output, or separate), both calls in bounds -/

theorem add_call_indep_ok (o : Ops α) (nn : Nat) (h h2 : Heap α)
    (res rsz rsl a asz asl b bsz bsl res' rsl' a' asl' b' bsl' : Nat)
    (hok : h.ok = true) (hok2 : h2.ok = true)
    (hsl : nn ≤ rsl) (hres : InBounds nn h.mem.size res rsz rsl)
    (ha : SrcOK nn res rsz rsl a asz asl) (hb : SrcOK nn res rsz rsl b bsz bsl)
    (hain : InBounds nn h.mem.size a (min asz rsz) asl) (hbin : InBounds nn h.mem.size b (min bsz rsz) bsl)
    (hsl' : nn ≤ rsl') (hres' : InBounds nn h2.mem.size res' rsz rsl')
    (ha' : SrcOK nn res' rsz rsl' a' asz asl') (hb' : SrcOK nn res' rsz rsl' b' bsz bsl')
    (hain' : InBounds nn h2.mem.size a' (min asz rsz) asl') (hbin' : InBounds nn h2.mem.size b' (min bsz rsz) bsl')
    (sa : SameSrc o.zero nn rsz h.mem a asz asl h2.mem a' asl')
    (sb : SameSrc o.zero nn rsz h.mem b bsz bsl h2.mem b' bsl') :
    (VecZnx.add o nn h res rsz rsl a asz asl b bsz bsl).ok = true ∧
    (VecZnx.add o nn h2 res' rsz rsl' a' asz asl' b' bsz bsl').ok = true ∧
    ∀ i c, i < rsz → c < nn →
      (VecZnx.add o nn h res rsz rsl a asz asl b bsz bsl).mem[res + i * rsl + c]? =
      (VecZnx.add o nn h2 res' rsz rsl' a' asz asl' b' bsz bsl').mem[res' + i * rsl' + c]? :=
  ⟨(add_no_fault o nn h res rsz rsl a asz asl b bsz bsl hres hain hbin).trans hok,
   (add_no_fault o nn h2 res' rsz rsl' a' asz asl' b' bsz bsl' hres' hain' hbin').trans hok2,
   add_call_indep o nn h h2 res rsz rsl a asz asl b bsz bsl res' rsl' a' asl' b' bsl'
     hsl hres ha hb hsl' hres' ha' hb' sa sb⟩

theorem sub_call_indep_ok (o : Ops α) (nn : Nat) (h h2 : Heap α)
    (res rsz rsl a asz asl b bsz bsl res' rsl' a' asl' b' bsl' : Nat)
    (hok : h.ok = true) (hok2 : h2.ok = true)
    (hsl : nn ≤ rsl) (hres : InBounds nn h.mem.size res rsz rsl)
    (ha : SrcOK nn res rsz rsl a asz asl) (hb : SrcOK nn res rsz rsl b bsz bsl)
    (hain : InBounds nn h.mem.size a (min asz rsz) asl) (hbin : InBounds nn h.mem.size b (min bsz rsz) bsl)
    (hsl' : nn ≤ rsl') (hres' : InBounds nn h2.mem.size res' rsz rsl')
    (ha' : SrcOK nn res' rsz rsl' a' asz asl') (hb' : SrcOK nn res' rsz rsl' b' bsz bsl')
    (hain' : InBounds nn h2.mem.size a' (min asz rsz) asl') (hbin' : InBounds nn h2.mem.size b' (min bsz rsz) bsl')
    (sa : SameSrc o.zero nn rsz h.mem a asz asl h2.mem a' asl')
    (sb : SameSrc o.zero nn rsz h.mem b bsz bsl h2.mem b' bsl') :
    (VecZnx.sub o nn h res rsz rsl a asz asl b bsz bsl).ok = true ∧
    (VecZnx.sub o nn h2 res' rsz rsl' a' asz asl' b' bsz bsl').ok = true ∧
    ∀ i c, i < rsz → c < nn →
      (VecZnx.sub o nn h res rsz rsl a asz asl b bsz bsl).mem[res + i * rsl + c]? =
      (VecZnx.sub o nn h2 res' rsz rsl' a' asz asl' b' bsz bsl').mem[res' + i * rsl' + c]? :=
  ⟨(sub_no_fault o nn h res rsz rsl a asz asl b bsz bsl hres hain hbin).trans hok,
   (sub_no_fault o nn h2 res' rsz rsl' a' asz asl' b' bsz bsl' hres' hain' hbin').trans hok2,
   sub_call_indep o nn h h2 res rsz rsl a asz asl b bsz bsl res' rsl' a' asl' b' bsl'
     hsl hres ha hb hsl' hres' ha' hb' sa sb⟩

theorem copy_call_indep_ok (o : Ops α) (nn : Nat) (h h2 : Heap α)
    (res rsz rsl a asz asl res' rsl' a' asl' : Nat)
    (hok : h.ok = true) (hok2 : h2.ok = true)
    (hsl : nn ≤ rsl) (hres : InBounds nn h.mem.size res rsz rsl) (ha : SrcOK nn res rsz rsl a asz asl)
    (hain : InBounds nn h.mem.size a (min asz rsz) asl)
    (hsl' : nn ≤ rsl') (hres' : InBounds nn h2.mem.size res' rsz rsl') (ha' : SrcOK nn res' rsz rsl' a' asz asl')
    (hain' : InBounds nn h2.mem.size a' (min asz rsz) asl')
    (sa : SameSrc o.zero nn rsz h.mem a asz asl h2.mem a' asl') :
    (VecZnx.copy o nn h res rsz rsl a asz asl).ok = true ∧
    (VecZnx.copy o nn h2 res' rsz rsl' a' asz asl').ok = true ∧
    ∀ i c, i < rsz → c < nn →
      (VecZnx.copy o nn h res rsz rsl a asz asl).mem[res + i * rsl + c]? =
      (VecZnx.copy o nn h2 res' rsz rsl' a' asz asl').mem[res' + i * rsl' + c]? :=
  ⟨(copy_no_fault o nn h res rsz rsl a asz asl hres hain).trans hok,
   (copy_no_fault o nn h2 res' rsz rsl' a' asz asl' hres' hain').trans hok2,
   copy_call_indep o nn h h2 res rsz rsl a asz asl res' rsl' a' asl' hsl hres ha hsl' hres' ha' sa⟩

theorem negate_call_indep_ok (o : Ops α) (nn : Nat) (h h2 : Heap α)
    (res rsz rsl a asz asl res' rsl' a' asl' : Nat)
    (hok : h.ok = true) (hok2 : h2.ok = true)
    (hsl : nn ≤ rsl) (hres : InBounds nn h.mem.size res rsz rsl) (ha : SrcOK nn res rsz rsl a asz asl)
    (hain : InBounds nn h.mem.size a (min asz rsz) asl)
    (hsl' : nn ≤ rsl') (hres' : InBounds nn h2.mem.size res' rsz rsl') (ha' : SrcOK nn res' rsz rsl' a' asz asl')
    (hain' : InBounds nn h2.mem.size a' (min asz rsz) asl')
    (sa : SameSrc o.zero nn rsz h.mem a asz asl h2.mem a' asl') :
    (VecZnx.negate o nn h res rsz rsl a asz asl).ok = true ∧
    (VecZnx.negate o nn h2 res' rsz rsl' a' asz asl').ok = true ∧
    ∀ i c, i < rsz → c < nn →
      (VecZnx.negate o nn h res rsz rsl a asz asl).mem[res + i * rsl + c]? =
      (VecZnx.negate o nn h2 res' rsz rsl' a' asz asl').mem[res' + i * rsl' + c]? :=
  ⟨(negate_no_fault o nn h res rsz rsl a asz asl hres hain).trans hok,
   (negate_no_fault o nn h2 res' rsz rsl' a' asz asl' hres' hain').trans hok2,
   negate_call_indep o nn h h2 res rsz rsl a asz asl res' rsl' a' asl' hsl hres ha hsl' hres' ha' sa⟩

/-- rotation, any `nn`, any `p`; the kernel fact `rotateInplace = rotate` is C09 (`rotate_inplace_eq`) -/
theorem rotate_call_indep_ok (o : Ops α) (nn : Nat) (p : Int) (h h2 : Heap α)
    (res rsz rsl a asz asl res' rsl' a' asl' : Nat)
    (hok : h.ok = true) (hok2 : h2.ok = true)
    (hsl : nn ≤ rsl) (hres : InBounds nn h.mem.size res rsz rsl) (ha : SrcOK nn res rsz rsl a asz asl)
    (hain : InBounds nn h.mem.size a (min asz rsz) asl)
    (hsl' : nn ≤ rsl') (hres' : InBounds nn h2.mem.size res' rsz rsl') (ha' : SrcOK nn res' rsz rsl' a' asz asl')
    (hain' : InBounds nn h2.mem.size a' (min asz rsz) asl')
    (sa : SameSrc o.zero nn rsz h.mem a asz asl h2.mem a' asl') :
    (VecZnx.rotate o nn p h res rsz rsl a asz asl).ok = true ∧
    (VecZnx.rotate o nn p h2 res' rsz rsl' a' asz asl').ok = true ∧
    ∀ i c, i < rsz → c < nn →
      (VecZnx.rotate o nn p h res rsz rsl a asz asl).mem[res + i * rsl + c]? =
      (VecZnx.rotate o nn p h2 res' rsz rsl' a' asz asl').mem[res' + i * rsl' + c]? :=
  ⟨(rotate_no_fault o nn p h res rsz rsl a asz asl hres hain).trans hok,
   (rotate_no_fault o nn p h2 res' rsz rsl' a' asz asl' hres' hain').trans hok2,
   rotate_call_indep o nn p h h2 res rsz rsl a asz asl res' rsl' a' asl'
     (fun x hx => C09.rotate_inplace_eq o nn p x hx) hsl hres ha hsl' hres' ha' sa⟩

/-- automorphism, `nn = 2^t` (`t ≤ 64`), odd `p`; the kernel fact is C09 (`autom_inplace_eq`) -/
theorem automorphism_call_indep_ok (o : Ops α) (t : Nat) (ht : t ≤ 64) (p : Int) (hp : p % 2 = 1) (h h2 : Heap α)
    (res rsz rsl a asz asl res' rsl' a' asl' : Nat)
    (hok : h.ok = true) (hok2 : h2.ok = true)
    (hsl : 2 ^ t ≤ rsl) (hres : InBounds (2 ^ t) h.mem.size res rsz rsl) (ha : SrcOK (2 ^ t) res rsz rsl a asz asl)
    (hain : InBounds (2 ^ t) h.mem.size a (min asz rsz) asl)
    (hsl' : 2 ^ t ≤ rsl') (hres' : InBounds (2 ^ t) h2.mem.size res' rsz rsl')
    (ha' : SrcOK (2 ^ t) res' rsz rsl' a' asz asl')
    (hain' : InBounds (2 ^ t) h2.mem.size a' (min asz rsz) asl')
    (sa : SameSrc o.zero (2 ^ t) rsz h.mem a asz asl h2.mem a' asl') :
    (VecZnx.automorphism o (2 ^ t) p h res rsz rsl a asz asl).ok = true ∧
    (VecZnx.automorphism o (2 ^ t) p h2 res' rsz rsl' a' asz asl').ok = true ∧
    ∀ i c, i < rsz → c < 2 ^ t →
      (VecZnx.automorphism o (2 ^ t) p h res rsz rsl a asz asl).mem[res + i * rsl + c]? =
      (VecZnx.automorphism o (2 ^ t) p h2 res' rsz rsl' a' asz asl').mem[res' + i * rsl' + c]? :=
  ⟨(automorphism_no_fault o (2 ^ t) p h res rsz rsl a asz asl hres hain).trans hok,
   (automorphism_no_fault o (2 ^ t) p h2 res' rsz rsl' a' asz asl' hres' hain').trans hok2,
   automorphism_call_indep o (2 ^ t) p h h2 res rsz rsl a asz asl res' rsl' a' asl'
     (fun x z hx hz => C09.autom_inplace_eq o t ht p hp x z hx hz) hsl hres ha hsl' hres' ha' sa⟩

/-! ### in-place = out-of-place, with the bounds flag.  Call 1 is the aliased call on `h`; call 2 uses a separate output
    `(res', rsl')` on `h2` whose sources are separate from it (`Sep`), in bounds, and hold the data call 1 reads. -/

/-- `vec_znx_add(res, res, b)`: `res == a` -/
theorem add_inplace_a_ok (o : Ops α) (nn : Nat) (h h2 : Heap α)
    (res rsz rsl asz b bsz bsl res' rsl' a' asl' b' bsl' : Nat)
    (hok : h.ok = true) (hok2 : h2.ok = true)
    (hsl : nn ≤ rsl) (hres : InBounds nn h.mem.size res rsz rsl) (hb : SrcOK nn res rsz rsl b bsz bsl)
    (hbin : InBounds nn h.mem.size b (min bsz rsz) bsl)
    (hsl' : nn ≤ rsl') (hres' : InBounds nn h2.mem.size res' rsz rsl')
    (ha' : Sep nn res' rsz rsl' a' asz asl') (hb' : Sep nn res' rsz rsl' b' bsz bsl')
    (hain' : InBounds nn h2.mem.size a' (min asz rsz) asl') (hbin' : InBounds nn h2.mem.size b' (min bsz rsz) bsl')
    (sa : SameSrc o.zero nn rsz h.mem res asz rsl h2.mem a' asl')
    (sb : SameSrc o.zero nn rsz h.mem b bsz bsl h2.mem b' bsl') :
    (VecZnx.add o nn h res rsz rsl res asz rsl b bsz bsl).ok = true ∧
    (VecZnx.add o nn h2 res' rsz rsl' a' asz asl' b' bsz bsl').ok = true ∧
    ∀ i c, i < rsz → c < nn →
      (VecZnx.add o nn h res rsz rsl res asz rsl b bsz bsl).mem[res + i * rsl + c]? =
      (VecZnx.add o nn h2 res' rsz rsl' a' asz asl' b' bsz bsl').mem[res' + i * rsl' + c]? :=
  add_call_indep_ok o nn h h2 res rsz rsl res asz rsl b bsz bsl res' rsl' a' asl' b' bsl' hok hok2
    hsl hres (Or.inl ⟨rfl, rfl⟩) hb (fun i hi => hres i (by omega)) hbin hsl' hres' ha'.srcOK hb'.srcOK hain' hbin' sa sb

/-- `vec_znx_add(res, a, res)`: `res == b` -/
theorem add_inplace_b_ok (o : Ops α) (nn : Nat) (h h2 : Heap α)
    (res rsz rsl a asz asl bsz res' rsl' a' asl' b' bsl' : Nat)
    (hok : h.ok = true) (hok2 : h2.ok = true)
    (hsl : nn ≤ rsl) (hres : InBounds nn h.mem.size res rsz rsl) (ha : SrcOK nn res rsz rsl a asz asl)
    (hain : InBounds nn h.mem.size a (min asz rsz) asl)
    (hsl' : nn ≤ rsl') (hres' : InBounds nn h2.mem.size res' rsz rsl')
    (ha' : Sep nn res' rsz rsl' a' asz asl') (hb' : Sep nn res' rsz rsl' b' bsz bsl')
    (hain' : InBounds nn h2.mem.size a' (min asz rsz) asl') (hbin' : InBounds nn h2.mem.size b' (min bsz rsz) bsl')
    (sa : SameSrc o.zero nn rsz h.mem a asz asl h2.mem a' asl')
    (sb : SameSrc o.zero nn rsz h.mem res bsz rsl h2.mem b' bsl') :
    (VecZnx.add o nn h res rsz rsl a asz asl res bsz rsl).ok = true ∧
    (VecZnx.add o nn h2 res' rsz rsl' a' asz asl' b' bsz bsl').ok = true ∧
    ∀ i c, i < rsz → c < nn →
      (VecZnx.add o nn h res rsz rsl a asz asl res bsz rsl).mem[res + i * rsl + c]? =
      (VecZnx.add o nn h2 res' rsz rsl' a' asz asl' b' bsz bsl').mem[res' + i * rsl' + c]? :=
  add_call_indep_ok o nn h h2 res rsz rsl a asz asl res bsz rsl res' rsl' a' asl' b' bsl' hok hok2
    hsl hres ha (Or.inl ⟨rfl, rfl⟩) hain (fun i hi => hres i (by omega)) hsl' hres' ha'.srcOK hb'.srcOK hain' hbin' sa sb

/-- `vec_znx_sub(res, res, b)`: `res == a` -/
theorem sub_inplace_a_ok (o : Ops α) (nn : Nat) (h h2 : Heap α)
    (res rsz rsl asz b bsz bsl res' rsl' a' asl' b' bsl' : Nat)
    (hok : h.ok = true) (hok2 : h2.ok = true)
    (hsl : nn ≤ rsl) (hres : InBounds nn h.mem.size res rsz rsl) (hb : SrcOK nn res rsz rsl b bsz bsl)
    (hbin : InBounds nn h.mem.size b (min bsz rsz) bsl)
    (hsl' : nn ≤ rsl') (hres' : InBounds nn h2.mem.size res' rsz rsl')
    (ha' : Sep nn res' rsz rsl' a' asz asl') (hb' : Sep nn res' rsz rsl' b' bsz bsl')
    (hain' : InBounds nn h2.mem.size a' (min asz rsz) asl') (hbin' : InBounds nn h2.mem.size b' (min bsz rsz) bsl')
    (sa : SameSrc o.zero nn rsz h.mem res asz rsl h2.mem a' asl')
    (sb : SameSrc o.zero nn rsz h.mem b bsz bsl h2.mem b' bsl') :
    (VecZnx.sub o nn h res rsz rsl res asz rsl b bsz bsl).ok = true ∧
    (VecZnx.sub o nn h2 res' rsz rsl' a' asz asl' b' bsz bsl').ok = true ∧
    ∀ i c, i < rsz → c < nn →
      (VecZnx.sub o nn h res rsz rsl res asz rsl b bsz bsl).mem[res + i * rsl + c]? =
      (VecZnx.sub o nn h2 res' rsz rsl' a' asz asl' b' bsz bsl').mem[res' + i * rsl' + c]? :=
  sub_call_indep_ok o nn h h2 res rsz rsl res asz rsl b bsz bsl res' rsl' a' asl' b' bsl' hok hok2
    hsl hres (Or.inl ⟨rfl, rfl⟩) hb (fun i hi => hres i (by omega)) hbin hsl' hres' ha'.srcOK hb'.srcOK hain' hbin' sa sb

/-- `vec_znx_sub(res, a, res)`: `res == b` -/
theorem sub_inplace_b_ok (o : Ops α) (nn : Nat) (h h2 : Heap α)
    (res rsz rsl a asz asl bsz res' rsl' a' asl' b' bsl' : Nat)
    (hok : h.ok = true) (hok2 : h2.ok = true)
    (hsl : nn ≤ rsl) (hres : InBounds nn h.mem.size res rsz rsl) (ha : SrcOK nn res rsz rsl a asz asl)
    (hain : InBounds nn h.mem.size a (min asz rsz) asl)
    (hsl' : nn ≤ rsl') (hres' : InBounds nn h2.mem.size res' rsz rsl')
    (ha' : Sep nn res' rsz rsl' a' asz asl') (hb' : Sep nn res' rsz rsl' b' bsz bsl')
    (hain' : InBounds nn h2.mem.size a' (min asz rsz) asl') (hbin' : InBounds nn h2.mem.size b' (min bsz rsz) bsl')
    (sa : SameSrc o.zero nn rsz h.mem a asz asl h2.mem a' asl')
    (sb : SameSrc o.zero nn rsz h.mem res bsz rsl h2.mem b' bsl') :
    (VecZnx.sub o nn h res rsz rsl a asz asl res bsz rsl).ok = true ∧
    (VecZnx.sub o nn h2 res' rsz rsl' a' asz asl' b' bsz bsl').ok = true ∧
    ∀ i c, i < rsz → c < nn →
      (VecZnx.sub o nn h res rsz rsl a asz asl res bsz rsl).mem[res + i * rsl + c]? =
      (VecZnx.sub o nn h2 res' rsz rsl' a' asz asl' b' bsz bsl').mem[res' + i * rsl' + c]? :=
  sub_call_indep_ok o nn h h2 res rsz rsl a asz asl res bsz rsl res' rsl' a' asl' b' bsl' hok hok2
    hsl hres ha (Or.inl ⟨rfl, rfl⟩) hain (fun i hi => hres i (by omega)) hsl' hres' ha'.srcOK hb'.srcOK hain' hbin' sa sb

/-- `vec_znx_copy(res, res)` -/
theorem copy_inplace_ok (o : Ops α) (nn : Nat) (h h2 : Heap α) (res rsz rsl asz res' rsl' a' asl' : Nat)
    (hok : h.ok = true) (hok2 : h2.ok = true)
    (hsl : nn ≤ rsl) (hres : InBounds nn h.mem.size res rsz rsl)
    (hsl' : nn ≤ rsl') (hres' : InBounds nn h2.mem.size res' rsz rsl') (ha' : Sep nn res' rsz rsl' a' asz asl')
    (hain' : InBounds nn h2.mem.size a' (min asz rsz) asl')
    (sa : SameSrc o.zero nn rsz h.mem res asz rsl h2.mem a' asl') :
    (VecZnx.copy o nn h res rsz rsl res asz rsl).ok = true ∧
    (VecZnx.copy o nn h2 res' rsz rsl' a' asz asl').ok = true ∧
    ∀ i c, i < rsz → c < nn →
      (VecZnx.copy o nn h res rsz rsl res asz rsl).mem[res + i * rsl + c]? =
      (VecZnx.copy o nn h2 res' rsz rsl' a' asz asl').mem[res' + i * rsl' + c]? :=
  copy_call_indep_ok o nn h h2 res rsz rsl res asz rsl res' rsl' a' asl' hok hok2
    hsl hres (Or.inl ⟨rfl, rfl⟩) (fun i hi => hres i (by omega)) hsl' hres' ha'.srcOK hain' sa

/-- `vec_znx_negate(res, res)` -/
theorem negate_inplace_ok (o : Ops α) (nn : Nat) (h h2 : Heap α) (res rsz rsl asz res' rsl' a' asl' : Nat)
    (hok : h.ok = true) (hok2 : h2.ok = true)
    (hsl : nn ≤ rsl) (hres : InBounds nn h.mem.size res rsz rsl)
    (hsl' : nn ≤ rsl') (hres' : InBounds nn h2.mem.size res' rsz rsl') (ha' : Sep nn res' rsz rsl' a' asz asl')
    (hain' : InBounds nn h2.mem.size a' (min asz rsz) asl')
    (sa : SameSrc o.zero nn rsz h.mem res asz rsl h2.mem a' asl') :
    (VecZnx.negate o nn h res rsz rsl res asz rsl).ok = true ∧
    (VecZnx.negate o nn h2 res' rsz rsl' a' asz asl').ok = true ∧
    ∀ i c, i < rsz → c < nn →
      (VecZnx.negate o nn h res rsz rsl res asz rsl).mem[res + i * rsl + c]? =
      (VecZnx.negate o nn h2 res' rsz rsl' a' asz asl').mem[res' + i * rsl' + c]? :=
  negate_call_indep_ok o nn h h2 res rsz rsl res asz rsl res' rsl' a' asl' hok hok2
    hsl hres (Or.inl ⟨rfl, rfl⟩) (fun i hi => hres i (by omega)) hsl' hres' ha'.srcOK hain' sa

/-- `vec_znx_rotate(p, res, res)` (in-place kernel) vs separate buffers (out-of-place kernel) -/
theorem rotate_inplace_ok (o : Ops α) (nn : Nat) (p : Int) (h h2 : Heap α) (res rsz rsl asz res' rsl' a' asl' : Nat)
    (hok : h.ok = true) (hok2 : h2.ok = true)
    (hsl : nn ≤ rsl) (hres : InBounds nn h.mem.size res rsz rsl)
    (hsl' : nn ≤ rsl') (hres' : InBounds nn h2.mem.size res' rsz rsl') (ha' : Sep nn res' rsz rsl' a' asz asl')
    (hain' : InBounds nn h2.mem.size a' (min asz rsz) asl')
    (sa : SameSrc o.zero nn rsz h.mem res asz rsl h2.mem a' asl') :
    (VecZnx.rotate o nn p h res rsz rsl res asz rsl).ok = true ∧
    (VecZnx.rotate o nn p h2 res' rsz rsl' a' asz asl').ok = true ∧
    ∀ i c, i < rsz → c < nn →
      (VecZnx.rotate o nn p h res rsz rsl res asz rsl).mem[res + i * rsl + c]? =
      (VecZnx.rotate o nn p h2 res' rsz rsl' a' asz asl').mem[res' + i * rsl' + c]? :=
  rotate_call_indep_ok o nn p h h2 res rsz rsl res asz rsl res' rsl' a' asl' hok hok2
    hsl hres (Or.inl ⟨rfl, rfl⟩) (fun i hi => hres i (by omega)) hsl' hres' ha'.srcOK hain' sa

/-- `vec_znx_automorphism(p, res, res)`, `nn = 2^t`, odd `p` -/
theorem automorphism_inplace_ok (o : Ops α) (t : Nat) (ht : t ≤ 64) (p : Int) (hp : p % 2 = 1) (h h2 : Heap α)
    (res rsz rsl asz res' rsl' a' asl' : Nat)
    (hok : h.ok = true) (hok2 : h2.ok = true)
    (hsl : 2 ^ t ≤ rsl) (hres : InBounds (2 ^ t) h.mem.size res rsz rsl)
    (hsl' : 2 ^ t ≤ rsl') (hres' : InBounds (2 ^ t) h2.mem.size res' rsz rsl')
    (ha' : Sep (2 ^ t) res' rsz rsl' a' asz asl')
    (hain' : InBounds (2 ^ t) h2.mem.size a' (min asz rsz) asl')
    (sa : SameSrc o.zero (2 ^ t) rsz h.mem res asz rsl h2.mem a' asl') :
    (VecZnx.automorphism o (2 ^ t) p h res rsz rsl res asz rsl).ok = true ∧
    (VecZnx.automorphism o (2 ^ t) p h2 res' rsz rsl' a' asz asl').ok = true ∧
    ∀ i c, i < rsz → c < 2 ^ t →
      (VecZnx.automorphism o (2 ^ t) p h res rsz rsl res asz rsl).mem[res + i * rsl + c]? =
      (VecZnx.automorphism o (2 ^ t) p h2 res' rsz rsl' a' asz asl').mem[res' + i * rsl' + c]? :=
  automorphism_call_indep_ok o t ht p hp h h2 res rsz rsl res asz rsl res' rsl' a' asl' hok hok2
    hsl hres (Or.inl ⟨rfl, rfl⟩) (fun i hi => hres i (by omega)) hsl' hres' ha'.srcOK hain' sa

/-! ### big-coefficient variants (the wrappers forward with stride `nn` on big operands) -/

/-- `vec_znx_big_add(res, res, b)` -/
theorem big_add_inplace_a_ok (o : Ops α) (nn : Nat) (h h2 : Heap α) (res rsz asz b bsz res' a' b' : Nat)
    (hok : h.ok = true) (hok2 : h2.ok = true)
    (hres : InBounds nn h.mem.size res rsz nn) (hb : SrcOK nn res rsz nn b bsz nn)
    (hbin : InBounds nn h.mem.size b (min bsz rsz) nn)
    (hres' : InBounds nn h2.mem.size res' rsz nn)
    (ha' : Sep nn res' rsz nn a' asz nn) (hb' : Sep nn res' rsz nn b' bsz nn)
    (hain' : InBounds nn h2.mem.size a' (min asz rsz) nn) (hbin' : InBounds nn h2.mem.size b' (min bsz rsz) nn)
    (sa : SameSrc o.zero nn rsz h.mem res asz nn h2.mem a' nn)
    (sb : SameSrc o.zero nn rsz h.mem b bsz nn h2.mem b' nn) :
    (VecZnxBig.add o nn h res rsz res asz b bsz).ok = true ∧
    (VecZnxBig.add o nn h2 res' rsz a' asz b' bsz).ok = true ∧
    ∀ i c, i < rsz → c < nn →
      (VecZnxBig.add o nn h res rsz res asz b bsz).mem[res + i * nn + c]? =
      (VecZnxBig.add o nn h2 res' rsz a' asz b' bsz).mem[res' + i * nn + c]? :=
  add_inplace_a_ok o nn h h2 res rsz nn asz b bsz nn res' nn a' nn b' nn hok hok2
    (Nat.le_refl _) hres hb hbin (Nat.le_refl _) hres' ha' hb' hain' hbin' sa sb

/-- `vec_znx_big_add(res, a, res)` -/
theorem big_add_inplace_b_ok (o : Ops α) (nn : Nat) (h h2 : Heap α) (res rsz a asz bsz res' a' b' : Nat)
    (hok : h.ok = true) (hok2 : h2.ok = true)
    (hres : InBounds nn h.mem.size res rsz nn) (ha : SrcOK nn res rsz nn a asz nn)
    (hain : InBounds nn h.mem.size a (min asz rsz) nn)
    (hres' : InBounds nn h2.mem.size res' rsz nn)
    (ha' : Sep nn res' rsz nn a' asz nn) (hb' : Sep nn res' rsz nn b' bsz nn)
    (hain' : InBounds nn h2.mem.size a' (min asz rsz) nn) (hbin' : InBounds nn h2.mem.size b' (min bsz rsz) nn)
    (sa : SameSrc o.zero nn rsz h.mem a asz nn h2.mem a' nn)
    (sb : SameSrc o.zero nn rsz h.mem res bsz nn h2.mem b' nn) :
    (VecZnxBig.add o nn h res rsz a asz res bsz).ok = true ∧
    (VecZnxBig.add o nn h2 res' rsz a' asz b' bsz).ok = true ∧
    ∀ i c, i < rsz → c < nn →
      (VecZnxBig.add o nn h res rsz a asz res bsz).mem[res + i * nn + c]? =
      (VecZnxBig.add o nn h2 res' rsz a' asz b' bsz).mem[res' + i * nn + c]? :=
  add_inplace_b_ok o nn h h2 res rsz nn a asz nn bsz res' nn a' nn b' nn hok hok2
    (Nat.le_refl _) hres ha hain (Nat.le_refl _) hres' ha' hb' hain' hbin' sa sb

/-- `vec_znx_big_add_small(res, res, b)`: big `a` aliased with `res`, small `b` of any stride -/
theorem big_add_small_inplace_a_ok (o : Ops α) (nn : Nat) (h h2 : Heap α)
    (res rsz asz b bsz bsl res' a' b' bsl' : Nat)
    (hok : h.ok = true) (hok2 : h2.ok = true)
    (hres : InBounds nn h.mem.size res rsz nn) (hb : SrcOK nn res rsz nn b bsz bsl)
    (hbin : InBounds nn h.mem.size b (min bsz rsz) bsl)
    (hres' : InBounds nn h2.mem.size res' rsz nn)
    (ha' : Sep nn res' rsz nn a' asz nn) (hb' : Sep nn res' rsz nn b' bsz bsl')
    (hain' : InBounds nn h2.mem.size a' (min asz rsz) nn) (hbin' : InBounds nn h2.mem.size b' (min bsz rsz) bsl')
    (sa : SameSrc o.zero nn rsz h.mem res asz nn h2.mem a' nn)
    (sb : SameSrc o.zero nn rsz h.mem b bsz bsl h2.mem b' bsl') :
    (VecZnxBig.addSmall o nn h res rsz res asz b bsz bsl).ok = true ∧
    (VecZnxBig.addSmall o nn h2 res' rsz a' asz b' bsz bsl').ok = true ∧
    ∀ i c, i < rsz → c < nn →
      (VecZnxBig.addSmall o nn h res rsz res asz b bsz bsl).mem[res + i * nn + c]? =
      (VecZnxBig.addSmall o nn h2 res' rsz a' asz b' bsz bsl').mem[res' + i * nn + c]? :=
  add_inplace_a_ok o nn h h2 res rsz nn asz b bsz bsl res' nn a' nn b' bsl' hok hok2
    (Nat.le_refl _) hres hb hbin (Nat.le_refl _) hres' ha' hb' hain' hbin' sa sb

/-- `vec_znx_big_sub(res, res, b)` -/
theorem big_sub_inplace_a_ok (o : Ops α) (nn : Nat) (h h2 : Heap α) (res rsz asz b bsz res' a' b' : Nat)
    (hok : h.ok = true) (hok2 : h2.ok = true)
    (hres : InBounds nn h.mem.size res rsz nn) (hb : SrcOK nn res rsz nn b bsz nn)
    (hbin : InBounds nn h.mem.size b (min bsz rsz) nn)
    (hres' : InBounds nn h2.mem.size res' rsz nn)
    (ha' : Sep nn res' rsz nn a' asz nn) (hb' : Sep nn res' rsz nn b' bsz nn)
    (hain' : InBounds nn h2.mem.size a' (min asz rsz) nn) (hbin' : InBounds nn h2.mem.size b' (min bsz rsz) nn)
    (sa : SameSrc o.zero nn rsz h.mem res asz nn h2.mem a' nn)
    (sb : SameSrc o.zero nn rsz h.mem b bsz nn h2.mem b' nn) :
    (VecZnxBig.sub o nn h res rsz res asz b bsz).ok = true ∧
    (VecZnxBig.sub o nn h2 res' rsz a' asz b' bsz).ok = true ∧
    ∀ i c, i < rsz → c < nn →
      (VecZnxBig.sub o nn h res rsz res asz b bsz).mem[res + i * nn + c]? =
      (VecZnxBig.sub o nn h2 res' rsz a' asz b' bsz).mem[res' + i * nn + c]? :=
  sub_inplace_a_ok o nn h h2 res rsz nn asz b bsz nn res' nn a' nn b' nn hok hok2
    (Nat.le_refl _) hres hb hbin (Nat.le_refl _) hres' ha' hb' hain' hbin' sa sb

/-- `vec_znx_big_sub(res, a, res)` -/
theorem big_sub_inplace_b_ok (o : Ops α) (nn : Nat) (h h2 : Heap α) (res rsz a asz bsz res' a' b' : Nat)
    (hok : h.ok = true) (hok2 : h2.ok = true)
    (hres : InBounds nn h.mem.size res rsz nn) (ha : SrcOK nn res rsz nn a asz nn)
    (hain : InBounds nn h.mem.size a (min asz rsz) nn)
    (hres' : InBounds nn h2.mem.size res' rsz nn)
    (ha' : Sep nn res' rsz nn a' asz nn) (hb' : Sep nn res' rsz nn b' bsz nn)
    (hain' : InBounds nn h2.mem.size a' (min asz rsz) nn) (hbin' : InBounds nn h2.mem.size b' (min bsz rsz) nn)
    (sa : SameSrc o.zero nn rsz h.mem a asz nn h2.mem a' nn)
    (sb : SameSrc o.zero nn rsz h.mem res bsz nn h2.mem b' nn) :
    (VecZnxBig.sub o nn h res rsz a asz res bsz).ok = true ∧
    (VecZnxBig.sub o nn h2 res' rsz a' asz b' bsz).ok = true ∧
    ∀ i c, i < rsz → c < nn →
      (VecZnxBig.sub o nn h res rsz a asz res bsz).mem[res + i * nn + c]? =
      (VecZnxBig.sub o nn h2 res' rsz a' asz b' bsz).mem[res' + i * nn + c]? :=
  sub_inplace_b_ok o nn h h2 res rsz nn a asz nn bsz res' nn a' nn b' nn hok hok2
    (Nat.le_refl _) hres ha hain (Nat.le_refl _) hres' ha' hb' hain' hbin' sa sb

/-- `vec_znx_big_sub_small_b(res, res, b)`: big `a` aliased, small `b` -/
theorem big_sub_small_b_inplace_a_ok (o : Ops α) (nn : Nat) (h h2 : Heap α)
    (res rsz asz b bsz bsl res' a' b' bsl' : Nat)
    (hok : h.ok = true) (hok2 : h2.ok = true)
    (hres : InBounds nn h.mem.size res rsz nn) (hb : SrcOK nn res rsz nn b bsz bsl)
    (hbin : InBounds nn h.mem.size b (min bsz rsz) bsl)
    (hres' : InBounds nn h2.mem.size res' rsz nn)
    (ha' : Sep nn res' rsz nn a' asz nn) (hb' : Sep nn res' rsz nn b' bsz bsl')
    (hain' : InBounds nn h2.mem.size a' (min asz rsz) nn) (hbin' : InBounds nn h2.mem.size b' (min bsz rsz) bsl')
    (sa : SameSrc o.zero nn rsz h.mem res asz nn h2.mem a' nn)
    (sb : SameSrc o.zero nn rsz h.mem b bsz bsl h2.mem b' bsl') :
    (VecZnxBig.subSmallB o nn h res rsz res asz b bsz bsl).ok = true ∧
    (VecZnxBig.subSmallB o nn h2 res' rsz a' asz b' bsz bsl').ok = true ∧
    ∀ i c, i < rsz → c < nn →
      (VecZnxBig.subSmallB o nn h res rsz res asz b bsz bsl).mem[res + i * nn + c]? =
      (VecZnxBig.subSmallB o nn h2 res' rsz a' asz b' bsz bsl').mem[res' + i * nn + c]? :=
  sub_inplace_a_ok o nn h h2 res rsz nn asz b bsz bsl res' nn a' nn b' bsl' hok hok2
    (Nat.le_refl _) hres hb hbin (Nat.le_refl _) hres' ha' hb' hain' hbin' sa sb

/-- `vec_znx_big_sub_small_a(res, a, res)`: small `a`, big `b` aliased -/
theorem big_sub_small_a_inplace_b_ok (o : Ops α) (nn : Nat) (h h2 : Heap α)
    (res rsz a asz asl bsz res' a' asl' b' : Nat)
    (hok : h.ok = true) (hok2 : h2.ok = true)
    (hres : InBounds nn h.mem.size res rsz nn) (ha : SrcOK nn res rsz nn a asz asl)
    (hain : InBounds nn h.mem.size a (min asz rsz) asl)
    (hres' : InBounds nn h2.mem.size res' rsz nn)
    (ha' : Sep nn res' rsz nn a' asz asl') (hb' : Sep nn res' rsz nn b' bsz nn)
    (hain' : InBounds nn h2.mem.size a' (min asz rsz) asl') (hbin' : InBounds nn h2.mem.size b' (min bsz rsz) nn)
    (sa : SameSrc o.zero nn rsz h.mem a asz asl h2.mem a' asl')
    (sb : SameSrc o.zero nn rsz h.mem res bsz nn h2.mem b' nn) :
    (VecZnxBig.subSmallA o nn h res rsz a asz asl res bsz).ok = true ∧
    (VecZnxBig.subSmallA o nn h2 res' rsz a' asz asl' b' bsz).ok = true ∧
    ∀ i c, i < rsz → c < nn →
      (VecZnxBig.subSmallA o nn h res rsz a asz asl res bsz).mem[res + i * nn + c]? =
      (VecZnxBig.subSmallA o nn h2 res' rsz a' asz asl' b' bsz).mem[res' + i * nn + c]? :=
  sub_inplace_b_ok o nn h h2 res rsz nn a asz asl bsz res' nn a' asl' b' nn hok hok2
    (Nat.le_refl _) hres ha hain (Nat.le_refl _) hres' ha' hb' hain' hbin' sa sb

/-- `vec_znx_big_rotate(p, res, res)` -/
theorem big_rotate_inplace_ok (o : Ops α) (nn : Nat) (p : Int) (h h2 : Heap α) (res rsz asz res' a' : Nat)
    (hok : h.ok = true) (hok2 : h2.ok = true)
    (hres : InBounds nn h.mem.size res rsz nn)
    (hres' : InBounds nn h2.mem.size res' rsz nn) (ha' : Sep nn res' rsz nn a' asz nn)
    (hain' : InBounds nn h2.mem.size a' (min asz rsz) nn)
    (sa : SameSrc o.zero nn rsz h.mem res asz nn h2.mem a' nn) :
    (VecZnxBig.rotate o nn p h res rsz res asz).ok = true ∧
    (VecZnxBig.rotate o nn p h2 res' rsz a' asz).ok = true ∧
    ∀ i c, i < rsz → c < nn →
      (VecZnxBig.rotate o nn p h res rsz res asz).mem[res + i * nn + c]? =
      (VecZnxBig.rotate o nn p h2 res' rsz a' asz).mem[res' + i * nn + c]? :=
  rotate_inplace_ok o nn p h h2 res rsz nn asz res' nn a' nn hok hok2
    (Nat.le_refl _) hres (Nat.le_refl _) hres' ha' hain' sa

/-- `vec_znx_big_automorphism(p, res, res)`, `nn = 2^t`, odd `p` -/
theorem big_automorphism_inplace_ok (o : Ops α) (t : Nat) (ht : t ≤ 64) (p : Int) (hp : p % 2 = 1) (h h2 : Heap α)
    (res rsz asz res' a' : Nat)
    (hok : h.ok = true) (hok2 : h2.ok = true)
    (hres : InBounds (2 ^ t) h.mem.size res rsz (2 ^ t))
    (hres' : InBounds (2 ^ t) h2.mem.size res' rsz (2 ^ t)) (ha' : Sep (2 ^ t) res' rsz (2 ^ t) a' asz (2 ^ t))
    (hain' : InBounds (2 ^ t) h2.mem.size a' (min asz rsz) (2 ^ t))
    (sa : SameSrc o.zero (2 ^ t) rsz h.mem res asz (2 ^ t) h2.mem a' (2 ^ t)) :
    (VecZnxBig.automorphism o (2 ^ t) p h res rsz res asz).ok = true ∧
    (VecZnxBig.automorphism o (2 ^ t) p h2 res' rsz a' asz).ok = true ∧
    ∀ i c, i < rsz → c < 2 ^ t →
      (VecZnxBig.automorphism o (2 ^ t) p h res rsz res asz).mem[res + i * 2 ^ t + c]? =
      (VecZnxBig.automorphism o (2 ^ t) p h2 res' rsz a' asz).mem[res' + i * 2 ^ t + c]? :=
  automorphism_inplace_ok o t ht p hp h h2 res rsz (2 ^ t) asz res' (2 ^ t) a' (2 ^ t) hok hok2
    (Nat.le_refl _) hres (Nat.le_refl _) hres' ha' hain' sa

/-! ### the hypotheses are satisfiable: the heaps of C08 / C13 (`nn = 2`).
    Heap 1 (`exHeap`, 13 cells): res = a at 0 (stride 3, `a` 1 limb, `res` 3 limbs), b at 9 (2 limbs, stride 2).
    Heap 2 (`exHeap2`, 13 cells): output at 0 (stride 2), a' at 6 (stride 2), b' at 8 (stride 3). -/

example := add_inplace_a_ok i64Ops 2 exHeap exHeap2 0 3 3 1 9 2 2 0 2 6 2 8 3 rfl rfl (by omega)
  (by intro i hi; simp [exHeap]; omega) (Or.inr (by intro i j hi hj; omega))
  (by intro i hi; simp [exHeap]; omega) (by omega)
  (by intro i hi; simp [exHeap2]; omega) (by intro i j hi hj; omega) (by intro i j hi hj; omega)
  (by intro i hi; simp [exHeap2]; omega) (by intro i hi; simp [exHeap2]; omega)
  (by intro i c hi _ hc
      have : i = 0 := by omega
      subst this
      have : c = 0 ∨ c = 1 := by omega
      rcases this with rfl | rfl <;> decide)
  (by intro i c hi _ hc
      have h1 : i = 0 ∨ i = 1 := by omega
      have h2 : c = 0 ∨ c = 1 := by omega
      rcases h1 with rfl | rfl <;> rcases h2 with rfl | rfl <;> decide)

/-- in-place rotation by `p = 1` and in-place automorphism `p = 3` (`nn = 2 = 2^1`) on the same heaps -/
example := rotate_inplace_ok i64Ops 2 1 exHeap exHeap2 0 3 3 1 0 2 6 2 rfl rfl
  (by omega) (by intro i hi; simp [exHeap]; omega) (by omega)
  (by intro i hi; simp [exHeap2]; omega) (by intro i j hi hj; omega) (by intro i hi; simp [exHeap2]; omega)
  (by intro i c hi _ hc
      have : i = 0 := by omega
      subst this
      have : c = 0 ∨ c = 1 := by omega
      rcases this with rfl | rfl <;> decide)
example := automorphism_inplace_ok i64Ops 1 (by omega) 3 (by omega) exHeap exHeap2 0 3 3 1 0 2 6 2 rfl rfl
  (by omega) (by intro i hi; simp [exHeap]; omega) (by omega)
  (by intro i hi; simp [exHeap2]; omega) (by intro i j hi hj; omega) (by intro i hi; simp [exHeap2]; omega)
  (by intro i c hi _ hc
      have : i = 0 := by omega
      subst this
      have : c = 0 ∨ c = 1 := by omega
      rcases this with rfl | rfl <;> decide)

/-- why the in-bounds hypotheses matter: with the source `b` declared past the end of the 13-cell heap (offset 12,
    2 limbs) the C13 hypotheses can still be met by default reads, but the call faults (`ok = false`) -/
example : (VecZnx.add i64Ops 2 exHeap 0 3 3 0 1 3 12 2 2).ok = false := by decide

end Spq.C13
