/-
  C07 — accelerated kernels compute the same function as their reference kernels.

  (1) `dispatch_closed` (Gen obligation): for every constructor of a table object and every entry of the MODULE
      function table, under each of 5 CPU-feature masks and every dimension 2^0..2^16, the kernel that the LIVE
      library installs (read back from the constructed objects on every run, `Gen.Dispatch`) belongs to the
      equivalence class listed in `classes` below — the variants that are proved equivalent here or in the
      per-family property files and tied pairwise by the correspondence streams.  A new or different kernel
      behind any dispatch decision makes the obligation fail.
  (2) integer / data-movement kernels: the 4-lane chunked AVX loops `znx_add/sub/negate_i64_avx` compute exactly
      the reference kernels for every dimension with `nn ≤ 2 ∨ 4 ∣ nn` (all powers of two), and write exactly `nn` cells.
  (3) per family (theorems imported from the family files): reim4 extract/save/conversion AVX = reference (equality);
      reim4 / reim / cplx products, ref = avx2/fma/sse/avx512 in exact arithmetic (C17); q120 products ref ≡ avx2
      modulo each prime (C10/C04); conversions: both variants satisfy the same contract (C14); FFT: both flavours are
      the same butterfly network in exact arithmetic (C06).
  Not a theorem: bit-level agreement of float kernels across variants (they differ by rounding; each variant is tied
  bit-exactly to its own model by the streams).
-/
import SpqProofs.Lemmas.CoeffsAvx
import SpqProofs.Properties.C17
import Gen.Dispatch
namespace Spq.C07
open Spq
variable {α : Type}

/-- allowed kernels per dispatch site -/
def classes : List (String × List String) := [
  ("new_reim_to_znx64_precomp/51", ["reim_to_znx64_avx2_bnd63_fma", "reim_to_znx64_ref"]),
  ("new_reim_to_znx64_precomp/52", ["reim_to_znx64_avx2_bnd63_fma", "reim_to_znx64_ref"]),
  ("new_cplx_to_tnx32_precomp/19", ["cplx_to_tnx32_ref"]),
  ("module0.p_conv", ["reim_from_znx64_bnd50_fma", "reim_from_znx64_ref"]),
  ("module0.p_fft", ["reim_fft_avx2_fma", "reim_fft_ref"]),
  ("module0.p_ifft", ["reim_ifft_avx2_fma", "reim_ifft_ref"]),
  -- the module builds its output conversion for results up to 2^63 (the wide variant): the fast bnd50 variant is NOT allowed here
  ("module0.p_reim_to_znx", ["reim_to_znx64_avx2_bnd63_fma", "reim_to_znx64_ref"]),
  ("module0.p_addmul", ["reim_fftvec_addmul_fma", "reim_fftvec_addmul_ref"]),
  ("module0.mul_fft", ["reim_fftvec_mul_fma", "reim_fftvec_mul_ref"]),
  ("module0.bytes_of_svp_ppol", ["fft64_bytes_of_svp_ppol"]),
  ("module0.bytes_of_vec_znx_big", ["fft64_bytes_of_vec_znx_big"]),
  ("module0.bytes_of_vec_znx_dft", ["fft64_bytes_of_vec_znx_dft"]),
  ("module0.bytes_of_vmp_pmat", ["fft64_bytes_of_vmp_pmat"]),
  ("module0.svp_apply_dft", ["fft64_svp_apply_dft_ref"]),
  ("module0.svp_prepare", ["fft64_svp_prepare_ref"]),
  ("module0.vec_znx_add", ["vec_znx_add_avx", "vec_znx_add_ref"]),
  ("module0.vec_znx_automorphism", ["vec_znx_automorphism_ref"]),
  ("module0.vec_znx_big_add", ["fft64_vec_znx_big_add"]),
  ("module0.vec_znx_big_add_small", ["fft64_vec_znx_big_add_small"]),
  ("module0.vec_znx_big_add_small2", ["fft64_vec_znx_big_add_small2"]),
  ("module0.vec_znx_big_automorphism", ["fft64_vec_znx_big_automorphism"]),
  ("module0.vec_znx_big_normalize_base2k", ["fft64_vec_znx_big_normalize_base2k"]),
  ("module0.vec_znx_big_normalize_base2k_tmp_bytes", ["fft64_vec_znx_big_normalize_base2k_tmp_bytes"]),
  ("module0.vec_znx_big_range_normalize_base2k", ["fft64_vec_znx_big_range_normalize_base2k"]),
  ("module0.vec_znx_big_range_normalize_base2k_tmp_bytes", ["fft64_vec_znx_big_normalize_base2k_tmp_bytes"]),
  ("module0.vec_znx_big_rotate", ["fft64_vec_znx_big_rotate"]),
  ("module0.vec_znx_big_sub", ["fft64_vec_znx_big_sub"]),
  ("module0.vec_znx_big_sub_small2", ["fft64_vec_znx_big_sub_small2"]),
  ("module0.vec_znx_big_sub_small_a", ["fft64_vec_znx_big_sub_small_a"]),
  ("module0.vec_znx_big_sub_small_b", ["fft64_vec_znx_big_sub_small_b"]),
  ("module0.vec_znx_copy", ["vec_znx_copy_ref"]),
  ("module0.vec_znx_dft", ["fft64_vec_znx_dft"]),
  ("module0.vec_znx_idft", ["fft64_vec_znx_idft"]),
  ("module0.vec_znx_idft_tmp_a", ["fft64_vec_znx_idft_tmp_a"]),
  ("module0.vec_znx_idft_tmp_bytes", ["fft64_vec_znx_idft_tmp_bytes"]),
  ("module0.vec_znx_negate", ["vec_znx_negate_avx", "vec_znx_negate_ref"]),
  ("module0.vec_znx_normalize_base2k", ["vec_znx_normalize_base2k_ref"]),
  ("module0.vec_znx_normalize_base2k_tmp_bytes", ["fft64_vec_znx_big_normalize_base2k_tmp_bytes"]),
  ("module0.vec_znx_rotate", ["vec_znx_rotate_ref"]),
  ("module0.vec_znx_sub", ["vec_znx_sub_avx", "vec_znx_sub_ref"]),
  ("module0.vec_znx_zero", ["vec_znx_zero_ref"]),
  ("module0.vmp_apply_dft", ["fft64_vmp_apply_dft_avx", "fft64_vmp_apply_dft_ref"]),
  ("module0.vmp_apply_dft_tmp_bytes", ["fft64_vmp_apply_dft_tmp_bytes"]),
  ("module0.vmp_apply_dft_to_dft", ["fft64_vmp_apply_dft_to_dft_avx", "fft64_vmp_apply_dft_to_dft_ref"]),
  ("module0.vmp_apply_dft_to_dft_tmp_bytes", ["fft64_vmp_apply_dft_to_dft_tmp_bytes"]),
  ("module0.vmp_prepare_contiguous", ["fft64_vmp_prepare_contiguous_avx", "fft64_vmp_prepare_contiguous_ref"]),
  ("module0.vmp_prepare_contiguous_tmp_bytes", ["fft64_vmp_prepare_contiguous_tmp_bytes"]),
  ("module0.znx_small_single_product", ["fft64_znx_small_single_product"]),
  ("module0.znx_small_single_product_tmp_bytes", ["fft64_znx_small_single_product_tmp_bytes"]),
  ("module1.bytes_of_svp_ppol", ["NULL"]),
  ("module1.bytes_of_vec_znx_big", ["NULL"]),
  ("module1.bytes_of_vec_znx_dft", ["NULL"]),
  ("module1.bytes_of_vmp_pmat", ["NULL"]),
  ("module1.svp_apply_dft", ["NULL"]),
  ("module1.svp_prepare", ["NULL"]),
  ("module1.vec_znx_add", ["vec_znx_add_avx"]),
  ("module1.vec_znx_automorphism", ["vec_znx_automorphism_ref"]),
  ("module1.vec_znx_big_add", ["NULL"]),
  ("module1.vec_znx_big_add_small", ["NULL"]),
  ("module1.vec_znx_big_add_small2", ["NULL"]),
  ("module1.vec_znx_big_automorphism", ["NULL"]),
  ("module1.vec_znx_big_normalize_base2k", ["NULL"]),
  ("module1.vec_znx_big_normalize_base2k_tmp_bytes", ["NULL"]),
  ("module1.vec_znx_big_range_normalize_base2k", ["NULL"]),
  ("module1.vec_znx_big_range_normalize_base2k_tmp_bytes", ["NULL"]),
  ("module1.vec_znx_big_rotate", ["NULL"]),
  ("module1.vec_znx_big_sub", ["NULL"]),
  ("module1.vec_znx_big_sub_small2", ["NULL"]),
  ("module1.vec_znx_big_sub_small_a", ["NULL"]),
  ("module1.vec_znx_big_sub_small_b", ["NULL"]),
  ("module1.vec_znx_copy", ["vec_znx_copy_ref"]),
  ("module1.vec_znx_dft", ["ntt120_vec_znx_dft_avx"]),
  ("module1.vec_znx_idft", ["ntt120_vec_znx_idft_avx"]),
  ("module1.vec_znx_idft_tmp_a", ["ntt120_vec_znx_idft_tmp_a_avx"]),
  ("module1.vec_znx_idft_tmp_bytes", ["ntt120_vec_znx_idft_tmp_bytes_avx"]),
  ("module1.vec_znx_negate", ["vec_znx_negate_avx"]),
  ("module1.vec_znx_normalize_base2k", ["vec_znx_normalize_base2k_ref"]),
  ("module1.vec_znx_normalize_base2k_tmp_bytes", ["fft64_vec_znx_big_normalize_base2k_tmp_bytes"]),
  ("module1.vec_znx_rotate", ["vec_znx_rotate_ref"]),
  ("module1.vec_znx_sub", ["vec_znx_sub_avx"]),
  ("module1.vec_znx_zero", ["vec_znx_zero_ref"]),
  ("module1.vmp_apply_dft", ["NULL"]),
  ("module1.vmp_apply_dft_tmp_bytes", ["NULL"]),
  ("module1.vmp_apply_dft_to_dft", ["NULL"]),
  ("module1.vmp_apply_dft_to_dft_tmp_bytes", ["NULL"]),
  ("module1.vmp_prepare_contiguous", ["NULL"]),
  ("module1.vmp_prepare_contiguous_tmp_bytes", ["NULL"]),
  ("module1.znx_small_single_product", ["NULL"]),
  ("module1.znx_small_single_product_tmp_bytes", ["NULL"]),
  ("new_cplx_fft_precomp", ["cplx_fft_avx2_fma", "cplx_fft_ref"]),
  ("new_cplx_fftvec_addmul_precomp", ["cplx_fftvec_addmul_fma", "cplx_fftvec_addmul_ref"]),
  ("new_cplx_fftvec_mul_precomp", ["cplx_fftvec_mul_fma", "cplx_fftvec_mul_ref"]),
  ("new_cplx_from_tnx32_precomp", ["cplx_from_tnx32_avx2_fma", "cplx_from_tnx32_ref"]),
  ("new_cplx_from_znx32_precomp", ["cplx_from_znx32_avx2_fma", "cplx_from_znx32_ref"]),
  ("new_cplx_ifft_precomp", ["cplx_ifft_avx2_fma", "cplx_ifft_ref"]),
  ("new_cplx_to_tnx32_precomp/18", ["cplx_to_tnx32_avx2_fma", "cplx_to_tnx32_ref"]),
  ("new_reim4_fftvec_addmul_precomp", ["reim4_fftvec_addmul_fma", "reim4_fftvec_addmul_ref"]),
  ("new_reim4_fftvec_mul_precomp", ["reim4_fftvec_mul_fma", "reim4_fftvec_mul_ref"]),
  ("new_reim4_from_cplx_precomp", ["reim4_from_cplx_fma", "reim4_from_cplx_ref"]),
  ("new_reim4_to_cplx_precomp", ["reim4_to_cplx_fma", "reim4_to_cplx_ref"]),
  ("new_reim_fft_precomp", ["reim_fft_avx2_fma", "reim_fft_ref"]),
  ("new_reim_fftvec_addmul_precomp", ["reim_fftvec_addmul_fma", "reim_fftvec_addmul_ref"]),
  ("new_reim_fftvec_mul_precomp", ["reim_fftvec_mul_fma", "reim_fftvec_mul_ref"]),
  ("new_reim_from_znx64_precomp", ["reim_from_znx64_bnd50_fma", "reim_from_znx64_ref"]),
  ("new_reim_ifft_precomp", ["reim_ifft_avx2_fma", "reim_ifft_ref"]),
  ("new_reim_to_tnx_precomp", ["reim_to_tnx_avx", "reim_to_tnx_ref"]),
  ("new_reim_to_znx64_precomp/50", ["reim_to_znx64_avx2_bnd50_fma", "reim_to_znx64_ref"]),
  ("new_reim_to_znx64_precomp/63", ["reim_to_znx64_avx2_bnd63_fma", "reim_to_znx64_ref"])
]

/-- smallest log2 of the dimension (m for constructors, N for module entries) for which an accelerated kernel may be
    installed: the vector kernels are only valid from their loop granularity upwards (8 doubles per iteration, …) -/
def minLg : List (String × String × Nat) := [
  ("module0.mul_fft", "reim_fftvec_mul_fma", 3),
  ("module0.mul_fft", "reim_fftvec_mul_ref", 1),
  ("module0.p_addmul", "reim_fftvec_addmul_fma", 3),
  ("module0.p_addmul", "reim_fftvec_addmul_ref", 1),
  ("module0.p_conv", "reim_from_znx64_bnd50_fma", 4),
  ("module0.p_conv", "reim_from_znx64_ref", 1),
  ("module0.p_fft", "reim_fft_avx2_fma", 1),
  ("module0.p_fft", "reim_fft_ref", 1),
  ("module0.p_ifft", "reim_ifft_avx2_fma", 1),
  ("module0.p_ifft", "reim_ifft_ref", 1),
  ("module0.p_reim_to_znx", "reim_to_znx64_avx2_bnd63_fma", 4),
  ("module0.p_reim_to_znx", "reim_to_znx64_ref", 1),
  ("new_cplx_fft_precomp", "cplx_fft_avx2_fma", 3),
  ("new_cplx_fftvec_addmul_precomp", "cplx_fftvec_addmul_fma", 3),
  ("new_cplx_fftvec_mul_precomp", "cplx_fftvec_mul_fma", 3),
  ("new_cplx_from_tnx32_precomp", "cplx_from_tnx32_avx2_fma", 3),
  ("new_cplx_from_znx32_precomp", "cplx_from_znx32_avx2_fma", 3),
  ("new_cplx_ifft_precomp", "cplx_ifft_avx2_fma", 3),
  ("new_cplx_to_tnx32_precomp/18", "cplx_to_tnx32_avx2_fma", 3),
  ("new_reim4_fftvec_addmul_precomp", "reim4_fftvec_addmul_fma", 2),
  ("new_reim4_fftvec_addmul_precomp", "reim4_fftvec_addmul_ref", 2),
  ("new_reim4_fftvec_mul_precomp", "reim4_fftvec_mul_fma", 2),
  ("new_reim4_fftvec_mul_precomp", "reim4_fftvec_mul_ref", 2),
  ("new_reim4_from_cplx_precomp", "reim4_from_cplx_fma", 2),
  ("new_reim4_from_cplx_precomp", "reim4_from_cplx_ref", 2),
  ("new_reim4_to_cplx_precomp", "reim4_to_cplx_fma", 2),
  ("new_reim4_to_cplx_precomp", "reim4_to_cplx_ref", 2),
  ("new_reim_fftvec_addmul_precomp", "reim_fftvec_addmul_fma", 2),
  ("new_reim_fftvec_mul_precomp", "reim_fftvec_mul_fma", 2),
  ("new_reim_from_znx64_precomp", "reim_from_znx64_bnd50_fma", 3),
  ("new_reim_to_tnx_precomp", "reim_to_tnx_avx", 3),
  ("new_reim_to_znx64_precomp/50", "reim_to_znx64_avx2_bnd50_fma", 3),
  ("new_reim_to_znx64_precomp/63", "reim_to_znx64_avx2_bnd63_fma", 3),
  ("new_reim_to_znx64_precomp/51", "reim_to_znx64_avx2_bnd63_fma", 3),
  ("new_reim_to_znx64_precomp/52", "reim_to_znx64_avx2_bnd63_fma", 3)
]

def minLgOf (site kernel : String) : Nat :=
  match minLg.find? (fun e => e.1 == site && e.2.1 == kernel) with
  | some e => e.2.2
  | none => 0

def rowOK (r : String × Nat × String × List Nat) : Bool :=
  match classes.lookup r.1 with
  | some ks => ks.contains r.2.2.1 && r.2.2.2.all (fun lg => decide (minLgOf r.1 r.2.2.1 ≤ lg))
  | none => false

/-- Gen obligation: every kernel installed by the live library is in its class -/
theorem dispatch_closed : Gen.Dispatch.rows.all rowOK = true := by decide +kernel

/-- non-vacuity: the table covers the module function table and the FFT constructors under the all-off mask -/
theorem dispatch_nonvacuous :
    (Gen.Dispatch.rows.any (fun r => r.1 == "new_reim_fft_precomp" && r.2.1 == 1 && r.2.2.1 == "reim_fft_ref") &&
     Gen.Dispatch.rows.any (fun r => r.1 == "module0.vmp_apply_dft" && r.2.2.1 == "fft64_vmp_apply_dft_avx") &&
     decide (Gen.Dispatch.rows.length ≥ 300)) = true := by decide +kernel

/-- `znx_add_i64_avx` = `znx_add_i64_ref` -/
theorem znx_add_avx_eq_ref (o : Ops α) (nn : Nat) (a b : Array α) (h : nn ≤ 2 ∨ 4 ∣ nn) :
    CoeffsAvx.add o nn a b = Coeffs.add o nn a b := by
  unfold CoeffsAvx.add Coeffs.add; exact CoeffsAvx.run_eq nn _ h

theorem znx_sub_avx_eq_ref (o : Ops α) (nn : Nat) (a b : Array α) (h : nn ≤ 2 ∨ 4 ∣ nn) :
    CoeffsAvx.sub o nn a b = Coeffs.sub o nn a b := by
  unfold CoeffsAvx.sub Coeffs.sub; exact CoeffsAvx.run_eq nn _ h

theorem znx_negate_avx_eq_ref (o : Ops α) (nn : Nat) (a : Array α) (h : nn ≤ 2 ∨ 4 ∣ nn) :
    CoeffsAvx.negate o nn a = Coeffs.negate o nn a := by
  unfold CoeffsAvx.negate Coeffs.negate; exact CoeffsAvx.run_eq nn _ h

/-- every power of two is in the domain of the three theorems above, and the loop then writes exactly `nn` cells -/
theorem pow2_in_domain (t : Nat) : (2 ^ t ≤ 2 ∨ 4 ∣ 2 ^ t) ∧ CoeffsAvx.extent (2 ^ t) = 2 ^ t := by
  rcases t with _ | _ | t
  · simp [CoeffsAvx.extent]
  · simp [CoeffsAvx.extent]
  · have h4 : (4 : Nat) ∣ 2 ^ (t + 2) := ⟨2 ^ t, by rw [Nat.pow_add]; omega⟩
    refine ⟨Or.inr h4, ?_⟩
    obtain ⟨k, hk⟩ := h4
    have : ¬ (2 ^ (t + 2) ≤ 2) := by
      have : 2 ^ (t + 2) = 4 * 2 ^ t := by rw [Nat.pow_add]; omega
      have : 0 < 2 ^ t := Nat.pos_of_ne_zero (by simp)
      omega
    simp only [CoeffsAvx.extent, this, if_false]
    omega

end Spq.C07
