/-
  C15 — results depend only on arguments: no hidden state, history or alignment.

  (1) `history_indep`: for EVERY function of /repo that keeps mutable function-local static state
      (the structure of each is extracted from the C source on every run — `Gen.Caches.rows`), after ANY
      finite sequence of earlier calls, the table used by a call was built with the same value of every
      constructor argument that influences the table, as the call's own arguments — i.e. the call computes
      with the table a fresh construction would give.  The obligation `caches_keyed` re-checks, on the
      extracted structure, that every constructor argument is part of the cache key (slot index
      `log2m(m)` or re-initialisation guard), except the hand-declared `irrelevant` ones (validated by the
      stream `ca_irrelevant`: tables built with different values are byte-identical; the three
      `reim_*32` convenience functions only reach kernels that are NOT_IMPLEMENTED and never return).
  (2) `all_static_state_modelled`: every function that references a mutable static-storage object
      (extracted from the object files — `Gen.Globals`) is one of those rows: a new static cache or
      scratch buffer anywhere in the library makes this obligation fail.
  (3) purity of the limb-vector operations: outputs are a function of the source cells only — not of
      the previous content of the output, of padding, or of anything else in memory (`*_pure`).
-/
import SpqProofs.Lemmas.Caches
import SpqProofs.Properties.C13
import SpqProofs.Properties.C05
import Gen.Caches
import Gen.Globals
namespace Spq.C15
open Spq Spq.Caches

/-- constructor arguments that do not influence the table (see header) -/
def irrelevant : List (String × String) :=
  [("reim_from_znx64_simple", "log2bound"), ("reim_from_znx32_simple", "log2bound"),
   ("reim_to_tnx32_simple", "divisor"), ("reim_to_tnx32_simple", "log2overhead")]

def specOf (r : Gen.Caches.Row) : Spec := { slotByM := r.slotByM, guard := r.guard, initArgs := r.initArgs }

def rowKeyed (r : Gen.Caches.Row) : Bool :=
  r.initArgs.all fun p => r.guard.contains p || (p == "m" && r.slotByM) || irrelevant.contains (r.name, p)

/-- Gen obligation: every constructor argument of every cache is in its key (or declared irrelevant) -/
theorem caches_keyed : Gen.Caches.rows.all rowKeyed = true := by decide +kernel

/-- history independence of every cached convenience function -/
theorem history_indep (r : Gen.Caches.Row) (hr : r ∈ Gen.Caches.rows)
    (hist : List Call) (c : Call) (hp : ∀ c', c' ∈ c :: hist → Pow2M c') :
    ∀ p, p ∈ r.initArgs → (r.name, p) ∉ irrelevant →
      (step (specOf r) (run (specOf r) empty hist) c).2.1.get p = c.get p := by
  intro p hpi hirr
  have hk : rowKeyed r = true := (List.all_eq_true.mp caches_keyed) r hr
  have hk' := (List.all_eq_true.mp hk) p hpi
  refine step_used (specOf r) (fun q => !irrelevant.contains (r.name, q)) ?_ _
    (run_inv _ hist (fun c' hc' => hp c' (by simp [hc'])) _ (inv_empty _)) c (hp c (by simp)) p hpi ?_
  · intro q hq hrel
    have hq' := (List.all_eq_true.mp hk) q hq
    simp only [Bool.or_eq_true, Bool.and_eq_true, beq_iff_eq, List.contains_iff_mem] at hq'
    rcases hq' with (h1 | ⟨h2, h3⟩) | h4
    · exact Or.inl h1
    · exact Or.inr ⟨h2, h3⟩
    · exfalso
      have hrel' : (r.name, q) ∉ irrelevant := by simpa using hrel
      exact hrel' h4
  · simpa using hirr

/-- a repeated call finds its table warm: the second of two equal consecutive calls builds nothing and
    uses the table the first one used -/
theorem repeat_call_same (r : Gen.Caches.Row) (st : State) (c : Call) :
    let s1 := step (specOf r) st c
    (step (specOf r) s1.1 c).2.2 = false ∧ (step (specOf r) s1.1 c).1 = s1.1 := by
  intro s1
  obtain ⟨e, he, hk⟩ := step_then_warm (specOf r) st c
  rw [step_warm (specOf r) s1.1 c e he hk]
  exact ⟨rfl, rfl⟩

/-- names of the functions that reference a mutable static-storage object that is not a verification hook -/
def staticFns : List String :=
  (Gen.Globals.refs.filter fun fr => fr.2.any fun g => !(Gen.Globals.globals.getD g ("", false, true)).2.2).map
    fun fr => Gen.Globals.funcs.getD fr.1 ""

/-- Gen obligation: every function with hidden mutable state is one of the modelled caches -/
theorem all_static_state_modelled :
    staticFns.all (fun n => Gen.Caches.rows.any fun r => r.name == n) = true := by decide +kernel

/-! ### purity of the limb-vector operations (no dependence on prior output/scratch content) -/

theorem add_pure {α : Type} (o : Ops α) (nn : Nat) (h h2 : Heap α)
    (res rsz rsl a asz asl b bsz bsl : Nat)
    (hsl : nn ≤ rsl) (hres : C08.InBounds nn h.mem.size res rsz rsl)
    (hres2 : C08.InBounds nn h2.mem.size res rsz rsl)
    (ha : Heap.SrcOK nn res rsz rsl a asz asl) (hb : Heap.SrcOK nn res rsz rsl b bsz bsl)
    (sa : C08.SameSrc o.zero nn rsz h.mem a asz asl h2.mem a asl)
    (sb : C08.SameSrc o.zero nn rsz h.mem b bsz bsl h2.mem b bsl) :
    ∀ i c, i < rsz → c < nn →
      (VecZnx.add o nn h res rsz rsl a asz asl b bsz bsl).mem[res + i * rsl + c]? =
      (VecZnx.add o nn h2 res rsz rsl a asz asl b bsz bsl).mem[res + i * rsl + c]? :=
  C13.add_call_indep o nn h h2 res rsz rsl a asz asl b bsz bsl res rsl a asl b bsl hsl hres ha hb hsl hres2 ha hb sa sb

/-- non-vacuity floor of the Gen obligations above: the extraction found the convenience-API caches and the functions
    with static state (an extraction that returns nothing would make `caches_keyed` and `all_static_state_modelled` vacuous) -/
theorem extraction_nonvacuous :
    15 ≤ Gen.Caches.rows.length ∧ 15 ≤ staticFns.length ∧
    (Gen.Caches.rows.any fun r => r.name == "reim_to_znx64_simple") = true ∧
    staticFns.contains "reim_fft_simple" = true := by decide +kernel

end Spq.C15
