/-
  C06 — reim/cplx FFT and iFFT equal the mathematical transform, in the documented order.

  Exact-arithmetic part (this file): the butterfly network of `Spq.Fft` is the SAME code that is executed
  bit-exactly against the library with `α = Nat` (binary64 patterns, streams `ff_fft`, `ff_cfft`,
  `ff_crafted`, `ff_ccrafted`); here it is instantiated with an arbitrary commutative ring `R` containing
  `I` (`I² = −1`) and `ζ` (`ζ^m = I`, so `ζ` is a primitive 4m-th root of unity), exact arithmetic
  (`ringA`: `fma a b c = a*b + c`), and the exact table: entry `t` of the table is `cos`/`sin`/`−sin`/`−cos`
  of the angle `2π·e(t)/4m`, where `e(t)` (`reimFftEnts`, …) is the transcription of the C `fill_*` functions
  (checked against the real tables by stream `ff_tables`); `c`, `s` are any functions with
  `c e + I·s e = ζ^e`.

  Theorems: `reim_fft_exact`, `reim_ifft_exact`, `reim_ifft_fft`, `cplx_fft_exact`, `cplx_ifft_exact`,
  `cplx_ifft_fft` — every size m = 2^k, reference and FMA/assembly implementations.
  Route (Lemmas/Fft*.lean): level network `V` (naive halving recursion, breadth first) with closed form
  `V_top`; every kernel (twiddle pass, radix-4 pass, 16-point leaf, cplx `bfs_2` passes) advances its block of
  the network (`Adv`/`IAdv`); the C loop structure (bfs levels, rec above 2048, table pointer) by induction.

  The a-priori rounding bound of the property (binary64) is NOT in this file: it is proved in `Properties/C06Err.lean`
  (`reim_fft_err`, `reim_ifft_err`, `cplx_fft_err`, `cplx_ifft_err` and their `_prop` forms 8·log2(2m)·2^-53) under two
  explicit hypotheses (stored twiddle pairs within 3.5·2^-53 of the exact roots — measured on every run by `ff_tables` —
  and no overflow / inexact underflow); the streams also check the bound on every run against a `__float128` oracle.
-/
import SpqProofs.Lemmas.FftApi
import SpqProofs.Lemmas.FftReimInvSmall
import SpqProofs.Lemmas.FftCplxFwd
import SpqProofs.Lemmas.FftCplxInv
import Mathlib.Data.ZMod.Basic
namespace Spq.Fft.C06
open Spq.Fft Spq.Fft.Alg Spq.Fft.Sim Spq.Fft.Tab Spq.Fft.Kern Spq.Fft.Api

variable {R : Type} [CommRing R] [Inhabited R]

/-- **Forward reim FFT, exact arithmetic, every size, both implementations.**
For `m = 2^k` (all `k`), the reference (`fwdRef`) and the FMA/assembly (`fwdFma`) schedule of `reim_fft`, run
on the flat reim vector `data` (m real parts then m imaginary parts) with the exact table, put into output
cell `j` the evaluation of `Σ_i (data[i] + I·data[m+i])·X^i` at `ζ^(1 + 4·brev_k(j))`. -/
theorem reim_fft_exact (k : ℕ) (ζ I : R) (c s : ℕ → R) (hI : ζ ^ 2 ^ k = I) (hI2 : I * I = -1)
    (hcs : ∀ e, c e + I * s e = ζ ^ e)
    (impl : Flav R) (himpl : impl = fwdRef ringA ∨ impl = fwdFma ringA)
    (data : Array R) (hdata : data.size = 2 * 2 ^ k) (j : ℕ) (hj : j < 2 ^ k) :
    (reimFftA impl (2 ^ k) ((reimFftEnts (2 ^ k)).map (val c s)).toArray data)[j]!
        + I * (reimFftA impl (2 ^ k) ((reimFftEnts (2 ^ k)).map (val c s)).toArray data)[2 ^ k + j]!
      = sumTo (2 ^ k) (fun i => (data[i]! + I * data[2 ^ k + i]!) * ζ ^ ((1 + 4 * brev k j) * i)) := by
  let X : Ctx R := ⟨ζ, I, k, c, s, fun i => data[i]! + I * data[2 ^ k + i]!, hI, hI2, hcs⟩
  have hF : FwdOK I impl := by
    rcases himpl with h | h <;> subst h
    · exact fwdRef_ok I hI2
    · exact fwdFma_ok I hI2
  have hv := splitRI_valid (2 ^ k) data hdata
  have main := ReimFwd.fftRI_all X impl hF (splitRI (2 ^ k) data) hv
    (fun p hp => by
      show (splitRI (2 ^ k) data).re[p]! + I * (splitRI (2 ^ k) data).im[p]! = _
      rw [splitRI_re _ _ hdata p hp, splitRI_im _ _ hdata p hp]) j hj
  have hvo := (ReimFwd.fftRI_adv X impl hF (splitRI (2 ^ k) data) hv).2
  unfold reimFftA
  rw [joinRI_re _ _ hvo j hj, joinRI_im _ _ hvo j hj]
  exact main

/-- **Inverse reim FFT, exact arithmetic, every size, both implementations: inverse ∘ forward = m • id.**
If the input of `reim_ifft` (flat vector, exact conjugate table `reimIfftEnts`) holds in cell `j` the evaluation of
`Σ_i a_i X^i` at `ζ^(1 + 4·brev_k(j))` — i.e. it is the exact output of the forward transform of `a` — then
output cell `p` is `m·a_p` (`m = 2^k`). -/
theorem reim_ifft_exact (k : ℕ) (ζ ζi I : R) (c s : ℕ → R) (hI : ζ ^ 2 ^ k = I) (hI2 : I * I = -1)
    (hζi : ζ * ζi = 1) (hcs : ∀ e, c e + I * s e = ζ ^ e) (hcsi : ∀ e, c e - I * s e = ζi ^ e)
    (impl : Flav R) (himpl : impl = invRef ringA ∨ impl = invFma ringA)
    (a : ℕ → R) (data : Array R) (hdata : data.size = 2 * 2 ^ k)
    (heval : ∀ j, j < 2 ^ k →
      data[j]! + I * data[2 ^ k + j]! = sumTo (2 ^ k) (fun i => a i * ζ ^ ((1 + 4 * brev k j) * i)))
    (p : ℕ) (hp : p < 2 ^ k) :
    (reimIfftA impl (2 ^ k) ((reimIfftEnts (2 ^ k)).map (val c s)).toArray data)[p]!
        + I * (reimIfftA impl (2 ^ k) ((reimIfftEnts (2 ^ k)).map (val c s)).toArray data)[2 ^ k + p]!
      = 2 ^ k * a p := by
  let Y : ICtx R := ⟨⟨ζ, I, k, c, s, a, hI, hI2, hcs⟩, ζi, hζi, hcsi⟩
  have hF : InvOK I impl := by
    rcases himpl with h | h <;> subst h
    · exact invRef_ok I hI2
    · exact invFma_ok I hI2
  have hζ : ζ ^ (2 * 2 ^ k) = -1 := by rw [Nat.mul_comm, pow_mul, hI, pow_two, hI2]
  have hv := splitRI_valid (2 ^ k) data hdata
  have main := ReimInv.ifftRI_adv Y impl hF 1 (splitRI (2 ^ k) data) hv
  have hin : ∀ q, 0 ≤ q → q < 0 + 2 ^ k →
      cxs I (splitRI (2 ^ k) data) q = (fun q => 1 * V ζ a k 0 q) q := by
    intro q _ hq
    have hq' : q < 2 ^ k := by omega
    show (splitRI (2 ^ k) data).re[q]! + I * (splitRI (2 ^ k) data).im[q]! = 1 * _
    rw [splitRI_re _ _ hdata q hq', splitRI_im _ _ hdata q hq', heval q hq', V_top ζ a k hζ q hq', one_mul]
  have hout := main.1.1 hin p (Nat.zero_le _) (show p < 0 + 2 ^ k by omega)
  unfold reimIfftA
  rw [joinRI_re _ _ main.2 p hp, joinRI_im _ _ main.2 p hp]
  have : cxs I (ifftRI impl (2 ^ k) ((reimIfftEnts (2 ^ k)).map (val c s)).toArray (splitRI (2 ^ k) data)) p
      = 2 ^ k * 1 * V ζ a 0 k p := hout
  rw [mul_one] at this
  exact this

/-- **reim_ifft ∘ reim_fft = m • id** (complex values of the cells), any pairing of the two implementations -/
theorem reim_ifft_fft (k : ℕ) (ζ ζi I : R) (c s : ℕ → R) (hI : ζ ^ 2 ^ k = I) (hI2 : I * I = -1)
    (hζi : ζ * ζi = 1) (hcs : ∀ e, c e + I * s e = ζ ^ e) (hcsi : ∀ e, c e - I * s e = ζi ^ e)
    (fwd inv : Flav R) (hfwd : fwd = fwdRef ringA ∨ fwd = fwdFma ringA) (hinv : inv = invRef ringA ∨ inv = invFma ringA)
    (data : Array R) (hdata : data.size = 2 * 2 ^ k) (p : ℕ) (hp : p < 2 ^ k) :
    let mid := reimFftA fwd (2 ^ k) ((reimFftEnts (2 ^ k)).map (val c s)).toArray data
    let out := reimIfftA inv (2 ^ k) ((reimIfftEnts (2 ^ k)).map (val c s)).toArray mid
    out[p]! + I * out[2 ^ k + p]! = 2 ^ k * (data[p]! + I * data[2 ^ k + p]!) := by
  intro mid out
  have hmid : mid.size = 2 * 2 ^ k := by
    show (joinRI _).size = _
    have hF : FwdOK I fwd := by
      rcases hfwd with h | h <;> subst h
      · exact fwdRef_ok I hI2
      · exact fwdFma_ok I hI2
    let X : Ctx R := ⟨ζ, I, k, c, s, fun i => data[i]! + I * data[2 ^ k + i]!, hI, hI2, hcs⟩
    have hv := (ReimFwd.fftRI_adv X fwd hF (splitRI (2 ^ k) data) (splitRI_valid (2 ^ k) data hdata)).2
    simp only [joinRI, Array.size_append]
    rw [hv.1, hv.2]; ring
  exact reim_ifft_exact k ζ ζi I c s hI hI2 hζi hcs hcsi inv hinv (fun i => data[i]! + I * data[2 ^ k + i]!) mid hmid
    (fun j hj => reim_fft_exact k ζ I c s hI hI2 hcs fwd hfwd data hdata j hj) p hp

/-- **Forward cplx FFT (interleaved layout), exact arithmetic, every size, both implementations.**
`cplx_fft_ref` (`cfwdRef`) and `cplx_fft_avx2_fma` (`cfwdFma`: `bfs_2` with the `addsub(0, ω_i)` shape and the
`(ω, −ω)` last pass, lane-duplicated twiddles, FMA radix-4 passes, assembly leaves) put into cell `j`
(cells `2j`, `2j+1` of the flat vector) the evaluation at `ζ^(1 + 4·brev_k(j))`. -/
theorem cplx_fft_exact (k : ℕ) (ζ I : R) (c s : ℕ → R) (hI : ζ ^ 2 ^ k = I) (hI2 : I * I = -1)
    (hcs : ∀ e, c e + I * s e = ζ ^ e)
    (impl : CFlav R) (himpl : impl = cfwdRef ringA ∨ impl = cfwdFma ringA 0)
    (data : Array R) (j : ℕ) (hj : j < 2 ^ k) :
    (cplxFftA impl (2 ^ k) ((cplxFftEnts (2 ^ k)).map (val c s)).toArray data)[2 * j]!
        + I * (cplxFftA impl (2 ^ k) ((cplxFftEnts (2 ^ k)).map (val c s)).toArray data)[2 * j + 1]!
      = sumTo (2 ^ k) (fun i => (data[2 * i]! + I * data[2 * i + 1]!) * ζ ^ ((1 + 4 * brev k j) * i)) := by
  let X : Ctx R := ⟨ζ, I, k, c, s, fun i => data[2 * i]! + I * data[2 * i + 1]!, hI, hI2, hcs⟩
  have hF : CplxFwd.CFwdOK I impl := by
    rcases himpl with h | h <;> subst h
    · exact CplxFwd.cfwdRef_ok I hI2
    · exact CplxFwd.cfwdFma_ok I hI2
  have hv := deinterleave_valid (2 ^ k) data
  have main := CplxFwd.cfftRI_adv X impl hF (deinterleave (2 ^ k) data) hv
  have hfin := ReimFwd.final_of_adv X _ _
    (fun p hp => by
      show (deinterleave (2 ^ k) data).re[p]! + I * (deinterleave (2 ^ k) data).im[p]! = _
      rw [deinterleave_re _ _ p hp, deinterleave_im _ _ p hp]) main.1 j hj
  unfold cplxFftA
  rw [interleave_re _ _ j hj, interleave_im _ _ j hj]
  exact hfin

/-- **Inverse cplx FFT, exact arithmetic, every size, both implementations: inverse ∘ forward = m • id.** -/
theorem cplx_ifft_exact (k : ℕ) (ζ ζi I : R) (c s : ℕ → R) (hI : ζ ^ 2 ^ k = I) (hI2 : I * I = -1)
    (hζi : ζ * ζi = 1) (hcs : ∀ e, c e + I * s e = ζ ^ e) (hcsi : ∀ e, c e - I * s e = ζi ^ e)
    (impl : CFlav R) (himpl : impl = cinvRef ringA ∨ impl = cinvFma ringA 0)
    (a : ℕ → R) (data : Array R)
    (heval : ∀ j, j < 2 ^ k →
      data[2 * j]! + I * data[2 * j + 1]! = sumTo (2 ^ k) (fun i => a i * ζ ^ ((1 + 4 * brev k j) * i)))
    (p : ℕ) (hp : p < 2 ^ k) :
    (cplxIfftA impl (2 ^ k) ((cplxIfftEnts (2 ^ k)).map (val c s)).toArray data)[2 * p]!
        + I * (cplxIfftA impl (2 ^ k) ((cplxIfftEnts (2 ^ k)).map (val c s)).toArray data)[2 * p + 1]!
      = 2 ^ k * a p := by
  let Y : ICtx R := ⟨⟨ζ, I, k, c, s, a, hI, hI2, hcs⟩, ζi, hζi, hcsi⟩
  have hF : CplxInv.CInvOK I impl := by
    rcases himpl with h | h <;> subst h
    · exact CplxInv.cinvRef_ok I hI2
    · exact CplxInv.cinvFma_ok I hI2
  have hζ : ζ ^ (2 * 2 ^ k) = -1 := by rw [Nat.mul_comm, pow_mul, hI, pow_two, hI2]
  have hv := deinterleave_valid (2 ^ k) data
  have main := CplxInv.cifftRI_adv Y impl hF 1 (deinterleave (2 ^ k) data) hv
  have hin : ∀ q, 0 ≤ q → q < 0 + 2 ^ k →
      cxs I (deinterleave (2 ^ k) data) q = (fun q => 1 * V ζ a k 0 q) q := by
    intro q _ hq
    have hq' : q < 2 ^ k := by omega
    show (deinterleave (2 ^ k) data).re[q]! + I * (deinterleave (2 ^ k) data).im[q]! = 1 * _
    rw [deinterleave_re _ _ q hq', deinterleave_im _ _ q hq', heval q hq', V_top ζ a k hζ q hq', one_mul]
  have hout := main.1.1 hin p (Nat.zero_le _) (show p < 0 + 2 ^ k by omega)
  unfold cplxIfftA
  rw [interleave_re _ _ p hp, interleave_im _ _ p hp]
  have : cxs I (cifftRI impl (2 ^ k) ((cplxIfftEnts (2 ^ k)).map (val c s)).toArray (deinterleave (2 ^ k) data)) p
      = 2 ^ k * 1 * V ζ a 0 k p := hout
  rw [mul_one] at this
  exact this

/-- **cplx_ifft ∘ cplx_fft = m • id** (complex values of the cells), any pairing of the two implementations -/
theorem cplx_ifft_fft (k : ℕ) (ζ ζi I : R) (c s : ℕ → R) (hI : ζ ^ 2 ^ k = I) (hI2 : I * I = -1)
    (hζi : ζ * ζi = 1) (hcs : ∀ e, c e + I * s e = ζ ^ e) (hcsi : ∀ e, c e - I * s e = ζi ^ e)
    (fwd inv : CFlav R) (hfwd : fwd = cfwdRef ringA ∨ fwd = cfwdFma ringA 0)
    (hinv : inv = cinvRef ringA ∨ inv = cinvFma ringA 0) (data : Array R) (p : ℕ) (hp : p < 2 ^ k) :
    let mid := cplxFftA fwd (2 ^ k) ((cplxFftEnts (2 ^ k)).map (val c s)).toArray data
    let out := cplxIfftA inv (2 ^ k) ((cplxIfftEnts (2 ^ k)).map (val c s)).toArray mid
    out[2 * p]! + I * out[2 * p + 1]! = 2 ^ k * (data[2 * p]! + I * data[2 * p + 1]!) := by
  intro mid out
  exact cplx_ifft_exact k ζ ζi I c s hI hI2 hζi hcs hcsi inv hinv (fun i => data[2 * i]! + I * data[2 * i + 1]!) mid
    (fun j hj => cplx_fft_exact k ζ I c s hI hI2 hcs fwd hfwd data j hj) p hp

/-- the hypotheses of `reim_fft_exact` / `reim_ifft_exact` are satisfiable by a non-trivial instance: `R = ZMod 17`, `m = 4`
(`k = 2`), `ζ = 3` (a primitive 16-th root of unity), `I = ζ^4 = 13`, `c e = (ζ^e + ζ^-e)/2`,
`s e = (ζ^e − ζ^-e)/(2I)` -/
example : ∃ (ζ ζi I : ZMod 17) (c s : ℕ → ZMod 17), ζ ^ 2 ^ 2 = I ∧ I * I = -1 ∧ ζ * ζi = 1 ∧
    (∀ e, c e + I * s e = ζ ^ e) ∧ (∀ e, c e - I * s e = ζi ^ e) ∧ ζ ≠ 1 :=
  ⟨3, 6, 13, fun e => (3 ^ e + 6 ^ e) * 9, fun e => (3 ^ e - 6 ^ e) * 2, by decide, by decide, by decide,
    fun e => by
      have h17 : (17 : ZMod 17) = 0 := by decide
      linear_combination (2 * 3 ^ e - 6 ^ e) * h17,
    fun e => by
      have h17 : (17 : ZMod 17) = 0 := by decide
      linear_combination (2 * 6 ^ e - 3 ^ e) * h17, by decide⟩

end Spq.Fft.C06
