/-
  C04 — q120 lazy modular arithmetic never wraps 64 bits on any in-range operand.

  NTT / iNTT (`ntt_never_wraps`, `intt_never_wraps`): with the per-level metadata READ BACK FROM THE LIVE
  PRECOMPUTATION OBJECTS on every run (`Gen.Q120Meta`), for every n = 2^k (k = 1..16), every lane/prime and
  every vector of arbitrary 64-bit words: in every pass of the schedule no sum, no lazy subtraction
  `a + q·2^s − b` and no `mul_epu32` operand exceeds its word (`safeAll`), every output is < 2^64 and is
  congruent modulo the prime to the exact transform.  The obligation `certificate_current` is re-decided by the
  Lean kernel on the regenerated metadata (exact interval arithmetic on naturals — not the code's
  floating-point bit-size bookkeeping); `level_certificate_sound` is the symbolic soundness theorem behind it
  (any metadata list, any number of levels).
  Products (`products_never_wrap`): for every length ell ≤ MAX_ELL (= 10000, extracted), every operand in its layout
  range (a/c: 32-bit words, b: ANY 64-bit lane), the two-accumulator kernels (reference: 64×64→64 products;
  AVX2: `mul_epu32` on 32-bit halves) never wrap, every `mul_epu32` operand fits 32 bits, the result is congruent
  to Σ x_i·y_i modulo the prime, and the AVX2 lane is the same 64-bit word as the reference lane.  The split
  points `h` and reduced powers are read back from the live `q120_new_vec_mat1col_product_*_precomp()` objects
  (`Gen.ProdPrecomp`; the floating-point search that chooses `h` is not modelled, only its result is checked).
  (n = 1: the transform is the identity; ell = 0: the product is 0 — see C03/C10.)
-/
import SpqProofs.Lemmas.C04Ntt
import SpqProofs.Lemmas.C04ProductsGen
import SpqProofs.Properties.C10
namespace Spq.C04
open Spq Spq.Q120Ntt

/-- Gen obligation (NTT): the exact-interval certificate accepts any 64-bit input for every size, lane and direction -/
theorem certificate_current (k j : Nat) (hk1 : 1 ≤ k) (hk : k ≤ 16) (hj : j < 4) :
    certFwdOK (Gen.nttMeta k j) k = true ∧ certInvOK (Gen.inttMeta k j) k = true :=
  ⟨(cert_current k j hk1 hk hj).1, (cert_current k j hk1 hk hj).2.1⟩

/-- forward NTT on arbitrary 64-bit lanes: nothing wraps, outputs congruent to the exact transform -/
theorem ntt_never_wraps (k j : Nat) (hk1 : 1 ≤ k) (hk : k ≤ 16) (hj : j < 4)
    (x : Array Nat) (hx : x.size = 2 ^ k) (hlt : ∀ i < 2 ^ k, rd x i < W64) :
    let M := Gen.nttMeta k j
    let tbl := tableFwd M.q M.Ω k M.levels
    let w : ZMod M.q := ((omegaN M.q M.Ω k : Nat) : ZMod M.q)
    safeAll (2 ^ k) M.R (fwdLSteps k M.levels tbl w) (rd x) ∧
    ∀ i < 2 ^ k, rd (nttLane k M.levels M.R tbl x) i < W64 ∧
      ((rd (nttLane k M.levels M.R tbl x) i : Nat) : ZMod M.q)
        = exNtt w k (fun t => ((rd x t : Nat) : ZMod M.q)) i :=
  ntt_nowrap k j hk1 hk hj x hx hlt

/-- inverse NTT, same statement -/
theorem intt_never_wraps (k j : Nat) (hk1 : 1 ≤ k) (hk : k ≤ 16) (hj : j < 4)
    (x : Array Nat) (hx : x.size = 2 ^ k) (hlt : ∀ i < 2 ^ k, rd x i < W64) :
    let M := Gen.inttMeta k j
    let tbl := tableInv M.q M.Ω k M.levels
    let v : ZMod M.q := ((modqPow (omegaN M.q M.Ω k) (-1) M.q : Nat) : ZMod M.q)
    let ninv : ZMod M.q := ((modqPow (2 ^ k) (-1) M.q : Nat) : ZMod M.q)
    safeAll (2 ^ k) M.R (invLSteps k M.levels tbl v ninv) (rd x) ∧
    ∀ i < 2 ^ k, rd (inttLane k M.levels M.R tbl x) i < W64 ∧
      ((rd (inttLane k M.levels M.R tbl x) i : Nat) : ZMod M.q)
        = exIntt v ninv k (fun t => ((rd x t : Nat) : ZMod M.q)) i :=
  intt_nowrap k j hk1 hk hj x hx hlt

/-- Gen obligation (products): the bound predicates hold for the extracted split points, powers, primes and MAX_ELL -/
theorem product_bounds_current :
    Q120.baaOK Gen.q120_max_ell Q120.curBaa Gen.q120_q = true ∧ Q120.baaAvxOK Gen.q120_max_ell Q120.curBaa Gen.q120_q = true ∧
    Q120.bbbOK Gen.q120_max_ell Q120.curBbb Gen.q120_q = true ∧ Q120.bbbAvxOK Gen.q120_max_ell Q120.curBbb Gen.q120_q = true ∧
    Q120.bbcOK Gen.q120_max_ell Q120.curBbc Gen.q120_q = true ∧ Q120.bbcAvxOK Gen.q120_max_ell Q120.curBbc Gen.q120_q = true :=
  ⟨Q120.baaOK_current, Q120.baaAvxOK_current, Q120.bbbOK_current, Q120.bbbAvxOK_current, Q120.bbcOK_current, Q120.bbcAvxOK_current⟩

/-- a·a, b·b, b·c products: exact modulo each prime for every ell ≤ MAX_ELL and every in-layout operand, reference
    and AVX2, and AVX2 = reference word for word -/
theorem products_never_wrap (ell : Nat) (hell : ell ≤ Gen.q120_max_ell) (j : Nat) (hj : j < 4) :
    (∀ x y, Q120.ArrA x → Q120.ArrA y →
      (Q120.baaRef Q120.curBaa ell x y).getD j 0 % Gen.q120_q j = Q120.dot (Q120.laneTerms ell x y 4 j 4 j) % Gen.q120_q j ∧
      (Q120.baaAvx Q120.curBaa ell x y).getD j 0 = (Q120.baaRef Q120.curBaa ell x y).getD j 0) ∧
    (∀ x y, Q120.ArrB x → Q120.ArrB y →
      (Q120.bbbRef Q120.curBbb ell x y).getD j 0 % Gen.q120_q j = Q120.dot (Q120.laneTerms ell x y 4 j 4 j) % Gen.q120_q j ∧
      (Q120.bbbAvx Q120.curBbb ell x y).getD j 0 = (Q120.bbbRef Q120.curBbb ell x y).getD j 0) ∧
    (∀ x y, Q120.ArrB x → Q120.ArrB y → Q120.ValidC Gen.q120_q y →
      (Q120.bbcRef Q120.curBbc ell x y).getD j 0 % Gen.q120_q j = Q120.dotC (Q120.laneTerms ell x y 4 j 4 j) % Gen.q120_q j ∧
      (Q120.bbcAvx Q120.curBbc ell x y).getD j 0 = (Q120.bbcRef Q120.curBbc ell x y).getD j 0) :=
  ⟨fun x y hx hy => ⟨(C10.baa_exact ell hell x y hx hy j hj).1, (C10.baa_exact ell hell x y hx hy j hj).2.2⟩,
   fun x y hx hy => ⟨(C10.bbb_exact ell hell x y hx hy j hj).1, (C10.bbb_exact ell hell x y hx hy j hj).2.2⟩,
   fun x y hx hy hc => ⟨(C10.bbc_exact ell hell x y hx hy hc j hj).1, (C10.bbc_exact ell hell x y hx hy hc j hj).2.2⟩⟩

/-- Gen obligation: the product theorems' length domain (`MAX_ELL` of the source) covers the property's `0..10000` -/
theorem max_ell_covers : 10000 ≤ Gen.q120_max_ell := by decide

end Spq.C04
