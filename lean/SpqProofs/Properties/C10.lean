/-
  C10 — q120 products and layout conversions are exact modulo the 120-bit modulus.

  Property theorems only (helper lemmas: SpqProofs/Lemmas/{Q120Basic,C04Products,Q120Conv,Q120Crt}.lean).
  Every statement is about the model functions the correspondence streams `q1_prod` / `q1_conv` run
  bit-for-bit against the real code (lean/Spq/Q120.lean), instantiated with the constants READ FROM
  THE CODE on every run: `curParams` (Q1..Q4, Q*_CRT_CST), `curBaa`/`curBbb`/`curBbc` (the live
  product precomputations), `Gen.q120_max_ell` (MAX_ELL).  The numeric side conditions are the
  decidable predicates `baaOK … crtOK`, discharged by kernel evaluation in `C04ProductsGen.lean` /
  `Q120ConvGen.lean`; the theorems themselves are proved for symbolic constants.

  Domain: all lengths `ell ≤ MAX_ELL` (incl. 0), all operands in their layout range — layout a:
  lanes `< 2^32`; layout b: ANY 64-bit lanes (non-canonical representatives included); layout c:
  any two 32-bit words per prime, the value statement `Σ x·y` additionally asking for the layout-c
  invariant `y1 ≡ y0·2^32` — all int64 values, all block indices.
-/
import SpqProofs.Lemmas.C04ProductsGen
import SpqProofs.Lemmas.Q120ConvGen
namespace Spq.C10
open Spq Spq.Q120

/-! ### products -/

/-- a·a → b: for every `ell ≤ MAX_ELL` and layout-a operands, lane `j` of the reference and of the
  AVX2 result is congruent to `Σ_i x[4i+j]·y[4i+j]` modulo `q_j`; the two variants return the same
  64-bit word. -/
theorem baa_exact (ell : Nat) (hell : ell ≤ Gen.q120_max_ell) (x y : Array Nat) (hx : ArrA x) (hy : ArrA y)
    (j : Nat) (hj : j < 4) :
    (baaRef curBaa ell x y).getD j 0 % Gen.q120_q j = dot (laneTerms ell x y 4 j 4 j) % Gen.q120_q j
    ∧ (baaAvx curBaa ell x y).getD j 0 % Gen.q120_q j = dot (laneTerms ell x y 4 j 4 j) % Gen.q120_q j
    ∧ (baaAvx curBaa ell x y).getD j 0 = (baaRef curBaa ell x y).getD j 0 :=
  ⟨baa_ref_exact _ _ _ baaOK_current ell hell x y hx hy j hj,
   (baa_avx2_exact _ _ _ baaAvxOK_current ell hell x y hx hy j hj).1,
   (baa_avx2_exact _ _ _ baaAvxOK_current ell hell x y hx hy j hj).2⟩

/-- b·b → b: operands are ANY 64-bit lanes -/
theorem bbb_exact (ell : Nat) (hell : ell ≤ Gen.q120_max_ell) (x y : Array Nat) (hx : ArrB x) (hy : ArrB y)
    (j : Nat) (hj : j < 4) :
    (bbbRef curBbb ell x y).getD j 0 % Gen.q120_q j = dot (laneTerms ell x y 4 j 4 j) % Gen.q120_q j
    ∧ (bbbAvx curBbb ell x y).getD j 0 % Gen.q120_q j = dot (laneTerms ell x y 4 j 4 j) % Gen.q120_q j
    ∧ (bbbAvx curBbb ell x y).getD j 0 = (bbbRef curBbb ell x y).getD j 0 :=
  ⟨bbb_ref_exact _ _ _ bbbOK_current ell hell x y hx hy j hj,
   (bbb_avx2_exact _ _ _ bbbAvxOK_current ell hell x y hx hy j hj).1,
   (bbb_avx2_exact _ _ _ bbbAvxOK_current ell hell x y hx hy j hj).2⟩

/-- b·c → b: `x` any 64-bit lanes, `y` valid layout-c pairs (any 32-bit representatives): lane `j` is
  congruent to `Σ_i x[4i+j]·y0[4i+j]` -/
theorem bbc_exact (ell : Nat) (hell : ell ≤ Gen.q120_max_ell) (x y : Array Nat) (hx : ArrB x) (hy : ArrB y)
    (hc : ValidC Gen.q120_q y) (j : Nat) (hj : j < 4) :
    (bbcRef curBbc ell x y).getD j 0 % Gen.q120_q j = dotC (laneTerms ell x y 4 j 4 j) % Gen.q120_q j
    ∧ (bbcAvx curBbc ell x y).getD j 0 % Gen.q120_q j = dotC (laneTerms ell x y 4 j 4 j) % Gen.q120_q j
    ∧ (bbcAvx curBbc ell x y).getD j 0 = (bbcRef curBbc ell x y).getD j 0 := by
  have v := bbcVal_validC Gen.q120_q ell x y 4 j 4 j j hc (fun i => by omega)
  have r := bbc_ref_exact _ _ _ bbcOK_current ell hell x y hx hy j hj
  have a := bbc_avx2_exact _ _ _ bbcAvxOK_current ell hell x y hx hy j hj
  exact ⟨r.trans v, a.1.trans v, a.2⟩

/-- b·c with ARBITRARY 32-bit words in `y` (no layout-c invariant): nothing wraps and both variants
  return `Σ xl·y0 + xh·y1` modulo `q_j` -/
theorem bbc_exact_raw (ell : Nat) (hell : ell ≤ Gen.q120_max_ell) (x y : Array Nat) (hx : ArrB x) (hy : ArrB y)
    (j : Nat) (hj : j < 4) :
    (bbcRef curBbc ell x y).getD j 0 % Gen.q120_q j = bbcVal (laneTerms ell x y 4 j 4 j) % Gen.q120_q j
    ∧ (bbcAvx curBbc ell x y).getD j 0 = (bbcRef curBbc ell x y).getD j 0 :=
  ⟨bbc_ref_exact _ _ _ bbcOK_current ell hell x y hx hy j hj,
   (bbc_avx2_exact _ _ _ bbcAvxOK_current ell hell x y hx hy j hj).2⟩

/-- q120x2, one column: output lane `r < 8` (block `r/4`, prime `r%4`) is congruent to
  `Σ_i x[8i+r]·y0[8i+r]` -/
theorem x2_col1_exact (ell : Nat) (hell : ell ≤ Gen.q120_max_ell) (x y : Array Nat) (hx : ArrB x) (hy : ArrB y)
    (hc : ValidC Gen.q120_q y) (r : Nat) (hr : r < 8) :
    (x2Col1Ref curBbc ell x y).getD r 0 % Gen.q120_q (r % 4) = dotC (x2Col1Terms ell x y r) % Gen.q120_q (r % 4)
    ∧ (x2Col1Avx curBbc ell x y).getD r 0 % Gen.q120_q (r % 4)
        = dotC (x2Col1Terms ell x y r) % Gen.q120_q (r % 4)
    ∧ (x2Col1Avx curBbc ell x y).getD r 0 = (x2Col1Ref curBbc ell x y).getD r 0 := by
  have v := bbcVal_validC Gen.q120_q ell x y 8 r 8 r (r % 4) hc (fun i => by omega)
  have rr := x2_col1_ref_exact _ _ _ bbcOK_current ell hell x y hx hy r hr
  have a := x2_col1_avx2_exact _ _ _ bbcAvxOK_current ell hell x y hx hy r hr
  exact ⟨rr.trans v, a.1.trans v, a.2⟩

/-- q120x2, two columns: output lane `r < 16` (result `r/4`: `res0 = Σ xa·y0`, `res1 = Σ xb·y1`,
  `res2 = Σ xa·y2`, `res3 = Σ xb·y3`; prime `r%4`) -/
theorem x2_col2_exact (ell : Nat) (hell : ell ≤ Gen.q120_max_ell) (x y : Array Nat) (hx : ArrB x) (hy : ArrB y)
    (hc : ValidC Gen.q120_q y) (r : Nat) (hr : r < 16) :
    (x2Col2Ref curBbc ell x y).getD r 0 % Gen.q120_q (r % 4) = dotC (x2Col2Terms ell x y r) % Gen.q120_q (r % 4)
    ∧ (x2Col2Avx curBbc ell x y).getD r 0 % Gen.q120_q (r % 4)
        = dotC (x2Col2Terms ell x y r) % Gen.q120_q (r % 4)
    ∧ (x2Col2Avx curBbc ell x y).getD r 0 = (x2Col2Ref curBbc ell x y).getD r 0 := by
  have v := bbcVal_validC Gen.q120_q ell x y 8 (4 * ((r / 4) % 2) + r % 4) 16 r (r % 4) hc (fun i => by omega)
  have rr := x2_col2_ref_exact _ _ _ bbcOK_current ell hell x y hx hy r hr
  have a := x2_col2_avx2_exact _ _ _ bbcAvxOK_current ell hell x y hx hy r hr
  exact ⟨rr.trans v, a.1.trans v, a.2⟩

/-- `ell = 0`: every 1-column kernel returns the zero element -/
theorem products_ell0_zero (x y : Array Nat) :
    baaRef curBaa 0 x y = #[0, 0, 0, 0] ∧ baaAvx curBaa 0 x y = #[0, 0, 0, 0]
    ∧ bbbRef curBbb 0 x y = #[0, 0, 0, 0] ∧ bbbAvx curBbb 0 x y = #[0, 0, 0, 0]
    ∧ bbcRef curBbc 0 x y = #[0, 0, 0, 0] ∧ bbcAvx curBbc 0 x y = #[0, 0, 0, 0] :=
  products_ell0 curBaa curBbb curBbc x y

/-! ### conversions -/

/-- int64 → b: every lane is congruent to the (signed) input modulo its prime; the lane is the exact
  integer `x` resp. `x + 2^63 + OQ_k` (the 64-bit addition never wraps) -/
theorem b_from_znx64_congr (nn : Nat) (x : Array Int) (hx : ∀ j, IsI64 (x.getD j 0)) (i : Nat) (hi : i < 4 * nn) :
    (((bFromZnx64 curParams nn x).getD i 0 : Nat) : Int) % (Gen.q120_q (i % 4) : Int)
      = x.getD (i / 4) 0 % (Gen.q120_q (i % 4) : Int)
    ∧ (((bFromZnx64 curParams nn x).getD i 0 : Nat) : Int)
      = x.getD (i / 4) 0 + (if x.getD (i / 4) 0 < 0
          then 9223372036854775808 + (oq (Gen.q120_q (i % 4)) : Int) else 0) := by
  rw [bFromZnx64_getD _ _ _ _ hi]
  obtain ⟨h1, h2⟩ := primes_small_current (i % 4) (Nat.mod_lt _ (by omega))
  have := bFromZnx64Lane_spec (Gen.q120_q (i % 4)) (x.getD (i / 4) 0) h1
    (Nat.le_trans h2 (by omega)) (hx _)
  exact ⟨this.2, this.1⟩

/-- int64 → c: the pair of prime `k` is `(x mod q_k, (x mod q_k)·2^32 mod q_k)` with the
  non-negative residue of the signed input -/
theorem c_from_znx64_exact (nn : Nat) (x : Array Int) (j k : Nat) (hj : j < nn) (hk : k < 4) :
    (cFromZnx64 curParams nn x).getD (8 * j + 2 * k) 0 = (x.getD j 0 % (Gen.q120_q k : Int)).toNat
    ∧ (cFromZnx64 curParams nn x).getD (8 * j + 2 * k + 1) 0
        = ((x.getD j 0 % (Gen.q120_q k : Int)).toNat * 4294967296) % Gen.q120_q k
    ∧ (x.getD j 0 % (Gen.q120_q k : Int)).toNat < Gen.q120_q k := by
  obtain ⟨h1, h2⟩ := primes_small_current k hk
  obtain ⟨e, lt⟩ := cFromZnx64Lane_spec (Gen.q120_q k) (x.getD j 0) h1 (Nat.lt_of_le_of_lt h2 (by omega))
  obtain ⟨g1, g2⟩ := cFromZnx64_getD curParams nn x j k hj hk
  have e' : cFromZnx64Lane (curParams.q k) (x.getD j 0) = _ := e
  rw [g1, g2, e']
  exact ⟨rfl, rfl, lt⟩

/-- b → c for ANY 64-bit lane: `(x mod q, (x mod q)·2^32 mod q)` -/
theorem c_from_b_exact (nn : Nat) (x : Array Nat) (m : Nat) (hm : m < 4 * nn) :
    (cFromB curParams nn x).getD (2 * m) 0 = x.getD m 0 % Gen.q120_q (m % 4)
    ∧ (cFromB curParams nn x).getD (2 * m + 1) 0
        = ((x.getD m 0 % Gen.q120_q (m % 4)) * 4294967296) % Gen.q120_q (m % 4) := by
  obtain ⟨h1, h2⟩ := primes_small_current (m % 4) (Nat.mod_lt _ (by omega))
  have e := cFromBLane_spec (Gen.q120_q (m % 4)) (x.getD m 0) h1 (Nat.lt_of_le_of_lt h2 (by omega))
  obtain ⟨g1, g2⟩ := cFromB_getD curParams nn x m hm
  have e' : cFromBLane (curParams.q (m % 4)) (x.getD m 0) = _ := e
  rw [g1, g2, e']
  exact ⟨rfl, rfl⟩

/-- b + b for ANY 64-bit lanes: the result lane is `x mod (q·2^33) + y mod (q·2^33)`, which does
  not wrap, and is congruent to `x + y` -/
theorem add_bbb_congr (nn : Nat) (x y : Array Nat) (i : Nat) (hi : i < 4 * nn) :
    (addBbb curParams nn x y).getD i 0 % Gen.q120_q (i % 4) = (x.getD i 0 + y.getD i 0) % Gen.q120_q (i % 4)
    ∧ (addBbb curParams nn x y).getD i 0
        = x.getD i 0 % (Gen.q120_q (i % 4) * 8589934592) + y.getD i 0 % (Gen.q120_q (i % 4) * 8589934592)
    ∧ x.getD i 0 % (Gen.q120_q (i % 4) * 8589934592) + y.getD i 0 % (Gen.q120_q (i % 4) * 8589934592)
        < 18446744073709551616 := by
  obtain ⟨h1, h2⟩ := primes_small_current (i % 4) (Nat.mod_lt _ (by omega))
  rw [addBbb_getD _ _ _ _ _ hi]
  have := addBbbLane_spec (Gen.q120_q (i % 4)) (x.getD i 0) (y.getD i 0) h1 h2
  exact ⟨this.2.2, this.1, this.2.1⟩

/-- c + c word by word, for ANY 32-bit words: `(x + y) mod q`, reduced -/
theorem add_ccc_exact (nn : Nat) (x y : Array Nat) (hx : ArrA x) (hy : ArrA y) (i : Nat) (hi : i < 8 * nn) :
    (addCcc curParams nn x y).getD i 0 = (x.getD i 0 + y.getD i 0) % Gen.q120_q ((i % 8) / 2)
    ∧ (addCcc curParams nn x y).getD i 0 < Gen.q120_q ((i % 8) / 2) := by
  obtain ⟨h1, h2⟩ := primes_small_current ((i % 8) / 2) (by omega)
  rw [addCcc_getD _ _ _ _ _ hi]
  exact addCccWord_spec (Gen.q120_q ((i % 8) / 2)) _ _ h1 (Nat.lt_of_le_of_lt h2 (by omega)) (hx i) (hy i)

/-- b → int128 for ANY 64-bit lanes: the result is congruent to each lane modulo its prime, lies in
  `[-(Q-1)/2, (Q-1)/2]` with `Q = q0·q1·q2·q3`, and is the only such integer; no `__int128`
  operation of the function overflows (`bToZnx128_eq`). -/
theorem to_znx128_centered (nn : Nat) (x : Array Nat) (j : Nat) (hj : j < nn) :
    let r := (bToZnx128Vec curParams nn x).getD j 0
    (∀ k, k < 4 → r % (Gen.q120_q k : Int) = ((x.getD (4 * j + k) 0 % Gen.q120_q k : Nat) : Int))
    ∧ -(((bigQN curParams : Int) - 1) / 2) ≤ r ∧ r ≤ ((bigQN curParams : Int) - 1) / 2
    ∧ ∀ r' : Int, -(((bigQN curParams : Int) - 1) / 2) ≤ r' → r' ≤ ((bigQN curParams : Int) - 1) / 2 →
        (∀ k, k < 4 → r' % (Gen.q120_q k : Int) = r % (Gen.q120_q k : Int)) → r' = r := by
  intro r
  have hr : r = bToZnx128 curParams (x.getD (4 * j) 0) (x.getD (4 * j + 1) 0) (x.getD (4 * j + 2) 0)
      (x.getD (4 * j + 3) 0) := bToZnx128Vec_getD _ _ _ _ hj
  have cen := bToZnx128_centered curParams crtOK_current (x.getD (4 * j) 0) (x.getD (4 * j + 1) 0)
    (x.getD (4 * j + 2) 0) (x.getD (4 * j + 3) 0)
  rw [← hr] at cen
  refine ⟨?_, cen.1, cen.2, ?_⟩
  · intro k hk
    rw [hr]
    have := bToZnx128_mod curParams crtOK_current (x.getD (4 * j) 0) (x.getD (4 * j + 1) 0)
      (x.getD (4 * j + 2) 0) (x.getD (4 * j + 3) 0) k hk
    have hk' : k = 0 ∨ k = 1 ∨ k = 2 ∨ k = 3 := by omega
    rcases hk' with rfl | rfl | rfl | rfl <;> exact this
  · intro r' h1 h2 h3
    exact centered_unique curParams crtOK_current r' r ⟨h1, h2⟩ cen (fun k hk => h3 k hk)

/-- int64 → b → int128 is the identity on every int64 (INT64_MIN and INT64_MAX included) -/
theorem znx_roundtrip (nn : Nat) (x : Array Int) (hx : ∀ j, IsI64 (x.getD j 0)) (j : Nat) (hj : j < nn) :
    (bToZnx128Vec curParams nn (bFromZnx64 curParams nn x)).getD j 0 = x.getD j 0 := by
  rw [bToZnx128Vec_getD _ _ _ _ hj, bFromZnx64_getD _ _ _ _ (show 4 * j < 4 * nn by omega),
    bFromZnx64_getD _ _ _ _ (show 4 * j + 1 < 4 * nn by omega),
    bFromZnx64_getD _ _ _ _ (show 4 * j + 2 < 4 * nn by omega),
    bFromZnx64_getD _ _ _ _ (show 4 * j + 3 < 4 * nn by omega)]
  have e0 : 4 * j % 4 = 0 := by omega
  have e1 : (4 * j + 1) % 4 = 1 := by omega
  have e2 : (4 * j + 2) % 4 = 2 := by omega
  have e3 : (4 * j + 3) % 4 = 3 := by omega
  have d0 : 4 * j / 4 = j := by omega
  have d1 : (4 * j + 1) / 4 = j := by omega
  have d2 : (4 * j + 2) / 4 = j := by omega
  have d3 : (4 * j + 3) / 4 = j := by omega
  rw [e0, e1, e2, e3, d0, d1, d2, d3]
  exact znx_roundtrip_gen curParams crtOK_current bigQ_gt_current (x.getD j 0) (hx j)

/-- block extract / save are mutually inverse copies of the 8 lanes of block `blk` (every block
  index), save touches nothing else, and the contiguous form extracts the block of each row -/
theorem extract_save_inverse (nn blk : Nat) (dest src : Array Nat) :
    (src.size = 8 → 8 * blk + 8 ≤ dest.size → extract1blk nn blk (save1blk nn blk dest src) = src)
    ∧ save1blk nn blk dest (extract1blk nn blk dest) = dest
    ∧ (∀ k, ¬ (8 * blk ≤ k ∧ k < 8 * blk + 8) → (save1blk nn blk dest src)[k]? = dest[k]?)
    ∧ (save1blk nn blk dest src).size = dest.size
    ∧ (∀ nrows r i, r < nrows → i < 8 →
        (extractContiguous nn nrows blk dest).getD (8 * r + i) 0 = dest.getD (4 * nn * r + 8 * blk + i) 0) :=
  ⟨extract_save nn blk dest src, save_extract nn blk dest, save_frame nn blk dest src,
   size_save1blk nn blk dest src, fun nrows r i hr hi => extractContiguous_row nn nrows blk dest r i hr hi⟩

/-! ### the hypotheses are satisfiable (non-vacuity) -/

/-- all-maximal layout-a operands of maximal length are in the domain of `baa_exact` -/
example : ArrA (Array.replicate (4 * 10000) 4294967295) := by
  intro i
  simp only [Array.getD_eq_getD_getElem?, Array.getElem?_replicate]
  split <;> simp
/-- all-maximal 64-bit lanes are in the domain of `bbb_exact` -/
example : ArrB (Array.replicate (4 * 10000) 18446744073709551615) := by
  intro i
  simp only [Array.getD_eq_getD_getElem?, Array.getElem?_replicate]
  split <;> simp
/-- a non-canonical valid layout-c lane for prime 0: `y0 = q0 + 5`, `y1 = (5·2^32 mod q0) + 2·q0` -/
example : (((5 * 4294967296) % Gen.q120_q 0 + 2 * Gen.q120_q 0) % Gen.q120_q 0
    = ((Gen.q120_q 0 + 5) * 4294967296) % Gen.q120_q 0)
    ∧ (5 * 4294967296) % Gen.q120_q 0 + 2 * Gen.q120_q 0 < 4294967296 := by decide +kernel
/-- INT64_MIN and INT64_MAX are in the domain of `znx_roundtrip` -/
example : IsI64 (-9223372036854775808) ∧ IsI64 9223372036854775807 := by
  unfold IsI64; omega

/-- Gen obligation: the length domain of the product theorems (`ell ≤ Gen.q120_max_ell`, the `MAX_ELL` read from the
    source on every run) covers the property's domain `0..10000`: lowering `MAX_ELL` in the source fails here instead of
    silently shrinking what is proved. -/
theorem max_ell_covers : 10000 ≤ Gen.q120_max_ell := by decide

end Spq.C10
