/-
  C02 — the BINARY64 rounding budget of the vector-matrix product, proved about the model functions that are validated
  bit-exactly against the library (`Spq/Module.lean`: `vmpPrepare`, `vmpApplyDftToDft`, `vmpApplyDft`, `vecIdft`,
  `Cfg.parts`; `Spq/Reim4.lean`: the reim4 accumulation kernels).

  Property C02 (fixed text): "… preparing an integer matrix and applying it to an integer vector yields, after inverse
  DFT, column j = sum over i < min(nrows, input rows) of a_i * M[i][j] in Z[X]/(X^N+1) (within the C01 error budget
  summed over the rows, hence exact for small operands), and columns j >= ncols are exactly zero."
  The exact-arithmetic (layout) half is `Properties/C02.lean`; this file is the numeric half.

  Notation: `u = 2^-53`, `n = min nrows asz` (rows used), `γ(n) = (1+u)^(2n+2) − 1 ≈ (2n+2)u` (`gamD n`),
  `N = 2m = 2·2^k`.
   1. `dot_cols_err`: the four reim4 kernels (`reim4_vec_mat1col_product_{ref,avx2}`, `…2cols_product_{ref,avx2}`,
      `Kern.run`), any number of rows, either column of a pair: flag of the output cell ⇒ the cell is finite and
        |computed − Σ_i (a_i c_i − b_i d_i)| ≤ γ(n)·Σ_i (|a_i c_i| + |b_i d_i|)   (real part; imaginary part alike)
      — per kernel the proved exponents are ref: n+2, avx2/1col: n+1, avx2/2cols: 2n (`VmpErrDotErr.lean`).
      `dot_small_err`: the same for the `nn < 8` path (`reim_fftvec_mul` of row 0, then `reim_fftvec_addmul`; exponent n+1).
   2. `vmp_layout_f64`: the layout / addressing of `vmpPrepare` + `vmpApplyDftToDft` for an ARBITRARY arithmetic
      record (no ring laws): cell `t` of output column `j` is the accumulation recurrence `dotRe/dotIm` (order
      `colKind`: `ref`, `av1`, `av2`, `sm`) of `(adft_i[t])_i` and `(fft(M[i][j])[t])_i`; other columns are `zero`.
      Instantiated twice below: bit-level binary64 and flagged binary64.
   3. `vmp_err_partial` (every `k ≤ 16`, i.e. `N ≤ 131072`, both layouts, every shape, `n ≤ 2^25 − 1` rows): every
      coefficient of column `j < min ncols rsz` of `vecIdft (vmpApplyDft … (vmpPrepare …))` is an integer within
      `E_sum + 1/2` of the coefficient of `Σ_{i<n} a_i ⊛ M[i][j]`,
          E_sum = (12·log2(N) + 2n + 3)·u·Σ_{i<n} S_i,    S_i = ‖a_i‖₁·nb_i + na_i·‖M_ij‖₁  (nb_i ≥ ‖M_ij‖₂, na_i ≥ ‖a_i‖₂),
      i.e. `Σ_i 12·log2(N)·u·S_i` (C01Err's per-row budget: three transforms + the rounding of one product) plus the
      ACCUMULATION term `(2n+3)·u·Σ_i S_i` (`≥ γ(n)·ΣS_i`; the true first-order figure is `(3/4)·γ_K(n)·ΣS_i` with
      `γ_K` the per-kernel constant of item 1).  WHY THE ROWS ADD: the error is composed row by row in the 2-norm
      (Minkowski), using the backward-error form of the accumulation (each product `Â_i(t)·B̂_i(t)` carries its own
      relative perturbation `≤ 3/2·γ(n)`), so every row contributes `fB ε μ_n θ·S_i` exactly as one product of C01Err
      with `μ` replaced by `μ_n = 3/2·γ(n)`; then one inverse transform (`inv_compose`) and the final conversion.
      `vmp_exact_f64_partial` / `vmp_exact_real_partial`: `E_sum < 1/2` ⇒ the binary64 pipeline returns EXACTLY the integer
      matrix-vector product column (no domain hypothesis: `|coefficient| ≤ ΣS_i/2 < 2^48`).
      `vmp_zero_cols_f64`: columns `j ≥ min ncols rsz` (and, for `nn < 8`, every column when there is no usable row)
      are exactly zero in binary64 — unconditionally (no flags, any twiddle table: the inverse transform of `+0` cells
      consists of `±0` cells, which the conversion maps to 0).  `svp_zero_rows_f64`: the same for the rows `i ≥ asz` of
      the SVP pipeline (closes the gap listed in C01Err).
  Hypotheses that remain (explicit, same style as C01Err): `VCfgOk` (= `CfgOk` + "FMA addmul kernel only for `m ≥ 4`"),
  twiddle accuracy of both tables, `VmpOk` (flags of the flagged run per stage: forward transforms of the `n` limbs and
  of the `n` entries of column `j`, the accumulation, the inverse transform), the box `|coefficients| < 2^50`, and
  (`vmp_err_partial` only) the domain of the final conversion.  "partial": constants 12 (not 8) and the explicit
  accumulation term; flags / twiddle accuracy are hypotheses.  For `nn < 8` (`k < 2`) with `n = 0` the column is
  covered by `vmp_zero_cols_f64` (exact 0 = empty sum) instead of `vmp_err_partial`.
   4. `no_overflow_of_box` (+ `fft_no_overflow_of_box`, `ifft_no_overflow_of_box`, `mul_no_overflow_of_box`): the
      NO-OVERFLOW half of the flag hypotheses of C06Err / C01Err follows from the magnitude box.  `arithU` / `aU` is
      the flagged arithmetic whose flag only records "the exact result is 0 or `≥ 2^-1022`" (`NoUnd`); if these
      UNDERFLOW-only flags hold, the inputs are bounded (`|coefficients| < 2^50`) and the stored twiddles are finite
      doubles of magnitude `≤ 1`, then the full flags hold (`ProdErr.PipeOk`, every `k ≤ 100`), because every exact
      intermediate result stays below `2^(102+9k) ≤ 2^1002 < 2^1023` (`2^50` → `8^k` per transform → `4·U²` for the
      product).  `small_product_exact_f64_noovf_partial`: C01Err's exactness theorem with only the underflow side
      condition left.  `vmp_no_overflow_of_box` (`k ≤ 64`, `n ≤ 2^25 − 1`): the same for the vector-matrix product,
      `VmpOkU ⇒ VmpOk` — the accumulation stage is bounded by `32·U²·(n+1)` (`U = 2^(50+3k)`; the rows add, each
      rounding contributes `(1+u)`, and `(1+u)^(2n) ≤ 4`), all four accumulation orders; and
      `vmp_exact_f64_noovf_partial`: the exactness theorem of item 3 with only the underflow side condition left.
-/
import SpqProofs.Lemmas.VmpErrKern
import SpqProofs.Lemmas.VmpErrTop
import SpqProofs.Lemmas.ProdErrReal
import SpqProofs.Lemmas.VmpErrExample
import SpqProofs.Lemmas.F64StdEx
import SpqProofs.Lemmas.VmpErrOvf8
import SpqProofs.Lemmas.VmpErrOvf12
import SpqProofs.Properties.C01Err
namespace Spq.C02Err
open Finset Spq Spq.Module Spq.Reim4 Spq.F64 Spq.VmpErr Spq.Fft.Alg Spq.FftErr Spq.ProdErr Spq.Conv

/-- **`dot_cols_err`**: binary64 `reim4_vec_mat1col_product_{ref,avx2}` / `reim4_vec_mat2cols_product_{ref,avx2}`
    (`Kn.run`, the model functions of `Spq/Reim4.lean`) on `n` rows, lane `k < 4` of the column at offset `o`
    (`o = 0`; `o = 8`: second column of a pair).  With `a_i + i·b_i` the vector entry and `c_i + i·d_i` the matrix
    entry of row `i` (`qRe/qIm/qvRe/qvIm`: the VALUES of the cells the kernel reads), if the flag of the output cell
    holds (flagged run on `arithOk`: no overflow, no underflow in the operations it depends on) then
      `|val(re) − Σ_i (a_i c_i − b_i d_i)| ≤ γ(n)·Σ_i (|a_i c_i| + |b_i d_i|)`,
      `|val(im) − Σ_i (a_i d_i + b_i c_i)| ≤ γ(n)·Σ_i (|a_i d_i| + |b_i c_i|)`,   `γ(n) = (1+2^-53)^(2n+2) − 1`. -/
theorem dot_cols_err (Kn : Kern) (n : ℕ) (dst u v : Array ℕ) (hb : Kn.w ≤ dst.size) (o : ℕ)
    (ho : o = 0 ∨ (o = 8 ∧ Kn.w = 16)) (k : ℕ) (hk : k < 4) :
    (Ok ((Kn.run arithOk n (dst.map lift) (u.map lift) (v.map lift)).getD (o + k) (lift 0)) →
      Fin64 ((Kn.run F64.arith n dst u v).getD (o + k) 0) ∧
      |val ((Kn.run F64.arith n dst u v).getD (o + k) 0) -
          ∑ i ∈ range n, (qRe u k i * qvRe v Kn.w o k i - qIm u k i * qvIm v Kn.w o k i)| ≤
        gamD n * ∑ i ∈ range n, (|qRe u k i * qvRe v Kn.w o k i| + |qIm u k i * qvIm v Kn.w o k i|)) ∧
    (Ok ((Kn.run arithOk n (dst.map lift) (u.map lift) (v.map lift)).getD (o + k + 4) (lift 0)) →
      Fin64 ((Kn.run F64.arith n dst u v).getD (o + k + 4) 0) ∧
      |val ((Kn.run F64.arith n dst u v).getD (o + k + 4) 0) -
          ∑ i ∈ range n, (qRe u k i * qvIm v Kn.w o k i + qIm u k i * qvRe v Kn.w o k i)| ≤
        gamD n * ∑ i ∈ range n, (|qRe u k i * qvIm v Kn.w o k i| + |qIm u k i * qvRe v Kn.w o k i|)) :=
  kern_err Kn n dst u v hb o ho k hk

/-- what `Kn.run` is: the four model functions -/
example {α : Type} (ar : RArith α) :
    Kern.run ar .ref1 = vecMat1colProductRef ar ∧ Kern.run ar .avx1 = vecMat1colProductAvx2 ar ∧
    Kern.run ar .ref2 = vecMat2colsProductRef ar ∧ Kern.run ar .avx2 = vecMat2colsProductAvx2 ar := ⟨rfl, rfl, rfl, rfl⟩

/-- the lane data of `dot_cols_err`: values of the cells `8i+k`, `8i+k+4` of `u` and `w·i+o+k`, `w·i+o+k+4` of `v` -/
example (u v : Array ℕ) (w o k i : ℕ) :
    qRe u k i = val (u.getD (8 * i + k) 0) ∧ qIm u k i = val (u.getD (8 * i + k + 4) 0) ∧
    qvRe v w o k i = val (v.getD (w * i + o + k) 0) ∧ qvIm v w o k i = val (v.getD (w * i + o + k + 4) 0) :=
  ⟨rfl, rfl, rfl, rfl⟩

/-- `γ(n) ≤ (2n+3)·u` as long as `2n + 2 ≤ 2^26` -/
theorem gamD_le (n : ℕ) (hn : 2 * n + 2 ≤ 67108864) : gamD n ≤ (2 * (n : ℚ) + 3) * u64 := gamD_le_lin n hn

/-- **`dot_small_err`**: the `nn < 8` path of `vmp_apply_dft_to_dft` (`smallChain`: `reim_fftvec_mul` of row 0, then
    `reim_fftvec_addmul` of the rows `1..n-1`, reference kernels — the library installs the FMA kernels for `m ≥ 4`
    only), `n ≥ 1` rows `A i` (vector) and `B i` (matrix column) in reim layout, complex `t < m`: same bound. -/
theorem dot_small_err (c : Cfg) (hnn : c.nn = 2 * (c.nn / 2)) (hmf : c.mulFma = false) (haf : c.addmulFma = false)
    (n : ℕ) (hn : 1 ≤ n) (A B : ℕ → Array ℕ) (t : ℕ) (ht : t < c.nn / 2) :
    (Ok ((smallChain (pOk c) n (fun i => (A i).map lift) (fun i => (B i).map lift)).getD t (lift 0)) →
      Fin64 ((smallChain (Cfg.parts c) n A B).getD t 0) ∧
      |val ((smallChain (Cfg.parts c) n A B).getD t 0) -
          ∑ i ∈ range n, (val ((A i).getD t 0) * val ((B i).getD t 0) -
            val ((A i).getD (t + c.nn / 2) 0) * val ((B i).getD (t + c.nn / 2) 0))| ≤
        gamD n * ∑ i ∈ range n, (|val ((A i).getD t 0) * val ((B i).getD t 0)| +
            |val ((A i).getD (t + c.nn / 2) 0) * val ((B i).getD (t + c.nn / 2) 0)|)) ∧
    (Ok ((smallChain (pOk c) n (fun i => (A i).map lift) (fun i => (B i).map lift)).getD (t + c.nn / 2) (lift 0)) →
      Fin64 ((smallChain (Cfg.parts c) n A B).getD (t + c.nn / 2) 0) ∧
      |val ((smallChain (Cfg.parts c) n A B).getD (t + c.nn / 2) 0) -
          ∑ i ∈ range n, (val ((A i).getD t 0) * val ((B i).getD (t + c.nn / 2) 0) +
            val ((A i).getD (t + c.nn / 2) 0) * val ((B i).getD t 0))| ≤
        gamD n * ∑ i ∈ range n, (|val ((A i).getD t 0) * val ((B i).getD (t + c.nn / 2) 0)| +
            |val ((A i).getD (t + c.nn / 2) 0) * val ((B i).getD t 0)|)) :=
  small_chain_err c hnn hmf haf n hn A B t ht

/-- `smallChain` is literally what the `nn < 8` branch of `vmpApplyDftToDft` runs per column -/
example {α : Type} (c : Parts α) (n : ℕ) (A B : ℕ → Array α) :
    smallChain c n A B =
      (List.range (n - 1)).foldl (fun r k => addmul c r (A (k + 1)) (B (k + 1))) (mul c (A 0) (B 0)) := rfl

/-- **`vmp_layout_f64`**: layout of `vmpPrepare` / `vmpApplyDftToDft` for ANY arithmetic record `c.ar : RArith α`
    (no algebraic law is used; the conversion / FFT of the module only enter through `matDft c mat ncols i j`
    = `fft (fromZnx M[i][j])`): both prepared layouts (`nn ≥ 8`: reim4 blocks; `nn < 8`: column-major, reference
    `mul`/`addmul`), both dispatch flavours, every shape.  Cell `t` (real part) and `t + m` (imaginary part) of output
    column `j < min ncols rsz` are the accumulation recurrences
      `colRe c K adft mat ncols n j t = dotRe c.ar K (adft_i[t])_i (adft_i[t+m])_i (fft(M_ij)[t])_i (fft(M_ij)[t+m])_i n`
    over the rows `i < n = min nrows asz`, in the order `K = colKind c ncols rsz j` (`ref`: both reference kernels;
    `av2`: 2-column AVX2 kernel; `av1`: 1-column AVX2 kernel, only for the last column of an odd `ncols ≤ rsz`;
    `sm`: `nn < 8`); the columns from `min ncols rsz` on are `zero`; for `nn < 8` without a usable row all is `zero`. -/
theorem vmp_layout_f64 {α : Type} (c : Parts α) (hnn : c.nn = 2 * c.m) (hblk : 8 ≤ c.nn → c.m % 4 = 0)
    (hsm : c.nn < 8 → c.mulFma = false ∧ c.addmulFma = false) (mat : Array Int) (nrows ncols rsz asz : ℕ)
    (adft : Array α)
    (hT : c.nn < 8 → ∀ row col, row < nrows → col < ncols → (matDft c mat ncols row col).size = c.nn) :
    (vmpApplyDftToDft c rsz adft asz (vmpPrepare c mat nrows ncols) nrows ncols).size = rsz * c.nn ∧
    (∀ j t, j < min ncols rsz → t < c.m → (c.nn < 8 → 0 < min nrows asz) →
      (vmpApplyDftToDft c rsz adft asz (vmpPrepare c mat nrows ncols) nrows ncols).getD (j * c.nn + t) c.ar.zero =
        colRe c (colKind c ncols rsz j) adft mat ncols (min nrows asz) j t ∧
      (vmpApplyDftToDft c rsz adft asz (vmpPrepare c mat nrows ncols) nrows ncols).getD (j * c.nn + t + c.m) c.ar.zero =
        colIm c (colKind c ncols rsz j) adft mat ncols (min nrows asz) j t) ∧
    (∀ j x, min ncols rsz ≤ j →
      (vmpApplyDftToDft c rsz adft asz (vmpPrepare c mat nrows ncols) nrows ncols).getD (j * c.nn + x) c.ar.zero = c.ar.zero) ∧
    (c.nn < 8 → min nrows asz = 0 → ∀ x,
      (vmpApplyDftToDft c rsz adft asz (vmpPrepare c mat nrows ncols) nrows ncols).getD x c.ar.zero = c.ar.zero) :=
  vmp_layout_g c hnn hblk hsm mat nrows ncols rsz asz adft hT

/-- what `colRe` is -/
example {α : Type} (c : Parts α) (Kd : DotK) (adft : Array α) (mat : Array Int) (ncols n j t : ℕ) :
    colRe c Kd adft mat ncols n j t =
      dotRe c.ar Kd (fun i => adft.getD (i * c.nn + t) c.ar.zero) (fun i => adft.getD (i * c.nn + t + c.m) c.ar.zero)
        (fun i => (matDft c mat ncols i j).getD t c.ar.zero) (fun i => (matDft c mat ncols i j).getD (t + c.m) c.ar.zero) n :=
  rfl

/-- the recurrences, spelled out (two rows) -/
example {α : Type} (ar : RArith α) (a b c d : ℕ → α) :
    dotRe ar .ref a b c d 2 = ar.add (ar.add ar.zero (reRef ar (a 0) (b 0) (c 0) (d 0))) (reRef ar (a 1) (b 1) (c 1) (d 1)) ∧
    dotRe ar .av2 a b c d 2 = ar.fms (a 1) (c 1) (ar.fms (b 1) (d 1) (ar.fms (a 0) (c 0) (ar.fms (b 0) (d 0) ar.zero))) ∧
    dotRe ar .av1 a b c d 2 = ar.sub (ar.fma (a 1) (c 1) (ar.fma (a 0) (c 0) ar.zero)) (ar.fma (b 1) (d 1) (ar.fma (b 0) (d 0) ar.zero)) ∧
    dotRe ar .sm a b c d 2 = ar.add (reRef ar (a 0) (b 0) (c 0) (d 0)) (reRef ar (a 1) (b 1) (c 1) (d 1)) :=
  ⟨rfl, rfl, rfl, rfl⟩

/-! ## 3. the end-to-end budget of the vector-matrix product -/

variable {K : Type} [Field K] [LinearOrder K] [IsStrictOrderedRing K]

/-- **`vmp_err_partial`** (`k ≤ 16`: every `N = 2·2^k ≤ 131072`; `n = min nrows asz ≤ 2^25 − 1`).
    FULL property statement (NOT completely proved; constants differ, flags / twiddle accuracy are hypotheses):
      "column j = Σ_{i<n} a_i·M[i][j] in ℤ[X]/(X^N+1) within the C01 error budget summed over the rows".
    PROVED: every coefficient `r_t` of column `j < min ncols rsz` (`j < rsz2`) of
    `vecIdft (vmpApplyDft … (vmpPrepare …))` in the binary64 module is an integer with
      `|r_t − (Σ_{i<n} a_i ⊛ M[i][j])_t| ≤ E_sum + 1/2`,
      `E_sum = (12·(k+1) + 2n + 3)·2^-53·Σ_{i<n} (‖a_i‖₁·nb_i + na_i·‖M_ij‖₁)`,   `k + 1 = log2 N`.
    `a_i = limbOf a i asl N`, `M_ij = matEntry mat ncols N i j`; both prepared layouts, both dispatch flavours. -/
theorem vmp_err_partial (c : Cfg) (k : ℕ) (hk : k ≤ 16) (cN sN cNi sNi : ℕ → ℕ) (h : VCfgOk c k cN sN cNi sNi)
    (ζ ζi : Cplx K) (hζ : nsq ζ = 1) (hI : ζ ^ 2 ^ k = Ic) (hinv : ζ * ζi = 1)
    (hcs : ∀ ℓ d b, ℓ + d + 1 = k → b < 2 ^ ℓ →
      nsq (toC (((val (cN (twE ℓ d b)) : ℚ) : K), ((val (sN (twE ℓ d b)) : ℚ) : K)) - ζ ^ twE ℓ d b) ≤
        (((7 / 2 * u64 : ℚ)) : K) ^ 2)
    (hcsi : ∀ ℓ d b, ℓ + d + 1 = k → b < 2 ^ ℓ →
      nsq (toC (((val (cNi (twE ℓ d b)) : ℚ) : K), ((val (sNi (twE ℓ d b)) : ℚ) : K)) - ζi ^ twE ℓ d b) ≤
        (((7 / 2 * u64 : ℚ)) : K) ^ 2)
    (mat : Array Int) (nrows ncols : ℕ) (a : Array Int) (asz asl rsz rsz2 : ℕ)
    (hn : 2 * min nrows asz + 2 ≤ 67108864)
    (hA : ∀ i, i < min nrows asz → ∀ t, t < 2 * 2 ^ k →
      -1125899906842624 < (limbOf a i asl (2 * 2 ^ k)).getD t 0 ∧ (limbOf a i asl (2 * 2 ^ k)).getD t 0 < 1125899906842624)
    (hM : ∀ i j, i < nrows → j < ncols → ∀ t, t < 2 * 2 ^ k →
      -1125899906842624 < (matEntry mat ncols (2 * 2 ^ k) i j).getD t 0 ∧
        (matEntry mat ncols (2 * 2 ^ k) i j).getD t 0 < 1125899906842624)
    (j : ℕ) (hj : j < min ncols rsz) (hj2 : j < rsz2) (hpos : k < 2 → 0 < min nrows asz)
    (hok : VmpOk c k cN sN cNi sNi mat nrows ncols a asz asl rsz j)
    (na nb : ℕ → K) (hna0 : ∀ i, i < min nrows asz → 0 ≤ na i) (hnb0 : ∀ i, i < min nrows asz → 0 ≤ nb i)
    (hna : ∀ i, i < min nrows asz →
      ∑ t ∈ range (2 * 2 ^ k), (((limbOf a i asl (2 * 2 ^ k)).getD t 0 : Int) : K) ^ 2 ≤ na i ^ 2)
    (hnb : ∀ i, i < min nrows asz →
      ∑ t ∈ range (2 * 2 ^ k), (((matEntry mat ncols (2 * 2 ^ k) i j).getD t 0 : Int) : K) ^ 2 ≤ nb i ^ 2)
    (hnl : ∀ i, i < min nrows asz →
      nb i ≤ ∑ t ∈ range (2 * 2 ^ k), |(((matEntry mat ncols (2 * 2 ^ k) i j).getD t 0 : Int) : K)|)
    (hdom : ∀ t, t < 2 * 2 ^ k →
      |(((isum (2 * 2 ^ k) (min nrows asz)
          (fun i => nmul (2 * 2 ^ k) (limbOf a i asl (2 * 2 ^ k)) (matEntry mat ncols (2 * 2 ^ k) i j))).getD t 0 : Int) : K)| +
        (((12 * (k + 1 : ℚ) + 2 * (min nrows asz : ℕ) + 3) * u64 : ℚ) : K) *
          ∑ i ∈ range (min nrows asz),
            ((∑ t ∈ range (2 * 2 ^ k), |(((limbOf a i asl (2 * 2 ^ k)).getD t 0 : Int) : K)|) * nb i +
              na i * ∑ t ∈ range (2 * 2 ^ k), |(((matEntry mat ncols (2 * 2 ^ k) i j).getD t 0 : Int) : K)|)
        < ((Bv c.toVariant : ℚ) : K)) :
    ∀ t, t < 2 * 2 ^ k → ∃ r : ℤ,
      (dlimb (vecIdft (Cfg.parts c) rsz2
        (vmpApplyDft (Cfg.parts c) rsz a asz asl (vmpPrepare (Cfg.parts c) mat nrows ncols) nrows ncols) rsz) j (2 * 2 ^ k))[t]?
          = some r ∧
      |(r : K) - (((isum (2 * 2 ^ k) (min nrows asz)
          (fun i => nmul (2 * 2 ^ k) (limbOf a i asl (2 * 2 ^ k)) (matEntry mat ncols (2 * 2 ^ k) i j))).getD t 0 : Int) : K)| ≤
        (((12 * (k + 1 : ℚ) + 2 * (min nrows asz : ℕ) + 3) * u64 : ℚ) : K) *
          ∑ i ∈ range (min nrows asz),
            ((∑ t ∈ range (2 * 2 ^ k), |(((limbOf a i asl (2 * 2 ^ k)).getD t 0 : Int) : K)|) * nb i +
              na i * ∑ t ∈ range (2 * 2 ^ k), |(((matEntry mat ncols (2 * 2 ^ k) i j).getD t 0 : Int) : K)|)
        + 1 / 2 :=
  vmp_err_col c k hk cN sN cNi sNi h ζ ζi hζ hI hinv hcs hcsi mat nrows ncols a asz asl rsz rsz2 hn hA hM j hj hj2 hpos hok
    na nb hna0 hnb0 hna hnb hnl hdom

/-- **`vmp_exact_f64_partial`**: if `E_sum < 1/2` the binary64 pipeline returns EXACTLY the column of the integer
    matrix-vector product, `Σ_{i < min nrows asz} a_i ⊛ M[i][j]` in `ℤ[X]/(X^N + 1)` (the right-hand side of
    `C02.vmp_exact`), as an array of integers — every `k ≤ 16`, both layouts, every kernel combination, every shape.
    No hypothesis on the domain of the final conversion. -/
theorem vmp_exact_f64_partial (c : Cfg) (k : ℕ) (hk : k ≤ 16) (cN sN cNi sNi : ℕ → ℕ) (h : VCfgOk c k cN sN cNi sNi)
    (ζ ζi : Cplx K) (hζ : nsq ζ = 1) (hI : ζ ^ 2 ^ k = Ic) (hinv : ζ * ζi = 1)
    (hcs : ∀ ℓ d b, ℓ + d + 1 = k → b < 2 ^ ℓ →
      nsq (toC (((val (cN (twE ℓ d b)) : ℚ) : K), ((val (sN (twE ℓ d b)) : ℚ) : K)) - ζ ^ twE ℓ d b) ≤
        (((7 / 2 * u64 : ℚ)) : K) ^ 2)
    (hcsi : ∀ ℓ d b, ℓ + d + 1 = k → b < 2 ^ ℓ →
      nsq (toC (((val (cNi (twE ℓ d b)) : ℚ) : K), ((val (sNi (twE ℓ d b)) : ℚ) : K)) - ζi ^ twE ℓ d b) ≤
        (((7 / 2 * u64 : ℚ)) : K) ^ 2)
    (mat : Array Int) (nrows ncols : ℕ) (a : Array Int) (asz asl rsz rsz2 : ℕ)
    (hn : 2 * min nrows asz + 2 ≤ 67108864)
    (hA : ∀ i, i < min nrows asz → ∀ t, t < 2 * 2 ^ k →
      -1125899906842624 < (limbOf a i asl (2 * 2 ^ k)).getD t 0 ∧ (limbOf a i asl (2 * 2 ^ k)).getD t 0 < 1125899906842624)
    (hM : ∀ i j, i < nrows → j < ncols → ∀ t, t < 2 * 2 ^ k →
      -1125899906842624 < (matEntry mat ncols (2 * 2 ^ k) i j).getD t 0 ∧
        (matEntry mat ncols (2 * 2 ^ k) i j).getD t 0 < 1125899906842624)
    (j : ℕ) (hj : j < min ncols rsz) (hj2 : j < rsz2) (hpos : k < 2 → 0 < min nrows asz)
    (hok : VmpOk c k cN sN cNi sNi mat nrows ncols a asz asl rsz j)
    (na nb : ℕ → K) (hna0 : ∀ i, i < min nrows asz → 0 ≤ na i) (hnb0 : ∀ i, i < min nrows asz → 0 ≤ nb i)
    (hna : ∀ i, i < min nrows asz →
      ∑ t ∈ range (2 * 2 ^ k), (((limbOf a i asl (2 * 2 ^ k)).getD t 0 : Int) : K) ^ 2 ≤ na i ^ 2)
    (hnb : ∀ i, i < min nrows asz →
      ∑ t ∈ range (2 * 2 ^ k), (((matEntry mat ncols (2 * 2 ^ k) i j).getD t 0 : Int) : K) ^ 2 ≤ nb i ^ 2)
    (hnl : ∀ i, i < min nrows asz →
      nb i ≤ ∑ t ∈ range (2 * 2 ^ k), |(((matEntry mat ncols (2 * 2 ^ k) i j).getD t 0 : Int) : K)|)
    (hE : (((12 * (k + 1 : ℚ) + 2 * (min nrows asz : ℕ) + 3) * u64 : ℚ) : K) *
          ∑ i ∈ range (min nrows asz),
            ((∑ t ∈ range (2 * 2 ^ k), |(((limbOf a i asl (2 * 2 ^ k)).getD t 0 : Int) : K)|) * nb i +
              na i * ∑ t ∈ range (2 * 2 ^ k), |(((matEntry mat ncols (2 * 2 ^ k) i j).getD t 0 : Int) : K)|)
        < 1 / 2) :
    dlimb (vecIdft (Cfg.parts c) rsz2
        (vmpApplyDft (Cfg.parts c) rsz a asz asl (vmpPrepare (Cfg.parts c) mat nrows ncols) nrows ncols) rsz) j (2 * 2 ^ k) =
      isum (2 * 2 ^ k) (min nrows asz)
        (fun i => nmul (2 * 2 ^ k) (limbOf a i asl (2 * 2 ^ k)) (matEntry mat ncols (2 * 2 ^ k) i j)) :=
  vmp_exact_col c k hk cN sN cNi sNi h ζ ζi hζ hI hinv hcs hcsi mat nrows ncols a asz asl rsz rsz2 hn hA hM j hj hj2 hpos hok
    na nb hna0 hnb0 hna hnb hnl hE

/-- **`vmp_exact_real_partial`**: `K = ℝ` with the TRUE 2-norms (`na_i = ‖a_i‖₂`, `nb_i = ‖M_ij‖₂`): if
    `(12·log2(N) + 2n + 3)·2^-53·Σ_{i<n} (‖a_i‖₁‖M_ij‖₂ + ‖a_i‖₂‖M_ij‖₁) < 1/2` the binary64 pipeline returns the exact
    column (the shape of the property text: the C01 budget summed over the rows, plus the accumulation term). -/
theorem vmp_exact_real_partial (c : Cfg) (k : ℕ) (hk : k ≤ 16) (cN sN cNi sNi : ℕ → ℕ) (h : VCfgOk c k cN sN cNi sNi)
    (ζ ζi : Cplx ℝ) (hζ : nsq ζ = 1) (hI : ζ ^ 2 ^ k = Ic) (hinv : ζ * ζi = 1)
    (hcs : ∀ ℓ d b, ℓ + d + 1 = k → b < 2 ^ ℓ →
      nsq (toC (((val (cN (twE ℓ d b)) : ℚ) : ℝ), ((val (sN (twE ℓ d b)) : ℚ) : ℝ)) - ζ ^ twE ℓ d b) ≤
        (((7 / 2 * u64 : ℚ)) : ℝ) ^ 2)
    (hcsi : ∀ ℓ d b, ℓ + d + 1 = k → b < 2 ^ ℓ →
      nsq (toC (((val (cNi (twE ℓ d b)) : ℚ) : ℝ), ((val (sNi (twE ℓ d b)) : ℚ) : ℝ)) - ζi ^ twE ℓ d b) ≤
        (((7 / 2 * u64 : ℚ)) : ℝ) ^ 2)
    (mat : Array Int) (nrows ncols : ℕ) (a : Array Int) (asz asl rsz rsz2 : ℕ)
    (hn : 2 * min nrows asz + 2 ≤ 67108864)
    (hA : ∀ i, i < min nrows asz → ∀ t, t < 2 * 2 ^ k →
      -1125899906842624 < (limbOf a i asl (2 * 2 ^ k)).getD t 0 ∧ (limbOf a i asl (2 * 2 ^ k)).getD t 0 < 1125899906842624)
    (hM : ∀ i j, i < nrows → j < ncols → ∀ t, t < 2 * 2 ^ k →
      -1125899906842624 < (matEntry mat ncols (2 * 2 ^ k) i j).getD t 0 ∧
        (matEntry mat ncols (2 * 2 ^ k) i j).getD t 0 < 1125899906842624)
    (j : ℕ) (hj : j < min ncols rsz) (hj2 : j < rsz2) (hpos : k < 2 → 0 < min nrows asz)
    (hok : VmpOk c k cN sN cNi sNi mat nrows ncols a asz asl rsz j)
    (hE : (((12 * (k + 1 : ℚ) + 2 * (min nrows asz : ℕ) + 3) * u64 : ℚ) : ℝ) *
          ∑ i ∈ range (min nrows asz),
            (n1 ℝ (limbOf a i asl (2 * 2 ^ k)) (2 * 2 ^ k) * n2 (matEntry mat ncols (2 * 2 ^ k) i j) (2 * 2 ^ k) +
              n2 (limbOf a i asl (2 * 2 ^ k)) (2 * 2 ^ k) * n1 ℝ (matEntry mat ncols (2 * 2 ^ k) i j) (2 * 2 ^ k))
        < 1 / 2) :
    dlimb (vecIdft (Cfg.parts c) rsz2
        (vmpApplyDft (Cfg.parts c) rsz a asz asl (vmpPrepare (Cfg.parts c) mat nrows ncols) nrows ncols) rsz) j (2 * 2 ^ k) =
      isum (2 * 2 ^ k) (min nrows asz)
        (fun i => nmul (2 * 2 ^ k) (limbOf a i asl (2 * 2 ^ k)) (matEntry mat ncols (2 * 2 ^ k) i j)) :=
  vmp_exact_col c k hk cN sN cNi sNi h ζ ζi hζ hI hinv hcs hcsi mat nrows ncols a asz asl rsz rsz2 hn hA hM j hj hj2 hpos hok
    (fun i => n2 (limbOf a i asl (2 * 2 ^ k)) (2 * 2 ^ k)) (fun i => n2 (matEntry mat ncols (2 * 2 ^ k) i j) (2 * 2 ^ k))
    (fun _ _ => n2_nonneg _ _) (fun _ _ => n2_nonneg _ _) (fun _ _ => n2_sq _ _) (fun _ _ => n2_sq _ _)
    (fun _ _ => n2_le_n1 _ _) hE

/-- **`vmp_zero_cols_f64`**: in the binary64 module, output limb `j < rsz2` of
    `vecIdft (vmpApplyDft … (vmpPrepare …))` is EXACTLY zero when `j ≥ min ncols rsz` (beyond the matrix, or beyond the
    DFT-space result) — and, for `nn < 8`, when there is no usable row (`min nrows asz = 0`: the `row_max == 0` guard).
    Unconditional: no flags, no hypothesis on the twiddle tables (`ifft` of `+0` cells gives `±0` cells, `toZnx` maps
    them to 0); the box on the matrix entries is only used for the size of their DFTs. -/
theorem vmp_zero_cols_f64 (c : Cfg) (k : ℕ) (hk : k ≤ 961) (cN sN cNi sNi : ℕ → ℕ) (h : VCfgOk c k cN sN cNi sNi)
    (mat : Array Int) (nrows ncols : ℕ) (a : Array Int) (asz asl rsz rsz2 : ℕ)
    (hM : ∀ i j, i < nrows → j < ncols → ∀ t, t < 2 * 2 ^ k →
      -1125899906842624 < (matEntry mat ncols (2 * 2 ^ k) i j).getD t 0 ∧
        (matEntry mat ncols (2 * 2 ^ k) i j).getD t 0 < 1125899906842624)
    (j : ℕ) (hj2 : j < rsz2) (hz : min ncols rsz ≤ j ∨ (k < 2 ∧ min nrows asz = 0)) :
    dlimb (vecIdft (Cfg.parts c) rsz2
        (vmpApplyDft (Cfg.parts c) rsz a asz asl (vmpPrepare (Cfg.parts c) mat nrows ncols) nrows ncols) rsz) j (2 * 2 ^ k) =
      Array.replicate (2 * 2 ^ k) 0 :=
  vmp_zero_col c k hk cN sN cNi sNi h mat nrows ncols a asz asl rsz rsz2 hM j hj2 hz

/-- **`svp_zero_rows_f64`** (the gap listed in `C01Err`): in the binary64 module the rows `i ≥ asz` (no input limb) of
    `vecIdft (svpApply ppol vec)` are EXACTLY zero — for any prepared polynomial `ppol`, any tables, no flags. -/
theorem svp_zero_rows_f64 (c : Cfg) (k : ℕ) (hk : k ≤ 961) (cN sN cNi sNi : ℕ → ℕ) (h : CfgOk c k cN sN cNi sNi)
    (ppol : Array ℕ) (vec : Array Int) (asz asl rsz rsz2 i : ℕ) (hi : i < rsz2) (hz : asz ≤ i) :
    dlimb (vecIdft (Cfg.parts c) rsz2 (svpApply (Cfg.parts c) rsz ppol vec asz asl) rsz) i (2 * 2 ^ k) =
      Array.replicate (2 * 2 ^ k) 0 :=
  svp_zero_row c k hk cN sN cNi sNi h ppol vec asz asl rsz rsz2 i hi hz

/-- the stage-wise flag hypothesis `VmpOk`, spelled out -/
example (c : Cfg) (k : ℕ) (cN sN cNi sNi : ℕ → ℕ) (mat : Array Int) (nrows ncols : ℕ) (a : Array Int)
    (asz asl rsz j : ℕ) :
    VmpOk c k cN sN cNi sNi mat nrows ncols a asz asl rsz j ↔
      ((∀ i, i < min nrows asz → FwdOk c k cN sN (limbOf a i asl (2 * 2 ^ k))) ∧
       (∀ i, i < min nrows asz → FwdOk c k cN sN (matEntry mat ncols (2 * 2 ^ k) i j)) ∧
       (∀ p, p < 2 * 2 ^ k → vmpFlag c mat nrows ncols a asz asl rsz (j * (2 * 2 ^ k) + p)) ∧
       InvOk c k cNi sNi (dlimb (vmpRes c mat nrows ncols a asz asl rsz) j (2 * 2 ^ k))) :=
  ⟨fun h => ⟨h.okA, h.okB, h.okD, h.okI⟩, fun h => ⟨h.1, h.2.1, h.2.2.1, h.2.2.2⟩⟩

/-! ### the hypotheses are satisfiable, the statements are not vacuous

  `N = 2` (`k = 0`), `K = ℚ`, `ζ = i`, `ζi = −i`, the all-reference module `exC`, the `1 × 1` matrix `M = (3 + 4X)`,
  the vector `a = (1 + 2X)`, `rsz = 1` DFT-space limb, `rsz2 = 2` output limbs: every hypothesis of the exactness
  theorem holds (`exVCfgOk`, `exVmpOk`: all flags of the flagged stage runs, `Lemmas/VmpErrExample.lean`), its
  conclusion is the evaluated model; the second output limb is a zero column.  (For `m ≥ 2` the exact roots are
  irrational: `K = ℝ`, and the twiddle-accuracy hypotheses become statements about the stored tables, as in C01Err.) -/

example : dlimb (vecIdft (Cfg.parts exC) 2
      (vmpApplyDft (Cfg.parts exC) 1 #[1, 2] 1 2 (vmpPrepare (Cfg.parts exC) #[3, 4] 1 1) 1 1) 1) 0 (2 * 2 ^ 0) =
    isum (2 * 2 ^ 0) (min 1 1) (fun i => nmul (2 * 2 ^ 0) (limbOf #[1, 2] i 2 (2 * 2 ^ 0)) (matEntry #[3, 4] 1 (2 * 2 ^ 0) i 0)) :=
  vmp_exact_f64_partial (K := ℚ) exC 0 (by omega) z0 z0 z0 z0 exVCfgOk Ic (-Ic)
    (by simp [nsq, Ic]) (by simp) (by rw [mul_neg, Ic_sq, neg_neg])
    (fun ℓ d b h => by omega) (fun ℓ d b h => by omega) #[3, 4] 1 1 #[1, 2] 1 2 1 2 (by decide)
    (by
      intro i hi t ht
      have : i = 0 := by omega
      subst this
      rw [exLimb]
      have : t = 0 ∨ t = 1 := by omega
      rcases this with rfl | rfl <;> decide)
    (by
      intro i j hi hj t ht
      have : i = 0 := by omega
      have : j = 0 := by omega
      subst_vars
      rw [exEntry]
      have : t = 0 ∨ t = 1 := by omega
      rcases this with rfl | rfl <;> decide)
    0 (by decide) (by decide) (fun _ => by decide) exVmpOk (fun _ => 3) (fun _ => 5)
    (fun _ _ => by norm_num) (fun _ _ => by norm_num)
    (by
      intro i hi
      have : i = 0 := by omega
      subst this
      rw [exLimb]
      show ∑ t ∈ range 2, _ ≤ _; simp [sum_range_succ]; norm_num)
    (by
      intro i hi
      have : i = 0 := by omega
      subst this
      rw [exEntry]
      show ∑ t ∈ range 2, _ ≤ _; simp [sum_range_succ]; norm_num)
    (by
      intro i hi
      have : i = 0 := by omega
      subst this
      rw [exEntry]
      show _ ≤ ∑ t ∈ range 2, _; simp [sum_range_succ]; norm_num)
    (by
      rw [show min 1 1 = 1 from rfl, sum_range_one, exLimb, exEntry]
      show _ * ((∑ t ∈ range 2, _) * _ + _ * ∑ t ∈ range 2, _) < _
      unfold u64; simp [sum_range_succ]; norm_num)

/-- the second output limb (`j = 1 ≥ min ncols rsz`) is a zero column -/
example : dlimb (vecIdft (Cfg.parts exC) 2
      (vmpApplyDft (Cfg.parts exC) 1 #[1, 2] 1 2 (vmpPrepare (Cfg.parts exC) #[3, 4] 1 1) 1 1) 1) 1 (2 * 2 ^ 0) =
    Array.replicate (2 * 2 ^ 0) 0 :=
  vmp_zero_cols_f64 exC 0 (by omega) z0 z0 z0 z0 exVCfgOk #[3, 4] 1 1 #[1, 2] 1 2 1 2
    (by
      intro i j hi hj t ht
      have : i = 0 := by omega
      have : j = 0 := by omega
      subst_vars
      rw [exEntry]
      have : t = 0 ∨ t = 1 := by omega
      rcases this with rfl | rfl <;> decide)
    1 (by decide) (Or.inl (by decide))

/-- the same values, by evaluating the bit-exact model and the specification: `(1 + 2X)(3 + 4X) = −5 + 10X mod X² + 1` -/
example : vecIdft (Cfg.parts exC) 2
      (vmpApplyDft (Cfg.parts exC) 1 #[1, 2] 1 2 (vmpPrepare (Cfg.parts exC) #[3, 4] 1 1) 1 1) 1 = #[-5, 10, 0, 0] ∧
    isum (2 * 2 ^ 0) (min 1 1) (fun i => nmul (2 * 2 ^ 0) (limbOf #[1, 2] i 2 (2 * 2 ^ 0)) (matEntry #[3, 4] 1 (2 * 2 ^ 0) i 0))
      = #[-5, 10] := by
  constructor <;> decide +kernel

/-- the flag hypothesis of `dot_cols_err` is satisfiable: one row, `u = 3 + i`, `v = 2 + i` in every lane
    (`Numerics.lean`), reference and AVX2 one-column kernels -/
example : Ok ((Kern.run arithOk .ref1 1 ((Array.replicate 8 0).map lift) (exU.map lift) (exV.map lift)).getD (0 + 0) (lift 0)) ∧
    Ok ((Kern.run arithOk .avx1 1 ((Array.replicate 8 0).map lift) (exU.map lift) (exV.map lift)).getD (0 + 0) (lift 0)) :=
  ⟨ex_ref_ok, ex_avx2_ok⟩

/-! ## 4. no overflow from the magnitude box -/

/-- **`fft_no_overflow_of_box`** (the flag hypothesis `hok` of `C06Err.reim_fft_err`): forward reim transform of `2^k`
    complexes whose cells are bounded by `U₀` with `8^k·U₀ < 2^1023`, stored twiddles finite and bounded by 1
    (`TabOk`): the UNDERFLOW-only flags (`aU`) imply the full flags (`aOk`), and every output is a finite double
    bounded by `8^k·U₀`. -/
theorem fft_no_overflow_of_box (fma : Bool) (k : ℕ) (cN sN : ℕ → ℕ) (htab : TabOk cN sN) (data : Array ℕ)
    (hdata : data.size = 2 * 2 ^ k) (U0 : ℚ) (hU0 : 0 ≤ U0) (hd : ∀ p, p < 2 * 2 ^ k → |F64.val data[p]!| ≤ U0)
    (hT : 8 ^ k * U0 < 2 ^ 1023)
    (hokU : ∀ p, p < 2 * 2 ^ k →
      ((Fft.reimFftA (famOf fma aU) (2 ^ k) ((((Fft.reimFftEnts (2 ^ k)).map (Fft.SchedN.valP cN sN)).toArray).map lift)
        (data.map lift))[p]!).2) :
    ∀ p, p < 2 * 2 ^ k →
      ((Fft.reimFftA (famOf fma aOk) (2 ^ k) ((((Fft.reimFftEnts (2 ^ k)).map (Fft.SchedN.valP cN sN)).toArray).map lift)
        (data.map lift))[p]!).2 ∧
      Fin64 ((Fft.reimFft (if fma then "fma" else "ref") (2 ^ k) (tabF k cN sN) data)[p]!) ∧
      |F64.val ((Fft.reimFft (if fma then "fma" else "ref") (2 ^ k) (tabF k cN sN) data)[p]!)| ≤ 8 ^ k * U0 :=
  fft_no_ovf' fma k cN sN htab data hdata U0 hU0 hd hT hokU

/-- **`ifft_no_overflow_of_box`** (the flag hypothesis of `C06Err.reim_ifft_err`): the same for the inverse transform -/
theorem ifft_no_overflow_of_box (fma : Bool) (k : ℕ) (cN sN : ℕ → ℕ) (htab : TabOk cN sN) (data : Array ℕ)
    (hdata : data.size = 2 * 2 ^ k) (U0 : ℚ) (hU0 : 0 ≤ U0) (hd : ∀ p, p < 2 * 2 ^ k → |F64.val data[p]!| ≤ U0)
    (hT : 8 ^ k * U0 < 2 ^ 1023)
    (hokU : ∀ p, p < 2 * 2 ^ k →
      ((Fft.reimIfftA (ifamOf fma aU) (2 ^ k) ((((Fft.reimIfftEnts (2 ^ k)).map (Fft.SchedN.valP cN sN)).toArray).map lift)
        (data.map lift))[p]!).2) :
    ∀ p, p < 2 * 2 ^ k →
      ((Fft.reimIfftA (ifamOf fma aOk) (2 ^ k) ((((Fft.reimIfftEnts (2 ^ k)).map (Fft.SchedN.valP cN sN)).toArray).map lift)
        (data.map lift))[p]!).2 ∧
      Fin64 ((Fft.reimIfft (if fma then "fma" else "ref") (2 ^ k) (tabI k cN sN) data)[p]!) ∧
      |F64.val ((Fft.reimIfft (if fma then "fma" else "ref") (2 ^ k) (tabI k cN sN) data)[p]!)| ≤ 8 ^ k * U0 :=
  ifft_no_ovf' fma k cN sN htab data hdata U0 hU0 hd hT hokU

/-- **`mul_no_overflow_of_box`** (the flag hypothesis of `C01Err.mul_err`): pointwise product of two DFT-space vectors
    bounded by `Ua`, `Ub` with `4·Ua·Ub < 2^1023` -/
theorem mul_no_overflow_of_box (fma : Bool) (m : ℕ) (hm : fma = true → m % 4 = 0) (a b : Array ℕ) (Ua Ub : ℚ)
    (hUa : 0 ≤ Ua) (hUb : 0 ≤ Ub) (ha : ∀ p, p < 2 * m → |F64.val (a.getD p 0)| ≤ Ua)
    (hb : ∀ p, p < 2 * m → |F64.val (b.getD p 0)| ≤ Ub) (hT : 4 * (Ua * Ub) < 2 ^ 1023)
    (hokU : ∀ p, p < 2 * m → ((mulA arithU fma m (a.map lift) (b.map lift)).getD p arithU.zero).2) :
    ∀ p, p < 2 * m →
      ((mulA arithOk fma m (a.map lift) (b.map lift)).getD p arithOk.zero).2 ∧
      Fin64 ((mulA F64.arith fma m a b).getD p 0) ∧ |F64.val ((mulA F64.arith fma m a b).getD p 0)| ≤ 4 * (Ua * Ub) :=
  mul_no_ovf fma m hm a b Ua Ub hUa hUb ha hb hT hokU

/-- **`no_overflow_of_box`**: for the whole `fft64_znx_small_single_product` pipeline (every `k ≤ 100`, i.e. far
    beyond the supported `N`), inputs in the coefficient box `|a_i|, |b_i| < 2^50`, stored twiddles of both tables
    finite and bounded by 1: the UNDERFLOW-only flags of the four stages (`PipeOkU`) imply the full flag hypothesis
    `PipeOk` of `C01Err` — no intermediate result can overflow; only the underflow side condition remains. -/
theorem no_overflow_of_box (c : Cfg) (k : ℕ) (hk : k ≤ 100) (cN sN cNi sNi : ℕ → ℕ) (h : CfgOk c k cN sN cNi sNi)
    (htab : TabOk cN sN) (htabi : TabOk cNi sNi) (a b : Array Int)
    (ha : ∀ i, i < 2 * 2 ^ k → -1125899906842624 < a.getD i 0 ∧ a.getD i 0 < 1125899906842624)
    (hb : ∀ i, i < 2 * 2 ^ k → -1125899906842624 < b.getD i 0 ∧ b.getD i 0 < 1125899906842624)
    (hok : PipeOkU c k cN sN cNi sNi a b) : PipeOk c k cN sN cNi sNi a b :=
  pipe_no_ovf c k hk cN sN cNi sNi h htab htabi a b ha hb hok

/-- the underflow-only flag of an operation, spelled out for the addition: flagged operands and an exact result that
    is 0 or at least `2^-1022` in magnitude (`arithOk` demands in addition `< 2^1024·(1 − 2^-54)`) -/
example (x y : ℕ × Prop) :
    (arithU.add x y).2 = (x.2 ∧ y.2 ∧ (F64.val x.1 + F64.val y.1 = 0 ∨ minNormal ≤ |F64.val x.1 + F64.val y.1|)) := rfl

/-- **`small_product_exact_f64_noovf_partial`**: `C01Err.small_product_exact_f64_partial` with ONLY the underflow side
    condition left of the flag hypothesis. -/
theorem small_product_exact_f64_noovf_partial {K : Type} [Field K] [LinearOrder K] [IsStrictOrderedRing K]
    (c : Cfg) (k : ℕ) (hk : k ≤ 16) (cN sN cNi sNi : ℕ → ℕ)
    (h : CfgOk c k cN sN cNi sNi) (htab : TabOk cN sN) (htabi : TabOk cNi sNi)
    (ζ ζi : Cplx K) (hζ : nsq ζ = 1) (hI : ζ ^ 2 ^ k = Ic) (hinv : ζ * ζi = 1)
    (hcs : ∀ ℓ d b, ℓ + d + 1 = k → b < 2 ^ ℓ →
      nsq (toC (((F64.val (cN (twE ℓ d b)) : ℚ) : K), ((F64.val (sN (twE ℓ d b)) : ℚ) : K)) - ζ ^ twE ℓ d b) ≤
        (((7 / 2 * u64 : ℚ)) : K) ^ 2)
    (hcsi : ∀ ℓ d b, ℓ + d + 1 = k → b < 2 ^ ℓ →
      nsq (toC (((F64.val (cNi (twE ℓ d b)) : ℚ) : K), ((F64.val (sNi (twE ℓ d b)) : ℚ) : K)) - ζi ^ twE ℓ d b) ≤
        (((7 / 2 * u64 : ℚ)) : K) ^ 2)
    (a b : Array Int)
    (ha : ∀ i, i < 2 * 2 ^ k → -1125899906842624 < a.getD i 0 ∧ a.getD i 0 < 1125899906842624)
    (hb : ∀ i, i < 2 * 2 ^ k → -1125899906842624 < b.getD i 0 ∧ b.getD i 0 < 1125899906842624)
    (hok : PipeOkU c k cN sN cNi sNi a b)
    (na nb : K) (hna0 : 0 ≤ na) (hnb0 : 0 ≤ nb)
    (hna : ∑ t ∈ range (2 * 2 ^ k), ((a.getD t 0 : Int) : K) ^ 2 ≤ na ^ 2)
    (hnb : ∑ t ∈ range (2 * 2 ^ k), ((b.getD t 0 : Int) : K) ^ 2 ≤ nb ^ 2)
    (hnl : nb ≤ ∑ t ∈ range (2 * 2 ^ k), |((b.getD t 0 : Int) : K)|)
    (hE : ((12 * (k + 1 : ℚ) * u64 : ℚ) : K) *
        ((∑ t ∈ range (2 * 2 ^ k), |((a.getD t 0 : Int) : K)|) * nb + na * ∑ t ∈ range (2 * 2 ^ k), |((b.getD t 0 : Int) : K)|)
      < 1 / 2) :
    smallProduct (Cfg.parts c) a b = nmul (2 * 2 ^ k) a b :=
  C01Err.small_product_exact_f64_partial c k hk cN sN cNi sNi h ζ ζi hζ hI hinv hcs hcsi a b ha hb
    (pipe_no_ovf c k (by omega) cN sN cNi sNi h htab htabi a b ha hb hok) na nb hna0 hnb0 hna hnb hnl hE

/-- the hypotheses of `no_overflow_of_box` are satisfiable (the instance of `ProdErrExample.lean`) -/
example : PipeOk exC 0 z0 z0 z0 z0 #[1, 2] #[3, 4] :=
  no_overflow_of_box exC 0 (by omega) z0 z0 z0 z0 exCfgOk exTabOk exTabOk #[1, 2] #[3, 4]
    (by intro i hi; have : i = 0 ∨ i = 1 := by omega
        rcases this with rfl | rfl <;> decide)
    (by intro i hi; have : i = 0 ∨ i = 1 := by omega
        rcases this with rfl | rfl <;> decide)
    exPipeOkU

/-- **`vmp_no_overflow_of_box`**: for the vector-matrix product (`k ≤ 64`, `n = min nrows asz ≤ 2^25 − 1` rows, both
    layouts, all four accumulation orders), coefficients in the box `< 2^50`, stored twiddles of both tables finite and
    bounded by 1: the UNDERFLOW-only flags of the four stages of column `j` (`VmpOkU`: forward transforms, accumulation
    `vmpFlagU`, inverse transform) imply the full flag hypothesis `VmpOk` of `vmp_err_partial` — no exact intermediate
    result exceeds `2^(130+9k) < 2^1023`. -/
theorem vmp_no_overflow_of_box (c : Cfg) (k : ℕ) (hk : k ≤ 64) (cN sN cNi sNi : ℕ → ℕ) (h : VCfgOk c k cN sN cNi sNi)
    (htab : TabOk cN sN) (htabi : TabOk cNi sNi)
    (mat : Array Int) (nrows ncols : ℕ) (a : Array Int) (asz asl rsz : ℕ) (hn : 2 * min nrows asz + 2 ≤ 67108864)
    (hA : ∀ i, i < min nrows asz → ∀ t, t < 2 * 2 ^ k →
      -1125899906842624 < (limbOf a i asl (2 * 2 ^ k)).getD t 0 ∧ (limbOf a i asl (2 * 2 ^ k)).getD t 0 < 1125899906842624)
    (hM : ∀ i j, i < nrows → j < ncols → ∀ t, t < 2 * 2 ^ k →
      -1125899906842624 < (matEntry mat ncols (2 * 2 ^ k) i j).getD t 0 ∧
        (matEntry mat ncols (2 * 2 ^ k) i j).getD t 0 < 1125899906842624)
    (j : ℕ) (hj : j < min ncols rsz) (hpos : k < 2 → 0 < min nrows asz)
    (hok : VmpOkU c k cN sN cNi sNi mat nrows ncols a asz asl rsz j) :
    VmpOk c k cN sN cNi sNi mat nrows ncols a asz asl rsz j :=
  vmp_no_ovf c k hk cN sN cNi sNi h htab htabi mat nrows ncols a asz asl rsz hn hA hM j hj hpos hok

/-- **`vmp_exact_f64_noovf_partial`**: `vmp_exact_f64_partial` with ONLY the underflow side condition left of the flag
    hypothesis: dispatch, twiddle accuracy and magnitude of both tables, box, underflow-only flags, and
    `E_sum < 1/2` ⇒ the binary64 pipeline returns exactly `Σ_{i<n} a_i ⊛ M[i][j]`. -/
theorem vmp_exact_f64_noovf_partial {K : Type} [Field K] [LinearOrder K] [IsStrictOrderedRing K]
    (c : Cfg) (k : ℕ) (hk : k ≤ 16) (cN sN cNi sNi : ℕ → ℕ) (h : VCfgOk c k cN sN cNi sNi)
    (htab : TabOk cN sN) (htabi : TabOk cNi sNi)
    (ζ ζi : Cplx K) (hζ : nsq ζ = 1) (hI : ζ ^ 2 ^ k = Ic) (hinv : ζ * ζi = 1)
    (hcs : ∀ ℓ d b, ℓ + d + 1 = k → b < 2 ^ ℓ →
      nsq (toC (((F64.val (cN (twE ℓ d b)) : ℚ) : K), ((F64.val (sN (twE ℓ d b)) : ℚ) : K)) - ζ ^ twE ℓ d b) ≤
        (((7 / 2 * u64 : ℚ)) : K) ^ 2)
    (hcsi : ∀ ℓ d b, ℓ + d + 1 = k → b < 2 ^ ℓ →
      nsq (toC (((F64.val (cNi (twE ℓ d b)) : ℚ) : K), ((F64.val (sNi (twE ℓ d b)) : ℚ) : K)) - ζi ^ twE ℓ d b) ≤
        (((7 / 2 * u64 : ℚ)) : K) ^ 2)
    (mat : Array Int) (nrows ncols : ℕ) (a : Array Int) (asz asl rsz rsz2 : ℕ)
    (hn : 2 * min nrows asz + 2 ≤ 67108864)
    (hA : ∀ i, i < min nrows asz → ∀ t, t < 2 * 2 ^ k →
      -1125899906842624 < (limbOf a i asl (2 * 2 ^ k)).getD t 0 ∧ (limbOf a i asl (2 * 2 ^ k)).getD t 0 < 1125899906842624)
    (hM : ∀ i j, i < nrows → j < ncols → ∀ t, t < 2 * 2 ^ k →
      -1125899906842624 < (matEntry mat ncols (2 * 2 ^ k) i j).getD t 0 ∧
        (matEntry mat ncols (2 * 2 ^ k) i j).getD t 0 < 1125899906842624)
    (j : ℕ) (hj : j < min ncols rsz) (hj2 : j < rsz2) (hpos : k < 2 → 0 < min nrows asz)
    (hok : VmpOkU c k cN sN cNi sNi mat nrows ncols a asz asl rsz j)
    (na nb : ℕ → K) (hna0 : ∀ i, i < min nrows asz → 0 ≤ na i) (hnb0 : ∀ i, i < min nrows asz → 0 ≤ nb i)
    (hna : ∀ i, i < min nrows asz →
      ∑ t ∈ range (2 * 2 ^ k), (((limbOf a i asl (2 * 2 ^ k)).getD t 0 : Int) : K) ^ 2 ≤ na i ^ 2)
    (hnb : ∀ i, i < min nrows asz →
      ∑ t ∈ range (2 * 2 ^ k), (((matEntry mat ncols (2 * 2 ^ k) i j).getD t 0 : Int) : K) ^ 2 ≤ nb i ^ 2)
    (hnl : ∀ i, i < min nrows asz →
      nb i ≤ ∑ t ∈ range (2 * 2 ^ k), |(((matEntry mat ncols (2 * 2 ^ k) i j).getD t 0 : Int) : K)|)
    (hE : (((12 * (k + 1 : ℚ) + 2 * (min nrows asz : ℕ) + 3) * u64 : ℚ) : K) *
          ∑ i ∈ range (min nrows asz),
            ((∑ t ∈ range (2 * 2 ^ k), |(((limbOf a i asl (2 * 2 ^ k)).getD t 0 : Int) : K)|) * nb i +
              na i * ∑ t ∈ range (2 * 2 ^ k), |(((matEntry mat ncols (2 * 2 ^ k) i j).getD t 0 : Int) : K)|)
        < 1 / 2) :
    dlimb (vecIdft (Cfg.parts c) rsz2
        (vmpApplyDft (Cfg.parts c) rsz a asz asl (vmpPrepare (Cfg.parts c) mat nrows ncols) nrows ncols) rsz) j (2 * 2 ^ k) =
      isum (2 * 2 ^ k) (min nrows asz)
        (fun i => nmul (2 * 2 ^ k) (limbOf a i asl (2 * 2 ^ k)) (matEntry mat ncols (2 * 2 ^ k) i j)) :=
  vmp_exact_col c k hk cN sN cNi sNi h ζ ζi hζ hI hinv hcs hcsi mat nrows ncols a asz asl rsz rsz2 hn hA hM j hj hj2 hpos
    (vmp_no_ovf c k (by omega) cN sN cNi sNi h htab htabi mat nrows ncols a asz asl rsz hn hA hM j hj hpos hok)
    na nb hna0 hnb0 hna hnb hnl hE

/-- the hypotheses of `vmp_no_overflow_of_box` are satisfiable (the instance of item 3) -/
example : VmpOk exC 0 z0 z0 z0 z0 #[3, 4] 1 1 #[1, 2] 1 2 1 0 :=
  vmp_no_overflow_of_box exC 0 (by omega) z0 z0 z0 z0 exVCfgOk exTabOk exTabOk #[3, 4] 1 1 #[1, 2] 1 2 1 (by decide)
    (by
      intro i hi t ht
      have : i = 0 := by omega
      subst this
      rw [exLimb]
      have : t = 0 ∨ t = 1 := by omega
      rcases this with rfl | rfl <;> decide)
    (by
      intro i j hi hj t ht
      have : i = 0 := by omega
      have : j = 0 := by omega
      subst_vars
      rw [exEntry]
      have : t = 0 ∨ t = 1 := by omega
      rcases this with rfl | rfl <;> decide)
    0 (by decide) (fun _ => by decide) exVmpOkU

end Spq.C02Err
