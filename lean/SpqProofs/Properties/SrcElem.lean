/-
  SrcElem: the C SOURCE equals the hand-written model, for all inputs — element-wise kernels znx_add/sub/negate/copy/zero_i64_ref (property C08: the per-limb kernels of the vec_znx operations).
  Split of the translator-based tie (agent T); conventions of the statements:
  Conventions of the statements:
  * `mem : Mem` is the whole memory (array of buffers of 64-bit cells); pointer parameter `i` is bound to
    `some (b, 0)` = start of buffer `b`; the buffers passed have EXACTLY `nn` cells (`(buf mem b).size = nn`);
  * buffer indices may coincide where the C contract allows aliasing (element-wise kernels: any aliasing);
  * `∀ fuel, F nn ≤ fuel → …`: explicit sufficient fuel (one unit per loop iteration);
  * `src_<f>_no_oob`: for EVERY fuel the run is not an out-of-bounds / null / overlap / ub / unsupported error
    (it is the model result, or `Err.fuel` when the fuel is below the bound).
-/
import Gen.CSrc
import Spq.Coeffs
import SpqProofs.Lemmas.SrcFill
import SpqProofs.Lemmas.SrcFuel
import SpqProofs.Lemmas.SrcTac
import SpqProofs.Lemmas.SrcNorm
namespace Spq.Src
open Spq Spq.CIR

/-! ### element-wise kernels: any aliasing between `res`, `a`, `b` -/

theorem src_znx_add_i64_ref_eq_model (nn : Nat) (hnn : nn < 18446744073709551616) (mem : Mem) (r a b : Nat)
    (hr : (buf mem r).size = nn) (ha : (buf mem a).size = nn) (hb : (buf mem b).size = nn) :
    ∀ fuel, nn ≤ fuel →
      run fuel Gen.CSrc.znx_add_i64_ref [(nn : Int)] [some (r, 0), some (a, 0), some (b, 0)] mem
        = .ok (mem.setIfInBounds r (Coeffs.add i64Ops nn (buf mem a) (buf mem b))) := by
  intro fuel hf
  cir_enter Gen.CSrc.znx_add_i64_ref
  rw [fill_for _ _ _ _ _ _ _ mem mem r (fun i => addS ((buf mem a).getD i 0) ((buf mem b).getD i 0)) 0 nn
    (set_fill_zero _ _ _).symm rfl (Nat.zero_le _) (by omega) hnn (by simp) ?he0 ?hhi ?he fuel (by omega)]
  case he0 => rfl
  case hhi => intro k _ _; rfl
  case he =>
    intro k _ hk
    cir_simp
    rw [load_fill _ _ _ _ _ _ (by omega) (Nat.le_refl _)]; cir_simp
    rw [load_fill _ _ _ _ _ _ (by omega) (Nat.le_refl _)]; cir_simp
  rw [fillMem_all _ _ _ _ hr]
  rfl

theorem src_znx_sub_i64_ref_eq_model (nn : Nat) (hnn : nn < 18446744073709551616) (mem : Mem) (r a b : Nat)
    (hr : (buf mem r).size = nn) (ha : (buf mem a).size = nn) (hb : (buf mem b).size = nn) :
    ∀ fuel, nn ≤ fuel →
      run fuel Gen.CSrc.znx_sub_i64_ref [(nn : Int)] [some (r, 0), some (a, 0), some (b, 0)] mem
        = .ok (mem.setIfInBounds r (Coeffs.sub i64Ops nn (buf mem a) (buf mem b))) := by
  intro fuel hf
  cir_enter Gen.CSrc.znx_sub_i64_ref
  rw [fill_for _ _ _ _ _ _ _ mem mem r (fun i => subS ((buf mem a).getD i 0) ((buf mem b).getD i 0)) 0 nn
    (set_fill_zero _ _ _).symm rfl (Nat.zero_le _) (by omega) hnn (by simp) ?he0 ?hhi ?he fuel (by omega)]
  case he0 => rfl
  case hhi => intro k _ _; rfl
  case he =>
    intro k _ hk
    cir_simp
    rw [load_fill _ _ _ _ _ _ (by omega) (Nat.le_refl _)]; cir_simp
    rw [load_fill _ _ _ _ _ _ (by omega) (Nat.le_refl _)]; cir_simp
  rw [fillMem_all _ _ _ _ hr]
  rfl

theorem src_znx_negate_i64_ref_eq_model (nn : Nat) (hnn : nn < 18446744073709551616) (mem : Mem) (r a : Nat)
    (hr : (buf mem r).size = nn) (ha : (buf mem a).size = nn) :
    ∀ fuel, nn ≤ fuel →
      run fuel Gen.CSrc.znx_negate_i64_ref [(nn : Int)] [some (r, 0), some (a, 0)] mem
        = .ok (mem.setIfInBounds r (Coeffs.negate i64Ops nn (buf mem a))) := by
  intro fuel hf
  cir_enter Gen.CSrc.znx_negate_i64_ref
  rw [fill_for _ _ _ _ _ _ _ mem mem r (fun i => negS ((buf mem a).getD i 0)) 0 nn
    (set_fill_zero _ _ _).symm rfl (Nat.zero_le _) (by omega) hnn (by simp) ?he0 ?hhi ?he fuel (by omega)]
  case he0 => rfl
  case hhi => intro k _ _; rfl
  case he =>
    intro k _ hk
    cir_simp
    rw [load_fill _ _ _ _ _ _ (by omega) (Nat.le_refl _)]; cir_simp
  rw [fillMem_all _ _ _ _ hr]
  rfl

/-! ### `memcpy` / `memset` bodies.  The byte count `nn * sizeof(int64_t)` is computed in `uint64_t`: the
    statement needs `nn < 2^61` (for larger `nn` the product wraps and the C code copies fewer cells). -/

theorem src_znx_copy_i64_ref_eq_model (nn : Nat) (hnn : nn < 2305843009213693952) (mem : Mem) (r a : Nat)
    (hr : (buf mem r).size = nn) (ha : (buf mem a).size = nn) :
    ∀ fuel, run fuel Gen.CSrc.znx_copy_i64_ref [(nn : Int)] [some (r, 0), some (a, 0)] mem
        = .ok (mem.setIfInBounds r (Coeffs.copy i64Ops nn (buf mem a))) := by
  intro fuel
  cir_enter Gen.CSrc.znx_copy_i64_ref
  cir_simp
  have e : ((nn : Int) * 8) % 18446744073709551616 = ((8 * nn : Nat) : Int) := by omega
  rw [e]
  have h1 : ¬ ((((8 * nn : Nat) : Int) < 0) ∨ ((8 * nn : Nat) : Int) % 8 ≠ 0) := by omega
  have h2 : ((((8 * nn : Nat) : Int)) / 8).toNat = nn := by omega
  simp only [memcpyCells, h1, h2, if_false, hr, ha, Nat.zero_add, Nat.le_refl, and_self, if_true, ne_eq,
    not_true_eq_false, false_and, and_false, R.bind_ok, blit_all _ _ _ hr]
  rfl

theorem src_znx_zero_i64_ref_eq_model (nn : Nat) (hnn : nn < 2305843009213693952) (mem : Mem) (r : Nat)
    (hr : (buf mem r).size = nn) :
    ∀ fuel, run fuel Gen.CSrc.znx_zero_i64_ref [(nn : Int)] [some (r, 0)] mem
        = .ok (mem.setIfInBounds r (Coeffs.zero i64Ops nn)) := by
  intro fuel
  cir_enter Gen.CSrc.znx_zero_i64_ref
  cir_simp
  have e : ((nn : Int) * 8) % 18446744073709551616 = ((8 * nn : Nat) : Int) := by omega
  rw [e]
  have h1 : ¬ ((((8 * nn : Nat) : Int) < 0) ∨ ((8 * nn : Nat) : Int) % 8 ≠ 0 ∨ Ty.bits .i64 ≠ 64) := by
    simp only [Ty.bits]; omega
  have h2 : ((((8 * nn : Nat) : Int)) / 8).toNat = nn := by omega
  simp only [memsetCells, h1, h2, if_false, hr, Nat.zero_add, Nat.le_refl, if_true, R.bind_ok,
    fill_all _ _ _ hr, memsetPattern_i64_zero]
  rfl

/-! ### no out-of-bounds access, for every fuel -/

theorem src_znx_add_i64_ref_no_oob (nn : Nat) (hnn : nn < 18446744073709551616) (mem : Mem) (r a b : Nat)
    (hr : (buf mem r).size = nn) (ha : (buf mem a).size = nn) (hb : (buf mem b).size = nn) :
    ∀ fuel e, e ≠ .fuel →
      run fuel Gen.CSrc.znx_add_i64_ref [(nn : Int)] [some (r, 0), some (a, 0), some (b, 0)] mem ≠ .err e :=
  run_no_other_error _ _ _ _ _ nn (src_znx_add_i64_ref_eq_model nn hnn mem r a b hr ha hb)

theorem src_znx_sub_i64_ref_no_oob (nn : Nat) (hnn : nn < 18446744073709551616) (mem : Mem) (r a b : Nat)
    (hr : (buf mem r).size = nn) (ha : (buf mem a).size = nn) (hb : (buf mem b).size = nn) :
    ∀ fuel e, e ≠ .fuel →
      run fuel Gen.CSrc.znx_sub_i64_ref [(nn : Int)] [some (r, 0), some (a, 0), some (b, 0)] mem ≠ .err e :=
  run_no_other_error _ _ _ _ _ nn (src_znx_sub_i64_ref_eq_model nn hnn mem r a b hr ha hb)

theorem src_znx_negate_i64_ref_no_oob (nn : Nat) (hnn : nn < 18446744073709551616) (mem : Mem) (r a : Nat)
    (hr : (buf mem r).size = nn) (ha : (buf mem a).size = nn) :
    ∀ fuel e, e ≠ .fuel →
      run fuel Gen.CSrc.znx_negate_i64_ref [(nn : Int)] [some (r, 0), some (a, 0)] mem ≠ .err e :=
  run_no_other_error _ _ _ _ _ nn (src_znx_negate_i64_ref_eq_model nn hnn mem r a hr ha)

theorem src_znx_copy_i64_ref_no_oob (nn : Nat) (hnn : nn < 2305843009213693952) (mem : Mem) (r a : Nat)
    (hr : (buf mem r).size = nn) (ha : (buf mem a).size = nn) :
    ∀ fuel e, e ≠ .fuel →
      run fuel Gen.CSrc.znx_copy_i64_ref [(nn : Int)] [some (r, 0), some (a, 0)] mem ≠ .err e :=
  run_no_other_error _ _ _ _ _ 0 (fun fuel _ => src_znx_copy_i64_ref_eq_model nn hnn mem r a hr ha fuel)

theorem src_znx_zero_i64_ref_no_oob (nn : Nat) (hnn : nn < 2305843009213693952) (mem : Mem) (r : Nat)
    (hr : (buf mem r).size = nn) :
    ∀ fuel e, e ≠ .fuel → run fuel Gen.CSrc.znx_zero_i64_ref [(nn : Int)] [some (r, 0)] mem ≠ .err e :=
  run_no_other_error _ _ _ _ _ 0 (fun fuel _ => src_znx_zero_i64_ref_eq_model nn hnn mem r hr fuel)


end Spq.Src
