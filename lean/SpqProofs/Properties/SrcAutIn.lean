/-
  SrcAutIn: the C SOURCE of the in-place automorphism kernels (`znx_automorphism_inplace_i64`,
  `rnx_automorphism_inplace_f64`), translated on every run, equals the model `Coeffs.automorphismInplace`
  (the function `Properties/C09.lean` proves equal to the out-of-place automorphism) for every `nn = 2^t`
  (`t ≤ 62`), every ODD `p` (the C contract; for even `p` the orbit walk need not terminate), all buffer contents.

  Structure of the proof: the level loop (`for (binval = 1, vp, orb_size; binval < nn; binval <<= 1, …)` with
  `return` / `continue` in its body) is simulated against `Coeffs.autLevels` by `memOf_loopN_levels`; the three
  strided loops of the special cases are `Coeffs.stepRange` folds; the general case is the paired orbit walk
  (nested `while` / `do … while`), whose termination is proved (`p^nn ≡ 1 (mod nn)` for odd `p`).
  Fuel `3*nn + 64`.
-/
import SpqProofs.Lemmas.SrcAutInTac
import SpqProofs.Lemmas.SrcFuel
namespace Spq.Src
open Spq Spq.CIR

theorem src_znx_automorphism_inplace_i64_eq_model (t : Nat) (ht : t ≤ 62) (nn : Nat) (hnn : nn = 2 ^ t) (p : Int)
    (hp : p % 2 = 1) (mem : Mem) (r : Nat) (hr : (buf mem r).size = nn) :
    ∀ fuel, 3 * nn + 64 ≤ fuel →
      run fuel Gen.CSrc.znx_automorphism_inplace_i64 [(nn : Int), p] [some (r, 0)] mem
        = .ok (mem.setIfInBounds r (Coeffs.automorphismInplace i64Ops nn p (buf mem r))) := by
  src_autin_proof Gen.CSrc.znx_automorphism_inplace_i64 i64Ops zaut_case1 zaut_case2 zaut_case3 zaut_case4 zaut_case5

theorem src_rnx_automorphism_inplace_f64_eq_model (t : Nat) (ht : t ≤ 62) (nn : Nat) (hnn : nn = 2 ^ t) (p : Int)
    (hp : p % 2 = 1) (mem : Mem) (r : Nat) (hr : (buf mem r).size = nn) :
    ∀ fuel, 3 * nn + 64 ≤ fuel →
      run fuel Gen.CSrc.rnx_automorphism_inplace_f64 [(nn : Int), p] [some (r, 0)] mem
        = .ok (mem.setIfInBounds r (Coeffs.automorphismInplace f64Ops nn p (buf mem r))) := by
  src_autin_proof Gen.CSrc.rnx_automorphism_inplace_f64 f64Ops raut_case1 raut_case2 raut_case3 raut_case4 raut_case5

theorem src_znx_automorphism_inplace_i64_no_oob (t : Nat) (ht : t ≤ 62) (nn : Nat) (hnn : nn = 2 ^ t) (p : Int)
    (hp : p % 2 = 1) (mem : Mem) (r : Nat) (hr : (buf mem r).size = nn) :
    ∀ fuel e, e ≠ .fuel →
      run fuel Gen.CSrc.znx_automorphism_inplace_i64 [(nn : Int), p] [some (r, 0)] mem ≠ .err e :=
  run_no_other_error _ _ _ _ _ (3 * nn + 64) (src_znx_automorphism_inplace_i64_eq_model t ht nn hnn p hp mem r hr)

theorem src_rnx_automorphism_inplace_f64_no_oob (t : Nat) (ht : t ≤ 62) (nn : Nat) (hnn : nn = 2 ^ t) (p : Int)
    (hp : p % 2 = 1) (mem : Mem) (r : Nat) (hr : (buf mem r).size = nn) :
    ∀ fuel e, e ≠ .fuel →
      run fuel Gen.CSrc.rnx_automorphism_inplace_f64 [(nn : Int), p] [some (r, 0)] mem ≠ .err e :=
  run_no_other_error _ _ _ _ _ (3 * nn + 64) (src_rnx_automorphism_inplace_f64_eq_model t ht nn hnn p hp mem r hr)

end Spq.Src
