/-
  SrcReim4: the C SOURCE equals the hand-written model, for all inputs — the reference reim4 block kernels of
  spqlios/reim4/reim4_arithmetic_ref.c that property C17 is about (source tie stage 7):
  `reim4_extract_1blk_from_reim_ref`, `reim4_save_1blk_to_reim_ref`, `reim4_extract_1blk_from_contiguous_reim_ref`
  (layout-only kernels: pure copies of binary64 cells, no arithmetic).

  Conventions of the statements (as in `Properties/SrcElem.lean`):
  * `mem : Mem` is the whole memory; `dst` is bound to `some (d, 0)`, `src` to `some (s, 0)`; the buffers have EXACTLY the
    size of the C contract (a block = 8 cells, a reim vector = `2m` cells, `nrows` contiguous reim vectors = `2·m·nrows` cells,
    `nrows` blocks = `8·nrows` cells);
  * aliasing allowed: NONE — `dst` and `src` are distinct buffers (`s ≠ d`);
  * `blk < m/4` (the C `assert`) is stated as `4·blk + 4 ≤ m`; `2m < 2^64`;
  * the model functions are `Spq.Reim4.extract1blkFromReimRef`, `save1blkToReimRef`, `extract1blkFromContiguousReimRef`
    (`Spq/Reim4.lean`) on cells (`Int` patterns, out-of-range default `0`);
  * straight-line kernels need no fuel; the loop of the contiguous extraction needs `2·nrows`;
  * `src_<f>_no_oob`: for EVERY fuel the run is not an out-of-bounds / null / overlap / ub / unsupported error.
-/
import Gen.CSrc
import Spq.Reim4
import SpqProofs.Lemmas.SrcReim4
namespace Spq.Src
open Spq Spq.CIR Spq.Reim4

theorem src_reim4_extract_1blk_from_reim_ref_eq_model (m blk : Nat) (hm : 2 * m < 18446744073709551616)
    (hblk : 4 * blk + 4 ≤ m) (mem : Mem) (d s : Nat) (hsd : s ≠ d)
    (hd : (buf mem d).size = 8) (hs : (buf mem s).size = 2 * m) :
    ∀ fuel, run fuel Gen.CSrc.reim4_extract_1blk_from_reim_ref [(m : Int), (blk : Int)] [some (d, 0), some (s, 0)] mem
        = .ok (mem.setIfInBounds d (extract1blkFromReimRef (0 : Int) m blk (buf mem d) (buf mem s))) := by
  intro fuel
  cir_enter Gen.CSrc.reim4_extract_1blk_from_reim_ref
  have key : ∀ A : Array Int, A.size = (buf mem d).size →
      memOf (exec [some (d, 0), some (s, 0)] Gen.CSrc.reim4_extract_1blk_from_reim_ref.body fuel
        ⟨[(m : Int), (blk : Int), 0, 0], mem.setIfInBounds d A⟩)
        = .ok (mem.setIfInBounds d (extract1blkFromReimRef (0 : Int) m blk A (buf mem s))) := by
    intro A hA
    have eb : ((blk : Int) * 2 ^ (2 : Int).toNat) % 18446744073709551616 = ((4 * blk : Nat) : Int) := by
      have : (2 : Int).toNat = 2 := rfl
      rw [this]; omega
    have c2 : ((0 : Int) ≤ 2 ∧ (2 : Int) < 64) := by omega
    simp only [Gen.CSrc.reim4_extract_1blk_from_reim_ref, exec_seq, exec_passign, exec_store, eval_bin, eval_var,
      eval_lit, eval_pload, lget_zero, lget_succ, evalBin_shl_u64, c2, and_self, if_true, eb, R.bind_ok, seqK_norm,
      (fun env => ptrAt_param [some (d, 0), some (s, 0)] env 1 s 0 ((4 * blk : Nat) : Int) (4 * blk) rfl rfl),
      encPtr_some4, Nat.zero_add, Nat.add_zero, List.getD_cons_zero, List.getD_cons_succ]
    simp only [exec_seq, exec_passign, exec_store, eval_var, eval_lit, eval_pload, lget_zero, lget_succ, R.bind_ok, seqK_norm,
      encPtr_some4, Nat.add_zero, List.getD_cons_zero, Array.size_setIfInBounds, hA, memOf_ok,
      ptrAt_pvar [some (d, 0), some (s, 0)] [(m : Int), (blk : Int), (s : Int), ((4 * blk : Nat) : Int)] 2 s (4 * blk) 0 0 rfl rfl rfl,
      ptrAt_pvar [some (d, 0), some (s, 0)] [(m : Int), (blk : Int), (s : Int), ((4 * blk + m : Nat) : Int)] 2 s (4 * blk + m) 0 0 rfl rfl rfl,
      ptrAt_pvar [some (d, 0), some (s, 0)] [(m : Int), (blk : Int), (s : Int), ((4 * blk : Nat) : Int)] 2 s (4 * blk) 1 1 rfl rfl rfl,
      ptrAt_pvar [some (d, 0), some (s, 0)] [(m : Int), (blk : Int), (s : Int), ((4 * blk + m : Nat) : Int)] 2 s (4 * blk + m) 1 1 rfl rfl rfl,
      ptrAt_pvar [some (d, 0), some (s, 0)] [(m : Int), (blk : Int), (s : Int), ((4 * blk : Nat) : Int)] 2 s (4 * blk) 2 2 rfl rfl rfl,
      ptrAt_pvar [some (d, 0), some (s, 0)] [(m : Int), (blk : Int), (s : Int), ((4 * blk + m : Nat) : Int)] 2 s (4 * blk + m) 2 2 rfl rfl rfl,
      ptrAt_pvar [some (d, 0), some (s, 0)] [(m : Int), (blk : Int), (s : Int), ((4 * blk : Nat) : Int)] 2 s (4 * blk) 3 3 rfl rfl rfl,
      ptrAt_pvar [some (d, 0), some (s, 0)] [(m : Int), (blk : Int), (s : Int), ((4 * blk + m : Nat) : Int)] 2 s (4 * blk + m) 3 3 rfl rfl rfl,
      ptrAt_pvar [some (d, 0), some (s, 0)] [(m : Int), (blk : Int), (s : Int), ((4 * blk : Nat) : Int)] 2 s (4 * blk) (m : Int) m rfl rfl rfl,
      (fun A => loadAt_other mem d s A (4 * blk) hsd (by omega)),
      (fun A => loadAt_other mem d s A (4 * blk + m) hsd (by omega)),
      (fun A => loadAt_other mem d s A (4 * blk + 1) hsd (by omega)),
      (fun A => loadAt_other mem d s A (4 * blk + m + 1) hsd (by omega)),
      (fun A => loadAt_other mem d s A (4 * blk + 2) hsd (by omega)),
      (fun A => loadAt_other mem d s A (4 * blk + m + 2) hsd (by omega)),
      (fun A => loadAt_other mem d s A (4 * blk + 3) hsd (by omega)),
      (fun A => loadAt_other mem d s A (4 * blk + m + 3) hsd (by omega)),
      (fun A v hA => storeIdx_self mem d A 0 0 rfl v hA (by omega)),
      (fun A v hA => storeIdx_self mem d A 1 1 rfl v hA (by omega)),
      (fun A v hA => storeIdx_self mem d A 2 2 rfl v hA (by omega)),
      (fun A v hA => storeIdx_self mem d A 3 3 rfl v hA (by omega)),
      (fun A v hA => storeIdx_self mem d A 4 4 rfl v hA (by omega)),
      (fun A v hA => storeIdx_self mem d A 5 5 rfl v hA (by omega)),
      (fun A v hA => storeIdx_self mem d A 6 6 rfl v hA (by omega)),
      (fun A v hA => storeIdx_self mem d A 7 7 rfl v hA (by omega))]
    simp only [extract1blkFromReimRef, copy4, Nat.zero_add, Nat.add_zero, Nat.reduceAdd]
  have h := key (buf mem d) rfl
  rw [set_buf_self] at h
  exact h
theorem src_reim4_save_1blk_to_reim_ref_eq_model (m blk : Nat) (hm : 2 * m < 18446744073709551616)
    (hblk : 4 * blk + 4 ≤ m) (mem : Mem) (d s : Nat) (hsd : s ≠ d)
    (hd : (buf mem d).size = 2 * m) (hs : (buf mem s).size = 8) :
    ∀ fuel, run fuel Gen.CSrc.reim4_save_1blk_to_reim_ref [(m : Int), (blk : Int)] [some (d, 0), some (s, 0)] mem
        = .ok (mem.setIfInBounds d (save1blkToReimRef (0 : Int) m blk (buf mem d) (buf mem s))) := by
  intro fuel
  cir_enter Gen.CSrc.reim4_save_1blk_to_reim_ref
  have key : ∀ A : Array Int, A.size = (buf mem d).size →
      memOf (exec [some (d, 0), some (s, 0)] Gen.CSrc.reim4_save_1blk_to_reim_ref.body fuel
        ⟨[(m : Int), (blk : Int), 0, 0], mem.setIfInBounds d A⟩)
        = .ok (mem.setIfInBounds d (save1blkToReimRef (0 : Int) m blk A (buf mem s))) := by
    intro A hA
    have eb : ((blk : Int) * 2 ^ (2 : Int).toNat) % 18446744073709551616 = ((4 * blk : Nat) : Int) := by
      have : (2 : Int).toNat = 2 := rfl
      rw [this]; omega
    have c2 : ((0 : Int) ≤ 2 ∧ (2 : Int) < 64) := by omega
    simp only [Gen.CSrc.reim4_save_1blk_to_reim_ref, exec_seq, exec_passign, eval_bin, eval_var,
      eval_lit, lget_zero, lget_succ, evalBin_shl_u64, c2, and_self, if_true, eb, R.bind_ok, seqK_norm,
      (fun env => ptrAt_param [some (d, 0), some (s, 0)] env 0 d 0 ((4 * blk : Nat) : Int) (4 * blk) rfl rfl),
      encPtr_some4, Nat.zero_add]
    simp only [exec_seq, exec_passign, exec_pstore, eval_var, eval_lit, eval_load, lget_zero, lget_succ, R.bind_ok, seqK_norm,
      encPtr_some4, Nat.add_zero, List.getD_cons_zero, List.getD_cons_succ, Array.size_setIfInBounds, hA, memOf_ok,
      ptrAt_pvar [some (d, 0), some (s, 0)] [(m : Int), (blk : Int), (d : Int), ((4 * blk : Nat) : Int)] 2 d (4 * blk) 0 0 rfl rfl rfl,
      ptrAt_pvar [some (d, 0), some (s, 0)] [(m : Int), (blk : Int), (d : Int), ((4 * blk + m : Nat) : Int)] 2 d (4 * blk + m) 0 0 rfl rfl rfl,
      ptrAt_pvar [some (d, 0), some (s, 0)] [(m : Int), (blk : Int), (d : Int), ((4 * blk : Nat) : Int)] 2 d (4 * blk) 1 1 rfl rfl rfl,
      ptrAt_pvar [some (d, 0), some (s, 0)] [(m : Int), (blk : Int), (d : Int), ((4 * blk + m : Nat) : Int)] 2 d (4 * blk + m) 1 1 rfl rfl rfl,
      ptrAt_pvar [some (d, 0), some (s, 0)] [(m : Int), (blk : Int), (d : Int), ((4 * blk : Nat) : Int)] 2 d (4 * blk) 2 2 rfl rfl rfl,
      ptrAt_pvar [some (d, 0), some (s, 0)] [(m : Int), (blk : Int), (d : Int), ((4 * blk + m : Nat) : Int)] 2 d (4 * blk + m) 2 2 rfl rfl rfl,
      ptrAt_pvar [some (d, 0), some (s, 0)] [(m : Int), (blk : Int), (d : Int), ((4 * blk : Nat) : Int)] 2 d (4 * blk) 3 3 rfl rfl rfl,
      ptrAt_pvar [some (d, 0), some (s, 0)] [(m : Int), (blk : Int), (d : Int), ((4 * blk + m : Nat) : Int)] 2 d (4 * blk + m) 3 3 rfl rfl rfl,
      ptrAt_pvar [some (d, 0), some (s, 0)] [(m : Int), (blk : Int), (d : Int), ((4 * blk : Nat) : Int)] 2 d (4 * blk) (m : Int) m rfl rfl rfl,
      (fun A => loadIdx_other mem d s A 0 0 rfl hsd (by omega)),
      (fun A => loadIdx_other mem d s A 1 1 rfl hsd (by omega)),
      (fun A => loadIdx_other mem d s A 2 2 rfl hsd (by omega)),
      (fun A => loadIdx_other mem d s A 3 3 rfl hsd (by omega)),
      (fun A => loadIdx_other mem d s A 4 4 rfl hsd (by omega)),
      (fun A => loadIdx_other mem d s A 5 5 rfl hsd (by omega)),
      (fun A => loadIdx_other mem d s A 6 6 rfl hsd (by omega)),
      (fun A => loadIdx_other mem d s A 7 7 rfl hsd (by omega)),
      (fun A v hA => storeAt_self mem d A (4 * blk) v hA (by omega)),
      (fun A v hA => storeAt_self mem d A (4 * blk + m) v hA (by omega)),
      (fun A v hA => storeAt_self mem d A (4 * blk + 1) v hA (by omega)),
      (fun A v hA => storeAt_self mem d A (4 * blk + m + 1) v hA (by omega)),
      (fun A v hA => storeAt_self mem d A (4 * blk + 2) v hA (by omega)),
      (fun A v hA => storeAt_self mem d A (4 * blk + m + 2) v hA (by omega)),
      (fun A v hA => storeAt_self mem d A (4 * blk + 3) v hA (by omega)),
      (fun A v hA => storeAt_self mem d A (4 * blk + m + 3) v hA (by omega))]
    simp only [save1blkToReimRef, copy4, Nat.zero_add, Nat.add_zero, Nat.reduceAdd]
  have h := key (buf mem d) rfl
  rw [set_buf_self] at h
  exact h

theorem src_reim4_extract_1blk_from_contiguous_reim_ref_eq_model (m nrows blk : Nat) (hm0 : 2 * m < 18446744073709551616)
    (hn : 8 * nrows < 18446744073709551616) (hblk : 4 * blk + 4 ≤ m) (mem : Mem) (d s : Nat) (hsd : s ≠ d)
    (hd : (buf mem d).size = 8 * nrows) (hs : (buf mem s).size = 2 * m * nrows) :
    ∀ fuel, 2 * nrows ≤ fuel →
      run fuel Gen.CSrc.reim4_extract_1blk_from_contiguous_reim_ref [(m : Int), (nrows : Int), (blk : Int)]
          [some (d, 0), some (s, 0)] mem
        = .ok (mem.setIfInBounds d (extract1blkFromContiguousReimRef (0 : Int) m nrows blk (buf mem d) (buf mem s))) := by
  intro fuel hf
  cir_enter Gen.CSrc.reim4_extract_1blk_from_contiguous_reim_ref
  have eb : ((blk : Int) * 2 ^ (2 : Int).toNat) % 18446744073709551616 = ((4 * blk : Nat) : Int) := by
    have : (2 : Int).toNat = 2 := rfl
    rw [this]; omega
  have c2 : ((0 : Int) ≤ 2 ∧ (2 : Int) < 64) := by omega
  have ehi : ((nrows : Int) * (2 % 18446744073709551616)) % 18446744073709551616 = ((2 * nrows : Nat) : Int) := by omega
  simp only [exec_seq, exec_passign, eval_bin, eval_var, eval_lit, lget_zero, lget_succ, evalBin_shl_u64, c2, and_self,
    if_true, eb, R.bind_ok, seqK_norm,
    (fun env => ptrAt_param [some (d, 0), some (s, 0)] env 1 s 0 ((4 * blk : Nat) : Int) (4 * blk) rfl rfl),
    (fun env => ptrAt_param [some (d, 0), some (s, 0)] env 0 d 0 0 0 rfl rfl),
    encPtr_some, lset_zero, lset_succ, Nat.zero_add, Nat.add_zero, Nat.reduceAdd]
  have h := exec_for_inv [some (d, 0), some (s, 0)] (.assign 7 (.cast .u64 (.lit 0)))
    (.bin .lt .u64 (.var 7) (.bin .mul .u64 (.var 1) (.cast .u64 (.lit 2))))
    (.assign 7 (.bin .add .u64 (.var 7) (.lit 1)))
    (.seq (.pstore (.pvar 5) (.lit 0) (.pload (.pvar 3) (.lit 0)))
      (.seq (.pstore (.pvar 5) (.lit 1) (.pload (.pvar 3) (.lit 1)))
        (.seq (.pstore (.pvar 5) (.lit 2) (.pload (.pvar 3) (.lit 2)))
          (.seq (.pstore (.pvar 5) (.lit 3) (.pload (.pvar 3) (.lit 3)))
            (.seq (.passign 5 (.pvar 5) (.lit 4)) (.passign 3 (.pvar 3) (.var 0)))))))
    ⟨[(m : Int), (nrows : Int), (blk : Int), (s : Int), ((4 * blk : Nat) : Int), (d : Int), ((0 : Nat) : Int), 0], mem⟩
    ⟨[(m : Int), (nrows : Int), (blk : Int), (s : Int), ((4 * blk + 0 * m : Nat) : Int), (d : Int), ((4 * 0 : Nat) : Int), ((0 : Nat) : Int)], mem⟩
    (fun k σ => σ.mem = mem.setIfInBounds d (extractK m blk (buf mem d) (buf mem s) k) ∧
      σ.env = [(m : Int), (nrows : Int), (blk : Int), (s : Int), ((4 * blk + k * m : Nat) : Int), (d : Int), ((4 * k : Nat) : Int), ((k : Nat) : Int)])
    0 (2 * nrows) 0 (Nat.zero_le _) ?hi0 ?h1 ?hstep ?hx fuel (by omega)
  · obtain ⟨σ', h1, h2, _⟩ := h
    rw [h1, memOf_ok, h2]
    rfl
  case hi0 =>
    intro f
    rw [exec_assign]
    simp only [eval_cast, eval_lit, R.bind_ok, wrap_u64, lset_zero, lset_succ]
    simp
  case h1 =>
    refine ⟨?_, rfl⟩
    simp only [extractK, Nat.fold_zero, set_buf_self]
  case hstep =>
    intro k σ _ hk hI
    obtain ⟨env, mm⟩ := σ
    obtain ⟨hmm, henv⟩ := hI
    simp only at hmm henv
    subst hmm henv
    have hkm : k * m + m ≤ 2 * nrows * m := by
      have : (k + 1) * m ≤ 2 * nrows * m := Nat.mul_le_mul_right m (by omega)
      rw [Nat.add_mul] at this; omega
    have e2 : 2 * nrows * m = 2 * m * nrows := by rw [Nat.mul_assoc, Nat.mul_comm nrows m, Nat.mul_assoc]
    have hsrc0 : 4 * blk + k * m < (buf mem s).size := by omega
    have hsrc1 : 4 * blk + k * m + 1 < (buf mem s).size := by omega
    have hsrc2 : 4 * blk + k * m + 2 < (buf mem s).size := by omega
    have hsrc3 : 4 * blk + k * m + 3 < (buf mem s).size := by omega
    have hA := size_extractK m blk (buf mem d) (buf mem s) k
    constructor
    · simp only [evalB_def, eval_bin, eval_var, eval_cast, eval_lit, lget_zero, lget_succ, R.bind_ok, wrap_u64,
        evalBin_mul_u64, evalBin_lt_u64, ehi, decide_b2i_ne_zero]
      exact ok_decide_true (by omega)
    · intro f _
      refine ⟨⟨[(m : Int), (nrows : Int), (blk : Int), (s : Int), ((4 * blk + (k + 1) * m : Nat) : Int), (d : Int),
        ((4 * (k + 1) : Nat) : Int), ((k + 1 : Nat) : Int)],
        mem.setIfInBounds d (extractK m blk (buf mem d) (buf mem s) (k + 1))⟩, ?_, rfl, rfl⟩
      have ei : ((k : Int) + 1) % 18446744073709551616 = ((k + 1 : Nat) : Int) := by omega
      have eo : 4 * blk + k * m + m = 4 * blk + (k + 1) * m := by rw [Nat.add_mul]; omega
      have ed : 4 * k + 4 = 4 * (k + 1) := by omega
      simp only [exec_seq, exec_passign, exec_pstore, exec_assign, eval_var, eval_lit, eval_pload, eval_bin, lget_zero, lget_succ,
        R.bind_ok, seqK_norm, thenStep_norm, evalBin_add_u64, ei,
        encPtr_some, lset_zero, lset_succ, Nat.add_zero, Nat.reduceAdd, Array.size_setIfInBounds, hA,
        ptrAt_pvar [some (d, 0), some (s, 0)] [(m : Int), (nrows : Int), (blk : Int), (s : Int), ((4 * blk + k * m : Nat) : Int), (d : Int), ((4 * k : Nat) : Int), ((k : Nat) : Int)] 3 s (4 * blk + k * m) 0 0 rfl rfl rfl,
        ptrAt_pvar [some (d, 0), some (s, 0)] [(m : Int), (nrows : Int), (blk : Int), (s : Int), ((4 * blk + k * m : Nat) : Int), (d : Int), ((4 * k : Nat) : Int), ((k : Nat) : Int)] 5 d (4 * k) 0 0 rfl rfl rfl,
        ptrAt_pvar [some (d, 0), some (s, 0)] [(m : Int), (nrows : Int), (blk : Int), (s : Int), ((4 * blk + k * m : Nat) : Int), (d : Int), ((4 * k : Nat) : Int), ((k : Nat) : Int)] 3 s (4 * blk + k * m) 1 1 rfl rfl rfl,
        ptrAt_pvar [some (d, 0), some (s, 0)] [(m : Int), (nrows : Int), (blk : Int), (s : Int), ((4 * blk + k * m : Nat) : Int), (d : Int), ((4 * k : Nat) : Int), ((k : Nat) : Int)] 5 d (4 * k) 1 1 rfl rfl rfl,
        ptrAt_pvar [some (d, 0), some (s, 0)] [(m : Int), (nrows : Int), (blk : Int), (s : Int), ((4 * blk + k * m : Nat) : Int), (d : Int), ((4 * k : Nat) : Int), ((k : Nat) : Int)] 3 s (4 * blk + k * m) 2 2 rfl rfl rfl,
        ptrAt_pvar [some (d, 0), some (s, 0)] [(m : Int), (nrows : Int), (blk : Int), (s : Int), ((4 * blk + k * m : Nat) : Int), (d : Int), ((4 * k : Nat) : Int), ((k : Nat) : Int)] 5 d (4 * k) 2 2 rfl rfl rfl,
        ptrAt_pvar [some (d, 0), some (s, 0)] [(m : Int), (nrows : Int), (blk : Int), (s : Int), ((4 * blk + k * m : Nat) : Int), (d : Int), ((4 * k : Nat) : Int), ((k : Nat) : Int)] 3 s (4 * blk + k * m) 3 3 rfl rfl rfl,
        ptrAt_pvar [some (d, 0), some (s, 0)] [(m : Int), (nrows : Int), (blk : Int), (s : Int), ((4 * blk + k * m : Nat) : Int), (d : Int), ((4 * k : Nat) : Int), ((k : Nat) : Int)] 5 d (4 * k) 3 3 rfl rfl rfl,
        ptrAt_pvar [some (d, 0), some (s, 0)] [(m : Int), (nrows : Int), (blk : Int), (s : Int), ((4 * blk + k * m : Nat) : Int), (d : Int), ((4 * k : Nat) : Int), ((k : Nat) : Int)] 5 d (4 * k) 4 4 rfl rfl rfl,
        ptrAt_pvar [some (d, 0), some (s, 0)] [(m : Int), (nrows : Int), (blk : Int), (s : Int), ((4 * blk + k * m : Nat) : Int), (d : Int), ((4 * k + 4 : Nat) : Int), ((k : Nat) : Int)] 3 s (4 * blk + k * m) (m : Int) m rfl rfl rfl,
        (fun A => loadAt_other mem d s A (4 * blk + k * m) hsd hsrc0),
        (fun A v hA => storeAt_self mem d A (4 * k) v hA (by omega)),
        (fun A => loadAt_other mem d s A (4 * blk + k * m + 1) hsd hsrc1),
        (fun A v hA => storeAt_self mem d A (4 * k + 1) v hA (by omega)),
        (fun A => loadAt_other mem d s A (4 * blk + k * m + 2) hsd hsrc2),
        (fun A v hA => storeAt_self mem d A (4 * k + 2) v hA (by omega)),
        (fun A => loadAt_other mem d s A (4 * blk + k * m + 3) hsd hsrc3),
        (fun A v hA => storeAt_self mem d A (4 * k + 3) v hA (by omega))]
      rw [extractK_succ, ← eo, ← ed]
      simp only [copy4]
  case hx =>
    intro σ hI
    obtain ⟨env, mm⟩ := σ
    obtain ⟨hmm, henv⟩ := hI
    simp only at hmm henv
    subst hmm henv
    simp only [evalB_def, eval_bin, eval_var, eval_cast, eval_lit, lget_zero, lget_succ, R.bind_ok, wrap_u64,
      evalBin_mul_u64, evalBin_lt_u64, ehi, decide_b2i_ne_zero]
    exact ok_decide_false (by omega)

/-! ### the same on buffers of binary64 PATTERNS (`patBuf`: naturals as cells): the destination is the model on `Array Nat`
    (the instance the driver family `r4` runs against the compiled code) -/

theorem src_reim4_extract_1blk_from_reim_ref_eq_f64 (m blk : Nat) (hm : 2 * m < 18446744073709551616)
    (hblk : 4 * blk + 4 ≤ m) (mem : Mem) (d s : Nat) (D S : Array Nat) (hsd : s ≠ d)
    (hD : buf mem d = patBuf D) (hS : buf mem s = patBuf S) (hd : D.size = 8) (hs : S.size = 2 * m) :
    ∀ fuel, run fuel Gen.CSrc.reim4_extract_1blk_from_reim_ref [(m : Int), (blk : Int)] [some (d, 0), some (s, 0)] mem
        = .ok (mem.setIfInBounds d (patBuf (extract1blkFromReimRef 0 m blk D S))) := by
  intro fuel
  rw [src_reim4_extract_1blk_from_reim_ref_eq_model m blk hm hblk mem d s hsd (by rw [hD]; simpa [patBuf] using hd)
    (by rw [hS]; simpa [patBuf] using hs) fuel, hD, hS, extract1blkFromReimRef_patBuf]

theorem src_reim4_save_1blk_to_reim_ref_eq_f64 (m blk : Nat) (hm : 2 * m < 18446744073709551616)
    (hblk : 4 * blk + 4 ≤ m) (mem : Mem) (d s : Nat) (D S : Array Nat) (hsd : s ≠ d)
    (hD : buf mem d = patBuf D) (hS : buf mem s = patBuf S) (hd : D.size = 2 * m) (hs : S.size = 8) :
    ∀ fuel, run fuel Gen.CSrc.reim4_save_1blk_to_reim_ref [(m : Int), (blk : Int)] [some (d, 0), some (s, 0)] mem
        = .ok (mem.setIfInBounds d (patBuf (save1blkToReimRef 0 m blk D S))) := by
  intro fuel
  rw [src_reim4_save_1blk_to_reim_ref_eq_model m blk hm hblk mem d s hsd (by rw [hD]; simpa [patBuf] using hd)
    (by rw [hS]; simpa [patBuf] using hs) fuel, hD, hS, save1blkToReimRef_patBuf]

theorem src_reim4_extract_1blk_from_contiguous_reim_ref_eq_f64 (m nrows blk : Nat) (hm0 : 2 * m < 18446744073709551616)
    (hn : 8 * nrows < 18446744073709551616) (hblk : 4 * blk + 4 ≤ m) (mem : Mem) (d s : Nat) (D S : Array Nat) (hsd : s ≠ d)
    (hD : buf mem d = patBuf D) (hS : buf mem s = patBuf S) (hd : D.size = 8 * nrows) (hs : S.size = 2 * m * nrows) :
    ∀ fuel, 2 * nrows ≤ fuel →
      run fuel Gen.CSrc.reim4_extract_1blk_from_contiguous_reim_ref [(m : Int), (nrows : Int), (blk : Int)]
          [some (d, 0), some (s, 0)] mem
        = .ok (mem.setIfInBounds d (patBuf (extract1blkFromContiguousReimRef 0 m nrows blk D S))) := by
  intro fuel hf
  rw [src_reim4_extract_1blk_from_contiguous_reim_ref_eq_model m nrows blk hm0 hn hblk mem d s hsd
    (by rw [hD]; simpa [patBuf] using hd) (by rw [hS]; simpa [patBuf] using hs) fuel hf, hD, hS,
    extract1blkFromContiguousReimRef_patBuf]

/-! ### no out-of-bounds access, for every fuel -/

theorem src_reim4_extract_1blk_from_reim_ref_no_oob (m blk : Nat) (hm : 2 * m < 18446744073709551616)
    (hblk : 4 * blk + 4 ≤ m) (mem : Mem) (d s : Nat) (hsd : s ≠ d)
    (hd : (buf mem d).size = 8) (hs : (buf mem s).size = 2 * m) :
    ∀ fuel e, e ≠ .fuel →
      run fuel Gen.CSrc.reim4_extract_1blk_from_reim_ref [(m : Int), (blk : Int)] [some (d, 0), some (s, 0)] mem ≠ .err e :=
  run_no_other_error _ _ _ _ _ 0 (fun fuel _ => src_reim4_extract_1blk_from_reim_ref_eq_model m blk hm hblk mem d s hsd hd hs fuel)

theorem src_reim4_save_1blk_to_reim_ref_no_oob (m blk : Nat) (hm : 2 * m < 18446744073709551616)
    (hblk : 4 * blk + 4 ≤ m) (mem : Mem) (d s : Nat) (hsd : s ≠ d)
    (hd : (buf mem d).size = 2 * m) (hs : (buf mem s).size = 8) :
    ∀ fuel e, e ≠ .fuel →
      run fuel Gen.CSrc.reim4_save_1blk_to_reim_ref [(m : Int), (blk : Int)] [some (d, 0), some (s, 0)] mem ≠ .err e :=
  run_no_other_error _ _ _ _ _ 0 (fun fuel _ => src_reim4_save_1blk_to_reim_ref_eq_model m blk hm hblk mem d s hsd hd hs fuel)

theorem src_reim4_extract_1blk_from_contiguous_reim_ref_no_oob (m nrows blk : Nat) (hm0 : 2 * m < 18446744073709551616)
    (hn : 8 * nrows < 18446744073709551616) (hblk : 4 * blk + 4 ≤ m) (mem : Mem) (d s : Nat) (hsd : s ≠ d)
    (hd : (buf mem d).size = 8 * nrows) (hs : (buf mem s).size = 2 * m * nrows) :
    ∀ fuel e, e ≠ .fuel →
      run fuel Gen.CSrc.reim4_extract_1blk_from_contiguous_reim_ref [(m : Int), (nrows : Int), (blk : Int)]
          [some (d, 0), some (s, 0)] mem ≠ .err e :=
  run_no_other_error _ _ _ _ _ (2 * nrows)
    (src_reim4_extract_1blk_from_contiguous_reim_ref_eq_model m nrows blk hm0 hn hblk mem d s hsd hd hs)

/-! ### non-vacuity: m = 8, blk = 1 (cells are their own index, so the copies are visible) -/

example :
    run 0 Gen.CSrc.reim4_extract_1blk_from_reim_ref [8, 1] [some (0, 0), some (1, 0)]
      #[#[0, 0, 0, 0, 0, 0, 0, 0], #[100, 101, 102, 103, 104, 105, 106, 107, 108, 109, 110, 111, 112, 113, 114, 115]]
      = .ok #[#[104, 105, 106, 107, 112, 113, 114, 115],
          #[100, 101, 102, 103, 104, 105, 106, 107, 108, 109, 110, 111, 112, 113, 114, 115]] := by
  decide +kernel

example :
    let mem : Mem := #[#[0, 0, 0, 0, 0, 0, 0, 0], #[100, 101, 102, 103, 104, 105, 106, 107, 108, 109, 110, 111, 112, 113, 114, 115]]
    run 0 Gen.CSrc.reim4_extract_1blk_from_reim_ref [(8 : Nat), (1 : Nat)] [some (0, 0), some (1, 0)] mem
      = .ok (mem.setIfInBounds 0 (extract1blkFromReimRef (0 : Int) 8 1 (buf mem 0) (buf mem 1))) :=
  src_reim4_extract_1blk_from_reim_ref_eq_model 8 1 (by decide) (by decide) _ 0 1 (by decide) rfl rfl 0

example :
    run 0 Gen.CSrc.reim4_save_1blk_to_reim_ref [8, 1] [some (1, 0), some (0, 0)]
      #[#[1, 2, 3, 4, 5, 6, 7, 8], #[100, 101, 102, 103, 104, 105, 106, 107, 108, 109, 110, 111, 112, 113, 114, 115]]
      = .ok #[#[1, 2, 3, 4, 5, 6, 7, 8],
          #[100, 101, 102, 103, 1, 2, 3, 4, 108, 109, 110, 111, 5, 6, 7, 8]] := by
  decide +kernel

/-- nrows = 1 (two rows of `m = 8` cells: real and imaginary halves), blk = 1 -/
example :
    run 2 Gen.CSrc.reim4_extract_1blk_from_contiguous_reim_ref [8, 1, 1] [some (0, 0), some (1, 0)]
      #[#[0, 0, 0, 0, 0, 0, 0, 0], #[100, 101, 102, 103, 104, 105, 106, 107, 108, 109, 110, 111, 112, 113, 114, 115]]
      = .ok #[#[104, 105, 106, 107, 112, 113, 114, 115],
          #[100, 101, 102, 103, 104, 105, 106, 107, 108, 109, 110, 111, 112, 113, 114, 115]] := by
  decide +kernel

end Spq.Src
