/-
  C17 — block layouts and complex-vector kernels are faithful and mutually inverse.

  Property theorems only (helper lemmas: SpqProofs/Lemmas/Reim4*.lean).  The model is `Spq/Reim4.lean`
  (tied to the C code, bit for bit, by the streams `r4_layout` and `r4_arith`).

  Part 1 (layout, full proofs, any element type `α`, every `m`, every block index `blk < m/4`, every
  row count including 0, every stride): extraction returns evaluations `4blk..4blk+3` (real parts
  then imaginary parts) of every row, saving is its inverse and touches only the 8 addressed cells,
  `to_cplx ∘ from_cplx` is the identity on all `2m` doubles; the AVX/FMA variants are *equal* to the
  reference ones (pure data movement).

  Part 2 (arithmetic, exact): the kernels are run on the arithmetic `RArith.ofRing R` of an arbitrary
  commutative ring `R` (`fma a b c = a*b + c`, `fms a b c = a*b - c`) and compared with the complex
  numbers `Cx R`, `(a+ib)(c+id) = (ac−bd) + i(ad+bc)` (`Spq.Cx`, `SpqProofs/Lemmas/Reim4Cx.lean`).
  `cx x i j` is the complex number stored in cells `(i, j)` of `x`; `ev idx x i` is evaluation `i` of
  a vector in layout `idx` (`idxReim4`: block `i/4` lane `i%4`; `idxReim m`: cells `(i, i+m)`;
  `idxCplx`: cells `(2i, 2i+1)`), and `Pointwise idx m r res val` says: `res` has the size of `r`,
  evaluation `i < m` of `res` is `val i`, and every cell from `2m` on is unchanged.  Sums are
  `Finset` sums, over `range nrows` (dot products) or over the index pairs of the convolution; every
  length including 0 is covered (an empty sum is 0).  As corollaries the SIMD variants (their own
  operation order: two accumulators subtracted at the end, alternating-sign `fmsub`, `fmaddsub` on
  interleaved data) return the same arrays as the reference code in exact arithmetic.

  Part 3 (rounding, `dot_err`): for an arithmetic satisfying the standard model of floating-point
  arithmetic with unit roundoff `u` (`StdModel`, every operation exact up to a relative error `u`;
  binary64 without overflow/underflow: `u = 2^-53`) the accumulating products are within
  `((1+u)^(n+2) − 1)·Σ(|a_i c_i| + |b_i d_i|)` of the exact sums — reference order (`n` terms of
  three roundings each, `n` additions), AVX2 order (FMA chains combined at the end) and the
  convolution window.  That binary64 satisfies `StdModel` on the inputs at hand (no overflow, no
  underflow) is not proved here; the stream `r4_arith` checks the real outputs against this bound
  (with a subnormal allowance).
-/
import SpqProofs.Lemmas.Reim4Layout
import SpqProofs.Lemmas.Reim4Fftvec
import SpqProofs.Lemmas.Reim4Err
namespace Spq.C17
open Spq Reim4
variable {α : Type}

/-! ## 1. layout -/

/-- `reim4_extract_1blk_from_reim_{ref,avx}`: `dst[k] = src[4blk+k]`, `dst[4+k] = src[m+4blk+k]`;
    nothing else of `dst` changes.  (`_hblk`, `_hsrc` are the memory-safety domain of the C function;
    the equations do not depend on them.) -/
theorem extract_spec (z : α) (m blk : Nat) (dst src : Array α)
    (_hblk : blk < m / 4) (_hsrc : 2 * m ≤ src.size) (hdst : 8 ≤ dst.size) :
    (extract1blkFromReimRef z m blk dst src).size = dst.size ∧
    (∀ k, k < 4 →
      (extract1blkFromReimRef z m blk dst src).getD k z = src.getD (4 * blk + k) z ∧
      (extract1blkFromReimRef z m blk dst src).getD (4 + k) z = src.getD (m + 4 * blk + k) z) ∧
    (∀ x, 8 ≤ x → (extract1blkFromReimRef z m blk dst src).getD x z = dst.getD x z) ∧
    extract1blkFromReimAvx z m blk dst src = extract1blkFromReimRef z m blk dst src := by
  have e : extract1blkFromReimRef z m blk dst src =
      V4.store (V4.store dst 0 (V4.load z src (4 * blk))) 4 (V4.load z src (4 * blk + m)) := rfl
  refine ⟨by rw [e]; simp, ?_, ?_, rfl⟩
  · intro k hk
    constructor
    · have h0 := V4.getD_store_in dst 0 (V4.load z src (4 * blk)) k z hk (by omega)
      rw [Nat.zero_add] at h0
      rw [e, V4.getD_store_out _ _ _ _ _ (by omega), h0, V4.lane_load _ _ _ _ hk]
    · have h1 : 4 * blk + m + k = m + 4 * blk + k := by omega
      rw [e, V4.getD_store_in _ _ _ _ _ hk (by rw [V4.size_store]; omega), V4.lane_load _ _ _ _ hk, h1]
  · intro x hx
    rw [e, V4.getD_store_out _ _ _ _ _ (by omega), V4.getD_store_out _ _ _ _ _ (by omega)]

/-- `reim4_extract_1blk_from_contiguous_reim_{ref,avx}`: row `i` of the source starts at `i·2m`;
    every row count including 0. -/
theorem extract_rows_spec (z : α) (m nrows blk : Nat) (dst src : Array α)
    (_hblk : blk < m / 4) (_hsrc : nrows * (2 * m) ≤ src.size) (hdst : 8 * nrows ≤ dst.size) :
    (extract1blkFromContiguousReimRef z m nrows blk dst src).size = dst.size ∧
    (∀ i k, i < nrows → k < 4 →
      (extract1blkFromContiguousReimRef z m nrows blk dst src).getD (8 * i + k) z = src.getD (i * (2 * m) + 4 * blk + k) z ∧
      (extract1blkFromContiguousReimRef z m nrows blk dst src).getD (8 * i + 4 + k) z = src.getD (i * (2 * m) + m + 4 * blk + k) z) ∧
    (∀ x, 8 * nrows ≤ x → (extract1blkFromContiguousReimRef z m nrows blk dst src).getD x z = dst.getD x z) ∧
    extract1blkFromContiguousReimAvx z m nrows blk dst src = extract1blkFromContiguousReimRef z m nrows blk dst src := by
  rw [extractC_eq_mapV4]
  obtain ⟨s1, s2, s3⟩ := mapV4_spec z (2 * nrows) (fun i => 4 * i) (fun i _ => V4.load z src (4 * blk + i * m)) dst
    (by intro j j' _ _ _; omega) (by intro j hj; omega)
  refine ⟨s1, ?_, ?_, rfl⟩
  · intro i k hi hk
    constructor
    · have := s2 (2 * i) (by omega) k hk
      have e : 8 * i + k = 4 * (2 * i) + k := by omega
      have e2 : 4 * blk + 2 * i * m + k = i * (2 * m) + 4 * blk + k := by ring
      rw [e, this, V4.lane_load _ _ _ _ hk, e2]
    · have := s2 (2 * i + 1) (by omega) k hk
      have e : 8 * i + 4 + k = 4 * (2 * i + 1) + k := by omega
      have e2 : 4 * blk + (2 * i + 1) * m + k = i * (2 * m) + m + 4 * blk + k := by ring
      rw [e, this, V4.lane_load _ _ _ _ hk, e2]
  · intro x hx
    apply s3
    intro j hj
    omega

/-- `reim4_extract_1blk_from_contiguous_reim_sl_{ref,avx}`: row `i` of the source starts at `i·sl`;
    every stride (`_hsl` is the domain in which rows do not overlap). -/
theorem extract_rows_sl_spec (z : α) (m sl nrows blk : Nat) (dst src : Array α)
    (_hblk : blk < m / 4) (_hsl : 2 * m ≤ sl) (_hsrc : nrows * sl ≤ src.size + (sl - 2 * m)) (hdst : 8 * nrows ≤ dst.size) :
    (extract1blkFromContiguousReimSlRef z m sl nrows blk dst src).size = dst.size ∧
    (∀ i k, i < nrows → k < 4 →
      (extract1blkFromContiguousReimSlRef z m sl nrows blk dst src).getD (8 * i + k) z = src.getD (i * sl + 4 * blk + k) z ∧
      (extract1blkFromContiguousReimSlRef z m sl nrows blk dst src).getD (8 * i + 4 + k) z = src.getD (i * sl + m + 4 * blk + k) z) ∧
    (∀ x, 8 * nrows ≤ x → (extract1blkFromContiguousReimSlRef z m sl nrows blk dst src).getD x z = dst.getD x z) ∧
    extract1blkFromContiguousReimSlAvx z m sl nrows blk dst src = extract1blkFromContiguousReimSlRef z m sl nrows blk dst src := by
  rw [extractSl_eq_mapV4x2]
  obtain ⟨s1, s2, s3⟩ := mapV4x2_spec z nrows (fun i => 8 * i) (fun i => 8 * i + 4)
    (fun i _ _ => (V4.load z src (4 * blk + i * sl), V4.load z src (4 * blk + i * sl + m))) dst
    (by intro j j' _ _ _; omega) (by intro j j' _ _ _; omega) (by intro j j' _ _; omega) (by intro j hj; omega)
  refine ⟨s1, ?_, ?_, rfl⟩
  · intro i k hi hk
    obtain ⟨a, b⟩ := s2 i hi k hk
    constructor
    · have e1 : 4 * blk + i * sl + k = i * sl + 4 * blk + k := by omega
      rw [a, V4.lane_load _ _ _ _ hk, e1]
    · have e1 : 4 * blk + i * sl + m + k = i * sl + m + 4 * blk + k := by omega
      rw [b, V4.lane_load _ _ _ _ hk, e1]
  · intro x hx
    apply s3
    intro j hj
    omega

/-- `reim4_save_1blk_to_reim_{ref,avx}`: `dst[4blk+k] = src[k]`, `dst[m+4blk+k] = src[4+k]`, and
    saving only changes the 8 addressed cells. -/
theorem save_spec (z : α) (m blk : Nat) (dst src : Array α)
    (hblk : blk < m / 4) (hdst : 2 * m ≤ dst.size) :
    (save1blkToReimRef z m blk dst src).size = dst.size ∧
    (∀ k, k < 4 →
      (save1blkToReimRef z m blk dst src).getD (4 * blk + k) z = src.getD k z ∧
      (save1blkToReimRef z m blk dst src).getD (m + 4 * blk + k) z = src.getD (4 + k) z) ∧
    (∀ x, ¬ (4 * blk ≤ x ∧ x < 4 * blk + 4) → ¬ (m + 4 * blk ≤ x ∧ x < m + 4 * blk + 4) →
      (save1blkToReimRef z m blk dst src).getD x z = dst.getD x z) ∧
    save1blkToReimAvx z m blk dst src = save1blkToReimRef z m blk dst src := by
  have e : save1blkToReimRef z m blk dst src =
      V4.store (V4.store dst (4 * blk) (V4.load z src 0)) (4 * blk + m) (V4.load z src 4) := rfl
  refine ⟨by rw [e]; simp, ?_, ?_, rfl⟩
  · intro k hk
    constructor
    · rw [e, V4.getD_store_out _ _ _ _ _ (by omega), V4.getD_store_in _ _ _ _ _ hk (by omega),
        V4.lane_load _ _ _ _ hk, Nat.zero_add]
    · have h0 : m + 4 * blk + k = 4 * blk + m + k := by omega
      rw [e, h0, V4.getD_store_in _ _ _ _ _ hk (by rw [V4.size_store]; omega), V4.lane_load _ _ _ _ hk]
  · intro x h1 h2
    rw [e, V4.getD_store_out _ _ _ _ _ (by omega), V4.getD_store_out _ _ _ _ _ (by omega)]

/-- saving block `blk` and extracting block `blk` again returns the 8 saved values -/
theorem extract_save_inverse (z : α) (m blk : Nat) (vec v out : Array α)
    (hblk : blk < m / 4) (hvec : 2 * m ≤ vec.size) (hout : 8 ≤ out.size) :
    ∀ k, k < 8 → (extract1blkFromReimRef z m blk out (save1blkToReimRef z m blk vec v)).getD k z = v.getD k z := by
  intro k hk
  obtain ⟨ss, sv, _, _⟩ := save_spec z m blk vec v hblk hvec
  obtain ⟨_, ev, _, _⟩ := extract_spec z m blk out (save1blkToReimRef z m blk vec v) hblk (by rw [ss]; exact hvec) hout
  by_cases h4 : k < 4
  · rw [(ev k h4).1, (sv k h4).1]
  · have e : k = 4 + (k - 4) := by omega
    rw [e, (ev (k - 4) (by omega)).2, (sv (k - 4) (by omega)).2]

/-- extracting block `blk` and saving it back leaves the vector unchanged -/
theorem save_extract_inverse (z : α) (m blk : Nat) (vec out : Array α)
    (hblk : blk < m / 4) (hvec : 2 * m ≤ vec.size) (hout : 8 ≤ out.size) :
    save1blkToReimRef z m blk vec (extract1blkFromReimRef z m blk out vec) = vec := by
  obtain ⟨ss, sv, sf, _⟩ := save_spec z m blk vec (extract1blkFromReimRef z m blk out vec) hblk hvec
  obtain ⟨_, ev, _, _⟩ := extract_spec z m blk out vec hblk hvec hout
  apply ext_getD z _ _ ss
  intro x
  by_cases h1 : 4 * blk ≤ x ∧ x < 4 * blk + 4
  · have e : x = 4 * blk + (x - 4 * blk) := by omega
    rw [e, (sv (x - 4 * blk) (by omega)).1, (ev (x - 4 * blk) (by omega)).1]
  · by_cases h2 : m + 4 * blk ≤ x ∧ x < m + 4 * blk + 4
    · have e : x = m + 4 * blk + (x - (m + 4 * blk)) := by omega
      rw [e, (sv (x - (m + 4 * blk)) (by omega)).2, (ev (x - (m + 4 * blk)) (by omega)).2]
    · exact sf x h1 h2

/-- `reim4_from_cplx_{ref,fma}`: block `b` of the output is block `b` of the input shuffled by the
    involution `perm8 = (1 4)(3 6)`: reals `r0 r2 r1 r3`, then imaginaries `i0 i2 i1 i3`;
    cells from `8·(m/4)` on are untouched; the FMA variant is equal to the reference one. -/
theorem from_cplx_spec (z : α) (m : Nat) (r x : Array α) (hr : 2 * m ≤ r.size) :
    (fromCplxRef z m r x).size = r.size ∧
    (∀ b u, b < m / 4 → u < 8 → (fromCplxRef z m r x).getD (8 * b + u) z = x.getD (8 * b + perm8 u) z) ∧
    (∀ i, 8 * (m / 4) ≤ i → (fromCplxRef z m r x).getD i z = r.getD i z) ∧
    (m % 4 = 0 → fromCplxFma z m r x = some (fromCplxRef z m r x)) := by
  rw [fromCplxRef_eq_mapV4x2]
  obtain ⟨a, b, c⟩ := shuffle8_spec z (m / 4) r x (by omega)
  exact ⟨a, b, c, fun h => by rw [← fromCplxRef_eq_mapV4x2]; exact unpackLoopFma_eq z m h r x⟩

/-- `reim4_to_cplx_{ref,fma}`: the same block shuffle -/
theorem to_cplx_spec (z : α) (m : Nat) (y a : Array α) (hy : 2 * m ≤ y.size) :
    (toCplxRef z m y a).size = y.size ∧
    (∀ b u, b < m / 4 → u < 8 → (toCplxRef z m y a).getD (8 * b + u) z = a.getD (8 * b + perm8 u) z) ∧
    (∀ i, 8 * (m / 4) ≤ i → (toCplxRef z m y a).getD i z = y.getD i z) ∧
    (m % 4 = 0 → toCplxFma z m y a = some (toCplxRef z m y a)) := by
  rw [toCplxRef_eq_fromCplxRef]
  exact from_cplx_spec z m y a hy

/-- `to_cplx (from_cplx x) = x` on all `2m` doubles, for every `m` multiple of 4 and every pairing of
    the reference / FMA variants; cells past `2m` of the destination are untouched. -/
theorem cplx_reim4_roundtrip (z : α) (m : Nat) (hm : m % 4 = 0) (x r y : Array α)
    (hr : 2 * m ≤ r.size) (hy : 2 * m ≤ y.size) :
    (∀ i, i < 2 * m → (toCplxRef z m y (fromCplxRef z m r x)).getD i z = x.getD i z) ∧
    (∀ i, 2 * m ≤ i → (toCplxRef z m y (fromCplxRef z m r x)).getD i z = y.getD i z) ∧
    (toCplxRef z m y (fromCplxRef z m r x)).size = y.size ∧
    ((fromCplxFma z m r x).bind (fun r4 => toCplxFma z m y r4) = some (toCplxRef z m y (fromCplxRef z m r x))) := by
  obtain ⟨_, fv, _, ff⟩ := from_cplx_spec z m r x hr
  obtain ⟨ts, tv, tf, tt⟩ := to_cplx_spec z m y (fromCplxRef z m r x) hy
  refine ⟨?_, ?_, ts, ?_⟩
  · intro i hi
    have e : i = 8 * (i / 8) + i % 8 := by omega
    have hb : i / 8 < m / 4 := by omega
    have hu : i % 8 < 8 := by omega
    rw [e, tv (i / 8) (i % 8) hb hu, fv (i / 8) (perm8 (i % 8)) hb (perm8_lt _ hu), perm8_invol]
  · intro i hi
    exact tf i (by omega)
  · rw [ff hm]
    simp only [Option.bind_some]  
    exact tt hm

/-! concrete, non-trivial instances of the layout statements (hypotheses satisfiable, values as stated) -/

/-- `m = 8`, block 1 of `0..15`: evaluations 4..7, real parts then imaginary parts; cell 8 of `dst` untouched -/
example : ((1 : Nat) < 8 / 4 ∧ 2 * 8 ≤ (Array.range 16).size ∧ 8 ≤ (Array.replicate 9 99).size) ∧
    extract1blkFromReimRef (0 : Nat) 8 1 (Array.replicate 9 99) (Array.range 16) = #[4, 5, 6, 7, 12, 13, 14, 15, 99] := by
  decide
/-- two rows with stride `sl = 2m + 4 = 20`, block 1 -/
example : extract1blkFromContiguousReimSlAvx (0 : Nat) 8 20 2 1 (Array.replicate 17 99) (Array.range 36)
    = #[4, 5, 6, 7, 12, 13, 14, 15, 24, 25, 26, 27, 32, 33, 34, 35, 99] := by decide
/-- zero rows: nothing is written -/
example : extract1blkFromContiguousReimRef (0 : Nat) 8 0 1 (Array.replicate 3 99) (Array.range 16) = Array.replicate 3 99 := by decide
/-- the in-block order of the conversion: `r0 r2 r1 r3 | i0 i2 i1 i3` -/
example : fromCplxRef (0 : Nat) 4 (Array.replicate 8 77) (Array.range 8) = #[0, 4, 2, 6, 1, 5, 3, 7] := by decide
/-- round trip on `m = 8` (all 16 doubles), cell 16 of the destination untouched -/
example : toCplxRef (0 : Nat) 8 (Array.replicate 17 99) (fromCplxRef 0 8 (Array.replicate 16 77) (Array.range 16))
    = (Array.range 16).push 99 := by decide

/-! ## 2. arithmetic in exact arithmetic -/

section exact
open Finset
variable {R : Type} [CommRing R]

/-- `reim4_add`: lane-wise complex sum -/
theorem reim4_add_exact (dst u v : Array R) (hb : 8 ≤ dst.size) :
    (Reim4.add (RArith.ofRing R) dst u v).size = dst.size ∧
    (∀ k, k < 4 → cx (Reim4.add (RArith.ofRing R) dst u v) k (k + 4) = cx u k (k + 4) + cx v k (k + 4)) ∧
    (∀ x, 8 ≤ x → (Reim4.add (RArith.ofRing R) dst u v).getD x 0 = dst.getD x 0) := by
  unfold Reim4.add
  obtain ⟨s1, s2, s3⟩ := lanes_spec (0 : R) 4 (fun k => k) (fun k => k + 4)
    (fun k _ => (RArith.ofRing R).add (u.getD k 0) (v.getD k 0))
    (fun k _ => (RArith.ofRing R).add (u.getD (k + 4) 0) (v.getD (k + 4) 0)) dst
    (by intro k k' _ _ h; exact h) (by intro k k' _ _ _; omega) (by intro k k' _ _; omega) (by intro k hk; omega)
  refine ⟨s1, ?_, fun x hx => s3 x (by intro k hk; omega)⟩
  intro k hk
  obtain ⟨e1, e2⟩ := s2 k hk
  ext
  · simp only [cx_re, Cx.add_re]; exact e1
  · simp only [cx_im, Cx.add_im]; exact e2

/-- `reim4_mul`: lane-wise complex product -/
theorem reim4_mul_exact (dst u v : Array R) (hb : 8 ≤ dst.size) :
    (Reim4.mul (RArith.ofRing R) dst u v).size = dst.size ∧
    (∀ k, k < 4 → cx (Reim4.mul (RArith.ofRing R) dst u v) k (k + 4) = cx u k (k + 4) * cx v k (k + 4)) ∧
    (∀ x, 8 ≤ x → (Reim4.mul (RArith.ofRing R) dst u v).getD x 0 = dst.getD x 0) := by
  unfold Reim4.mul
  obtain ⟨s1, s2, s3⟩ := lanes_spec (0 : R) 4 (fun k => k) (fun k => k + 4)
    (fun k _ => reRef (RArith.ofRing R) (u.getD k 0) (u.getD (k + 4) 0) (v.getD k 0) (v.getD (k + 4) 0))
    (fun k _ => imRef (RArith.ofRing R) (u.getD k 0) (u.getD (k + 4) 0) (v.getD k 0) (v.getD (k + 4) 0)) dst
    (by intro k k' _ _ h; exact h) (by intro k k' _ _ _; omega) (by intro k k' _ _; omega) (by intro k hk; omega)
  refine ⟨s1, ?_, fun x hx => s3 x (by intro k hk; omega)⟩
  intro k hk
  obtain ⟨e1, e2⟩ := s2 k hk
  ext
  · simp only [cx_re, cx_im, Cx.mul_re]; exact e1
  · simp only [cx_re, cx_im, Cx.mul_im]; exact e2

/-- `reim4_add_mul`: `dst += u·v` lane-wise -/
theorem reim4_add_mul_exact (dst u v : Array R) (hb : 8 ≤ dst.size) :
    (addMul (RArith.ofRing R) dst u v).size = dst.size ∧
    (∀ k, k < 4 → cx (addMul (RArith.ofRing R) dst u v) k (k + 4) = cx dst k (k + 4) + cx u k (k + 4) * cx v k (k + 4)) ∧
    (∀ x, 8 ≤ x → (addMul (RArith.ofRing R) dst u v).getD x 0 = dst.getD x 0) := by
  obtain ⟨s1, s2, s3⟩ := addMulAt_exact dst 0 u 0 v 0 (by omega)
  refine ⟨s1, ?_, fun x hx => s3 x (by omega)⟩
  intro k hk
  have := s2 k hk
  simp only [Nat.zero_add] at this
  exact this

/-- `reim4_vec_mat1col_product_ref`: `dst = Σ_{i<nrows} u_i · v_i` lane-wise, for every `nrows` including 0 -/
theorem mat1col_ref_exact (nrows : Nat) (dst u v : Array R) (hb : 8 ≤ dst.size) :
    (vecMat1colProductRef (RArith.ofRing R) nrows dst u v).size = dst.size ∧
    (∀ k, k < 4 → cx (vecMat1colProductRef (RArith.ofRing R) nrows dst u v) k (k + 4) =
      ∑ i ∈ range nrows, cx u (8 * i + k) (8 * i + k + 4) * cx v (8 * i + k) (8 * i + k + 4)) ∧
    (∀ x, 8 ≤ x → (vecMat1colProductRef (RArith.ofRing R) nrows dst u v).getD x 0 = dst.getD x 0) := by
  unfold vecMat1colProductRef
  obtain ⟨z1, _, z3⟩ := zeroAt_spec (RArith.ofRing R) dst 0 (by omega)
  obtain ⟨s1, s2, s3⟩ := accum_spec (R := R) nrows 0 (fun t => 8 * t) (fun t => 8 * t)
    (zeroAt (RArith.ofRing R) dst 0) u v (by rw [z1]; omega)
  refine ⟨by rw [s1, z1], ?_, fun x hx => by rw [s3 x (by omega)]; exact z3 x (by omega)⟩
  intro k hk
  have a := s2 k hk
  have b := cx_zeroAt dst 0 k (by omega) hk
  simp only [Nat.zero_add] at a b
  rw [a, b, zero_add]

/-- `reim4_vec_mat1col_product_avx2` (two partial accumulators for the real part, subtracted at the end):
    the same sums, and in exact arithmetic the same array as the reference code -/
theorem mat1col_avx2_exact (nrows : Nat) (dst u v : Array R) (hb : 8 ≤ dst.size) :
    (∀ k, k < 4 → cx (vecMat1colProductAvx2 (RArith.ofRing R) nrows dst u v) k (k + 4) =
      ∑ i ∈ range nrows, cx u (8 * i + k) (8 * i + k + 4) * cx v (8 * i + k) (8 * i + k + 4)) ∧
    vecMat1colProductAvx2 (RArith.ofRing R) nrows dst u v = vecMat1colProductRef (RArith.ofRing R) nrows dst u v := by
  have e : vecMat1colProductAvx2 (RArith.ofRing R) nrows dst u v =
      V4.store (V4.store dst 0 (V4.sub (RArith.ofRing R)
        (Nat.fold nrows (fun i _ s => vecMat1colAvx2Step (RArith.ofRing R) u v i s) (V4.splat (0 : R), V4.splat (0 : R), V4.splat (0 : R), V4.splat (0 : R))).1
        (Nat.fold nrows (fun i _ s => vecMat1colAvx2Step (RArith.ofRing R) u v i s) (V4.splat (0 : R), V4.splat (0 : R), V4.splat (0 : R), V4.splat (0 : R))).2.1)) 4
        (V4.add (RArith.ofRing R)
        (Nat.fold nrows (fun i _ s => vecMat1colAvx2Step (RArith.ofRing R) u v i s) (V4.splat (0 : R), V4.splat (0 : R), V4.splat (0 : R), V4.splat (0 : R))).2.2.1
        (Nat.fold nrows (fun i _ s => vecMat1colAvx2Step (RArith.ofRing R) u v i s) (V4.splat (0 : R), V4.splat (0 : R), V4.splat (0 : R), V4.splat (0 : R))).2.2.2) := rfl
  have vals : ∀ k, k < 4 → cx (vecMat1colProductAvx2 (RArith.ofRing R) nrows dst u v) k (k + 4) =
      ∑ i ∈ range nrows, cx u (8 * i + k) (8 * i + k + 4) * cx v (8 * i + k) (8 * i + k + 4) := by
    intro k hk
    obtain ⟨h1, h2, h3, h4⟩ := mat1colAvx2_acc (R := R) nrows u v k hk
    have q : ∀ i, 8 * i + 4 + k = 8 * i + k + 4 := by intro i; omega
    simp only [q] at h2 h3 h4
    have g0 := V4.getD_store_in dst 0 (V4.sub (RArith.ofRing R)
        (Nat.fold nrows (fun i _ s => vecMat1colAvx2Step (RArith.ofRing R) u v i s) (V4.splat (0 : R), V4.splat (0 : R), V4.splat (0 : R), V4.splat (0 : R))).1
        (Nat.fold nrows (fun i _ s => vecMat1colAvx2Step (RArith.ofRing R) u v i s) (V4.splat (0 : R), V4.splat (0 : R), V4.splat (0 : R), V4.splat (0 : R))).2.1) k 0 hk (by omega)
    rw [Nat.zero_add] at g0
    ext
    · simp only [cx_re, Cx.sum_re, Cx.mul_re, cx_im]
      rw [e, V4.getD_store_out _ _ _ _ _ (by omega), g0, V4.sub, V4.lane_map2, ofRing_sub, h1, h2, sum_sub_distrib]
    · simp only [cx_re, Cx.sum_im, Cx.mul_im, cx_im]
      have e4 : k + 4 = 4 + k := by omega
      rw [e, e4, V4.getD_store_in _ _ _ _ _ hk (by rw [V4.size_store]; omega), V4.add, V4.lane_map2, ofRing_add, h3, h4,
        sum_add_distrib]
  refine ⟨vals, ?_⟩
  obtain ⟨r1, r2, r3⟩ := mat1col_ref_exact nrows dst u v hb
  apply eq_of_blocks 1 _ _ (by rw [r1, e]; simp)
  · intro t k ht hk
    have : t = 0 := by omega
    subst this
    simp only [Nat.mul_zero, Nat.zero_add]
    rw [vals k hk, r2 k hk]
  · intro x hx
    rw [r3 x (by omega), e, V4.getD_store_out _ _ _ _ _ (by omega), V4.getD_store_out _ _ _ _ _ (by omega)]

/-- `reim4_vec_mat2cols_product_ref`: both columns, `dst[0..7] = Σ u_i·v_i^{(0)}`, `dst[8..15] = Σ u_i·v_i^{(1)}`
    (row `i` of `v` is 16 doubles: column 0 then column 1), every `nrows` including 0 -/
theorem mat2cols_ref_exact (nrows : Nat) (dst u v : Array R) (hb : 16 ≤ dst.size) :
    (vecMat2colsProductRef (RArith.ofRing R) nrows dst u v).size = dst.size ∧
    (∀ k, k < 4 →
      cx (vecMat2colsProductRef (RArith.ofRing R) nrows dst u v) k (k + 4) =
        ∑ i ∈ range nrows, cx u (8 * i + k) (8 * i + k + 4) * cx v (16 * i + k) (16 * i + k + 4) ∧
      cx (vecMat2colsProductRef (RArith.ofRing R) nrows dst u v) (8 + k) (8 + k + 4) =
        ∑ i ∈ range nrows, cx u (8 * i + k) (8 * i + k + 4) * cx v (16 * i + 8 + k) (16 * i + 8 + k + 4)) ∧
    (∀ x, 16 ≤ x → (vecMat2colsProductRef (RArith.ofRing R) nrows dst u v).getD x 0 = dst.getD x 0) := by
  unfold vecMat2colsProductRef
  obtain ⟨z1, _, z3⟩ := zeroAt_spec (RArith.ofRing R) dst 0 (by omega)
  obtain ⟨y1, _, y3⟩ := zeroAt_spec (RArith.ofRing R) (zeroAt (RArith.ofRing R) dst 0) 8 (by rw [z1]; omega)
  simp only [ofRing_zero] at z3 y3
  obtain ⟨s1, s2, s3⟩ := accum2_spec (R := R) nrows (zeroAt (RArith.ofRing R) (zeroAt (RArith.ofRing R) dst 0) 8) u v
    (by rw [y1, z1]; omega)
  refine ⟨by rw [s1, y1, z1], ?_, fun x hx => by rw [s3 x hx, y3 x (by omega), z3 x (by omega)]⟩
  intro k hk
  constructor
  · have a := s2 0 k (by omega) hk
    simp only [Nat.mul_zero, Nat.zero_add, Nat.add_zero] at a
    have b : cx (zeroAt (RArith.ofRing R) (zeroAt (RArith.ofRing R) dst 0) 8) k (k + 4) = 0 := by
      have b0 := cx_zeroAt dst 0 k (by omega) hk
      simp only [Nat.zero_add] at b0
      rw [← b0]
      ext
      · simp only [cx_re]; exact y3 k (by omega)
      · simp only [cx_im]; exact y3 (k + 4) (by omega)
    rw [a, b, zero_add]
  · have a := s2 1 k (by omega) hk
    simp only [Nat.mul_one] at a
    have b := cx_zeroAt (zeroAt (RArith.ofRing R) dst 0) 8 k (by rw [z1]; omega) hk
    rw [a, b, zero_add]

/-- `reim4_vec_mat2cols_product_avx2` (alternating-sign `fmsub`: `re ← x·y − re` twice per row): the same sums,
    and in exact arithmetic the same array as the reference code -/
theorem mat2cols_avx2_exact (nrows : Nat) (dst u v : Array R) (hb : 16 ≤ dst.size) :
    (∀ k, k < 4 →
      cx (vecMat2colsProductAvx2 (RArith.ofRing R) nrows dst u v) k (k + 4) =
        ∑ i ∈ range nrows, cx u (8 * i + k) (8 * i + k + 4) * cx v (16 * i + k) (16 * i + k + 4) ∧
      cx (vecMat2colsProductAvx2 (RArith.ofRing R) nrows dst u v) (8 + k) (8 + k + 4) =
        ∑ i ∈ range nrows, cx u (8 * i + k) (8 * i + k + 4) * cx v (16 * i + 8 + k) (16 * i + 8 + k + 4)) ∧
    vecMat2colsProductAvx2 (RArith.ofRing R) nrows dst u v = vecMat2colsProductRef (RArith.ofRing R) nrows dst u v := by
  generalize hacc : Nat.fold nrows (fun i _ s => vecMat2colsAvx2Step (RArith.ofRing R) u v i s)
    (V4.splat (0 : R), V4.splat (0 : R), V4.splat (0 : R), V4.splat (0 : R)) = acc
  have e : vecMat2colsProductAvx2 (RArith.ofRing R) nrows dst u v =
      V4.store (V4.store (V4.store (V4.store dst 0 acc.1) 4 acc.2.1) 8 acc.2.2.1) 12 acc.2.2.2 := by
    rw [← hacc]; rfl
  have vals : ∀ k, k < 4 →
      cx (vecMat2colsProductAvx2 (RArith.ofRing R) nrows dst u v) k (k + 4) =
        ∑ i ∈ range nrows, cx u (8 * i + k) (8 * i + k + 4) * cx v (16 * i + k) (16 * i + k + 4) ∧
      cx (vecMat2colsProductAvx2 (RArith.ofRing R) nrows dst u v) (8 + k) (8 + k + 4) =
        ∑ i ∈ range nrows, cx u (8 * i + k) (8 * i + k + 4) * cx v (16 * i + 8 + k) (16 * i + 8 + k + 4) := by
    intro k hk
    obtain ⟨h1, h2, h3, h4⟩ := mat2colsAvx2_acc (R := R) nrows u v k hk
    rw [hacc] at h1 h2 h3 h4
    have q1 : ∀ i, 8 * i + 4 + k = 8 * i + k + 4 := by intro i; omega
    have q2 : ∀ i, 16 * i + 4 + k = 16 * i + k + 4 := by intro i; omega
    have q3 : ∀ i, 16 * i + 12 + k = 16 * i + 8 + k + 4 := by intro i; omega
    simp only [q1, q2, q3] at h1 h2 h3 h4
    have g0 := V4.getD_store_in dst 0 acc.1 k 0 hk (by omega)
    rw [Nat.zero_add] at g0
    have e4 : k + 4 = 4 + k := by omega
    have e12 : 8 + k + 4 = 12 + k := by omega
    constructor
    · ext
      · simp only [cx_re, Cx.sum_re, Cx.mul_re, cx_im]
        rw [e, V4.getD_store_out _ _ _ _ _ (by omega), V4.getD_store_out _ _ _ _ _ (by omega),
          V4.getD_store_out _ _ _ _ _ (by omega), g0, h1]
      · simp only [cx_re, Cx.sum_im, Cx.mul_im, cx_im]
        rw [e, e4, V4.getD_store_out _ _ _ _ _ (by omega), V4.getD_store_out _ _ _ _ _ (by omega),
          V4.getD_store_in _ _ _ _ _ hk (by rw [V4.size_store]; omega), h2]
    · ext
      · simp only [cx_re, Cx.sum_re, Cx.mul_re, cx_im]
        rw [e, V4.getD_store_out _ _ _ _ _ (by omega),
          V4.getD_store_in _ _ _ _ _ hk (by rw [V4.size_store, V4.size_store]; omega), h3]
      · simp only [cx_re, Cx.sum_im, Cx.mul_im, cx_im]
        rw [e, e12, V4.getD_store_in _ _ _ _ _ hk (by rw [V4.size_store, V4.size_store, V4.size_store]; omega), h4]
  refine ⟨vals, ?_⟩
  obtain ⟨r1, r2, r3⟩ := mat2cols_ref_exact nrows dst u v hb
  apply eq_of_blocks 2 _ _ (by rw [r1, e]; simp)
  · intro t k ht hk
    rcases t with _ | _ | t
    · simp only [Nat.mul_zero, Nat.zero_add]
      rw [(vals k hk).1, (r2 k hk).1]
    · simp only [Nat.zero_add, Nat.mul_one]
      rw [(vals k hk).2, (r2 k hk).2]
    · omega
  · intro x hx
    rw [r3 x (by omega), e, V4.getD_store_out _ _ _ _ _ (by omega), V4.getD_store_out _ _ _ _ _ (by omega),
      V4.getD_store_out _ _ _ _ _ (by omega), V4.getD_store_out _ _ _ _ _ (by omega)]

/-- the window `jmin..jmax-1` the code iterates over is exactly the set of index pairs of the definition
    (`convCoeff`: all `j < sizeb` with `j ≤ k` and `k - j < sizea`); past the end of the product it is empty -/
theorem convolution_window (a : Array R) (sizea : Nat) (b : Array R) (sizeb : Nat) (k l : Nat) :
    convCoeff a sizea b sizeb k l =
      if k < sizea + sizeb then ∑ j ∈ Ico (convJmin k sizea) (convJmax k sizeb), convTerm a b k l j else 0 := by
  unfold convCoeff
  split
  · rename_i h; rw [conv_window k sizea sizeb h]
  · rename_i h; rw [conv_window_empty k sizea sizeb (by omega), sum_empty]

/-- `reim4_convolution_1coeff_ref`: coefficient `k` of the product, `Σ_{i+j=k} a_i·b_j` lane-wise, for all
    sizes including 0 and every `k` (0 past the end) -/
theorem convolution_1coeff_exact (k : Nat) (dest a : Array R) (sizea : Nat) (b : Array R) (sizeb : Nat)
    (hb : 8 ≤ dest.size) :
    (convolution1coeffRef (RArith.ofRing R) k dest a sizea b sizeb).size = dest.size ∧
    (∀ l, l < 4 → cx (convolution1coeffRef (RArith.ofRing R) k dest a sizea b sizeb) l (l + 4) = convCoeff a sizea b sizeb k l) ∧
    (∀ x, 8 ≤ x → (convolution1coeffRef (RArith.ofRing R) k dest a sizea b sizeb).getD x 0 = dest.getD x 0) := by
  unfold convolution1coeffRef
  obtain ⟨s1, s2, s3⟩ := conv1At_exact k dest 0 a sizea b sizeb (by omega)
  refine ⟨s1, ?_, fun x hx => s3 x (by omega)⟩
  intro l hl
  have := s2 l hl
  simp only [Nat.zero_add] at this
  exact this

/-- `reim4_convolution_2coeff_ref`: coefficients `k` and `k+1` -/
theorem convolution_2coeff_exact (k : Nat) (dest a : Array R) (sizea : Nat) (b : Array R) (sizeb : Nat)
    (hb : 16 ≤ dest.size) :
    (convolution2coeffRef (RArith.ofRing R) k dest a sizea b sizeb).size = dest.size ∧
    (∀ l, l < 4 →
      cx (convolution2coeffRef (RArith.ofRing R) k dest a sizea b sizeb) l (l + 4) = convCoeff a sizea b sizeb k l ∧
      cx (convolution2coeffRef (RArith.ofRing R) k dest a sizea b sizeb) (8 + l) (8 + l + 4) = convCoeff a sizea b sizeb (k + 1) l) ∧
    (∀ x, 16 ≤ x → (convolution2coeffRef (RArith.ofRing R) k dest a sizea b sizeb).getD x 0 = dest.getD x 0) := by
  unfold convolution2coeffRef
  obtain ⟨s1, s2, s3⟩ := conv1At_exact k dest 0 a sizea b sizeb (by omega)
  obtain ⟨t1, t2, t3⟩ := conv1At_exact (k + 1) (convolution1coeffAt (RArith.ofRing R) k dest 0 a sizea b sizeb) 8 a sizea b sizeb
    (by rw [s1]; omega)
  refine ⟨by rw [t1, s1], ?_, fun x hx => by rw [t3 x (by omega), s3 x (by omega)]⟩
  intro l hl
  constructor
  · have := s2 l hl
    simp only [Nat.zero_add] at this
    rw [← this]
    ext
    · simp only [cx_re]; exact t3 l (by omega)
    · simp only [cx_im]; exact t3 (l + 4) (by omega)
  · exact t2 l hl

/-- `reim4_convolution_ref`: block `t < dest_size` of `dest` receives coefficient `t + dest_offset`; nothing else is
    written; every window (size 0, offsets before / across / past the product) -/
theorem convolution_exact (dest : Array R) (destSize destOffset : Nat) (a : Array R) (sizea : Nat) (b : Array R) (sizeb : Nat)
    (hb : 8 * destSize ≤ dest.size) :
    (convolutionRef (RArith.ofRing R) dest destSize destOffset a sizea b sizeb).size = dest.size ∧
    (∀ t l, t < destSize → l < 4 →
      cx (convolutionRef (RArith.ofRing R) dest destSize destOffset a sizea b sizeb) (8 * t + l) (8 * t + l + 4) =
        convCoeff a sizea b sizeb (t + destOffset) l) ∧
    (∀ x, 8 * destSize ≤ x →
      (convolutionRef (RArith.ofRing R) dest destSize destOffset a sizea b sizeb).getD x 0 = dest.getD x 0) :=
  conv_exact dest destSize destOffset a sizea b sizeb hb

/-- `reim4_fftvec_mul_{ref,fma}`: evaluation-wise complex product on the reim4 layout; FMA = reference -/
theorem reim4_fftvec_mul_exact (m : Nat) (hm : m % 4 = 0) (r a b : Array R) (hr : 2 * m ≤ r.size) :
    Pointwise idxReim4 m r (reim4FftvecMulRef (RArith.ofRing R) m r a b) (fun i => ev idxReim4 a i * ev idxReim4 b i) ∧
    reim4FftvecMulFma (RArith.ofRing R) m r a b = some (reim4FftvecMulRef (RArith.ofRing R) m r a b) := by
  have h1 := reim4FftvecMulRef_spec m hm r a b hr
  obtain ⟨res, h2, h3⟩ := reim4FftvecMulFma_spec m hm r a b hr
  exact ⟨h1, by rw [h2, Pointwise.unique (covers_reim4 m hm) h3 h1]⟩

/-- `reim4_fftvec_addmul_{ref,fma}`: `r_i += a_i·b_i` on the reim4 layout; FMA = reference -/
theorem reim4_fftvec_addmul_exact (m : Nat) (hm : m % 4 = 0) (r a b : Array R) (hr : 2 * m ≤ r.size) :
    Pointwise idxReim4 m r (reim4FftvecAddmulRef (RArith.ofRing R) m r a b)
      (fun i => ev idxReim4 r i + ev idxReim4 a i * ev idxReim4 b i) ∧
    reim4FftvecAddmulFma (RArith.ofRing R) m r a b = some (reim4FftvecAddmulRef (RArith.ofRing R) m r a b) := by
  have h1 := reim4FftvecAddmulRef_spec m hm r a b hr
  obtain ⟨res, h2, h3⟩ := reim4FftvecAddmulFma_spec m hm r a b hr
  exact ⟨h1, by rw [h2, Pointwise.unique (covers_reim4 m hm) h3 h1]⟩

/-- `reim_fftvec_mul_{ref,fma}` on the split layout (the reference code for every `m`, the FMA code for `4 | m`) -/
theorem reim_fftvec_mul_exact (m : Nat) (r a b : Array R) (hr : 2 * m ≤ r.size) :
    Pointwise (idxReim m) m r (reimFftvecMulRef (RArith.ofRing R) m r a b) (fun i => ev (idxReim m) a i * ev (idxReim m) b i) ∧
    (m % 4 = 0 → reimFftvecMulFma (RArith.ofRing R) m r a b = some (reimFftvecMulRef (RArith.ofRing R) m r a b)) := by
  have h1 := reimFftvecMulRef_spec m r a b hr
  refine ⟨h1, fun hm => ?_⟩
  obtain ⟨res, h2, h3⟩ := reimFftvecMulFma_spec m hm r a b hr
  rw [h2, Pointwise.unique (covers_reim m) h3 h1]

/-- `reim_fftvec_addmul_{ref,fma}` -/
theorem reim_fftvec_addmul_exact (m : Nat) (r a b : Array R) (hr : 2 * m ≤ r.size) :
    Pointwise (idxReim m) m r (reimFftvecAddmulRef (RArith.ofRing R) m r a b)
      (fun i => ev (idxReim m) r i + ev (idxReim m) a i * ev (idxReim m) b i) ∧
    (m % 4 = 0 → reimFftvecAddmulFma (RArith.ofRing R) m r a b = some (reimFftvecAddmulRef (RArith.ofRing R) m r a b)) := by
  have h1 := reimFftvecAddmulRef_spec m r a b hr
  refine ⟨h1, fun hm => ?_⟩
  obtain ⟨res, h2, h3⟩ := reimFftvecAddmulFma_spec m hm r a b hr
  rw [h2, Pointwise.unique (covers_reim m) h3 h1]

/-- `cplx_fftvec_mul_{ref,fma}` on the interleaved layout (reference: every `m`; AVX2 `do…while`: `8 | m`, `m > 0`) -/
theorem cplx_fftvec_mul_exact (m : Nat) (r a b : Array R) (hr : 2 * m ≤ r.size) :
    Pointwise idxCplx m r (cplxFftvecMulRef (RArith.ofRing R) m r a b) (fun i => ev idxCplx a i * ev idxCplx b i) ∧
    (m % 8 = 0 → 0 < m → cplxFftvecMulFma (RArith.ofRing R) m r a b = cplxFftvecMulRef (RArith.ofRing R) m r a b) := by
  have h1 := cplxFftvecMulRef_spec m r a b hr
  refine ⟨h1, fun hm h0 => ?_⟩
  have h3 := cplxMulSimd_spec m (by omega) r a b hr
  unfold cplxFftvecMulFma
  simp only [ofRing_zero]
  rw [iters_mul_fma m hm h0]
  exact Pointwise.unique (covers_cplx m) h3 h1

/-- `cplx_fftvec_addmul_{ref,fma,sse,avx512}` (AVX2: `4 | m`; SSE: `2 | m`; AVX-512: `8 | m`; `m > 0`) -/
theorem cplx_fftvec_addmul_exact (m : Nat) (r a b : Array R) (hr : 2 * m ≤ r.size) :
    Pointwise idxCplx m r (cplxFftvecAddmulRef (RArith.ofRing R) m r a b)
      (fun i => ev idxCplx r i + ev idxCplx a i * ev idxCplx b i) ∧
    (m % 4 = 0 → 0 < m → cplxFftvecAddmulFma (RArith.ofRing R) m r a b = cplxFftvecAddmulRef (RArith.ofRing R) m r a b) ∧
    (m % 2 = 0 → 0 < m → cplxFftvecAddmulSse (RArith.ofRing R) m r a b = cplxFftvecAddmulRef (RArith.ofRing R) m r a b) ∧
    (m % 8 = 0 → 0 < m → cplxFftvecAddmulAvx512 (RArith.ofRing R) m r a b = cplxFftvecAddmulRef (RArith.ofRing R) m r a b) := by
  have h1 := cplxFftvecAddmulRef_spec m r a b hr
  refine ⟨h1, fun hm h0 => ?_, fun hm h0 => ?_, fun hm h0 => ?_⟩
  · have h3 := cplxAddmulSimd_spec m (by omega) r a b hr
    unfold cplxFftvecAddmulFma cplxFftvecAddmulSimd
    simp only [ofRing_zero]
    rw [iters_addmul_fma m hm h0]
    exact Pointwise.unique (covers_cplx m) h3 h1
  · have h3 := cplxAddmulSimd_spec m hm r a b hr
    unfold cplxFftvecAddmulSse cplxFftvecAddmulSimd
    simp only [ofRing_zero]
    rw [iters_addmul_sse m hm h0]
    exact Pointwise.unique (covers_cplx m) h3 h1
  · have h3 := cplxAddmulSimd_spec m (by omega) r a b hr
    unfold cplxFftvecAddmulAvx512 cplxFftvecAddmulSimd
    simp only [ofRing_zero]
    rw [iters_addmul_avx512 m hm h0]
    exact Pointwise.unique (covers_cplx m) h3 h1

end exact

/-! ## 3. rounding error of the accumulating products (standard model) -/

section err
open Finset
variable {K : Type} [Field K] [LinearOrder K] [IsStrictOrderedRing K]

/-- `reim4_vec_mat1col_product_ref`: real part (cell `k`) and imaginary part (cell `k+4`) of lane `k` are within
    `((1+ε)^(nrows+2) − 1)·Σ|·|` of the exact sums, for every `nrows` including 0 -/
theorem dot_err_ref (ar : RArith K) (ε : K) (sm : StdModel ar ε) (nrows : Nat) (dst u v : Array K) (hb : 8 ≤ dst.size)
    (k : Nat) (hk : k < 4) :
    |(vecMat1colProductRef ar nrows dst u v).getD k 0 - ∑ i ∈ range nrows, reX 0 u v (8 * i + k) (8 * i + k)| ≤
      ((1 + ε) ^ (nrows + 2) - 1) * ∑ i ∈ range nrows, reM 0 u v (8 * i + k) (8 * i + k) ∧
    |(vecMat1colProductRef ar nrows dst u v).getD (k + 4) 0 - ∑ i ∈ range nrows, imX 0 u v (8 * i + k) (8 * i + k)| ≤
      ((1 + ε) ^ (nrows + 2) - 1) * ∑ i ∈ range nrows, imM 0 u v (8 * i + k) (8 * i + k) := by
  unfold vecMat1colProductRef
  obtain ⟨z1, z2, _⟩ := zeroAt_spec ar dst 0 (by omega)
  obtain ⟨_, a, b⟩ := accum_err ar ε sm nrows 0 (fun t => 8 * t) (fun t => 8 * t) (zeroAt ar dst 0) u v
    (by rw [z1]; omega) k hk
  have y1 := z2 k (by omega)
  have y2 := z2 (k + 4) (by omega)
  simp only [Nat.zero_add] at a b y1 y2
  rw [y1] at a
  rw [y2] at b
  rw [sm.zero] at a b
  simp only [zero_add, abs_zero] at a b
  exact ⟨a, b⟩

/-- `reim4_vec_mat1col_product_avx2`: four FMA chains (`nrows` roundings each) and one final subtraction/addition;
    same bound (in fact with exponent `nrows+1`) -/
theorem dot_err_avx2 (ar : RArith K) (ε : K) (sm : StdModel ar ε) (nrows : Nat) (dst u v : Array K) (hb : 8 ≤ dst.size)
    (k : Nat) (hk : k < 4) :
    |(vecMat1colProductAvx2 ar nrows dst u v).getD k 0 - ∑ i ∈ range nrows, reX 0 u v (8 * i + k) (8 * i + k)| ≤
      ((1 + ε) ^ (nrows + 1) - 1) * ∑ i ∈ range nrows, reM 0 u v (8 * i + k) (8 * i + k) ∧
    |(vecMat1colProductAvx2 ar nrows dst u v).getD (k + 4) 0 - ∑ i ∈ range nrows, imX 0 u v (8 * i + k) (8 * i + k)| ≤
      ((1 + ε) ^ (nrows + 1) - 1) * ∑ i ∈ range nrows, imM 0 u v (8 * i + k) (8 * i + k) := by
  generalize hacc : Nat.fold nrows (fun i _ s => vecMat1colAvx2Step ar u v i s)
    (V4.splat ar.zero, V4.splat ar.zero, V4.splat ar.zero, V4.splat ar.zero) = acc
  have e : vecMat1colProductAvx2 ar nrows dst u v =
      V4.store (V4.store dst 0 (V4.sub ar acc.1 acc.2.1)) 4 (V4.add ar acc.2.2.1 acc.2.2.2) := by
    rw [← hacc]; rfl
  obtain ⟨c1, c2, c3, c4⟩ := mat1colAvx2_chain ar nrows u v k hk
  rw [hacc] at c1 c2 c3 c4
  have q : ∀ i, 8 * i + 4 + k = 8 * i + k + 4 := by intro i; omega
  simp only [q, sm.zero] at c1 c2 c3 c4
  have hz := sm.zero
  have g0 := V4.getD_store_in dst 0 (V4.sub ar acc.1 acc.2.1) k (0 : K) hk (by omega)
  rw [Nat.zero_add] at g0
  have e4 : k + 4 = 4 + k := by omega
  have hpow : (1 + ε) ^ (nrows + 1) = (1 + ε) ^ nrows * (1 + ε) := pow_succ _ _
  constructor
  · rw [e, V4.getD_store_out _ _ _ _ _ (by omega), g0, V4.sub, V4.lane_map2, c1, c2, hpow]
    have r1 := fmaChain_err ar ε sm (fun i => u.getD (8 * i + k) 0) (fun i => v.getD (8 * i + k) 0) nrows
    have r2 := fmaChain_err ar ε sm (fun i => u.getD (8 * i + k + 4) 0) (fun i => v.getD (8 * i + k + 4) 0) nrows
    have := combine_err ε ((1 + ε) ^ nrows) _ _ _ _ _ _ (ar.sub _ _) (-1) sm.u_nonneg (Or.inr rfl) r1 r2
      (abs_sum_le_sum_abs _ _) (abs_sum_le_sum_abs _ _)
      (by have := sm.sub (fmaChain ar (fun i => u.getD (8 * i + k) 0) (fun i => v.getD (8 * i + k) 0) nrows)
            (fmaChain ar (fun i => u.getD (8 * i + k + 4) 0) (fun i => v.getD (8 * i + k + 4) 0) nrows)
          simp only [neg_one_mul, ← sub_eq_add_neg]; exact this)
    simp only [neg_one_mul, ← sub_eq_add_neg, ← sum_sub_distrib, ← sum_add_distrib] at this
    exact this
  · rw [e, e4, V4.getD_store_in _ _ _ _ _ hk (by rw [V4.size_store]; omega), V4.add, V4.lane_map2, c3, c4, hpow]
    have r1 := fmaChain_err ar ε sm (fun i => u.getD (8 * i + k) 0) (fun i => v.getD (8 * i + k + 4) 0) nrows
    have r2 := fmaChain_err ar ε sm (fun i => u.getD (8 * i + k + 4) 0) (fun i => v.getD (8 * i + k) 0) nrows
    have := combine_err ε ((1 + ε) ^ nrows) _ _ _ _ _ _ (ar.add _ _) 1 sm.u_nonneg (Or.inl rfl) r1 r2
      (abs_sum_le_sum_abs _ _) (abs_sum_le_sum_abs _ _)
      (by have := sm.add (fmaChain ar (fun i => u.getD (8 * i + k) 0) (fun i => v.getD (8 * i + k + 4) 0) nrows)
            (fmaChain ar (fun i => u.getD (8 * i + k + 4) 0) (fun i => v.getD (8 * i + k) 0) nrows)
          simp only [one_mul]; exact this)
    simp only [one_mul, ← sum_add_distrib] at this
    exact this

/-- `reim4_convolution_1coeff_ref`, `k` inside the product: the window `jmin..jmax-1` accumulates with the same bound,
    `n = jmax − jmin` terms -/
theorem convolution_1coeff_err (ar : RArith K) (ε : K) (sm : StdModel ar ε) (k : Nat) (dest a : Array K) (sizea : Nat)
    (b : Array K) (sizeb : Nat) (hb : 8 ≤ dest.size) (hk : k < sizea + sizeb) (l : Nat) (hl : l < 4) :
    |(convolution1coeffRef ar k dest a sizea b sizeb).getD l 0 -
        ∑ j ∈ Ico (convJmin k sizea) (convJmax k sizeb), reX 0 a b (8 * (k - j) + l) (8 * j + l)| ≤
      ((1 + ε) ^ (convJmax k sizeb - convJmin k sizea + 2) - 1) *
        ∑ j ∈ Ico (convJmin k sizea) (convJmax k sizeb), reM 0 a b (8 * (k - j) + l) (8 * j + l) ∧
    |(convolution1coeffRef ar k dest a sizea b sizeb).getD (l + 4) 0 -
        ∑ j ∈ Ico (convJmin k sizea) (convJmax k sizeb), imX 0 a b (8 * (k - j) + l) (8 * j + l)| ≤
      ((1 + ε) ^ (convJmax k sizeb - convJmin k sizea + 2) - 1) *
        ∑ j ∈ Ico (convJmin k sizea) (convJmax k sizeb), imM 0 a b (8 * (k - j) + l) (8 * j + l) := by
  unfold convolution1coeffRef convolution1coeffAt
  have hk' : ¬ (k ≥ sizea + sizeb) := by omega
  simp only [hk', if_false]
  obtain ⟨z1, z2, _⟩ := zeroAt_spec ar dest 0 (by omega)
  obtain ⟨_, p, q⟩ := accum_err ar ε sm (convJmax k sizeb - convJmin k sizea) 0
    (fun t => 8 * (k - (convJmin k sizea + t))) (fun t => 8 * (convJmin k sizea + t)) (zeroAt ar dest 0) a b
    (by rw [z1]; omega) l hl
  have y1 := z2 l (by omega)
  have y2 := z2 (l + 4) (by omega)
  simp only [Nat.zero_add] at p q y1 y2
  rw [y1] at p
  rw [y2] at q
  rw [sm.zero] at p q
  simp only [zero_add, abs_zero] at p q
  simp only [sum_Ico_eq_sum_range]
  exact ⟨p, q⟩

/-- the standard model is satisfiable: exact arithmetic, `u = 0` -/
example : StdModel (RArith.ofRing K) 0 :=
  { u_nonneg := le_refl _, zero := rfl,
    add := by intro a b; simp, sub := by intro a b; simp, mul := by intro a b; simp,
    fma := by intro a b c; simp, fms := by intro a b c; simp }

end err

/-! concrete instances over `ℤ` (two rows; both operation orders give the same array) -/

example : vecMat1colProductRef (RArith.ofRing Int) 2 (Array.replicate 8 7)
    #[1, 2, 3, 4, 5, 6, 7, 8, 1, 0, -1, 0, 0, 1, 0, -1] #[1, 1, 1, 1, 1, 1, 1, 1, 2, 3, 4, 5, 6, 7, 8, 9]
    = #[-2, -11, -8, 5, 12, 11, 2, 7] := by decide
example : vecMat1colProductAvx2 (RArith.ofRing Int) 2 (Array.replicate 8 7)
    #[1, 2, 3, 4, 5, 6, 7, 8, 1, 0, -1, 0, 0, 1, 0, -1] #[1, 1, 1, 1, 1, 1, 1, 1, 2, 3, 4, 5, 6, 7, 8, 9]
    = #[-2, -11, -8, 5, 12, 11, 2, 7] := by decide
/-- length 0: the result is 0 -/
example : vecMat2colsProductAvx2 (RArith.ofRing Int) 0 (Array.replicate 17 7) #[] #[]
    = (Array.replicate 16 (0 : Int)).push 7 := by decide
-- window of 3 coefficients starting at coefficient 1 of a 2×2-block product: the last one is past the end (0)
set_option maxRecDepth 4096 in
example : convolutionRef (RArith.ofRing Int) (Array.replicate 24 7) 3 1
    #[1, 2, 3, 4, 5, 6, 7, 8, 1, 1, 1, 1, 0, 0, 0, 0] 2 #[1, 0, 0, 0, 0, 1, 0, 0, 2, 2, 2, 2, 1, 1, 1, 1] 2
    = #[-2, -2, -1, 0, 11, 15, 17, 20, 2, 2, 2, 2, 1, 1, 1, 1, 0, 0, 0, 0, 0, 0, 0, 0] := by decide

end Spq.C17
