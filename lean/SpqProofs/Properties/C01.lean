/-
  C01 — FFT64 negacyclic product, exact-arithmetic part (`product_exact_arith`, `rows_zero`).

  The module-level model (`Spq/Module.lean`: `smallProduct`, `svpPrepare`, `svpApply`, `vecIdft`) is validated
  bit-exactly against the library in its binary64 instance (stream `md_model`).  Here it is instantiated with
  the exact arithmetic of a commutative ring `R` (`ExactArith c`: `c.ar = RArith.ofRing R`, `nn = 2m ≥ 2`, FMA
  kernels only when `4 ∣ m` — the library installs them for `m ≥ 4` only), and the conversions / FFT stay abstract
  behind H1–H4 (`ExactDft c z`, to be discharged by C14 / C06):
    H1 `fromZnx` = exact embedding;  H2 `fft` = evaluation at points `z_j` with `z_j^m = i`;
    H3 `ifft ∘ fft = m •`;  H4 `toZnx (m • c) = c`.
  The floating-point budget (`product_budget`) is not part of this file.
-/
import SpqProofs.Lemmas.ModuleVec
import SpqProofs.Lemmas.ModuleExample
namespace Spq.C01
open Finset Spq Spq.Module
variable {R : Type} [CommRing R]

/-- 1. evaluation at a point with `z^N = -1` turns the negacyclic product of two integer polynomials
    (`(nmul a b)_k = Σ_{i+j=k} a_i b_j − Σ_{i+j=k+N} a_i b_j`) into the product of the evaluations — every `N`,
    every commutative ring `K` -/
theorem eval_nmul {K : Type} [CommRing K] (N : Nat) (a b : Array Int) (z : K) (hz : z ^ N = -1) :
    evalF N (fun k => ((icoef (nmul N a b) k : Int) : K)) z
      = evalF N (fun k => ((icoef a k : Int) : K)) z * evalF N (fun k => ((icoef b k : Int) : K)) z := by
  rw [← eval_nmulF N _ _ z hz]
  unfold evalF
  apply sum_congr rfl
  intro k hk
  simp only []
  rw [icoef_nmul _ _ _ _ (mem_range.1 hk)]
  exact congrArg (· * z ^ k) (map_nmulF (Int.castRingHom K) N (icoef a) (icoef b) k)

/-- 2. the `N = 2m` real coefficients evaluated at a point with `z^m = i` = the `m` complex numbers
    `a_k + i·a_{k+m}` (what the reim layout stores) evaluated at the same point -/
theorem reim_eval (m : Nat) (a : Array Int) (z : Cx R) (hz : z ^ m = Cx.I) :
    evalF (2 * m) (fun k => Cx.ofRe ((icoef a k : Int) : R)) z
      = ∑ k ∈ range m, (⟨((icoef a k : Int) : R), ((icoef a (k + m) : Int) : R)⟩ : Cx R) * z ^ k := by
  rw [reim_evalF m _ z Cx.I hz]
  apply sum_congr rfl
  intro k _
  rw [Cx.eq_ofRe_add (⟨((icoef a k : Int) : R), ((icoef a (k + m) : Int) : R)⟩ : Cx R)]

/-- 3. `fft64_znx_small_single_product` returns the negacyclic product (as integer arrays), every `nn = 2m ≥ 2`,
    both flavours of the pointwise multiplication -/
theorem small_product_exact (c : Parts R) (z : Nat → Cx R) (ha : ExactArith c) (hd : ExactDft c z)
    (a b : Array Int) (hsa : a.size = c.nn) (hsb : b.size = c.nn) :
    smallProduct c a b = nmul c.nn a b :=
  smallProduct_exact c z ha hd a b hsa hsb

/-- 4. `svp_prepare` + `svp_apply_dft` + `vec_znx_idft`: limb `i < min rsz asz` is `pol · vec_i` in
    `ℤ[X]/(X^nn + 1)`, every other limb of the `rsz2` output limbs is exactly zero — all limb counts including 0,
    every stride for which the input limbs lie inside `vec` (`hlimb`) -/
theorem svp_exact (c : Parts R) (z : Nat → Cx R) (ha : ExactArith c) (hd : ExactDft c z) (pol : Array Int)
    (hp : pol.size = c.nn) (vec : Array Int) (asz asl rsz rsz2 : Nat)
    (hlimb : ∀ i, i < rsz → i < asz → (limbOf vec i asl c.nn).size = c.nn) :
    (vecIdft c rsz2 (svpApply c rsz (svpPrepare c pol) vec asz asl) rsz).size = rsz2 * c.nn ∧
    ∀ i, i < rsz2 → dlimb (vecIdft c rsz2 (svpApply c rsz (svpPrepare c pol) vec asz asl) rsz) i c.nn =
      if i < rsz ∧ i < asz then nmul c.nn pol (limbOf vec i asl c.nn) else Array.replicate c.nn 0 :=
  svp_exact_aux c z ha hd pol hp vec asz asl rsz rsz2 hlimb

/-- `rows_zero`: output rows beyond the input size are exactly zero -/
theorem rows_zero (c : Parts R) (z : Nat → Cx R) (ha : ExactArith c) (hd : ExactDft c z) (pol : Array Int)
    (hp : pol.size = c.nn) (vec : Array Int) (asz asl rsz rsz2 : Nat)
    (hlimb : ∀ i, i < rsz → i < asz → (limbOf vec i asl c.nn).size = c.nn) (i : Nat) (hi : i < rsz2) (hge : min rsz asz ≤ i) :
    dlimb (vecIdft c rsz2 (svpApply c rsz (svpPrepare c pol) vec asz asl) rsz) i c.nn = Array.replicate c.nn 0 := by
  rw [(svp_exact_aux c z ha hd pol hp vec asz asl rsz rsz2 hlimb).2 i hi, if_neg (by omega)]

/-! ### the hypotheses are satisfiable, the statements are not vacuous -/

/-- `R = ℤ`, `nn = 2`: the module computes with one Gaussian integer, `z_0 = i`; H1–H4 and the dispatch invariants hold -/
example : ExactArith gaussParts ∧ ExactDft gaussParts (fun _ => Cx.I) := ⟨gauss_exactArith, gauss_exactDft⟩
/-- on that instance the model computes `(1 + 2X)(3 + 4X) = -5 + 10X  (mod X² + 1)` -/
example : smallProduct gaussParts #[1, 2] #[3, 4] = #[-5, 10] := by decide
example : nmul 2 #[1, 2] #[3, 4] = #[-5, 10] := by decide
/-- the wrap-around sign of the specification: `X³ · X = -1  (mod X⁴ + 1)` -/
example : nmul 4 #[0, 0, 0, 1] #[0, 1, 0, 0] = #[-1, 0, 0, 0] := by decide
/-- svp with `rsz = 2`, `asz = 1`, stride 3, three output limbs: one product limb, two zero limbs -/
example : vecIdft gaussParts 3 (svpApply gaussParts 2 (svpPrepare gaussParts #[1, 2]) #[3, 4, 99, 0, 1] 1 3) 2
    = #[-5, 10, 0, 0, 0, 0] := by decide
/-- a point with `z^N = -1` for `eval_nmul`: `z = i` in `ℤ[i]`, `N = 2` -/
example : (Cx.I : Cx Int) ^ 2 = -1 := by rw [pow_two, Cx.I_mul_I]

end Spq.C01
