/-
  Numerics: the floating-point "standard model" for the framework's bit-exact binary64 (`Spq/F64.lean`) and its
  first consequences (staged numerics of DESIGN.md §5, C06.4 / C01 / C17).

  Vocabulary (`SpqProofs/Lemmas/F64StdVal.lean`):
  * `val b : ℚ`         exact value of the pattern `b` (`toScaled b / 2^1074`);
  * `Fin64 b`           `b < 2^64` and the exponent field is not 2047;
  * `NoOvf q`           `|q| < 2^1024·(1 − 2^-54)` (`ovfThr`): round-to-nearest does not overflow;
  * `NormalRange q`     `q = 0 ∨ 2^-1022 ≤ |q| < 2^1024·(1 − 2^-54)`;
  * `rnd : ℚ → ℚ`       round to nearest even binary64 (defined with `pack`; exact on the multiples of 2^-2148);
  * `arQ : RArith ℚ`    `op = rnd ∘ exact op`;  `arG = arQ.guard GoodQ`: `arQ` where the exact result is a multiple of
                        2^-2148 in the normal range (`GoodQ`), the exact operation elsewhere;
  * `arithOk`           binary64 on `(pattern, flag)`: the flag of a result says that all the operations it depends on
                        had finite inputs and an exact result in `NormalRange`; `lift b = (b, Fin64 b)`; `Ok x`: the
                        flag of `x` holds (a structure around `x.2`, so that elaboration never evaluates a kernel);
  * `InBox g E0 u`      every entry of `u` is a finite double in `2^-g·ℤ` of magnitude `≤ 2^E0` (a-priori variant);
  * `Cplx K`, `nsq`     complex numbers over an ordered field and the squared modulus (section 4).

  Not covered: overflow/NaN/inf operands (the model does not represent them), the inverse butterflies, and the tie
  of `fft_err` (stated for the level network `V`/`VH` over an abstract arithmetic satisfying `FStd`) to the
  bit-level FFT drivers of `Spq/Fft` (needs real twiddles, i.e. `K = ℝ`, and "schedule = level network" for
  rounded butterflies).
-/
import SpqProofs.Lemmas.F64StdBox
import SpqProofs.Properties.C17
import SpqProofs.Lemmas.FftErrInst

namespace Spq.Numerics
open Spq.F64 Spq.Reim4
open Finset (range)

/-! ## 1. the standard model for the five operations -/

/-- `a + b`: for every exact sum below the overflow threshold the result is finite with relative error `≤ 2^-53`
    (no lower limit: sums in the subnormal range are exact) -/
theorem f64_add_std (a b : Nat) (_ha : Fin64 a) (_hb : Fin64 b) (hq : NoOvf (val a + val b)) :
    Fin64 (F64.add a b) ∧ |val (F64.add a b) - (val a + val b)| ≤ 2 ^ (-53 : ℤ) * |val a + val b| :=
  add_std a b hq

theorem f64_sub_std (a b : Nat) (_ha : Fin64 a) (hb : Fin64 b) (hq : NoOvf (val a - val b)) :
    Fin64 (F64.sub a b) ∧ |val (F64.sub a b) - (val a - val b)| ≤ 2 ^ (-53 : ℤ) * |val a - val b| :=
  sub_std a b hb.1 hq

/-- `a * b`: finite; relative error `≤ 2^-53` in the normal range (exact when the product is 0), absolute error
    `≤ 2^-1075` when `|a·b| ≤ 2^-1022` -/
theorem f64_mul_std (a b : Nat) (_ha : Fin64 a) (_hb : Fin64 b) (hq : NoOvf (val a * val b)) :
    Fin64 (F64.mul a b) ∧
    (NormalRange (val a * val b) → |val (F64.mul a b) - val a * val b| ≤ 2 ^ (-53 : ℤ) * |val a * val b|) ∧
    (|val a * val b| ≤ 2 ^ (-1022 : ℤ) → |val (F64.mul a b) - val a * val b| ≤ 2 ^ (-1075 : ℤ)) :=
  mul_std a b hq

/-- fused `a * b + c`, one rounding -/
theorem f64_fma_std (a b c : Nat) (_ha : Fin64 a) (_hb : Fin64 b) (_hc : Fin64 c) (hq : NoOvf (val a * val b + val c)) :
    Fin64 (F64.fma a b c) ∧
    (NormalRange (val a * val b + val c) →
      |val (F64.fma a b c) - (val a * val b + val c)| ≤ 2 ^ (-53 : ℤ) * |val a * val b + val c|) ∧
    (|val a * val b + val c| ≤ 2 ^ (-1022 : ℤ) → |val (F64.fma a b c) - (val a * val b + val c)| ≤ 2 ^ (-1075 : ℤ)) :=
  fma_std a b c hq

/-- fused `a * b - c`, one rounding -/
theorem f64_fms_std (a b c : Nat) (_ha : Fin64 a) (_hb : Fin64 b) (hc : Fin64 c) (hq : NoOvf (val a * val b - val c)) :
    Fin64 (F64.fms a b c) ∧
    (NormalRange (val a * val b - val c) →
      |val (F64.fms a b c) - (val a * val b - val c)| ≤ 2 ^ (-53 : ℤ) * |val a * val b - val c|) ∧
    (|val a * val b - val c| ≤ 2 ^ (-1022 : ℤ) → |val (F64.fms a b c) - (val a * val b - val c)| ≤ 2 ^ (-1075 : ℤ)) :=
  fms_std a b c hc.1 hq

/-- negation is exact -/
theorem f64_neg_exact (a : Nat) (ha : Fin64 a) : Fin64 (F64.neg a) ∧ val (F64.neg a) = - val a :=
  ⟨fin64_neg ha, val_neg ha.1⟩

/-- the hypotheses are satisfiable: `3.0 * 2.0` (and its fused variants with `c = 1.0`) -/
example : Fin64 4613937818241073152 ∧ Fin64 4611686018427387904 ∧ Fin64 4607182418800017408 ∧
    NoOvf (val 4613937818241073152 * val 4611686018427387904) ∧
    NormalRange (val 4613937818241073152 * val 4611686018427387904) ∧
    NormalRange (val 4613937818241073152 * val 4611686018427387904 - val 4607182418800017408) := by
  have p1 : (4607182418800017408 : Nat) = ofInt 1 := by decide +kernel
  have p2 : (4611686018427387904 : Nat) = ofInt 2 := by decide +kernel
  have p3 : (4613937818241073152 : Nat) = ofInt 3 := by decide +kernel
  have v1 : val (ofInt 1) = ((1 : ℤ) : ℚ) := val_ofInt (by decide)
  have v2 : val (ofInt 2) = ((2 : ℤ) : ℚ) := val_ofInt (by decide)
  have v3 : val (ofInt 3) = ((3 : ℤ) : ℚ) := val_ofInt (by decide)
  refine ⟨by decide, by decide, by decide, ?_⟩
  rw [p1, p2, p3, v1, v2, v3, ← Int.cast_mul, ← Int.cast_sub]
  exact ⟨(normalRange_int _ (by decide)).noOvf, normalRange_int _ (by decide), normalRange_int _ (by decide)⟩

/-! ## 2. the operations as one rounding function on ℚ -/

/-- every operation is `rnd` of the exact result (also when the result overflows: both sides are then the value
    decoded from the `inf` pattern) -/
theorem f64_val_rnd (a b c : Nat) (hb : b < 18446744073709551616) (hc : c < 18446744073709551616) :
    val (F64.add a b) = rnd (val a + val b) ∧ val (F64.sub a b) = rnd (val a - val b) ∧
    val (F64.mul a b) = rnd (val a * val b) ∧ val (F64.fma a b c) = rnd (val a * val b + val c) ∧
    val (F64.fms a b c) = rnd (val a * val b - val c) :=
  ⟨val_add a b, val_sub a b hb, val_mul a b, val_fma a b c, val_fms a b c hc⟩

/-- `rnd` on the multiples of `2^-2148` below the overflow threshold: relative error `2^-53` in the normal range,
    absolute error `2^-1075` below it -/
theorem f64_rnd_std (q : ℚ) (hd : Dyadic q) (hov : NoOvf q) :
    (NormalRange q → |rnd q - q| ≤ 2 ^ (-53 : ℤ) * |q|) ∧ (|q| ≤ 2 ^ (-1022 : ℤ) → |rnd q - q| ≤ 2 ^ (-1075 : ℤ)) :=
  rnd_std q hd hov

/-- binary64 satisfies the standard model with `u = 2^-53` for exact results in the normal range -/
theorem f64_stdModelOn : StdModelOn arQ (2 ^ (-53 : ℤ)) GoodQ := arQ_stdModelOn

/-- an unconditional `StdModel arQ u` is impossible because of underflow: `fl(2^-1074 · 2^-1) = 0` -/
theorem f64_no_unconditional_stdModel (u : ℚ) (hu : u < 1) : ¬ StdModel arQ u := arQ_not_stdModel u hu

/-- … and the guarded arithmetic satisfies agent H's unconditional `StdModel` -/
theorem f64_stdModel_guarded : StdModel arG (2 ^ (-53 : ℤ)) := arG_stdModel

/-! ## 3. the one-column reim4 dot product in binary64 -/

/-- **`reim4_vec_mat1col_product_ref` in binary64.**  Run the kernel on flagged patterns (`arithOk`): if the flag of
    result cell `k` (real part of lane `k`) holds — all the partial results it depends on are in the normal range —
    the bit-level result is finite and within `((1+2^-53)^(n+2) − 1)·Σ(|a c| + |b d|)` of the exact real part of the
    complex dot product; likewise cell `k+4` (imaginary part). -/
theorem dot_err_f64_ref (n : Nat) (dst u v : Array Nat) (hb : 8 ≤ dst.size) (k : Nat) (hk : k < 4) :
    (Ok ((vecMat1colProductRef arithOk n (dst.map lift) (u.map lift) (v.map lift)).getD k (lift 0)) →
      Fin64 ((vecMat1colProductRef F64.arith n dst u v).getD k 0) ∧
      |val ((vecMat1colProductRef F64.arith n dst u v).getD k 0) -
          ∑ i ∈ range n, reX 0 (u.map val) (v.map val) (8 * i + k) (8 * i + k)| ≤
        ((1 + 2 ^ (-53 : ℤ)) ^ (n + 2) - 1) * ∑ i ∈ range n, reM 0 (u.map val) (v.map val) (8 * i + k) (8 * i + k)) ∧
    (Ok ((vecMat1colProductRef arithOk n (dst.map lift) (u.map lift) (v.map lift)).getD (k + 4) (lift 0)) →
      Fin64 ((vecMat1colProductRef F64.arith n dst u v).getD (k + 4) 0) ∧
      |val ((vecMat1colProductRef F64.arith n dst u v).getD (k + 4) 0) -
          ∑ i ∈ range n, imX 0 (u.map val) (v.map val) (8 * i + k) (8 * i + k)| ≤
        ((1 + 2 ^ (-53 : ℤ)) ^ (n + 2) - 1) * ∑ i ∈ range n, imM 0 (u.map val) (v.map val) (8 * i + k) (8 * i + k)) := by
  have hs' : 8 ≤ (dst.map val).size := by rw [Array.size_map]; exact hb
  obtain ⟨e1, e2⟩ := C17.dot_err_ref arG u64 arG_stdModel n (dst.map val) (u.map val) (v.map val) hs' k hk
  constructor
  · intro hf
    obtain ⟨hfin, hval⟩ := ref_transfer n dst u v hb k (by omega) hf
    rw [hval]; exact ⟨hfin, e1⟩
  · intro hf
    obtain ⟨hfin, hval⟩ := ref_transfer n dst u v hb (k + 4) (by omega) hf
    rw [hval]; exact ⟨hfin, e2⟩

/-- **`reim4_vec_mat1col_product_avx2` in binary64** (four FMA chains and a final subtraction / addition): same
    statement, with the exponent `n+1` -/
theorem dot_err_f64_avx2 (n : Nat) (dst u v : Array Nat) (hb : 8 ≤ dst.size) (k : Nat) (hk : k < 4) :
    (Ok ((vecMat1colProductAvx2 arithOk n (dst.map lift) (u.map lift) (v.map lift)).getD k (lift 0)) →
      Fin64 ((vecMat1colProductAvx2 F64.arith n dst u v).getD k 0) ∧
      |val ((vecMat1colProductAvx2 F64.arith n dst u v).getD k 0) -
          ∑ i ∈ range n, reX 0 (u.map val) (v.map val) (8 * i + k) (8 * i + k)| ≤
        ((1 + 2 ^ (-53 : ℤ)) ^ (n + 1) - 1) * ∑ i ∈ range n, reM 0 (u.map val) (v.map val) (8 * i + k) (8 * i + k)) ∧
    (Ok ((vecMat1colProductAvx2 arithOk n (dst.map lift) (u.map lift) (v.map lift)).getD (k + 4) (lift 0)) →
      Fin64 ((vecMat1colProductAvx2 F64.arith n dst u v).getD (k + 4) 0) ∧
      |val ((vecMat1colProductAvx2 F64.arith n dst u v).getD (k + 4) 0) -
          ∑ i ∈ range n, imX 0 (u.map val) (v.map val) (8 * i + k) (8 * i + k)| ≤
        ((1 + 2 ^ (-53 : ℤ)) ^ (n + 1) - 1) * ∑ i ∈ range n, imM 0 (u.map val) (v.map val) (8 * i + k) (8 * i + k)) := by
  have hs' : 8 ≤ (dst.map val).size := by rw [Array.size_map]; exact hb
  obtain ⟨e1, e2⟩ := C17.dot_err_avx2 arG u64 arG_stdModel n (dst.map val) (u.map val) (v.map val) hs' k hk
  constructor
  · intro hf
    obtain ⟨hfin, hval⟩ := avx2_transfer n dst u v hb k (by omega) hf
    rw [hval]; exact ⟨hfin, e1⟩
  · intro hf
    obtain ⟨hfin, hval⟩ := avx2_transfer n dst u v hb (k + 4) (by omega) hf
    rw [hval]; exact ⟨hfin, e2⟩

/-- the hypotheses are satisfiable: one row, `u = 3 + i`, `v = 2 + i` in every lane; the conclusion then bounds the
    distance of the computed real part to `3·2 − 1·1` -/
example : 8 ≤ (Array.replicate 8 0).size ∧ (0 : Nat) < 4 ∧
    Ok ((vecMat1colProductRef arithOk 1 ((Array.replicate 8 0).map lift) (exU.map lift) (exV.map lift)).getD 0 (lift 0)) ∧
    Ok ((vecMat1colProductAvx2 arithOk 1 ((Array.replicate 8 0).map lift) (exU.map lift) (exV.map lift)).getD 0 (lift 0)) :=
  ⟨by simp, by omega, ex_ref_ok, ex_avx2_ok⟩

/-! ### a-priori version: inputs in a box

  `InBox g E0 u`: every entry of `u` is a finite double, an integer multiple of `2^-g`, of magnitude `≤ 2^E0`.
  Then every partial result is an integer multiple of `2^-2g` — so it is 0 or at least `2^-2g ≥ 2^-1022` — and stays
  below `2^(2E0+2n+3)`: the flags of `dot_err_f64_*` hold (proved by running the kernels on the abstract arithmetic
  `absArith`, `F64StdAbs.lean`). -/

theorem dot_err_f64_ref_box (n : Nat) (dst u v : Array Nat) (g : ℕ) (E0 : ℤ) (hb : 8 ≤ dst.size)
    (hnu : 8 * n ≤ u.size) (hnv : 8 * n ≤ v.size) (hu : InBox g E0 u) (hv : InBox g E0 v)
    (hg : 2 * g ≤ 1022) (hE0 : 0 ≤ E0) (hE : 2 * E0 + 2 * n + 2 ≤ 1023) (k : Nat) (hk : k < 4) :
    (Fin64 ((vecMat1colProductRef F64.arith n dst u v).getD k 0) ∧
      |val ((vecMat1colProductRef F64.arith n dst u v).getD k 0) -
          ∑ i ∈ range n, reX 0 (u.map val) (v.map val) (8 * i + k) (8 * i + k)| ≤
        ((1 + 2 ^ (-53 : ℤ)) ^ (n + 2) - 1) * ∑ i ∈ range n, reM 0 (u.map val) (v.map val) (8 * i + k) (8 * i + k)) ∧
    (Fin64 ((vecMat1colProductRef F64.arith n dst u v).getD (k + 4) 0) ∧
      |val ((vecMat1colProductRef F64.arith n dst u v).getD (k + 4) 0) -
          ∑ i ∈ range n, imX 0 (u.map val) (v.map val) (8 * i + k) (8 * i + k)| ≤
        ((1 + 2 ^ (-53 : ℤ)) ^ (n + 2) - 1) * ∑ i ∈ range n, imM 0 (u.map val) (v.map val) (8 * i + k) (8 * i + k)) := by
  have hU : ∀ i, i < 8 * n → (boxArr g E0 u).getD i absArith.zero = some (g, E0) :=
    fun i hi => boxArr_getD_lt g E0 u i (by omega)
  have hV : ∀ i, i < 8 * n → (boxArr g E0 v).getD i absArith.zero = some (g, E0) :=
    fun i hi => boxArr_getD_lt g E0 v i (by omega)
  have ok : ∀ c, c < 8 →
      Ok ((vecMat1colProductRef arithOk n (dst.map lift) (u.map lift) (v.map lift)).getD c (lift 0)) := by
    intro c hc
    obtain ⟨r, hr⟩ := absRef_some n g E0 (Array.replicate 8 none) _ _ (by simp) hU hV hg hE0 hE c hc
    exact ok_of_abs_ref n dst u v g E0 hb hu hv c hc r hr
  obtain ⟨h1, h2⟩ := dot_err_f64_ref n dst u v hb k hk
  exact ⟨h1 (ok k (by omega)), h2 (ok (k + 4) (by omega))⟩

theorem dot_err_f64_avx2_box (n : Nat) (dst u v : Array Nat) (g : ℕ) (E0 : ℤ) (hb : 8 ≤ dst.size)
    (hnu : 8 * n ≤ u.size) (hnv : 8 * n ≤ v.size) (hu : InBox g E0 u) (hv : InBox g E0 v)
    (hg : 2 * g ≤ 1022) (hE0 : 0 ≤ E0) (hE : 2 * E0 + 2 * n + 2 ≤ 1023) (k : Nat) (hk : k < 4) :
    (Fin64 ((vecMat1colProductAvx2 F64.arith n dst u v).getD k 0) ∧
      |val ((vecMat1colProductAvx2 F64.arith n dst u v).getD k 0) -
          ∑ i ∈ range n, reX 0 (u.map val) (v.map val) (8 * i + k) (8 * i + k)| ≤
        ((1 + 2 ^ (-53 : ℤ)) ^ (n + 1) - 1) * ∑ i ∈ range n, reM 0 (u.map val) (v.map val) (8 * i + k) (8 * i + k)) ∧
    (Fin64 ((vecMat1colProductAvx2 F64.arith n dst u v).getD (k + 4) 0) ∧
      |val ((vecMat1colProductAvx2 F64.arith n dst u v).getD (k + 4) 0) -
          ∑ i ∈ range n, imX 0 (u.map val) (v.map val) (8 * i + k) (8 * i + k)| ≤
        ((1 + 2 ^ (-53 : ℤ)) ^ (n + 1) - 1) * ∑ i ∈ range n, imM 0 (u.map val) (v.map val) (8 * i + k) (8 * i + k)) := by
  have hU : ∀ i, i < 8 * n → (boxArr g E0 u).getD i absArith.zero = some (g, E0) :=
    fun i hi => boxArr_getD_lt g E0 u i (by omega)
  have hV : ∀ i, i < 8 * n → (boxArr g E0 v).getD i absArith.zero = some (g, E0) :=
    fun i hi => boxArr_getD_lt g E0 v i (by omega)
  have ok : ∀ c, c < 8 →
      Ok ((vecMat1colProductAvx2 arithOk n (dst.map lift) (u.map lift) (v.map lift)).getD c (lift 0)) := by
    intro c hc
    obtain ⟨r, hr⟩ := absAvx2_some n g E0 (Array.replicate 8 none) _ _ (by simp) hU hV hg hE0 hE c hc
    exact ok_of_abs_avx2 n dst u v g E0 hb hu hv c hc r hr
  obtain ⟨h1, h2⟩ := dot_err_f64_avx2 n dst u v hb k hk
  exact ⟨h1 (ok k (by omega)), h2 (ok (k + 4) (by omega))⟩

/-- a sufficient condition for `InBox`: every entry is a finite double that is 0 or has `2^(53-g) ≤ |x| ≤ 2^E0`
    (e.g. `g = 511`: any value that is 0 or at least `2^-458` in magnitude) -/
theorem inBox_of_magnitude (g : ℕ) (E0 : ℤ) (u : Array Nat)
    (h : ∀ i, i < u.size → Fin64 (u.getD i 0) ∧
      (val (u.getD i 0) = 0 ∨ (2 : ℚ) ^ (53 - (g : ℤ)) ≤ |val (u.getD i 0)|) ∧ |val (u.getD i 0)| ≤ 2 ^ E0) :
    InBox g E0 u := inBox_of_range g E0 u h

/-- the box hypotheses are satisfiable: the arrays of the previous example, `g = 0`, `E0 = 2`, one row -/
example : 8 * 1 ≤ exU.size ∧ 8 * 1 ≤ exV.size ∧ InBox 0 2 exU ∧ InBox 0 2 exV ∧ 2 * 0 ≤ 1022 ∧ (0 : ℤ) ≤ 2 ∧
    2 * (2 : ℤ) + 2 * (1 : ℕ) + 2 ≤ 1023 :=
  ⟨by decide, by decide, exU_box, exV_box, by omega, by omega, by norm_num⟩

/-! ## 4. FFT butterflies and the level network under the standard model (C06.4)

  Over an ordered field `K`; complex numbers `Cplx K`, `nsq z = |z|²`; all 2-norm statements are squared
  (`‖e‖₂ ≤ η‖x‖₂` is `Σ nsq e ≤ η²·Σ nsq x`), so no square root is needed.
  `eta u τ = (1+u)(1+ρ) − 1`, `ρ = τ + (3/2)·((1+u)² − 1)·(1+τ)`: to first order `τ + 4u`. -/

section fft
open Spq.FftErr Spq.Fft Spq.Fft.Alg
variable {K : Type} [Field K] [LinearOrder K] [IsStrictOrderedRing K]

/-- **`butterfly_err`.**  In an arithmetic with the standard model (`FStd A u`), with a stored twiddle `ŵ` such that
    `|ŵ − ω| ≤ τ` and `|ω| = 1`, the forward butterflies of `Spq/Fft/Core.lean` compute
    `(a, b) ↦ (a + ω'·b, a − ω'·b)` with `‖computed − exact‖₂ ≤ eta u τ·‖exact‖₂` (`‖exact‖₂ = √2·‖(a,b)‖₂`):
    `ctRef`, `ctFma` for `ω' = ω`; `citRef`, `citFmaB`, `citFmaN` for `ω' = i·ω`. -/
theorem butterfly_err (A : Arith K) (u τ : K) (sm : FStd A u) (hτ : 0 ≤ τ) (wh w : Cplx K)
    (hw : nsq w = 1) (hτw : nsq (wh - w) ≤ τ ^ 2) :
    BfErrAt (fun a b => bfC (ctRef A) a b wh) w (eta u τ) ∧
    BfErrAt (fun a b => bfC (ctFma A) a b wh) w (eta u τ) ∧
    BfErrAt (fun a b => bfC (citRef A) a b wh) (Ic * w) (eta u τ) ∧
    BfErrAt (fun a b => bfC (citFmaB A) a b wh) (Ic * w) (eta u τ) ∧
    BfErrAt (fun a b => bfC (citFmaN A) a b wh) (Ic * w) (eta u τ) :=
  ⟨butterfly_err_ref A u τ sm hτ wh w hw hτw, butterfly_err_fma A u τ sm hτ wh w hw hτw,
    butterfly_err_cit_ref A u τ sm hτ wh w hw hτw, butterfly_err_cit_fmaB A u τ sm hτ wh w hw hτw,
    butterfly_err_cit_fmaN A u τ sm hτ wh w hw hτw⟩

/-- `butterfly_err` spelled out for `ctRef`: the squared errors of the two outputs against `η²·2(|a|² + |b|²)` -/
theorem butterfly_err_explicit (A : Arith K) (u τ : K) (sm : FStd A u) (hτ : 0 ≤ τ) (wh w a b : Cplx K)
    (hw : nsq w = 1) (hτw : nsq (wh - w) ≤ τ ^ 2) :
    nsq ((bfC (ctRef A) a b wh).1 - (a + w * b)) + nsq ((bfC (ctRef A) a b wh).2 - (a - w * b)) ≤
      eta u τ ^ 2 * (2 * nsq a + 2 * nsq b) := by
  rw [← bfly_norm a b w hw]
  exact butterfly_err_ref A u τ sm hτ wh w hw hτw a b

/-- **`fft_err`** for the level network `V` of `FftAlg.lean` (the radix-2 network every schedule of the library is
    equal to, C06.1): computed with butterflies of relative error `η` (`g ℓ d b` in block `b` of level `(ℓ, d)`)
    around unit-modulus twiddles `ζ^(twE ℓ d b)`, after all `k` levels
    `‖fl(FFT a) − FFT a‖₂ ≤ ((1+η)^k − 1)·‖FFT a‖₂` on the `2^k` cells. -/
theorem fft_err (ζ : Cplx K) (hζ : nsq ζ = 1) (a : ℕ → Cplx K) (η : K) (hη : 0 ≤ η) (k : ℕ)
    (g : ℕ → ℕ → ℕ → Cplx K → Cplx K → Cplx K × Cplx K)
    (hg : ∀ ℓ d b, ℓ + d + 1 = k → b < 2 ^ ℓ → BfErrAt (g ℓ d b) (ζ ^ twE ℓ d b) η) :
    ∑ p ∈ range (2 ^ k), nsq (VH g a k 0 p - V ζ a k 0 p) ≤
      ((1 + η) ^ k - 1) ^ 2 * ∑ p ∈ range (2 ^ k), nsq (V ζ a k 0 p) :=
  net_err ζ hζ a η hη k g hg k 0 (by omega)

/-- `fft_err` for the reference and the FMA butterfly with a table of stored twiddles `wh ℓ d b` within `τ` of the
    exact `ζ^(twE ℓ d b)`, in an arithmetic with unit roundoff `u`: `η = eta u τ` -/
theorem fft_err_ct (A : Arith K) (u τ : K) (sm : FStd A u) (hτ : 0 ≤ τ) (ζ : Cplx K) (hζ : nsq ζ = 1)
    (a : ℕ → Cplx K) (k : ℕ) (wh : ℕ → ℕ → ℕ → Cplx K)
    (hwh : ∀ ℓ d b, ℓ + d + 1 = k → b < 2 ^ ℓ → nsq (wh ℓ d b - ζ ^ twE ℓ d b) ≤ τ ^ 2) :
    (∑ p ∈ range (2 ^ k), nsq (VH (netOf (ctRef A) wh) a k 0 p - V ζ a k 0 p) ≤
      ((1 + eta u τ) ^ k - 1) ^ 2 * ∑ p ∈ range (2 ^ k), nsq (V ζ a k 0 p)) ∧
    (∑ p ∈ range (2 ^ k), nsq (VH (netOf (ctFma A) wh) a k 0 p - V ζ a k 0 p) ≤
      ((1 + eta u τ) ^ k - 1) ^ 2 * ∑ p ∈ range (2 ^ k), nsq (V ζ a k 0 p)) := by
  have hη := eta_nonneg sm.u_nonneg hτ
  have hw : ∀ e, nsq (ζ ^ e) = 1 := fun e => by rw [nsq_pow, hζ, one_pow]
  exact ⟨fft_err ζ hζ a _ hη k _ (fun ℓ d b h1 h2 => butterfly_err_ref A u τ sm hτ _ _ (hw _) (hwh ℓ d b h1 h2)),
    fft_err ζ hζ a _ hη k _ (fun ℓ d b h1 h2 => butterfly_err_fma A u τ sm hτ _ _ (hw _) (hwh ℓ d b h1 h2))⟩

/-- with `ζ^(2·2^k) = −1` the exact network output is the evaluation of `Σ a_i X^i` at `ζ^(1 + 4·brev k j)`
    (C06.1 `V_top`), so `fft_err` bounds the distance to those evaluations -/
theorem fft_err_eval (ζ : Cplx K) (hζ : nsq ζ = 1) (hζk : ζ ^ (2 * 2 ^ k) = -1) (a : ℕ → Cplx K) (η : K) (hη : 0 ≤ η)
    (g : ℕ → ℕ → ℕ → Cplx K → Cplx K → Cplx K × Cplx K)
    (hg : ∀ ℓ d b, ℓ + d + 1 = k → b < 2 ^ ℓ → BfErrAt (g ℓ d b) (ζ ^ twE ℓ d b) η) :
    ∑ j ∈ range (2 ^ k), nsq (VH g a k 0 j - sumTo (2 ^ k) (fun i => a i * ζ ^ ((1 + 4 * brev k j) * i))) ≤
      ((1 + η) ^ k - 1) ^ 2 * ∑ j ∈ range (2 ^ k), nsq (sumTo (2 ^ k) (fun i => a i * ζ ^ ((1 + 4 * brev k j) * i))) := by
  have h := fft_err ζ hζ a η hη k g hg
  have e : ∀ j ∈ range (2 ^ k), V ζ a k 0 j = sumTo (2 ^ k) (fun i => a i * ζ ^ ((1 + 4 * brev k j) * i)) :=
    fun j hj => V_top ζ a k hζk j (Finset.mem_range.1 hj)
  have e1 : ∑ j ∈ range (2 ^ k), nsq (VH g a k 0 j - V ζ a k 0 j) =
      ∑ j ∈ range (2 ^ k), nsq (VH g a k 0 j - sumTo (2 ^ k) (fun i => a i * ζ ^ ((1 + 4 * brev k j) * i))) :=
    Finset.sum_congr rfl (fun j hj => by rw [e j hj])
  have e2 : ∑ j ∈ range (2 ^ k), nsq (V ζ a k 0 j) =
      ∑ j ∈ range (2 ^ k), nsq (sumTo (2 ^ k) (fun i => a i * ζ ^ ((1 + 4 * brev k j) * i))) :=
    Finset.sum_congr rfl (fun j hj => by rw [e j hj])
  rw [e1, e2] at h
  exact h

/-- binary64 with the measured twiddle error `τ ≤ 3.5·2^-53` (DESIGN §5 C06.4): `η ≤ 8·2^-53` per level -/
theorem eta_f64 : eta ((2 : ℚ) ^ (-53 : ℤ)) (7 / 2 * 2 ^ (-53 : ℤ)) ≤ 8 * 2 ^ (-53 : ℤ) := eta_f64_le

/-- the hypotheses are satisfiable: exact arithmetic (`u = 0`), exact twiddle `ω = 1` (`τ = 0`) -/
example : FStd (exactA : Arith ℚ) 0 ∧ (0 : ℚ) ≤ 0 ∧ nsq (1 : Cplx ℚ) = 1 ∧ nsq ((1 : Cplx ℚ) - 1) ≤ 0 ^ 2 :=
  ⟨fstd_exact, le_refl _, nsq_one, by simp⟩

/-- and by binary64 on the normal range: the guarded arithmetic `arG` -/
example : FStd (ofRArith arG) u64 := fstd_of_stdModel arG_stdModel

end fft

end Spq.Numerics
