/-
  C13 — supported in-place calls give the same result as out-of-place calls (limb-vector part:
  add/sub with res==a or res==b; copy/negate/rotate/automorphism with res==a; big variants).

  Formulation.  Two calls of the same operation with the same limb counts:
   * call 1 on heap `h`   with output `(res , rsl )` and sources `(a , asl )`, `(b , bsl )`;
   * call 2 on heap `h2`  with output `(res', rsl')` and sources `(a', asl')`, `(b', bsl')`.
  In each call every source is either the output itself (same offset and stride) or separate from it
  (`SrcOK`), independently for the two calls.  If the limbs the operation can read hold the same
  data in both settings (`SameSrc`), then every output coefficient `(i, c)`, `i < rsz`, `c < nn`,
  is the same (`<op>_call_indep`).  The in-place theorems (`<op>_inplace…`) instantiate call 1 with
  the aliased pattern and call 2 with separate buffers (`Sep`); all limb counts, including a
  `res_size` different from the aliased operand's size, all strides `≥ nn`, any arithmetic `o`.

  For rotate / automorphism the aliased call runs the in-place kernel and the separate call the
  out-of-place kernel; the kernel-level facts (C09, proved elsewhere) are the explicit hypotheses
    hRotInplace : ∀ x, x.size = nn → Coeffs.rotateInplace o nn p x = Coeffs.rotate o nn p x
    hAutInplace : ∀ x z, x.size = nn → z.size = nn →
                    Coeffs.automorphismInplace o nn p x = Coeffs.automorphism o nn p x z
  (the second one, valid for odd `p`, also says that the out-of-place automorphism does not depend
  on the prior content `z` of its output).
-/
import SpqProofs.Properties.C08
import SpqProofs.Properties.C09
namespace Spq.C13
open Spq Heap C08
variable {α : Type}

/-! ### the result only depends on the source data, not on the aliasing pattern -/

theorem add_call_indep (o : Ops α) (nn : Nat) (h h2 : Heap α)
    (res rsz rsl a asz asl b bsz bsl res' rsl' a' asl' b' bsl' : Nat)
    (hsl : nn ≤ rsl) (hres : InBounds nn h.mem.size res rsz rsl)
    (ha : SrcOK nn res rsz rsl a asz asl) (hb : SrcOK nn res rsz rsl b bsz bsl)
    (hsl' : nn ≤ rsl') (hres' : InBounds nn h2.mem.size res' rsz rsl')
    (ha' : SrcOK nn res' rsz rsl' a' asz asl') (hb' : SrcOK nn res' rsz rsl' b' bsz bsl')
    (sa : SameSrc o.zero nn rsz h.mem a asz asl h2.mem a' asl')
    (sb : SameSrc o.zero nn rsz h.mem b bsz bsl h2.mem b' bsl') :
    ∀ i c, i < rsz → c < nn →
      (VecZnx.add o nn h res rsz rsl a asz asl b bsz bsl).mem[res + i * rsl + c]? =
      (VecZnx.add o nn h2 res' rsz rsl' a' asz asl' b' bsz bsl').mem[res' + i * rsl' + c]? := by
  intro i c hi hc
  rw [(add_spec o nn h res rsz rsl a asz asl b bsz bsl hsl hres ha hb).2.1 i c hi hc,
    (add_spec o nn h2 res' rsz rsl' a' asz asl' b' bsz bsl' hsl' hres' ha' hb').2.1 i c hi hc]
  congr 1
  unfold addVal
  by_cases h1 : i < asz <;> by_cases h2 : i < bsz <;> simp only [h1, h2, and_self, and_false, and_true, if_true, if_false]
  · rw [sa i c h1 hi hc, sb i c h2 hi hc]
  · rw [sa i c h1 hi hc]
  · rw [sb i c h2 hi hc]

theorem sub_call_indep (o : Ops α) (nn : Nat) (h h2 : Heap α)
    (res rsz rsl a asz asl b bsz bsl res' rsl' a' asl' b' bsl' : Nat)
    (hsl : nn ≤ rsl) (hres : InBounds nn h.mem.size res rsz rsl)
    (ha : SrcOK nn res rsz rsl a asz asl) (hb : SrcOK nn res rsz rsl b bsz bsl)
    (hsl' : nn ≤ rsl') (hres' : InBounds nn h2.mem.size res' rsz rsl')
    (ha' : SrcOK nn res' rsz rsl' a' asz asl') (hb' : SrcOK nn res' rsz rsl' b' bsz bsl')
    (sa : SameSrc o.zero nn rsz h.mem a asz asl h2.mem a' asl')
    (sb : SameSrc o.zero nn rsz h.mem b bsz bsl h2.mem b' bsl') :
    ∀ i c, i < rsz → c < nn →
      (VecZnx.sub o nn h res rsz rsl a asz asl b bsz bsl).mem[res + i * rsl + c]? =
      (VecZnx.sub o nn h2 res' rsz rsl' a' asz asl' b' bsz bsl').mem[res' + i * rsl' + c]? := by
  intro i c hi hc
  rw [(sub_spec o nn h res rsz rsl a asz asl b bsz bsl hsl hres ha hb).2.1 i c hi hc,
    (sub_spec o nn h2 res' rsz rsl' a' asz asl' b' bsz bsl' hsl' hres' ha' hb').2.1 i c hi hc]
  congr 1
  unfold subVal
  by_cases h1 : i < asz <;> by_cases h2 : i < bsz <;> simp only [h1, h2, and_self, and_false, and_true, if_true, if_false]
  · rw [sa i c h1 hi hc, sb i c h2 hi hc]
  · rw [sa i c h1 hi hc]
  · rw [sb i c h2 hi hc]

theorem copy_call_indep (o : Ops α) (nn : Nat) (h h2 : Heap α)
    (res rsz rsl a asz asl res' rsl' a' asl' : Nat)
    (hsl : nn ≤ rsl) (hres : InBounds nn h.mem.size res rsz rsl) (ha : SrcOK nn res rsz rsl a asz asl)
    (hsl' : nn ≤ rsl') (hres' : InBounds nn h2.mem.size res' rsz rsl') (ha' : SrcOK nn res' rsz rsl' a' asz asl')
    (sa : SameSrc o.zero nn rsz h.mem a asz asl h2.mem a' asl') :
    ∀ i c, i < rsz → c < nn →
      (VecZnx.copy o nn h res rsz rsl a asz asl).mem[res + i * rsl + c]? =
      (VecZnx.copy o nn h2 res' rsz rsl' a' asz asl').mem[res' + i * rsl' + c]? := by
  intro i c hi hc
  rw [(copy_spec o nn h res rsz rsl a asz asl hsl hres ha).2.1 i c hi hc,
    (copy_spec o nn h2 res' rsz rsl' a' asz asl' hsl' hres' ha').2.1 i c hi hc]
  show some _ = some _
  congr 1
  unfold copyVal
  split
  · rename_i h1; exact sa i c h1 hi hc
  · rfl

theorem negate_call_indep (o : Ops α) (nn : Nat) (h h2 : Heap α)
    (res rsz rsl a asz asl res' rsl' a' asl' : Nat)
    (hsl : nn ≤ rsl) (hres : InBounds nn h.mem.size res rsz rsl) (ha : SrcOK nn res rsz rsl a asz asl)
    (hsl' : nn ≤ rsl') (hres' : InBounds nn h2.mem.size res' rsz rsl') (ha' : SrcOK nn res' rsz rsl' a' asz asl')
    (sa : SameSrc o.zero nn rsz h.mem a asz asl h2.mem a' asl') :
    ∀ i c, i < rsz → c < nn →
      (VecZnx.negate o nn h res rsz rsl a asz asl).mem[res + i * rsl + c]? =
      (VecZnx.negate o nn h2 res' rsz rsl' a' asz asl').mem[res' + i * rsl' + c]? := by
  intro i c hi hc
  rw [(negate_spec o nn h res rsz rsl a asz asl hsl hres ha).2.1 i c hi hc,
    (negate_spec o nn h2 res' rsz rsl' a' asz asl' hsl' hres' ha').2.1 i c hi hc]
  show some _ = some _
  congr 1
  unfold negVal
  split
  · rename_i h1; rw [sa i c h1 hi hc]
  · rfl

theorem rotate_call_indep (o : Ops α) (nn : Nat) (p : Int) (h h2 : Heap α)
    (res rsz rsl a asz asl res' rsl' a' asl' : Nat)
    (hRotInplace : ∀ x : Array α, x.size = nn → Coeffs.rotateInplace o nn p x = Coeffs.rotate o nn p x)
    (hsl : nn ≤ rsl) (hres : InBounds nn h.mem.size res rsz rsl) (ha : SrcOK nn res rsz rsl a asz asl)
    (hsl' : nn ≤ rsl') (hres' : InBounds nn h2.mem.size res' rsz rsl') (ha' : SrcOK nn res' rsz rsl' a' asz asl')
    (sa : SameSrc o.zero nn rsz h.mem a asz asl h2.mem a' asl') :
    ∀ i c, i < rsz → c < nn →
      (VecZnx.rotate o nn p h res rsz rsl a asz asl).mem[res + i * rsl + c]? =
      (VecZnx.rotate o nn p h2 res' rsz rsl' a' asz asl').mem[res' + i * rsl' + c]? := by
  intro i c hi hc
  rw [(rotate_spec o nn p h res rsz rsl a asz asl hsl hres ha).2.1 i c hi hc,
    (rotate_spec o nn p h2 res' rsz rsl' a' asz asl' hsl' hres' ha').2.1 i c hi hc]
  show (rotLimb o nn p h res rsl a asz asl i)[c]? = (rotLimb o nn p h2 res' rsl' a' asz asl' i)[c]?
  congr 1
  unfold rotLimb
  by_cases h1 : i < asz
  · simp only [h1, if_true]
    rw [sa.readLimb i h1 hi]
    have e := hRotInplace (h2.readLimb o.zero (a' + i * asl') nn) (size_readLimb ..)
    split <;> split <;> simp only [e]
  · simp only [h1, if_false]

theorem automorphism_call_indep (o : Ops α) (nn : Nat) (p : Int) (h h2 : Heap α)
    (res rsz rsl a asz asl res' rsl' a' asl' : Nat)
    (hAutInplace : ∀ x z : Array α, x.size = nn → z.size = nn →
      Coeffs.automorphismInplace o nn p x = Coeffs.automorphism o nn p x z)
    (hsl : nn ≤ rsl) (hres : InBounds nn h.mem.size res rsz rsl) (ha : SrcOK nn res rsz rsl a asz asl)
    (hsl' : nn ≤ rsl') (hres' : InBounds nn h2.mem.size res' rsz rsl') (ha' : SrcOK nn res' rsz rsl' a' asz asl')
    (sa : SameSrc o.zero nn rsz h.mem a asz asl h2.mem a' asl') :
    ∀ i c, i < rsz → c < nn →
      (VecZnx.automorphism o nn p h res rsz rsl a asz asl).mem[res + i * rsl + c]? =
      (VecZnx.automorphism o nn p h2 res' rsz rsl' a' asz asl').mem[res' + i * rsl' + c]? := by
  intro i c hi hc
  rw [(automorphism_spec o nn p h res rsz rsl a asz asl hsl hres ha).2.1 i c hi hc,
    (automorphism_spec o nn p h2 res' rsz rsl' a' asz asl' hsl' hres' ha').2.1 i c hi hc]
  show (autLimb o nn p h res rsl a asz asl i)[c]? = (autLimb o nn p h2 res' rsl' a' asz asl' i)[c]?
  congr 1
  unfold autLimb
  by_cases h1 : i < asz
  · simp only [h1, if_true]
    rw [sa.readLimb i h1 hi]
    have e := fun z hz => hAutInplace (h2.readLimb o.zero (a' + i * asl') nn) z (size_readLimb ..) hz
    split <;> split
    · rfl
    · exact e _ (size_readLimb ..)
    · exact (e _ (size_readLimb ..)).symm
    · rw [← e _ (size_readLimb ..), ← e _ (size_readLimb ..)]
  · simp only [h1, if_false]

/-! ### in-place = out-of-place.  Call 1 is the aliased call on `h`; call 2 uses a separate output
    `(res', rsl')` on `h2`, whose sources `(a', asl')`, `(b', bsl')` are separate from that output
    and hold the data the aliased call reads. -/

/-- `vec_znx_add(res, res, b)`: `res == a` -/
theorem add_inplace_a (o : Ops α) (nn : Nat) (h h2 : Heap α)
    (res rsz rsl asz b bsz bsl res' rsl' a' asl' b' bsl' : Nat)
    (hsl : nn ≤ rsl) (hres : InBounds nn h.mem.size res rsz rsl) (hb : SrcOK nn res rsz rsl b bsz bsl)
    (hsl' : nn ≤ rsl') (hres' : InBounds nn h2.mem.size res' rsz rsl')
    (ha' : Sep nn res' rsz rsl' a' asz asl') (hb' : Sep nn res' rsz rsl' b' bsz bsl')
    (sa : SameSrc o.zero nn rsz h.mem res asz rsl h2.mem a' asl')
    (sb : SameSrc o.zero nn rsz h.mem b bsz bsl h2.mem b' bsl') :
    ∀ i c, i < rsz → c < nn →
      (VecZnx.add o nn h res rsz rsl res asz rsl b bsz bsl).mem[res + i * rsl + c]? =
      (VecZnx.add o nn h2 res' rsz rsl' a' asz asl' b' bsz bsl').mem[res' + i * rsl' + c]? :=
  add_call_indep o nn h h2 res rsz rsl res asz rsl b bsz bsl res' rsl' a' asl' b' bsl'
    hsl hres (Or.inl ⟨rfl, rfl⟩) hb hsl' hres' ha'.srcOK hb'.srcOK sa sb

/-- `vec_znx_add(res, a, res)`: `res == b` -/
theorem add_inplace_b (o : Ops α) (nn : Nat) (h h2 : Heap α)
    (res rsz rsl a asz asl bsz res' rsl' a' asl' b' bsl' : Nat)
    (hsl : nn ≤ rsl) (hres : InBounds nn h.mem.size res rsz rsl) (ha : SrcOK nn res rsz rsl a asz asl)
    (hsl' : nn ≤ rsl') (hres' : InBounds nn h2.mem.size res' rsz rsl')
    (ha' : Sep nn res' rsz rsl' a' asz asl') (hb' : Sep nn res' rsz rsl' b' bsz bsl')
    (sa : SameSrc o.zero nn rsz h.mem a asz asl h2.mem a' asl')
    (sb : SameSrc o.zero nn rsz h.mem res bsz rsl h2.mem b' bsl') :
    ∀ i c, i < rsz → c < nn →
      (VecZnx.add o nn h res rsz rsl a asz asl res bsz rsl).mem[res + i * rsl + c]? =
      (VecZnx.add o nn h2 res' rsz rsl' a' asz asl' b' bsz bsl').mem[res' + i * rsl' + c]? :=
  add_call_indep o nn h h2 res rsz rsl a asz asl res bsz rsl res' rsl' a' asl' b' bsl'
    hsl hres ha (Or.inl ⟨rfl, rfl⟩) hsl' hres' ha'.srcOK hb'.srcOK sa sb

/-- `vec_znx_sub(res, res, b)`: `res == a` -/
theorem sub_inplace_a (o : Ops α) (nn : Nat) (h h2 : Heap α)
    (res rsz rsl asz b bsz bsl res' rsl' a' asl' b' bsl' : Nat)
    (hsl : nn ≤ rsl) (hres : InBounds nn h.mem.size res rsz rsl) (hb : SrcOK nn res rsz rsl b bsz bsl)
    (hsl' : nn ≤ rsl') (hres' : InBounds nn h2.mem.size res' rsz rsl')
    (ha' : Sep nn res' rsz rsl' a' asz asl') (hb' : Sep nn res' rsz rsl' b' bsz bsl')
    (sa : SameSrc o.zero nn rsz h.mem res asz rsl h2.mem a' asl')
    (sb : SameSrc o.zero nn rsz h.mem b bsz bsl h2.mem b' bsl') :
    ∀ i c, i < rsz → c < nn →
      (VecZnx.sub o nn h res rsz rsl res asz rsl b bsz bsl).mem[res + i * rsl + c]? =
      (VecZnx.sub o nn h2 res' rsz rsl' a' asz asl' b' bsz bsl').mem[res' + i * rsl' + c]? :=
  sub_call_indep o nn h h2 res rsz rsl res asz rsl b bsz bsl res' rsl' a' asl' b' bsl'
    hsl hres (Or.inl ⟨rfl, rfl⟩) hb hsl' hres' ha'.srcOK hb'.srcOK sa sb

/-- `vec_znx_sub(res, a, res)`: `res == b` -/
theorem sub_inplace_b (o : Ops α) (nn : Nat) (h h2 : Heap α)
    (res rsz rsl a asz asl bsz res' rsl' a' asl' b' bsl' : Nat)
    (hsl : nn ≤ rsl) (hres : InBounds nn h.mem.size res rsz rsl) (ha : SrcOK nn res rsz rsl a asz asl)
    (hsl' : nn ≤ rsl') (hres' : InBounds nn h2.mem.size res' rsz rsl')
    (ha' : Sep nn res' rsz rsl' a' asz asl') (hb' : Sep nn res' rsz rsl' b' bsz bsl')
    (sa : SameSrc o.zero nn rsz h.mem a asz asl h2.mem a' asl')
    (sb : SameSrc o.zero nn rsz h.mem res bsz rsl h2.mem b' bsl') :
    ∀ i c, i < rsz → c < nn →
      (VecZnx.sub o nn h res rsz rsl a asz asl res bsz rsl).mem[res + i * rsl + c]? =
      (VecZnx.sub o nn h2 res' rsz rsl' a' asz asl' b' bsz bsl').mem[res' + i * rsl' + c]? :=
  sub_call_indep o nn h h2 res rsz rsl a asz asl res bsz rsl res' rsl' a' asl' b' bsl'
    hsl hres ha (Or.inl ⟨rfl, rfl⟩) hsl' hres' ha'.srcOK hb'.srcOK sa sb

/-- `vec_znx_copy(res, res)` (a no-op on the first `min` limbs, zero-fill past `asz`) -/
theorem copy_inplace (o : Ops α) (nn : Nat) (h h2 : Heap α) (res rsz rsl asz res' rsl' a' asl' : Nat)
    (hsl : nn ≤ rsl) (hres : InBounds nn h.mem.size res rsz rsl)
    (hsl' : nn ≤ rsl') (hres' : InBounds nn h2.mem.size res' rsz rsl') (ha' : Sep nn res' rsz rsl' a' asz asl')
    (sa : SameSrc o.zero nn rsz h.mem res asz rsl h2.mem a' asl') :
    ∀ i c, i < rsz → c < nn →
      (VecZnx.copy o nn h res rsz rsl res asz rsl).mem[res + i * rsl + c]? =
      (VecZnx.copy o nn h2 res' rsz rsl' a' asz asl').mem[res' + i * rsl' + c]? :=
  copy_call_indep o nn h h2 res rsz rsl res asz rsl res' rsl' a' asl'
    hsl hres (Or.inl ⟨rfl, rfl⟩) hsl' hres' ha'.srcOK sa

/-- `vec_znx_negate(res, res)` -/
theorem negate_inplace (o : Ops α) (nn : Nat) (h h2 : Heap α) (res rsz rsl asz res' rsl' a' asl' : Nat)
    (hsl : nn ≤ rsl) (hres : InBounds nn h.mem.size res rsz rsl)
    (hsl' : nn ≤ rsl') (hres' : InBounds nn h2.mem.size res' rsz rsl') (ha' : Sep nn res' rsz rsl' a' asz asl')
    (sa : SameSrc o.zero nn rsz h.mem res asz rsl h2.mem a' asl') :
    ∀ i c, i < rsz → c < nn →
      (VecZnx.negate o nn h res rsz rsl res asz rsl).mem[res + i * rsl + c]? =
      (VecZnx.negate o nn h2 res' rsz rsl' a' asz asl').mem[res' + i * rsl' + c]? :=
  negate_call_indep o nn h h2 res rsz rsl res asz rsl res' rsl' a' asl'
    hsl hres (Or.inl ⟨rfl, rfl⟩) hsl' hres' ha'.srcOK sa

/-- `vec_znx_rotate(p, res, res)`: every limb goes through `znx_rotate_inplace_i64`, the separate call
    through `znx_rotate_i64` -/
theorem rotate_inplace (o : Ops α) (nn : Nat) (p : Int) (h h2 : Heap α) (res rsz rsl asz res' rsl' a' asl' : Nat)
    (hRotInplace : ∀ x : Array α, x.size = nn → Coeffs.rotateInplace o nn p x = Coeffs.rotate o nn p x)
    (hsl : nn ≤ rsl) (hres : InBounds nn h.mem.size res rsz rsl)
    (hsl' : nn ≤ rsl') (hres' : InBounds nn h2.mem.size res' rsz rsl') (ha' : Sep nn res' rsz rsl' a' asz asl')
    (sa : SameSrc o.zero nn rsz h.mem res asz rsl h2.mem a' asl') :
    ∀ i c, i < rsz → c < nn →
      (VecZnx.rotate o nn p h res rsz rsl res asz rsl).mem[res + i * rsl + c]? =
      (VecZnx.rotate o nn p h2 res' rsz rsl' a' asz asl').mem[res' + i * rsl' + c]? :=
  rotate_call_indep o nn p h h2 res rsz rsl res asz rsl res' rsl' a' asl' hRotInplace
    hsl hres (Or.inl ⟨rfl, rfl⟩) hsl' hres' ha'.srcOK sa

/-- `vec_znx_automorphism(p, res, res)` -/
theorem automorphism_inplace (o : Ops α) (nn : Nat) (p : Int) (h h2 : Heap α)
    (res rsz rsl asz res' rsl' a' asl' : Nat)
    (hAutInplace : ∀ x z : Array α, x.size = nn → z.size = nn →
      Coeffs.automorphismInplace o nn p x = Coeffs.automorphism o nn p x z)
    (hsl : nn ≤ rsl) (hres : InBounds nn h.mem.size res rsz rsl)
    (hsl' : nn ≤ rsl') (hres' : InBounds nn h2.mem.size res' rsz rsl') (ha' : Sep nn res' rsz rsl' a' asz asl')
    (sa : SameSrc o.zero nn rsz h.mem res asz rsl h2.mem a' asl') :
    ∀ i c, i < rsz → c < nn →
      (VecZnx.automorphism o nn p h res rsz rsl res asz rsl).mem[res + i * rsl + c]? =
      (VecZnx.automorphism o nn p h2 res' rsz rsl' a' asz asl').mem[res' + i * rsl' + c]? :=
  automorphism_call_indep o nn p h h2 res rsz rsl res asz rsl res' rsl' a' asl' hAutInplace
    hsl hres (Or.inl ⟨rfl, rfl⟩) hsl' hres' ha'.srcOK sa

/-- the aliased rotation on `h` really is the in-place kernel on every limb it reads, and the
    separate one the out-of-place kernel (so `rotate_inplace` compares the two kernels) -/
theorem rotate_inplace_kernels (o : Ops α) (nn : Nat) (p : Int) (h h2 : Heap α)
    (res rsl asz res' rsz rsl' a' asl' i : Nat) (hi : i < asz) (hj : i < rsz) (hnn : 0 < nn)
    (ha' : Sep nn res' rsz rsl' a' asz asl') :
    rotLimb o nn p h res rsl res asz rsl i = Coeffs.rotateInplace o nn p (h.readLimb o.zero (res + i * rsl) nn) ∧
    rotLimb o nn p h2 res' rsl' a' asz asl' i = Coeffs.rotate o nn p (h2.readLimb o.zero (a' + i * asl') nn) := by
  have := ha' i i hi hj
  have hne : ¬ res' + i * rsl' = a' + i * asl' := by omega
  simp [rotLimb, hi, hne]


/-! ### closed forms: the kernel hypotheses `hRotInplace` / `hAutInplace` discharged by C09
    (in-place rotation = out-of-place rotation for every `nn` and `p`; in-place automorphism = out-of-place
    automorphism for every `nn = 2^t`, `t ≤ 64`, and odd `p`, independent of the prior output content) -/

/-- `vec_znx_rotate(p, res, res)` equals the call with a separate output buffer — no kernel hypothesis -/
theorem rotate_inplace_closed (o : Ops α) (nn : Nat) (p : Int) (h h2 : Heap α) (res rsz rsl asz res' rsl' a' asl' : Nat)
    (hsl : nn ≤ rsl) (hres : InBounds nn h.mem.size res rsz rsl)
    (hsl' : nn ≤ rsl') (hres' : InBounds nn h2.mem.size res' rsz rsl') (ha' : Sep nn res' rsz rsl' a' asz asl')
    (sa : SameSrc o.zero nn rsz h.mem res asz rsl h2.mem a' asl') :
    ∀ i c, i < rsz → c < nn →
      (VecZnx.rotate o nn p h res rsz rsl res asz rsl).mem[res + i * rsl + c]? =
      (VecZnx.rotate o nn p h2 res' rsz rsl' a' asz asl').mem[res' + i * rsl' + c]? :=
  rotate_inplace o nn p h h2 res rsz rsl asz res' rsl' a' asl'
    (fun x hx => C09.rotate_inplace_eq o nn p x hx) hsl hres hsl' hres' ha' sa

/-- `vec_znx_automorphism(p, res, res)`, `nn = 2^t`, odd `p` — no kernel hypothesis -/
theorem automorphism_inplace_closed (o : Ops α) (t : Nat) (ht : t ≤ 64) (p : Int) (hp : p % 2 = 1) (h h2 : Heap α)
    (res rsz rsl asz res' rsl' a' asl' : Nat)
    (hsl : 2 ^ t ≤ rsl) (hres : InBounds (2 ^ t) h.mem.size res rsz rsl)
    (hsl' : 2 ^ t ≤ rsl') (hres' : InBounds (2 ^ t) h2.mem.size res' rsz rsl') (ha' : Sep (2 ^ t) res' rsz rsl' a' asz asl')
    (sa : SameSrc o.zero (2 ^ t) rsz h.mem res asz rsl h2.mem a' asl') :
    ∀ i c, i < rsz → c < 2 ^ t →
      (VecZnx.automorphism o (2 ^ t) p h res rsz rsl res asz rsl).mem[res + i * rsl + c]? =
      (VecZnx.automorphism o (2 ^ t) p h2 res' rsz rsl' a' asz asl').mem[res' + i * rsl' + c]? :=
  automorphism_inplace o (2 ^ t) p h h2 res rsz rsl asz res' rsl' a' asl'
    (fun x z hx hz => C09.autom_inplace_eq o t ht p hp x z hx hz) hsl hres hsl' hres' ha' sa

/-! ### big-coefficient variants (stride `nn` on big operands) -/

/-- `vec_znx_big_add(res, res, b)` -/
theorem big_add_inplace_a (o : Ops α) (nn : Nat) (h h2 : Heap α) (res rsz asz b bsz res' a' b' : Nat)
    (hres : InBounds nn h.mem.size res rsz nn) (hb : SrcOK nn res rsz nn b bsz nn)
    (hres' : InBounds nn h2.mem.size res' rsz nn)
    (ha' : Sep nn res' rsz nn a' asz nn) (hb' : Sep nn res' rsz nn b' bsz nn)
    (sa : SameSrc o.zero nn rsz h.mem res asz nn h2.mem a' nn)
    (sb : SameSrc o.zero nn rsz h.mem b bsz nn h2.mem b' nn) :
    ∀ i c, i < rsz → c < nn →
      (VecZnxBig.add o nn h res rsz res asz b bsz).mem[res + i * nn + c]? =
      (VecZnxBig.add o nn h2 res' rsz a' asz b' bsz).mem[res' + i * nn + c]? :=
  add_inplace_a o nn h h2 res rsz nn asz b bsz nn res' nn a' nn b' nn
    (Nat.le_refl _) hres hb (Nat.le_refl _) hres' ha' hb' sa sb

/-- `vec_znx_big_add(res, a, res)` -/
theorem big_add_inplace_b (o : Ops α) (nn : Nat) (h h2 : Heap α) (res rsz a asz bsz res' a' b' : Nat)
    (hres : InBounds nn h.mem.size res rsz nn) (ha : SrcOK nn res rsz nn a asz nn)
    (hres' : InBounds nn h2.mem.size res' rsz nn)
    (ha' : Sep nn res' rsz nn a' asz nn) (hb' : Sep nn res' rsz nn b' bsz nn)
    (sa : SameSrc o.zero nn rsz h.mem a asz nn h2.mem a' nn)
    (sb : SameSrc o.zero nn rsz h.mem res bsz nn h2.mem b' nn) :
    ∀ i c, i < rsz → c < nn →
      (VecZnxBig.add o nn h res rsz a asz res bsz).mem[res + i * nn + c]? =
      (VecZnxBig.add o nn h2 res' rsz a' asz b' bsz).mem[res' + i * nn + c]? :=
  add_inplace_b o nn h h2 res rsz nn a asz nn bsz res' nn a' nn b' nn
    (Nat.le_refl _) hres ha (Nat.le_refl _) hres' ha' hb' sa sb

/-- `vec_znx_big_add_small(res, res, b)`: big `a` aliased with `res`, small `b` of any stride -/
theorem big_add_small_inplace_a (o : Ops α) (nn : Nat) (h h2 : Heap α)
    (res rsz asz b bsz bsl res' a' b' bsl' : Nat)
    (hres : InBounds nn h.mem.size res rsz nn) (hb : SrcOK nn res rsz nn b bsz bsl)
    (hres' : InBounds nn h2.mem.size res' rsz nn)
    (ha' : Sep nn res' rsz nn a' asz nn) (hb' : Sep nn res' rsz nn b' bsz bsl')
    (sa : SameSrc o.zero nn rsz h.mem res asz nn h2.mem a' nn)
    (sb : SameSrc o.zero nn rsz h.mem b bsz bsl h2.mem b' bsl') :
    ∀ i c, i < rsz → c < nn →
      (VecZnxBig.addSmall o nn h res rsz res asz b bsz bsl).mem[res + i * nn + c]? =
      (VecZnxBig.addSmall o nn h2 res' rsz a' asz b' bsz bsl').mem[res' + i * nn + c]? :=
  add_inplace_a o nn h h2 res rsz nn asz b bsz bsl res' nn a' nn b' bsl'
    (Nat.le_refl _) hres hb (Nat.le_refl _) hres' ha' hb' sa sb

/-- `vec_znx_big_sub(res, res, b)` -/
theorem big_sub_inplace_a (o : Ops α) (nn : Nat) (h h2 : Heap α) (res rsz asz b bsz res' a' b' : Nat)
    (hres : InBounds nn h.mem.size res rsz nn) (hb : SrcOK nn res rsz nn b bsz nn)
    (hres' : InBounds nn h2.mem.size res' rsz nn)
    (ha' : Sep nn res' rsz nn a' asz nn) (hb' : Sep nn res' rsz nn b' bsz nn)
    (sa : SameSrc o.zero nn rsz h.mem res asz nn h2.mem a' nn)
    (sb : SameSrc o.zero nn rsz h.mem b bsz nn h2.mem b' nn) :
    ∀ i c, i < rsz → c < nn →
      (VecZnxBig.sub o nn h res rsz res asz b bsz).mem[res + i * nn + c]? =
      (VecZnxBig.sub o nn h2 res' rsz a' asz b' bsz).mem[res' + i * nn + c]? :=
  sub_inplace_a o nn h h2 res rsz nn asz b bsz nn res' nn a' nn b' nn
    (Nat.le_refl _) hres hb (Nat.le_refl _) hres' ha' hb' sa sb

/-- `vec_znx_big_sub(res, a, res)` -/
theorem big_sub_inplace_b (o : Ops α) (nn : Nat) (h h2 : Heap α) (res rsz a asz bsz res' a' b' : Nat)
    (hres : InBounds nn h.mem.size res rsz nn) (ha : SrcOK nn res rsz nn a asz nn)
    (hres' : InBounds nn h2.mem.size res' rsz nn)
    (ha' : Sep nn res' rsz nn a' asz nn) (hb' : Sep nn res' rsz nn b' bsz nn)
    (sa : SameSrc o.zero nn rsz h.mem a asz nn h2.mem a' nn)
    (sb : SameSrc o.zero nn rsz h.mem res bsz nn h2.mem b' nn) :
    ∀ i c, i < rsz → c < nn →
      (VecZnxBig.sub o nn h res rsz a asz res bsz).mem[res + i * nn + c]? =
      (VecZnxBig.sub o nn h2 res' rsz a' asz b' bsz).mem[res' + i * nn + c]? :=
  sub_inplace_b o nn h h2 res rsz nn a asz nn bsz res' nn a' nn b' nn
    (Nat.le_refl _) hres ha (Nat.le_refl _) hres' ha' hb' sa sb

/-- `vec_znx_big_sub_small_b(res, res, b)`: big `a` aliased, small `b` -/
theorem big_sub_small_b_inplace_a (o : Ops α) (nn : Nat) (h h2 : Heap α)
    (res rsz asz b bsz bsl res' a' b' bsl' : Nat)
    (hres : InBounds nn h.mem.size res rsz nn) (hb : SrcOK nn res rsz nn b bsz bsl)
    (hres' : InBounds nn h2.mem.size res' rsz nn)
    (ha' : Sep nn res' rsz nn a' asz nn) (hb' : Sep nn res' rsz nn b' bsz bsl')
    (sa : SameSrc o.zero nn rsz h.mem res asz nn h2.mem a' nn)
    (sb : SameSrc o.zero nn rsz h.mem b bsz bsl h2.mem b' bsl') :
    ∀ i c, i < rsz → c < nn →
      (VecZnxBig.subSmallB o nn h res rsz res asz b bsz bsl).mem[res + i * nn + c]? =
      (VecZnxBig.subSmallB o nn h2 res' rsz a' asz b' bsz bsl').mem[res' + i * nn + c]? :=
  sub_inplace_a o nn h h2 res rsz nn asz b bsz bsl res' nn a' nn b' bsl'
    (Nat.le_refl _) hres hb (Nat.le_refl _) hres' ha' hb' sa sb

/-- `vec_znx_big_sub_small_a(res, a, res)`: small `a`, big `b` aliased -/
theorem big_sub_small_a_inplace_b (o : Ops α) (nn : Nat) (h h2 : Heap α)
    (res rsz a asz asl bsz res' a' asl' b' : Nat)
    (hres : InBounds nn h.mem.size res rsz nn) (ha : SrcOK nn res rsz nn a asz asl)
    (hres' : InBounds nn h2.mem.size res' rsz nn)
    (ha' : Sep nn res' rsz nn a' asz asl') (hb' : Sep nn res' rsz nn b' bsz nn)
    (sa : SameSrc o.zero nn rsz h.mem a asz asl h2.mem a' asl')
    (sb : SameSrc o.zero nn rsz h.mem res bsz nn h2.mem b' nn) :
    ∀ i c, i < rsz → c < nn →
      (VecZnxBig.subSmallA o nn h res rsz a asz asl res bsz).mem[res + i * nn + c]? =
      (VecZnxBig.subSmallA o nn h2 res' rsz a' asz asl' b' bsz).mem[res' + i * nn + c]? :=
  sub_inplace_b o nn h h2 res rsz nn a asz asl bsz res' nn a' asl' b' nn
    (Nat.le_refl _) hres ha (Nat.le_refl _) hres' ha' hb' sa sb

/-- `vec_znx_big_rotate(p, res, res)` -/
theorem big_rotate_inplace (o : Ops α) (nn : Nat) (p : Int) (h h2 : Heap α) (res rsz asz res' a' : Nat)
    (hRotInplace : ∀ x : Array α, x.size = nn → Coeffs.rotateInplace o nn p x = Coeffs.rotate o nn p x)
    (hres : InBounds nn h.mem.size res rsz nn)
    (hres' : InBounds nn h2.mem.size res' rsz nn) (ha' : Sep nn res' rsz nn a' asz nn)
    (sa : SameSrc o.zero nn rsz h.mem res asz nn h2.mem a' nn) :
    ∀ i c, i < rsz → c < nn →
      (VecZnxBig.rotate o nn p h res rsz res asz).mem[res + i * nn + c]? =
      (VecZnxBig.rotate o nn p h2 res' rsz a' asz).mem[res' + i * nn + c]? :=
  rotate_inplace o nn p h h2 res rsz nn asz res' nn a' nn hRotInplace
    (Nat.le_refl _) hres (Nat.le_refl _) hres' ha' sa

/-- `vec_znx_big_automorphism(p, res, res)` -/
theorem big_automorphism_inplace (o : Ops α) (nn : Nat) (p : Int) (h h2 : Heap α) (res rsz asz res' a' : Nat)
    (hAutInplace : ∀ x z : Array α, x.size = nn → z.size = nn →
      Coeffs.automorphismInplace o nn p x = Coeffs.automorphism o nn p x z)
    (hres : InBounds nn h.mem.size res rsz nn)
    (hres' : InBounds nn h2.mem.size res' rsz nn) (ha' : Sep nn res' rsz nn a' asz nn)
    (sa : SameSrc o.zero nn rsz h.mem res asz nn h2.mem a' nn) :
    ∀ i c, i < rsz → c < nn →
      (VecZnxBig.automorphism o nn p h res rsz res asz).mem[res + i * nn + c]? =
      (VecZnxBig.automorphism o nn p h2 res' rsz a' asz).mem[res' + i * nn + c]? :=
  automorphism_inplace o nn p h h2 res rsz nn asz res' nn a' nn hAutInplace
    (Nat.le_refl _) hres (Nat.le_refl _) hres' ha' sa

/-! ### the hypotheses are satisfiable: `nn = 2`.
    Heap 1 (`exHeap` of C08): res = a at 0 (stride 3, `a` has 1 limb, `res` 3 limbs), b at 9
    (2 limbs, stride 2).  Heap 2: a fresh output at 0 (stride 2, garbage 99), a' at 6 (stride 2),
    b' at 8 (stride 3), holding the same source data. -/

def exHeap2 : Heap Int := ⟨#[99, 99, 99, 99, 99, 99, 1, 2, 10, 20, 88, 30, 40], true⟩

example := add_inplace_a i64Ops 2 exHeap exHeap2 0 3 3 1 9 2 2 0 2 6 2 8 3 (by omega)
  (by intro i hi; simp [exHeap]; omega) (Or.inr (by intro i j hi hj; omega)) (by omega)
  (by intro i hi; simp [exHeap2]; omega) (by intro i j hi hj; omega) (by intro i j hi hj; omega)
  (by intro i c hi _ hc
      have : i = 0 := by omega
      subst this
      have : c = 0 ∨ c = 1 := by omega
      rcases this with rfl | rfl <;> decide)
  (by intro i c hi _ hc
      have h1 : i = 0 ∨ i = 1 := by omega
      have h2 : c = 0 ∨ c = 1 := by omega
      rcases h1 with rfl | rfl <;> rcases h2 with rfl | rfl <;> decide)

/-- and indeed: the aliased call and the separate call produce the same three output limbs -/
example : (VecZnx.add i64Ops 2 exHeap 0 3 3 0 1 3 9 2 2).mem
    = #[11, 22, 77, 30, 40, 77, 0, 0, 77, 10, 20, 30, 40] := by decide
example : (VecZnx.add i64Ops 2 exHeap2 0 3 2 6 1 2 8 2 3).mem
    = #[11, 22, 30, 40, 0, 0, 1, 2, 10, 20, 88, 30, 40] := by decide
/-- in-place rotation by `p = 1` (res == a, one source limb, three output limbs) vs separate -/
example : (VecZnx.rotate i64Ops 2 1 exHeap 0 3 3 0 1 3).mem
    = #[-2, 1, 77, 0, 0, 77, 0, 0, 77, 10, 20, 30, 40] := by decide
example : (VecZnx.rotate i64Ops 2 1 exHeap2 0 3 2 6 1 2).mem
    = #[-2, 1, 0, 0, 0, 0, 1, 2, 10, 20, 88, 30, 40] := by decide
/-- the kernel hypotheses are satisfiable: at `nn = 2` they hold for all inputs (`p = 1`, resp. the
    odd `p = 3`), so `rotate_inplace` / `automorphism_inplace` apply to the heaps above
    (res == a with one source limb and three output limbs vs. separate buffers) -/
example := rotate_inplace i64Ops 2 1 exHeap exHeap2 0 3 3 1 0 2 6 2
  (by intro x hx
      obtain ⟨l⟩ := x
      match l, hx with
      | [u, v], _ => rfl)
  (by omega) (by intro i hi; simp [exHeap]; omega) (by omega)
  (by intro i hi; simp [exHeap2]; omega) (by intro i j hi hj; omega)
  (by intro i c hi _ hc
      have : i = 0 := by omega
      subst this
      have : c = 0 ∨ c = 1 := by omega
      rcases this with rfl | rfl <;> decide)
example := automorphism_inplace i64Ops 2 3 exHeap exHeap2 0 3 3 1 0 2 6 2
  (by intro x z hx hz
      obtain ⟨l⟩ := x
      obtain ⟨l2⟩ := z
      match l, hx, l2, hz with
      | [u, v], _, [s, t], _ => rfl)
  (by omega) (by intro i hi; simp [exHeap]; omega) (by omega)
  (by intro i hi; simp [exHeap2]; omega) (by intro i j hi hj; omega)
  (by intro i c hi _ hc
      have : i = 0 := by omega
      subst this
      have : c = 0 ∨ c = 1 := by omega
      rcases this with rfl | rfl <;> decide)

end Spq.C13
