/-
  C01 — the END-TO-END BINARY64 rounding budget of the FFT64 product pipeline, proved about the model function that
  is validated bit-exactly against the library: `Spq.Module.smallProduct (Spq.Module.Cfg.parts c) a b`
  (= `fft64_znx_small_single_product`: `toZnx (ifft (mul (fft (fromZnx a)) (fft (fromZnx b))))`).

  Property C01 (fixed text; FULL statement, NOT completely proved — see `_partial` below):
    "For every ring dimension N (power of two, 2..65536) and all integer polynomials a,b inside the documented 52-bit
     budget (|coefficients| < 2^50 and min(|a|_1*|b|_inf, |a|_inf*|b|_1) < 2^52), the product obtained through the
     FFT64 path differs from the exact product in Z[X]/(X^N+1) by at most E+1/2 per coefficient, where
     E = 8*log2(N)*2^-53*(|a|_1*|b|_2 + |a|_2*|b|_1).  In particular the result equals the exact integer product
     whenever E < 1/2."

  What is proved (`N = 2m`, `m = 2^k`, `u = 2^-53`, `S = ‖a‖₁·nb + na·‖b‖₁` with `na ≥ ‖a‖₂`, `nb ≥ ‖b‖₂`, `nb ≤ ‖b‖₁`
  — for `K = ℝ` take `na = ‖a‖₂ = √Σa_i²`, `nb = ‖b‖₂`; 2-norms enter squared, so no square root is needed):
   1. `mul_err`: the binary64 pointwise product (`reim_fftvec_mul_ref` / `_fma`, as `Module.mul` runs it): every cell
      `|ĉ_j − â_j·b̂_j| ≤ μ·|â_j|·|b̂_j|`, `μ = (3/2)·((1+u)² − 1) ≈ 3u` (`3/2 ≥ √2`), and the 2-norm form.
   2. `small_product_err_budget_partial` (every `k ≤ 961`): every output coefficient is an integer within
      `budget + 1/2` of the coefficient of `nmul N a b` (the exact negacyclic product), where
        budget = eB ε μ (ε·m)·S,  ε = (1+8u)^k − 1 (C06Err),  eB ε μ θ = ε(1/2 + f) + f,  f = μ(1/2 + d) + d,  d = ε(1+θ).
      `small_product_err_partial` (`k ≤ 16`, i.e. N ≤ 131072 ⊇ the property's range): `budget ≤ 12·log2(N)·u·S`.
      WHY 12 AND NOT 8: with C06Err's per-transform constant `ε_k ≈ 8k·u` the three transforms contribute
      `ε_k·‖a‖₂‖b‖₁ + ε_k·‖a‖₁‖b‖₂` (forward, relative to S) `+ ε_k·S/2` (inverse, relative to `‖c‖₂ ≤ S/2`), i.e.
      `(3/2)·8k·u·S`, plus `μ/2·S = (3/2)u·S` for the product.  Reaching 8 needs a per-level constant `≤ 16/3·u` in
      C06Err (its `8u` covers a twiddle error of `3.5u`; the true per-level figure is ≈ `τ + 4u`), not a better composition.
   3. `small_product_exact_f64_partial`: if `12·log2(N)·u·S < 1/2` the binary64 pipeline returns EXACTLY `nmul N a b`
      (no domain hypothesis on the final conversion is needed: `|c_i| ≤ S/2 < 2^48`).
      `small_product_err_real_partial` / `small_product_exact_real_partial`: `K = ℝ`, `na = ‖a‖₂`, `nb = ‖b‖₂` (true norms);
      `small_product_err_prop_partial`: `OutDom` discharged from the property's own 52-bit budget (kernels `ref`, `bnd63`).
   4. `svp_row_small_product`, `svp_err_partial`, `svp_exact_f64_partial`: row `i` of `vecIdft (svpApply (svpPrepare pol) vec)`
      is bit for bit `smallProduct (limb_i vec) pol`, hence the same budget / exactness per row.
  Hypotheses that remain (explicit):
   * `CfgOk`: `c` consistent with the dispatch (`nn = 2·2^k`; FMA product kernel only for `m ≥ 4`; 4-lane conversion
     kernels only when `4 ∣ 2m`; tables = the table layout filled with stored patterns `cN e`, `sN e`);
   * twiddle accuracy of both tables: stored values within `3.5u` of `ζ^e` resp. `ζi^e`, `|ζ| = 1`, `ζ^m = i`, `ζ·ζi = 1`
     (`K` any ordered field, e.g. ℝ with `ζ = exp(iπ/2m)`; stream `ff_tables` measures 3.11u);
   * `PipeOk`: the flags of the flagged run, stage by stage (forward a, forward b, product, inverse): every operation
     had finite operands and an exact result that is 0 or of magnitude in `[2^-1022, 2^1024(1−2^-54))`.  This EXCLUDES
     overflow (for inputs in the box the intermediates stay far below `2^1023`; not proved here) and any exact
     intermediate result that is nonzero but below `2^-1022` (underflow after massive cancellation).  NOT discharged a
     priori: the simple grid argument (inputs are integers, twiddles multiples of `2^-g`, `g ≈ 70`) only gives
     "nonzero ⇒ ≥ 2^-(70·(2k+1))", which is below `2^-1022` for `k ≥ 7`;
   * `OutDom` (`small_product_err_partial`, `_budget_partial`, `_real_partial` only): `|c_i| + budget < B_v`
     (`2^63 / 2^50 / 2^63` for the kernel `ref / bnd50 / bnd63`; the module installs `ref` or `bnd63`).
  Not done: the zero rows of the SVP pipeline in binary64 (`ifft` of `+0` cells), and the row sum for `vmpApplyDft`
  (C02): there the accumulation (`reim4_vec_mat*_product`, FMA chains / `addmul`) adds its own rounding
  (`Numerics.dot_err_*`), to be composed with `dft_stage` per row and `sum_tri` over the rows; the layout invariants of
  `ModuleVmpLoop` / `ModuleVmpSmall` are stated for exact arithmetic only and would have to be redone for an arbitrary
  arithmetic record first.
-/
import SpqProofs.Lemmas.ProdErrFinal
import SpqProofs.Lemmas.ProdErrExample
import SpqProofs.Lemmas.ProdErrSvp
import SpqProofs.Lemmas.ProdErrReal
import SpqProofs.Lemmas.ProdErrProp
namespace Spq.C01Err
open Finset Spq Spq.Module Spq.Fft Spq.Fft.Alg Spq.FftErr Spq.F64 Spq.Conv Spq.ProdErr Spq.Reim4

variable {K : Type} [Field K] [LinearOrder K] [IsStrictOrderedRing K]

/-- **`mul_err`**: binary64 pointwise complex multiply of two DFT-space vectors of `m = 2^k` complexes (reim layout),
    reference (`fma = false`: mul, mul, sub / add) and FMA flavour (`fma = true`: mul, fmsub / fmadd; installed for
    `m ≥ 4`).  If the flags of the flagged run hold (no overflow, no underflow), every output is finite and
      `|ĉ_j − â_j·b̂_j|² ≤ μ²·|â_j|²·|b̂_j|²` for every cell, hence `‖ĉ − â∘b̂‖₂² ≤ μ²·‖â∘b̂‖₂²`,
    where `â_j = outC a k j` is the VALUE of cell `j` of the input. -/
theorem mul_err (fma : Bool) (k : ℕ) (hfk : fma = true → 2 ≤ k) (a b : Array ℕ)
    (hok : ∀ p, p < 2 * 2 ^ k → ((mulA arithOk fma (2 ^ k) (a.map lift) (b.map lift)).getD p arithOk.zero).2) :
    (∀ p, p < 2 * 2 ^ k → Fin64 ((mulA F64.arith fma (2 ^ k) a b)[p]!)) ∧
    (∀ j, j < 2 ^ k →
      nsq (outC (mulA F64.arith fma (2 ^ k) a b) k j - outC a k j * outC b k j : Cplx K) ≤
        ((mu64 : ℚ) : K) ^ 2 * (nsq (outC a k j : Cplx K) * nsq (outC b k j : Cplx K))) ∧
    ∑ j ∈ range (2 ^ k), nsq (outC (mulA F64.arith fma (2 ^ k) a b) k j - outC a k j * outC b k j : Cplx K) ≤
      ((mu64 : ℚ) : K) ^ 2 * ∑ j ∈ range (2 ^ k), nsq (outC a k j * outC b k j : Cplx K) := by
  have hm4 : fma = true → 2 ^ k % 4 = 0 := fun hf => pow_mod_four' k (hfk hf)
  have cell := fun j (hj : j < 2 ^ k) => mul_cell_err (K := K) fma (2 ^ k) hm4 a b j hj (hok j (by omega))
    (hok (j + 2 ^ k) (by omega))
  have hcell : ∀ j, j < 2 ^ k →
      nsq (outC (mulA F64.arith fma (2 ^ k) a b) k j - outC a k j * outC b k j : Cplx K) ≤
        ((mu64 : ℚ) : K) ^ 2 * (nsq (outC a k j : Cplx K) * nsq (outC b k j : Cplx K)) := by
    intro j hj
    rw [outC_eq_cpl, outC_eq_cpl, outC_eq_cpl]
    exact (cell j hj).2.2
  refine ⟨?_, hcell, ?_⟩
  · intro p hp
    rw [getElem!_nat]
    by_cases h : p < 2 ^ k
    · exact (cell p h).1
    · have := (cell (p - 2 ^ k) (by omega)).2.1
      rwa [show p - 2 ^ k + 2 ^ k = p by omega] at this
  · rw [mul_sum]
    apply sum_le_sum
    intro j hj
    rw [nsq_mul]
    exact hcell j (mem_range.1 hj)

/-- `mulA` is what the module runs: `Module.mul` of the binary64 module -/
example (c : Cfg) (k : ℕ) (cN sN cNi sNi : ℕ → ℕ) (h : CfgOk c k cN sN cNi sNi) (a b : Array Int) :
    smallProduct (Cfg.parts c) a b = (Cfg.parts c).toZnx
      (reimIfft (if c.ifftFma then "fma" else "ref") (2 ^ k) (tabI k cNi sNi)
        (mulA F64.arith c.mulFma (2 ^ k) (stF c k cN sN a) (stF c k cN sN b))) :=
  smallProduct_stages c k cN sN cNi sNi h a b

/-- **`small_product_err_budget_partial`** (every `k ≤ 961`; explicit budget).  Every output coefficient `r_i` of the
    binary64 pipeline is an integer with `|r_i − (a ⊛ b)_i| ≤ budget + 1/2`,
    `budget = eB ε μ (ε·2^k)·(‖a‖₁·nb + na·‖b‖₁)`, `ε = (1 + 8u)^k − 1`, `μ = (3/2)((1+u)² − 1)`. -/
theorem small_product_err_budget_partial (c : Cfg) (k : ℕ) (hk : k ≤ 961) (cN sN cNi sNi : ℕ → ℕ)
    (h : CfgOk c k cN sN cNi sNi)
    (ζ ζi : Cplx K) (hζ : nsq ζ = 1) (hI : ζ ^ 2 ^ k = Ic) (hinv : ζ * ζi = 1)
    (hcs : ∀ ℓ d b, ℓ + d + 1 = k → b < 2 ^ ℓ →
      nsq (toC (((val (cN (twE ℓ d b)) : ℚ) : K), ((val (sN (twE ℓ d b)) : ℚ) : K)) - ζ ^ twE ℓ d b) ≤
        (((7 / 2 * u64 : ℚ)) : K) ^ 2)
    (hcsi : ∀ ℓ d b, ℓ + d + 1 = k → b < 2 ^ ℓ →
      nsq (toC (((val (cNi (twE ℓ d b)) : ℚ) : K), ((val (sNi (twE ℓ d b)) : ℚ) : K)) - ζi ^ twE ℓ d b) ≤
        (((7 / 2 * u64 : ℚ)) : K) ^ 2)
    (a b : Array Int)
    (ha : ∀ i, i < 2 * 2 ^ k → -1125899906842624 < a.getD i 0 ∧ a.getD i 0 < 1125899906842624)
    (hb : ∀ i, i < 2 * 2 ^ k → -1125899906842624 < b.getD i 0 ∧ b.getD i 0 < 1125899906842624)
    (hok : PipeOk c k cN sN cNi sNi a b)
    (na nb : K) (hna0 : 0 ≤ na) (hnb0 : 0 ≤ nb)
    (hna : ∑ t ∈ range (2 * 2 ^ k), ((a.getD t 0 : Int) : K) ^ 2 ≤ na ^ 2)
    (hnb : ∑ t ∈ range (2 * 2 ^ k), ((b.getD t 0 : Int) : K) ^ 2 ≤ nb ^ 2)
    (hnl : nb ≤ ∑ t ∈ range (2 * 2 ^ k), |((b.getD t 0 : Int) : K)|)
    (hdom : ∀ i, i < 2 * 2 ^ k →
      |(((nmul (2 * 2 ^ k) a b).getD i 0 : Int) : K)| + budget K k a b na nb < ((Bv c.toVariant : ℚ) : K)) :
    ∀ i, i < 2 * 2 ^ k → ∃ r : ℤ, (smallProduct (Cfg.parts c) a b)[i]? = some r ∧
      |(r : K) - (((nmul (2 * 2 ^ k) a b).getD i 0 : Int) : K)| ≤ budget K k a b na nb + 1 / 2 :=
  pipe_out c k hk cN sN cNi sNi h ζ ζi hζ hI hinv hcs hcsi a b ha hb hok na nb hna0 hnb0 hna hnb hnl hdom

/-- **`small_product_err_partial`** (`k ≤ 16`: every `N = 2·2^k ≤ 131072`).  PROVED CONSTANT: **12** (the property
    says 8; see the header for the reason): every output coefficient `r_i` of the binary64 pipeline is an integer with
      `|r_i − (a ⊛ b)_i| ≤ E' + 1/2`,   `E' = 12·(k+1)·2^-53·(‖a‖₁·nb + na·‖b‖₁)`,   `k + 1 = log2 N`. -/
theorem small_product_err_partial (c : Cfg) (k : ℕ) (hk : k ≤ 16) (cN sN cNi sNi : ℕ → ℕ)
    (h : CfgOk c k cN sN cNi sNi)
    (ζ ζi : Cplx K) (hζ : nsq ζ = 1) (hI : ζ ^ 2 ^ k = Ic) (hinv : ζ * ζi = 1)
    (hcs : ∀ ℓ d b, ℓ + d + 1 = k → b < 2 ^ ℓ →
      nsq (toC (((val (cN (twE ℓ d b)) : ℚ) : K), ((val (sN (twE ℓ d b)) : ℚ) : K)) - ζ ^ twE ℓ d b) ≤
        (((7 / 2 * u64 : ℚ)) : K) ^ 2)
    (hcsi : ∀ ℓ d b, ℓ + d + 1 = k → b < 2 ^ ℓ →
      nsq (toC (((val (cNi (twE ℓ d b)) : ℚ) : K), ((val (sNi (twE ℓ d b)) : ℚ) : K)) - ζi ^ twE ℓ d b) ≤
        (((7 / 2 * u64 : ℚ)) : K) ^ 2)
    (a b : Array Int)
    (ha : ∀ i, i < 2 * 2 ^ k → -1125899906842624 < a.getD i 0 ∧ a.getD i 0 < 1125899906842624)
    (hb : ∀ i, i < 2 * 2 ^ k → -1125899906842624 < b.getD i 0 ∧ b.getD i 0 < 1125899906842624)
    (hok : PipeOk c k cN sN cNi sNi a b)
    (na nb : K) (hna0 : 0 ≤ na) (hnb0 : 0 ≤ nb)
    (hna : ∑ t ∈ range (2 * 2 ^ k), ((a.getD t 0 : Int) : K) ^ 2 ≤ na ^ 2)
    (hnb : ∑ t ∈ range (2 * 2 ^ k), ((b.getD t 0 : Int) : K) ^ 2 ≤ nb ^ 2)
    (hnl : nb ≤ ∑ t ∈ range (2 * 2 ^ k), |((b.getD t 0 : Int) : K)|)
    (hdom : ∀ i, i < 2 * 2 ^ k →
      |(((nmul (2 * 2 ^ k) a b).getD i 0 : Int) : K)| +
        ((12 * (k + 1 : ℚ) * u64 : ℚ) : K) *
          ((∑ t ∈ range (2 * 2 ^ k), |((a.getD t 0 : Int) : K)|) * nb + na * ∑ t ∈ range (2 * 2 ^ k), |((b.getD t 0 : Int) : K)|)
        < ((Bv c.toVariant : ℚ) : K)) :
    ∀ i, i < 2 * 2 ^ k → ∃ r : ℤ, (smallProduct (Cfg.parts c) a b)[i]? = some r ∧
      |(r : K) - (((nmul (2 * 2 ^ k) a b).getD i 0 : Int) : K)| ≤
        ((12 * (k + 1 : ℚ) * u64 : ℚ) : K) *
          ((∑ t ∈ range (2 * 2 ^ k), |((a.getD t 0 : Int) : K)|) * nb + na * ∑ t ∈ range (2 * 2 ^ k), |((b.getD t 0 : Int) : K)|)
        + 1 / 2 := by
  have hle := budget_le16 (K := K) k hk a b na nb hna0 hnb0
  have hdom' : OutDom K c k a b na nb := fun i hi => lt_of_le_of_lt (by have := hle; unfold n1 at this; linarith) (hdom i hi)
  intro i hi
  obtain ⟨r, h1, h2⟩ := pipe_out c k (by omega) cN sN cNi sNi h ζ ζi hζ hI hinv hcs hcsi a b ha hb hok na nb hna0 hnb0
    hna hnb hnl hdom' i hi
  exact ⟨r, h1, le_trans h2 (by have := hle; unfold n1 at this; linarith)⟩

/-- **`small_product_exact_f64_partial`**: if `E' = 12·(k+1)·2^-53·(‖a‖₁·nb + na·‖b‖₁) < 1/2` then the binary64
    pipeline returns the EXACT negacyclic product, as arrays of integers (every kernel combination, every `k ≤ 16`).
    No hypothesis on the domain of the final conversion: `|(a ⊛ b)_i| ≤ S/2 < 2^48`.  ("partial": constant 12 instead
    of 8, and the flag hypothesis `PipeOk` / twiddle accuracy remain hypotheses.) -/
theorem small_product_exact_f64_partial (c : Cfg) (k : ℕ) (hk : k ≤ 16) (cN sN cNi sNi : ℕ → ℕ)
    (h : CfgOk c k cN sN cNi sNi)
    (ζ ζi : Cplx K) (hζ : nsq ζ = 1) (hI : ζ ^ 2 ^ k = Ic) (hinv : ζ * ζi = 1)
    (hcs : ∀ ℓ d b, ℓ + d + 1 = k → b < 2 ^ ℓ →
      nsq (toC (((val (cN (twE ℓ d b)) : ℚ) : K), ((val (sN (twE ℓ d b)) : ℚ) : K)) - ζ ^ twE ℓ d b) ≤
        (((7 / 2 * u64 : ℚ)) : K) ^ 2)
    (hcsi : ∀ ℓ d b, ℓ + d + 1 = k → b < 2 ^ ℓ →
      nsq (toC (((val (cNi (twE ℓ d b)) : ℚ) : K), ((val (sNi (twE ℓ d b)) : ℚ) : K)) - ζi ^ twE ℓ d b) ≤
        (((7 / 2 * u64 : ℚ)) : K) ^ 2)
    (a b : Array Int)
    (ha : ∀ i, i < 2 * 2 ^ k → -1125899906842624 < a.getD i 0 ∧ a.getD i 0 < 1125899906842624)
    (hb : ∀ i, i < 2 * 2 ^ k → -1125899906842624 < b.getD i 0 ∧ b.getD i 0 < 1125899906842624)
    (hok : PipeOk c k cN sN cNi sNi a b)
    (na nb : K) (hna0 : 0 ≤ na) (hnb0 : 0 ≤ nb)
    (hna : ∑ t ∈ range (2 * 2 ^ k), ((a.getD t 0 : Int) : K) ^ 2 ≤ na ^ 2)
    (hnb : ∑ t ∈ range (2 * 2 ^ k), ((b.getD t 0 : Int) : K) ^ 2 ≤ nb ^ 2)
    (hnl : nb ≤ ∑ t ∈ range (2 * 2 ^ k), |((b.getD t 0 : Int) : K)|)
    (hE : ((12 * (k + 1 : ℚ) * u64 : ℚ) : K) *
        ((∑ t ∈ range (2 * 2 ^ k), |((a.getD t 0 : Int) : K)|) * nb + na * ∑ t ∈ range (2 * 2 ^ k), |((b.getD t 0 : Int) : K)|)
      < 1 / 2) :
    smallProduct (Cfg.parts c) a b = nmul (2 * 2 ^ k) a b := by
  have hcb := coeff_bound c k cN sN cNi sNi h ζ ζi hζ hI hinv hcs a b ha hb hok na nb hna0 hnb0 hna hnb hnl
  have hdom : OutDom K c k a b na nb := outDom_of_small c k hk a b na nb hna0 hnb0 hcb hE
  have hle := budget_le16 (K := K) k hk a b na nb hna0 hnb0
  apply array_eq_of_cells (2 * 2 ^ k)
  · rw [smallProduct_stages c k cN sN cNi sNi h]
    exact toZnx_size c k h.nn h.toVar _
  · exact size_nmul _ _ _
  · intro i hi
    obtain ⟨r, h1, h2⟩ := pipe_out c k (by omega) cN sN cNi sNi h ζ ζi hζ hI hinv hcs hcsi a b ha hb hok na nb hna0 hnb0
      hna hnb hnl hdom i hi
    refine ⟨r, h1, int_eq_of_lt_one (K := K) r _ ?_⟩
    unfold n1 at hle
    linarith

/-! ### `K = ℝ`, true 2-norms: the shape of the property text

  `n1 ℝ x N = ‖x‖₁ = Σ|x_t|`, `n2 x N = ‖x‖₂ = √Σ x_t²` (first `N` coefficients). -/

/-- **`small_product_err_real_partial`**: over ℝ, `|r_i − (a ⊛ b)_i| ≤ 12·log2(N)·2^-53·(‖a‖₁‖b‖₂ + ‖a‖₂‖b‖₁) + 1/2`
    (the property's `E` with 12 in place of 8), every `N = 2·2^k`, `k ≤ 16`. -/
theorem small_product_err_real_partial (c : Cfg) (k : ℕ) (hk : k ≤ 16) (cN sN cNi sNi : ℕ → ℕ)
    (h : CfgOk c k cN sN cNi sNi)
    (ζ ζi : Cplx ℝ) (hζ : nsq ζ = 1) (hI : ζ ^ 2 ^ k = Ic) (hinv : ζ * ζi = 1)
    (hcs : ∀ ℓ d b, ℓ + d + 1 = k → b < 2 ^ ℓ →
      nsq (toC (((val (cN (twE ℓ d b)) : ℚ) : ℝ), ((val (sN (twE ℓ d b)) : ℚ) : ℝ)) - ζ ^ twE ℓ d b) ≤
        (((7 / 2 * u64 : ℚ)) : ℝ) ^ 2)
    (hcsi : ∀ ℓ d b, ℓ + d + 1 = k → b < 2 ^ ℓ →
      nsq (toC (((val (cNi (twE ℓ d b)) : ℚ) : ℝ), ((val (sNi (twE ℓ d b)) : ℚ) : ℝ)) - ζi ^ twE ℓ d b) ≤
        (((7 / 2 * u64 : ℚ)) : ℝ) ^ 2)
    (a b : Array Int)
    (ha : ∀ i, i < 2 * 2 ^ k → -1125899906842624 < a.getD i 0 ∧ a.getD i 0 < 1125899906842624)
    (hb : ∀ i, i < 2 * 2 ^ k → -1125899906842624 < b.getD i 0 ∧ b.getD i 0 < 1125899906842624)
    (hok : PipeOk c k cN sN cNi sNi a b)
    (hdom : ∀ i, i < 2 * 2 ^ k →
      |(((nmul (2 * 2 ^ k) a b).getD i 0 : Int) : ℝ)| +
        ((12 * (k + 1 : ℚ) * u64 : ℚ) : ℝ) *
          (n1 ℝ a (2 * 2 ^ k) * n2 b (2 * 2 ^ k) + n2 a (2 * 2 ^ k) * n1 ℝ b (2 * 2 ^ k))
        < ((Bv c.toVariant : ℚ) : ℝ)) :
    ∀ i, i < 2 * 2 ^ k → ∃ r : ℤ, (smallProduct (Cfg.parts c) a b)[i]? = some r ∧
      |(r : ℝ) - (((nmul (2 * 2 ^ k) a b).getD i 0 : Int) : ℝ)| ≤
        ((12 * (k + 1 : ℚ) * u64 : ℚ) : ℝ) *
          (n1 ℝ a (2 * 2 ^ k) * n2 b (2 * 2 ^ k) + n2 a (2 * 2 ^ k) * n1 ℝ b (2 * 2 ^ k)) + 1 / 2 :=
  small_product_err_partial c k hk cN sN cNi sNi h ζ ζi hζ hI hinv hcs hcsi a b ha hb hok (n2 a (2 * 2 ^ k))
    (n2 b (2 * 2 ^ k)) (n2_nonneg _ _) (n2_nonneg _ _) (n2_sq _ _) (n2_sq _ _) (n2_le_n1 _ _) hdom

/-- **`small_product_exact_real_partial`**: over ℝ, if `12·log2(N)·2^-53·(‖a‖₁‖b‖₂ + ‖a‖₂‖b‖₁) < 1/2` the binary64
    pipeline returns the exact product. -/
theorem small_product_exact_real_partial (c : Cfg) (k : ℕ) (hk : k ≤ 16) (cN sN cNi sNi : ℕ → ℕ)
    (h : CfgOk c k cN sN cNi sNi)
    (ζ ζi : Cplx ℝ) (hζ : nsq ζ = 1) (hI : ζ ^ 2 ^ k = Ic) (hinv : ζ * ζi = 1)
    (hcs : ∀ ℓ d b, ℓ + d + 1 = k → b < 2 ^ ℓ →
      nsq (toC (((val (cN (twE ℓ d b)) : ℚ) : ℝ), ((val (sN (twE ℓ d b)) : ℚ) : ℝ)) - ζ ^ twE ℓ d b) ≤
        (((7 / 2 * u64 : ℚ)) : ℝ) ^ 2)
    (hcsi : ∀ ℓ d b, ℓ + d + 1 = k → b < 2 ^ ℓ →
      nsq (toC (((val (cNi (twE ℓ d b)) : ℚ) : ℝ), ((val (sNi (twE ℓ d b)) : ℚ) : ℝ)) - ζi ^ twE ℓ d b) ≤
        (((7 / 2 * u64 : ℚ)) : ℝ) ^ 2)
    (a b : Array Int)
    (ha : ∀ i, i < 2 * 2 ^ k → -1125899906842624 < a.getD i 0 ∧ a.getD i 0 < 1125899906842624)
    (hb : ∀ i, i < 2 * 2 ^ k → -1125899906842624 < b.getD i 0 ∧ b.getD i 0 < 1125899906842624)
    (hok : PipeOk c k cN sN cNi sNi a b)
    (hE : ((12 * (k + 1 : ℚ) * u64 : ℚ) : ℝ) *
        (n1 ℝ a (2 * 2 ^ k) * n2 b (2 * 2 ^ k) + n2 a (2 * 2 ^ k) * n1 ℝ b (2 * 2 ^ k)) < 1 / 2) :
    smallProduct (Cfg.parts c) a b = nmul (2 * 2 ^ k) a b :=
  small_product_exact_f64_partial c k hk cN sN cNi sNi h ζ ζi hζ hI hinv hcs hcsi a b ha hb hok (n2 a (2 * 2 ^ k))
    (n2 b (2 * 2 ^ k)) (n2_nonneg _ _) (n2_nonneg _ _) (n2_sq _ _) (n2_sq _ _) (n2_le_n1 _ _) hE

/-- **`small_product_err_prop_partial`**: the preconditions on `a`, `b` are EXACTLY those of the property text —
    `|a_t|, |b_t| < 2^50` and `min(‖a‖₁·‖b‖∞, ‖a‖∞·‖b‖₁) < 2^52` (`ba ≥ ‖a‖∞`, `bb ≥ ‖b‖∞`) — for the conversion kernels the
    module installs (`ref`, `bnd63`; not `bnd50`): the domain of the final conversion is then implied
    (`|c_i| < 2^52`, `E' < 2^25`, repaired `bnd63` kernel exact on `[2^52, 2^63)`).  Remaining hypotheses: dispatch,
    twiddle accuracy, flags.  Constant 12 instead of 8. -/
theorem small_product_err_prop_partial (c : Cfg) (k : ℕ) (hk : k ≤ 16) (cN sN cNi sNi : ℕ → ℕ)
    (h : CfgOk c k cN sN cNi sNi) (hvar : c.toVariant ≠ .bnd50)
    (ζ ζi : Cplx ℝ) (hζ : nsq ζ = 1) (hI : ζ ^ 2 ^ k = Ic) (hinv : ζ * ζi = 1)
    (hcs : ∀ ℓ d b, ℓ + d + 1 = k → b < 2 ^ ℓ →
      nsq (toC (((val (cN (twE ℓ d b)) : ℚ) : ℝ), ((val (sN (twE ℓ d b)) : ℚ) : ℝ)) - ζ ^ twE ℓ d b) ≤
        (((7 / 2 * u64 : ℚ)) : ℝ) ^ 2)
    (hcsi : ∀ ℓ d b, ℓ + d + 1 = k → b < 2 ^ ℓ →
      nsq (toC (((val (cNi (twE ℓ d b)) : ℚ) : ℝ), ((val (sNi (twE ℓ d b)) : ℚ) : ℝ)) - ζi ^ twE ℓ d b) ≤
        (((7 / 2 * u64 : ℚ)) : ℝ) ^ 2)
    (a b : Array Int)
    (ha : ∀ i, i < 2 * 2 ^ k → -1125899906842624 < a.getD i 0 ∧ a.getD i 0 < 1125899906842624)
    (hb : ∀ i, i < 2 * 2 ^ k → -1125899906842624 < b.getD i 0 ∧ b.getD i 0 < 1125899906842624)
    (hok : PipeOk c k cN sN cNi sNi a b)
    (ba bb : ℝ) (hba : ∀ t, t < 2 * 2 ^ k → |((a.getD t 0 : Int) : ℝ)| ≤ ba)
    (hbb : ∀ t, t < 2 * 2 ^ k → |((b.getD t 0 : Int) : ℝ)| ≤ bb)
    (hbud : min (n1 ℝ a (2 * 2 ^ k) * bb) (ba * n1 ℝ b (2 * 2 ^ k)) < 4503599627370496) :
    ∀ i, i < 2 * 2 ^ k → ∃ r : ℤ, (smallProduct (Cfg.parts c) a b)[i]? = some r ∧
      |(r : ℝ) - (((nmul (2 * 2 ^ k) a b).getD i 0 : Int) : ℝ)| ≤
        ((12 * (k + 1 : ℚ) * u64 : ℚ) : ℝ) *
          (n1 ℝ a (2 * 2 ^ k) * n2 b (2 * 2 ^ k) + n2 a (2 * 2 ^ k) * n1 ℝ b (2 * 2 ^ k)) + 1 / 2 :=
  small_product_err_real_partial c k hk cN sN cNi sNi h ζ ζi hζ hI hinv hcs hcsi a b ha hb hok
    (hdom_of_budget52 c k hk hvar a b (n2 a (2 * 2 ^ k)) (n2 b (2 * 2 ^ k)) ba bb (n2_nonneg _ _) (n2_nonneg _ _)
      (n2_le_n1 _ _) (n2_le_n1 _ _) hba hbb hbud)

/-! ### `svp_prepare` + `svp_apply_dft` + `vec_znx_idft` -/

/-- **`svp_row_small_product`**: in the binary64 module, row `i` (`i < rsz2`, `i < rsz`, `i < asz`) of
    `vecIdft (svpApply (svpPrepare pol) vec)` is BIT FOR BIT `smallProduct (limb_i vec) pol` (every limb count, every
    stride) — so the budget theorems apply row by row. -/
theorem svp_row_small_product (c : Cfg) (k : ℕ) (cN sN cNi sNi : ℕ → ℕ) (h : CfgOk c k cN sN cNi sNi)
    (pol vec : Array Int) (asz asl rsz rsz2 i : ℕ) (hi : i < rsz2) (hi2 : i < rsz) (hi3 : i < asz) :
    dlimb (vecIdft (Cfg.parts c) rsz2 (svpApply (Cfg.parts c) rsz (svpPrepare (Cfg.parts c) pol) vec asz asl) rsz) i
        (2 * 2 ^ k) =
      smallProduct (Cfg.parts c) (limbOf vec i asl (2 * 2 ^ k)) pol :=
  svp_row c k cN sN cNi sNi h pol vec asz asl rsz rsz2 i hi hi2 hi3

/-- **`svp_err_partial`**: every coefficient of row `i` of the SVP pipeline is an integer within `E' + 1/2` of the
    coefficient of `limb_i · pol` in `ℤ[X]/(X^N + 1)`, `E' = 12·(k+1)·2^-53·(‖limb_i‖₁·nb + na·‖pol‖₁)` (constant 12, as
    `small_product_err_partial`; `a` is limb `i` of `vec`). -/
theorem svp_err_partial (c : Cfg) (k : ℕ) (hk : k ≤ 16) (cN sN cNi sNi : ℕ → ℕ) (h : CfgOk c k cN sN cNi sNi)
    (ζ ζi : Cplx K) (hζ : nsq ζ = 1) (hI : ζ ^ 2 ^ k = Ic) (hinv : ζ * ζi = 1)
    (hcs : ∀ ℓ d b, ℓ + d + 1 = k → b < 2 ^ ℓ →
      nsq (toC (((val (cN (twE ℓ d b)) : ℚ) : K), ((val (sN (twE ℓ d b)) : ℚ) : K)) - ζ ^ twE ℓ d b) ≤
        (((7 / 2 * u64 : ℚ)) : K) ^ 2)
    (hcsi : ∀ ℓ d b, ℓ + d + 1 = k → b < 2 ^ ℓ →
      nsq (toC (((val (cNi (twE ℓ d b)) : ℚ) : K), ((val (sNi (twE ℓ d b)) : ℚ) : K)) - ζi ^ twE ℓ d b) ≤
        (((7 / 2 * u64 : ℚ)) : K) ^ 2)
    (pol vec : Array Int) (asz asl rsz rsz2 i : ℕ) (hi : i < rsz2) (hi2 : i < rsz) (hi3 : i < asz)
    (a : Array Int) (hal : limbOf vec i asl (2 * 2 ^ k) = a)
    (ha : ∀ t, t < 2 * 2 ^ k → -1125899906842624 < a.getD t 0 ∧ a.getD t 0 < 1125899906842624)
    (hb : ∀ t, t < 2 * 2 ^ k → -1125899906842624 < pol.getD t 0 ∧ pol.getD t 0 < 1125899906842624)
    (hok : PipeOk c k cN sN cNi sNi a pol)
    (na nb : K) (hna0 : 0 ≤ na) (hnb0 : 0 ≤ nb)
    (hna : ∑ t ∈ range (2 * 2 ^ k), ((a.getD t 0 : Int) : K) ^ 2 ≤ na ^ 2)
    (hnb : ∑ t ∈ range (2 * 2 ^ k), ((pol.getD t 0 : Int) : K) ^ 2 ≤ nb ^ 2)
    (hnl : nb ≤ ∑ t ∈ range (2 * 2 ^ k), |((pol.getD t 0 : Int) : K)|)
    (hdom : ∀ t, t < 2 * 2 ^ k →
      |(((nmul (2 * 2 ^ k) a pol).getD t 0 : Int) : K)| +
        ((12 * (k + 1 : ℚ) * u64 : ℚ) : K) *
          ((∑ t ∈ range (2 * 2 ^ k), |((a.getD t 0 : Int) : K)|) * nb + na * ∑ t ∈ range (2 * 2 ^ k), |((pol.getD t 0 : Int) : K)|)
        < ((Bv c.toVariant : ℚ) : K)) :
    ∀ t, t < 2 * 2 ^ k → ∃ r : ℤ,
      (dlimb (vecIdft (Cfg.parts c) rsz2 (svpApply (Cfg.parts c) rsz (svpPrepare (Cfg.parts c) pol) vec asz asl) rsz) i
        (2 * 2 ^ k))[t]? = some r ∧
      |(r : K) - (((nmul (2 * 2 ^ k) a pol).getD t 0 : Int) : K)| ≤
        ((12 * (k + 1 : ℚ) * u64 : ℚ) : K) *
          ((∑ t ∈ range (2 * 2 ^ k), |((a.getD t 0 : Int) : K)|) * nb + na * ∑ t ∈ range (2 * 2 ^ k), |((pol.getD t 0 : Int) : K)|)
        + 1 / 2 := by
  rw [svp_row c k cN sN cNi sNi h pol vec asz asl rsz rsz2 i hi hi2 hi3, hal]
  exact small_product_err_partial c k hk cN sN cNi sNi h ζ ζi hζ hI hinv hcs hcsi a pol ha hb hok na nb hna0 hnb0 hna hnb
    hnl hdom

/-- **`svp_exact_f64_partial`**: if `E' < 1/2`, row `i` of the binary64 SVP pipeline is EXACTLY `limb_i · pol` in
    `ℤ[X]/(X^N + 1)`. -/
theorem svp_exact_f64_partial (c : Cfg) (k : ℕ) (hk : k ≤ 16) (cN sN cNi sNi : ℕ → ℕ) (h : CfgOk c k cN sN cNi sNi)
    (ζ ζi : Cplx K) (hζ : nsq ζ = 1) (hI : ζ ^ 2 ^ k = Ic) (hinv : ζ * ζi = 1)
    (hcs : ∀ ℓ d b, ℓ + d + 1 = k → b < 2 ^ ℓ →
      nsq (toC (((val (cN (twE ℓ d b)) : ℚ) : K), ((val (sN (twE ℓ d b)) : ℚ) : K)) - ζ ^ twE ℓ d b) ≤
        (((7 / 2 * u64 : ℚ)) : K) ^ 2)
    (hcsi : ∀ ℓ d b, ℓ + d + 1 = k → b < 2 ^ ℓ →
      nsq (toC (((val (cNi (twE ℓ d b)) : ℚ) : K), ((val (sNi (twE ℓ d b)) : ℚ) : K)) - ζi ^ twE ℓ d b) ≤
        (((7 / 2 * u64 : ℚ)) : K) ^ 2)
    (pol vec : Array Int) (asz asl rsz rsz2 i : ℕ) (hi : i < rsz2) (hi2 : i < rsz) (hi3 : i < asz)
    (a : Array Int) (hal : limbOf vec i asl (2 * 2 ^ k) = a)
    (ha : ∀ t, t < 2 * 2 ^ k → -1125899906842624 < a.getD t 0 ∧ a.getD t 0 < 1125899906842624)
    (hb : ∀ t, t < 2 * 2 ^ k → -1125899906842624 < pol.getD t 0 ∧ pol.getD t 0 < 1125899906842624)
    (hok : PipeOk c k cN sN cNi sNi a pol)
    (na nb : K) (hna0 : 0 ≤ na) (hnb0 : 0 ≤ nb)
    (hna : ∑ t ∈ range (2 * 2 ^ k), ((a.getD t 0 : Int) : K) ^ 2 ≤ na ^ 2)
    (hnb : ∑ t ∈ range (2 * 2 ^ k), ((pol.getD t 0 : Int) : K) ^ 2 ≤ nb ^ 2)
    (hnl : nb ≤ ∑ t ∈ range (2 * 2 ^ k), |((pol.getD t 0 : Int) : K)|)
    (hE : ((12 * (k + 1 : ℚ) * u64 : ℚ) : K) *
        ((∑ t ∈ range (2 * 2 ^ k), |((a.getD t 0 : Int) : K)|) * nb + na * ∑ t ∈ range (2 * 2 ^ k), |((pol.getD t 0 : Int) : K)|)
      < 1 / 2) :
    dlimb (vecIdft (Cfg.parts c) rsz2 (svpApply (Cfg.parts c) rsz (svpPrepare (Cfg.parts c) pol) vec asz asl) rsz) i
        (2 * 2 ^ k) = nmul (2 * 2 ^ k) a pol := by
  rw [svp_row c k cN sN cNi sNi h pol vec asz asl rsz rsz2 i hi hi2 hi3, hal]
  exact small_product_exact_f64_partial c k hk cN sN cNi sNi h ζ ζi hζ hI hinv hcs hcsi a pol ha hb hok na nb hna0 hnb0
    hna hnb hnl hE

/-! ### the hypotheses are satisfiable, the statements are not vacuous

  `N = 2` (`k = 0`), `K = ℚ`, `ζ = i`, `ζi = −i`, the all-reference module `exC` (`Lemmas/ProdErrExample.lean`),
  `a = 1 + 2X`, `b = 3 + 4X`, `na = 3 ≥ √5`, `nb = 5 = √25 ≤ ‖b‖₁ = 7`: every hypothesis of the exactness theorem
  holds (`exCfgOk`, `exPipeOk`: all flags of the four flagged stage runs), and its conclusion is the evaluated model.
  For `m ≥ 2` the exact roots are irrational: `K = ℝ`, `ζ = exp(iπ/2m)` (as `Closed.realRoot`), and the two
  twiddle-accuracy hypotheses become statements about the stored tables. -/

example : smallProduct (Cfg.parts exC) #[1, 2] #[3, 4] = nmul (2 * 2 ^ 0) #[1, 2] #[3, 4] :=
  small_product_exact_f64_partial (K := ℚ) exC 0 (by omega) z0 z0 z0 z0 exCfgOk Ic (-Ic)
    (by simp [nsq, Ic]) (by simp) (by rw [mul_neg, Ic_sq, neg_neg])
    (fun ℓ d b h => by omega) (fun ℓ d b h => by omega) #[1, 2] #[3, 4]
    (by intro i hi; have : i = 0 ∨ i = 1 := by omega
        rcases this with rfl | rfl <;> decide)
    (by intro i hi; have : i = 0 ∨ i = 1 := by omega
        rcases this with rfl | rfl <;> decide)
    exPipeOk 3 5 (by norm_num) (by norm_num)
    (by show ∑ t ∈ range 2, _ ≤ _; simp [sum_range_succ]; norm_num)
    (by show ∑ t ∈ range 2, _ ≤ _; simp [sum_range_succ]; norm_num)
    (by show _ ≤ ∑ t ∈ range 2, _; simp [sum_range_succ]; norm_num)
    (by show _ * ((∑ t ∈ range 2, _) * _ + _ * ∑ t ∈ range 2, _) < _
        unfold u64; simp [sum_range_succ]; norm_num)

/-- the same value, by evaluating the bit-exact model and the specification -/
example : smallProduct (Cfg.parts exC) #[1, 2] #[3, 4] = #[-5, 10] ∧ nmul (2 * 2 ^ 0) #[1, 2] #[3, 4] = #[-5, 10] := by
  constructor <;> decide +kernel

end Spq.C01Err
