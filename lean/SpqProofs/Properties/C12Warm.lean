/-
  C12 (extension) — the warm-up protocol of the `*_simple` convenience functions, on the EXTRACTED rows.

  "The convenience `*_simple` functions meet the same guarantee [no data race, results as when run alone]
  once one call per dimension has completed."  `C12.simple_after_warmup` only says that the second of two
  identical consecutive calls is a no-op, for an arbitrary row.  Here, for every row of `Gen.Caches.rows`:

  (0) `shared_rows_dim_only`: a row that is not thread-local is keyed by the dimension alone — derived from the
      Gen obligation `C12.shared_caches_keyed_by_dimension_only` (so a source change that adds a guard
      parameter to a shared cache breaks every theorem below through that obligation).
  (1) `warm_established` / `warm_preserved` / `warmup_no_shared_write` / `warmup_no_shared_write_seq` /
      `warmup_from_history`: `Warm spec st D` (slots of the dimensions in `D` filled, each with a table built for
      that dimension) holds after ANY history of (power-of-two) calls containing one call per dimension of `D`,
      is preserved by EVERY step, and under it EVERY call with `m ∈ D` and ARBITRARY other arguments builds
      nothing, writes no slot (`written = none`, sound by `written_is_sound`), leaves the state unchanged and uses
      the table built for its `m`; likewise any sequence of such calls.
  (2) `warmup_schedule_indep` / `warmup_no_write_step`: threads whose atomic actions are convenience calls
      executed by the real `Caches.step` (which writes when it has to; the next call of a thread, all
      arguments included, may depend on what it observed) with dimensions in `D`, started in a warm shared
      state: for EVERY schedule the shared cache is unchanged, no step writes, and every thread observes
      exactly what it observes solo.  (`Spq.Globals.Act` has Int-valued cells and primitive reads/writes, it
      cannot carry a whole cache call as one action, so the same interleaving induction is redone over
      `Caches.CConf` — `Lemmas/CachesWarm.lean: runSched_view` — with write set = ∅ supplied by (1).)
  (3) `tls_rows_private` / `tls_schedule_indep`: thread-local rows work on a per-thread cache object.
  Not covered (runtime residue, TSan stream): the first-use race itself, i.e. two threads inside the
  warm-up call of the same dimension; a call is atomic in this model.
-/
import SpqProofs.Lemmas.CachesWarm
import SpqProofs.Properties.C12
import SpqProofs.Properties.C15
namespace Spq.C12Warm
open Spq Spq.Caches Spq.C15

/-- a shared (not thread-local) extracted cache is keyed by the dimension alone -/
theorem shared_rows_dim_only (r : Gen.Caches.Row) (hr : r ∈ Gen.Caches.rows) (hs : r.tls = false) :
    DimOnly (specOf r) := by
  have h := (List.all_eq_true.mp C12.shared_caches_keyed_by_dimension_only.1) r hr
  simp only [hs, Bool.false_or, Bool.and_eq_true, List.isEmpty_iff] at h
  exact ⟨h.2, h.1⟩

/-- `written` reports every slot a step changes (for every spec, state and call) -/
theorem written_is_sound (s : Spec) (st : State) (c : Call) (k : Nat) (h : written s st c ≠ some k) :
    (step s st c).1 k = st k := step_frame s st c k h

/-- ANY call history from the initial state that contains at least one completed call per dimension of `D`
    establishes `Warm` (calls with a non-power-of-two `m` abort in `log2m`) -/
theorem warm_established (r : Gen.Caches.Row) (hr : r ∈ Gen.Caches.rows) (hs : r.tls = false)
    (D : List Int) (hist : List Call) (hp : ∀ c ∈ hist, Pow2M c) (hcov : ∀ m ∈ D, ∃ c ∈ hist, c.get "m" = m) :
    Warm (specOf r) (run (specOf r) empty hist) D :=
  warm_of_history _ (shared_rows_dim_only r hr hs) D hist empty (inv_empty _) hp hcov

/-- `Warm` is preserved by EVERY step: any dimension (warm or not), any arguments -/
theorem warm_preserved (r : Gen.Caches.Row) (hr : r ∈ Gen.Caches.rows) (hs : r.tls = false)
    (D : List Int) (st : State) (hw : Warm (specOf r) st D) (c : Call) :
    Warm (specOf r) (step (specOf r) st c).1 D :=
  warm_step _ (shared_rows_dim_only r hr hs) st D c hw

/-- after the warm-up, EVERY call with a dimension in `D` and arbitrary other arguments rebuilds nothing, writes no
    slot, leaves the shared state unchanged and uses the table that was built for its `m` -/
theorem warmup_no_shared_write (r : Gen.Caches.Row) (hr : r ∈ Gen.Caches.rows) (hs : r.tls = false)
    (D : List Int) (st : State) (hw : Warm (specOf r) st D) (c : Call) (hc : c.get "m" ∈ D) :
    ∃ e, step (specOf r) st c = (st, e, false) ∧ written (specOf r) st c = none ∧
      st (slotOf (specOf r) c) = some e ∧ e.get "m" = c.get "m" := by
  have hd := shared_rows_dim_only r hr hs
  obtain ⟨e, he, hem, hst⟩ := step_of_warm _ hd st D hw c hc
  exact ⟨e, hst, written_of_warm _ hd st D hw c hc, he, hem⟩

/-- any sequence of calls with dimensions in `D`: shared state unchanged, no rebuild at any position -/
theorem warmup_no_shared_write_seq (r : Gen.Caches.Row) (hr : r ∈ Gen.Caches.rows) (hs : r.tls = false)
    (D : List Int) (st : State) (hw : Warm (specOf r) st D) (cs : List Call) (hc : ∀ c ∈ cs, c.get "m" ∈ D) :
    run (specOf r) st cs = st ∧ rebuilds (specOf r) st cs = List.replicate cs.length false :=
  run_of_warm _ (shared_rows_dim_only r hr hs) st D hw cs hc

/-- end to end, from the initial state: warm-up history `hist` (any order, any repetitions, any other calls in
    between), then any calls `mid` whatsoever, then a call `c` with a warm dimension: `c` writes nothing, and the
    table it uses was built with `c`'s own value of every constructor argument that influences the table (C15) -/
theorem warmup_from_history (r : Gen.Caches.Row) (hr : r ∈ Gen.Caches.rows) (hs : r.tls = false)
    (D : List Int) (hist mid : List Call) (c : Call) (hp : ∀ c', c' ∈ c :: (hist ++ mid) → Pow2M c')
    (hcov : ∀ m ∈ D, ∃ c' ∈ hist, c'.get "m" = m) (hc : c.get "m" ∈ D) :
    let st := run (specOf r) empty (hist ++ mid)
    ∃ e, step (specOf r) st c = (st, e, false) ∧ written (specOf r) st c = none ∧
      ∀ p, p ∈ r.initArgs → (r.name, p) ∉ irrelevant → e.get p = c.get p := by
  intro st
  have hw : Warm (specOf r) st D := by
    have := warm_established r hr hs D hist (fun c' hc' => hp c' (by simp [hc'])) hcov
    simpa [st, run_append] using warm_run _ (shared_rows_dim_only r hr hs) D mid _ this
  obtain ⟨e, hst, hwr, _, _⟩ := warmup_no_shared_write r hr hs D st hw c hc
  refine ⟨e, hst, hwr, fun p hpi hirr => ?_⟩
  have := history_indep r hr (hist ++ mid) c hp p hpi hirr
  rwa [show run (specOf r) empty (hist ++ mid) = st from rfl, hst] at this

/-- threads doing convenience calls with dimensions in `D` on a warm shared cache: for EVERY schedule the shared
    cache state is unchanged and every thread observes what it observes when run alone -/
theorem warmup_schedule_indep (r : Gen.Caches.Row) (hr : r ∈ Gen.Caches.rows) (hs : r.tls = false)
    (D : List Int) (progs : Nat → CProg) (hin : CallsIn progs D)
    (c0 : CConf) (hw : Warm (specOf r) c0.shared D) (sched : List Nat) :
    (runSched r.tls (specOf r) progs c0 sched).shared = c0.shared ∧
    ∀ t, (runSched r.tls (specOf r) progs c0 sched).hist t
      = (runSolo r.tls (specOf r) progs c0 t (sched.count t)).hist t := by
  have hd := shared_rows_dim_only r hr hs
  rw [hs]
  refine ⟨runSched_shared_warm _ hd progs D hin sched c0 hw, fun t => ?_⟩
  refine (runSched_view false (specOf r) progs (fun c => Warm (specOf r) c.shared D) ?_ ?_ sched c0 t hw).2
  · intro c t hg
    show Warm _ (stepThread false (specOf r) progs c t).shared D
    rw [stepThread_shared_warm _ hd progs D hin c hg t]; exact hg
  · intro c t u hg _
    exact stepThread_shared_warm _ hd progs D hin c hg t

/-- no step of any such interleaving writes the shared cache: in every reachable configuration the next call
    of every thread reports no written slot and no rebuild (no conflicting pair of accesses exists) -/
theorem warmup_no_write_step (r : Gen.Caches.Row) (hr : r ∈ Gen.Caches.rows) (hs : r.tls = false)
    (D : List Int) (progs : Nat → CProg) (hin : CallsIn progs D)
    (c0 : CConf) (hw : Warm (specOf r) c0.shared D) (sched : List Nat) (t : Nat) (call : Call)
    (hcall : progs t ((runSched r.tls (specOf r) progs c0 sched).hist t) = some call) :
    written (specOf r) (runSched r.tls (specOf r) progs c0 sched).shared call = none ∧
    (step (specOf r) (runSched r.tls (specOf r) progs c0 sched).shared call).2.2 = false := by
  rw [(warmup_schedule_indep r hr hs D progs hin c0 hw sched).1]
  obtain ⟨e, hst, hwr, _, _⟩ := warmup_no_shared_write r hr hs D c0.shared hw call (hin t _ call hcall)
  exact ⟨hwr, by rw [hst]⟩

/-- thread-local rows (every mutable static of the function carries the C `__thread` qualifier — parsed from the
    source by the generator, `Row.tls`; ASSUMED: the compiler/loader give each thread its own instance): the
    model gives each thread its own cache object, so a step of thread `t` writes neither the shared object nor the
    object of another thread — with or without warm-up, whatever the arguments -/
theorem tls_rows_private (r : Gen.Caches.Row) (ht : r.tls = true) (progs : Nat → CProg) (c : CConf) (t : Nat) :
    (stepThread r.tls (specOf r) progs c t).shared = c.shared ∧
    ∀ u, u ≠ t → (stepThread r.tls (specOf r) progs c t).priv u = c.priv u := by
  rw [ht]; exact stepThread_tls (specOf r) progs c t

/-- hence, for thread-local rows, every interleaving gives every thread the cache object and the observations of
    its solo run — no warm-up and no restriction on the calls needed -/
theorem tls_schedule_indep (r : Gen.Caches.Row) (ht : r.tls = true) (progs : Nat → CProg) (c0 : CConf)
    (sched : List Nat) (t : Nat) :
    (runSched r.tls (specOf r) progs c0 sched).priv t
      = (runSolo r.tls (specOf r) progs c0 t (sched.count t)).priv t ∧
    (runSched r.tls (specOf r) progs c0 sched).hist t
      = (runSolo r.tls (specOf r) progs c0 t (sched.count t)).hist t := by
  rw [ht]
  have := runSched_view true (specOf r) progs (fun _ => True) (fun _ _ _ => trivial)
    (fun c t u _ hu => by simpa [cacheOf] using (stepThread_tls (specOf r) progs c t).2 u hu) sched c0 t trivial
  simpa [cacheOf] using this

/-! ### concrete instances on real extracted rows (hypotheses satisfiable, conclusions not vacuous) -/

/-- the extracted row with a given function name -/
def rowOf (n : String) : Gen.Caches.Row :=
  (Gen.Caches.rows.filter (fun r => r.name == n)).headD ⟨"", true, false, [], [], [], ""⟩

example : rowOf "reim_fft_simple" ∈ Gen.Caches.rows ∧ (rowOf "reim_fft_simple").name = "reim_fft_simple" ∧
    (rowOf "reim_fft_simple").tls = false ∧
    rowOf "reim_from_znx64_simple" ∈ Gen.Caches.rows ∧ (rowOf "reim_from_znx64_simple").tls = false ∧
    (rowOf "reim_from_znx64_simple").initArgs = ["m", "log2bound"] := by decide +kernel

/-- computed on the model: in the history `[m=8, m=16, m=8 (other args), m=16]` the first two calls build
    (slots 3 and 4), the last two build nothing and write no slot — for a cache with constructor argument `m`
    only and for one with a second constructor argument (`log2bound`, not part of the key) -/
example :
    rebuilds (specOf (rowOf "reim_fft_simple")) empty (warmupCalls ++ laterCalls) = [true, true, false, false] ∧
    written (specOf (rowOf "reim_fft_simple")) empty warmupCalls[0]! = some 3 ∧
    written (specOf (rowOf "reim_fft_simple")) (run (specOf (rowOf "reim_fft_simple")) empty warmupCalls)
      laterCalls[0]! = none ∧
    written (specOf (rowOf "reim_fft_simple"))
      (run (specOf (rowOf "reim_fft_simple")) empty (warmupCalls ++ laterCalls.take 1)) laterCalls[1]! = none ∧
    rebuilds (specOf (rowOf "reim_from_znx64_simple")) empty (warmupCalls ++ laterCalls)
      = [true, true, false, false] := by decide +kernel

/-- the same through the theorems: `warm_established` on the warm-up history, then `warmup_no_shared_write_seq`
    on the later calls, for the real row of `reim_fft_simple` and D = {8, 16} -/
example :
    let s := specOf (rowOf "reim_fft_simple")
    Warm s (run s empty warmupCalls) [8, 16] ∧
    run s (run s empty warmupCalls) laterCalls = run s empty warmupCalls ∧
    rebuilds s (run s empty warmupCalls) laterCalls = [false, false] := by
  have hr : rowOf "reim_fft_simple" ∈ Gen.Caches.rows := by decide +kernel
  have hs : (rowOf "reim_fft_simple").tls = false := by decide +kernel
  have hw := warm_established _ hr hs [8, 16] warmupCalls warmupCalls_pow2 (by decide +kernel)
  have h2 := warmup_no_shared_write_seq _ hr hs [8, 16] _ hw laterCalls (by decide +kernel)
  exact ⟨hw, h2.1, h2.2⟩

/-- threads: even threads call with m = 8, odd threads with m = 16, the other argument depends on what the thread
    has observed so far; after the warm-up every schedule leaves the shared cache as it is and gives every
    thread its solo observations -/
example (sched : List Nat) :
    let r := rowOf "reim_from_znx64_simple"
    let progs : Nat → CProg := fun t h => some [("m", if t % 2 = 0 then 8 else 16), ("log2bound", h.length)]
    let c0 : CConf := ⟨run (specOf r) empty warmupCalls, fun _ => empty, fun _ => []⟩
    (runSched r.tls (specOf r) progs c0 sched).shared = c0.shared ∧
    ∀ t, (runSched r.tls (specOf r) progs c0 sched).hist t
      = (runSolo r.tls (specOf r) progs c0 t (sched.count t)).hist t := by
  intro r progs c0
  have hr : r ∈ Gen.Caches.rows := by decide +kernel
  have hs : r.tls = false := by decide +kernel
  refine warmup_schedule_indep r hr hs [8, 16] progs ?_ c0
    (warm_established r hr hs [8, 16] warmupCalls warmupCalls_pow2 (by decide +kernel)) sched
  intro t h call hcall
  simp only [progs, Option.some.injEq] at hcall
  subst hcall
  by_cases ht : t % 2 = 0 <;> simp [Call.get, List.lookup, ht]

end Spq.C12Warm
