/-
  C12 — shared modules and precomputed tables are safe for concurrent use.

  Model: threads are deterministic reactive programs over a shared memory (`Spq.Globals.Prog`); an
  execution is any interleaving (`sched : List Nat`) of their atomic read/write actions (sequentially
  consistent).  The shared locations of the library are its mutable static-storage objects, extracted
  from the object files on every run together with the call graph (`Gen.Globals`).

  (1) `readonly_schedule_indep`: if no thread ever writes a shared location then, for EVERY schedule,
      the shared memory never changes (so no two accesses conflict: there is no data race) and every
      thread observes exactly what it observes when run alone — its results are bit-for-bit those of
      a solo run.
  (2) `module_api_readonly` (Gen obligation): the closure, under the extracted call graph (indirect
      calls over-approximated by every address-taken function), of every exported entry point taking a
      `const MODULE*` / `const *_PRECOMP*` references NO shared mutable global (thread-local objects and the
      guarded verification hook's own mask/counter excluded).  With (1): any number of threads may call
      any of them on the same object concurrently.
  (3) `simple_after_warmup`: in the cache model of the `*_simple` functions (structure extracted from
      the source, `Gen.Caches`), once a call with the same key has completed, a call performs no write
      to the cache (state unchanged, no table built) — the documented warm-up protocol.
  Not a theorem (runtime residue, exhibited by the TSan stream only): real weak-memory interleavings,
  compiler reordering, and the first-use race of the `*_simple` functions themselves.
-/
import SpqProofs.Lemmas.Threads
import SpqProofs.Lemmas.Caches
import Gen.Globals
import Gen.Caches
namespace Spq.C12
open Spq Spq.Globals

theorem readonly_schedule_indep (progs : Nat → Prog) (hro : ReadOnly progs) (c0 : Conf) (sched : List Nat) :
    (runSched progs c0 sched).shared = c0.shared ∧
    ∀ t, (runSched progs c0 sched).hist t = (runSolo progs c0 t (sched.count t)).hist t :=
  ⟨runSched_shared progs hro sched c0, fun t => runSched_hist progs hro sched c0 t⟩

/-- no step of any interleaving of read-only threads is a write: no conflicting pair of accesses exists -/
theorem readonly_no_write_step (progs : Nat → Prog) (hro : ReadOnly progs) (c : Conf) (t : Nat) :
    ∀ l v, progs t (c.hist t) ≠ Act.write l v := fun l v => hro t _ l v

/-- the extracted graph -/
def graph : Graph := ⟨Gen.Globals.calls, Gen.Globals.indirect, Gen.Globals.addrTaken, Gen.Globals.refs⟩

/-- a global is shared mutable state: not thread-local and not part of the guarded verification hook -/
def sharedGlobal (g : Nat) : Bool :=
  let x := Gen.Globals.globals.getD g ("", false, false)
  !x.2.1 && !x.2.2

/-- Gen obligation: module-level and table-based entry points touch no shared mutable global -/
theorem module_api_readonly :
    touchedFrom graph 100000 Gen.Globals.apiRoots sharedGlobal = some [] := by decide +kernel

/-- the set of entry points this is about is not empty (non-vacuity) and contains the module API -/
theorem api_roots_nonempty :
    (Gen.Globals.apiRootNames.contains "znx_small_single_product" &&
     Gen.Globals.apiRootNames.contains "vmp_apply_dft" &&
     Gen.Globals.apiRootNames.contains "vec_znx_idft" &&
     Gen.Globals.apiRootNames.contains "reim_fft") = true := by decide +kernel

/-- the `*_simple` functions do reach shared mutable globals (their caches): the obligation above is not
    vacuous — the same closure computation finds them -/
theorem simple_api_not_readonly :
    (touchedFrom graph 100000 Gen.Globals.simpleRoots sharedGlobal).map (fun l => l.isEmpty) = some false := by
  decide +kernel

/-- warm-up protocol: after one completed call with the same key, a call leaves the cache untouched -/
theorem simple_after_warmup (r : Gen.Caches.Row) (st : Caches.State) (c : Caches.Call) :
    let spec : Caches.Spec := { slotByM := r.slotByM, guard := r.guard, initArgs := r.initArgs }
    let warm := (Caches.step spec st c).1
    (Caches.step spec warm c).1 = warm ∧ (Caches.step spec warm c).2.2 = false := by
  intro spec warm
  obtain ⟨e, he, hk⟩ := Caches.step_then_warm spec st c
  rw [Caches.step_warm spec warm c e he hk]
  exact ⟨rfl, rfl⟩

/-- Gen obligation tying the extracted cache structure to the warm-up protocol: a convenience function whose table is
    SHARED between threads (not thread-local) is keyed by the dimension alone (one slot per `m`, no further key), so after
    one completed call per dimension no later call rebuilds a shared table; caches with further key parameters
    (`divisor`, `log2bound`, …) are thread-local. -/
theorem shared_caches_keyed_by_dimension_only :
    Gen.Caches.rows.all (fun r => r.tls || (r.guard.isEmpty && r.slotByM)) = true ∧
    15 ≤ Gen.Caches.rows.length ∧ (Gen.Caches.rows.any fun r => !r.tls) = true ∧ (Gen.Caches.rows.any fun r => r.tls) = true := by
  decide +kernel

end Spq.C12
