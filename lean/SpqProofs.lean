-- property theorems: SpqProofs/Properties/Cxx.lean ; helper lemmas: SpqProofs/Lemmas/*.lean
import SpqProofs.Properties.C08
