-- property theorems: SpqProofs/Properties/Cxx.lean ; helper lemmas: SpqProofs/Lemmas/*.lean
import SpqProofs.Properties.C03
import SpqProofs.Properties.C05
import SpqProofs.Properties.C08
import SpqProofs.Properties.C09
import SpqProofs.Properties.C11
import SpqProofs.Properties.C12
import SpqProofs.Properties.C13
import SpqProofs.Properties.C15
import SpqProofs.Properties.C17
import SpqProofs.Properties.C18
import SpqProofs.Properties.C07
import SpqProofs.Properties.C10
import SpqProofs.Properties.C16
import SpqProofs.Properties.Bridge
import SpqProofs.Properties.C01
import SpqProofs.Properties.C02
import SpqProofs.Properties.C04
