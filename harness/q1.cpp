// Streams over the q120 arithmetic (products a*a, b*b, b*c, the x2 block forms, block copies and the
// _simple conversions).  Family `q1` of the Lean driver (lean/Spq/Drv/Q120.lean).
//   q1_prod : every product kernel, ref and avx2, extremal operand classes, ell up to MAX_ELL
//   q1_conv : conversions / additions / CRT lift / block extract+save
// The real line is always the raw output (uint64 lanes, uint32 words of layout c, or __int128 in
// decimal).  The oracle is plain 128-bit integer arithmetic and shares nothing with the Lean model.
#include "hcommon.h"

extern "C" {
#include "spqlios/q120/q120_arithmetic.h"
#include "spqlios/q120/q120_arithmetic_private.h"
#include "spqlios/q120/q120_common.h"
}

typedef unsigned __int128 u128;
typedef __int128 s128;

static const uint64_t QS[4] = {Q1, Q2, Q3, Q4};
static const uint64_t CRTS[4] = {Q1_CRT_CST, Q2_CRT_CST, Q3_CRT_CST, Q4_CRT_CST};
static const uint64_t M32 = 0xFFFFFFFFull;
// the property quantifies over ell in [0, 10000] whatever the header says: a smaller MAX_ELL in the source must not shrink the tested domain
static const uint64_t CONTRACT_ELL = 10000;

static void put_s128(FILE* f, s128 v) {
  char buf[64];
  int n = 0;
  bool neg = v < 0;
  u128 u = neg ? (u128)0 - (u128)v : (u128)v;
  if (u == 0) buf[n++] = '0';
  while (u) {
    buf[n++] = (char)('0' + (int)(u % 10));
    u /= 10;
  }
  if (neg) fputc('-', f);
  while (n) fputc(buf[--n], f);
}
static void put_u32s(FILE* f, const uint32_t* v, size_t n) {
  for (size_t i = 0; i < n; i++) fprintf(f, i ? " %" PRIu32 : "%" PRIu32, v[i]);
}
static void put4(FILE* f, const uint64_t* v) { fprintf(f, " %" PRIu64 " %" PRIu64 " %" PRIu64 " %" PRIu64, v[0], v[1], v[2], v[3]); }

// -------------------------------------------------------------------------------------------------
// operand classes
enum { CL_RANDOM, CL_ALLMAX, CL_ALT, CL_SINGLE, CL_KQM1, CL_NONCANON, CL_RAW, NCLASS };
static const char* CLNAME[] = {"random", "allmax", "alt", "single", "kqm1", "noncanon", "raw"};

// layout a lane (value < 2^32) of prime k, term i of ell
static uint64_t gen_a(Rng& r, int cls, int k, uint64_t i, uint64_t ell, uint64_t special, int side) {
  switch (cls) {
    case CL_RANDOM: return r.next() & M32;
    case CL_ALLMAX: return M32;
    case CL_ALT: return side == 0 ? ((i & 1) ? 0 : M32) : M32;
    case CL_SINGLE: return i == special ? M32 : 0;
    case CL_KQM1: { uint64_t kk = 1 + r.below(4); return kk * QS[k] - 1; }  // 4*q < 2^32 for the 30-bit set; masked below
    case CL_NONCANON: { uint64_t v = QS[k] + r.below((1ull << 32) - QS[k]); return v; }
    default: return r.next() & M32;
  }
}
// layout b lane (any uint64)
static uint64_t gen_b(Rng& r, int cls, int k, uint64_t i, uint64_t ell, uint64_t special, int side) {
  switch (cls) {
    case CL_RANDOM: return r.next();
    case CL_ALLMAX: return ~0ull;
    case CL_ALT: return side == 0 ? ((i & 1) ? 0 : ~0ull) : ~0ull;
    case CL_SINGLE: return i == special ? ~0ull : 0;
    case CL_KQM1: { uint64_t kmax = (~0ull) / QS[k]; uint64_t kk = (r.next() & 1) ? kmax : 1 + r.below(kmax); return kk * QS[k] - 1; }
    case CL_NONCANON: return r.next() | (1ull << 63);
    default: return r.next();
  }
}
// layout c lane = y0 | y1<<32.  Valid layout: y1 == y0 * 2^32 (mod q); classes keep that congruence
// (with non-canonical 32-bit representatives) except CL_RAW (two arbitrary 32-bit words).
static uint64_t gen_c(Rng& r, int cls, int k, uint64_t i, uint64_t ell, uint64_t special, int side) {
  const uint64_t q = QS[k];
  uint64_t y0, y1;
  auto lift = [&](uint64_t v, bool maxrep) {  // representative of v mod q in [0,2^32): canonical, or the largest / a random one
    v %= q;
    uint64_t kmax = (M32 - v) / q;
    return v + q * (maxrep ? kmax : r.below(kmax + 1));
  };
  switch (cls) {
    case CL_RANDOM: y0 = r.below(q); y1 = (uint64_t)(((u128)y0 << 32) % q); break;
    case CL_ALLMAX: y0 = M32; y1 = M32; break;  // extremal words (not a valid c element: used for the wrap analysis)
    case CL_ALT: y0 = side == 0 ? ((i & 1) ? 0 : M32) : M32; y1 = y0; break;
    case CL_SINGLE: y0 = i == special ? M32 : 0; y1 = y0; break;
    case CL_KQM1: y0 = q - 1; y1 = (uint64_t)(((u128)y0 << 32) % q); y0 = lift(y0, true); y1 = lift(y1, true); break;
    case CL_NONCANON: y0 = r.next() & M32; y1 = lift((uint64_t)(((u128)(y0 % q) << 32) % q), false); break;
    default: y0 = r.next() & M32; y1 = r.next() & M32; break;
  }
  return y0 | (y1 << 32);
}

enum { K_BAA, K_BBB, K_BBC, K_X2C1, K_X2C2, NKERN };
static const char* KNAME[] = {"baa", "bbb", "bbc", "x2bbc1", "x2bbc2"};

struct Precomps {
  q120_mat1col_product_baa_precomp* baa;
  q120_mat1col_product_bbb_precomp* bbb;
  q120_mat1col_product_bbc_precomp* bbc;
};
static Precomps& precomps() {
  static Precomps p = {q120_new_vec_mat1col_product_baa_precomp(), q120_new_vec_mat1col_product_bbb_precomp(),
                       q120_new_vec_mat1col_product_bbc_precomp()};
  return p;
}

static void put_precomp(FILE* f, int kern) {
  Precomps& P = precomps();
  if (kern == K_BAA) {
    fprintf(f, " %" PRIu64, P.baa->h);
    put4(f, P.baa->h_pow_red);
  } else if (kern == K_BBB) {
    fprintf(f, " %" PRIu64, P.bbb->h);
    put4(f, P.bbb->s1h_pow_red);
    put4(f, P.bbb->s2l_pow_red);
    put4(f, P.bbb->s2h_pow_red);
    put4(f, P.bbb->s3l_pow_red);
    put4(f, P.bbb->s3h_pow_red);
    put4(f, P.bbb->s4l_pow_red);
    put4(f, P.bbb->s4h_pow_red);
  } else {
    fprintf(f, " %" PRIu64, P.bbc->h);
    put4(f, P.bbc->s2l_pow_red);
    put4(f, P.bbc->s2h_pow_red);
  }
}

// exact value of one term modulo q (128-bit arithmetic): a,b layouts: x*y ; c layout: xl*y0 + xh*y1
static inline uint64_t term_mod(int kern, uint64_t x, uint64_t y, uint64_t q) {
  if (kern == K_BAA || kern == K_BBB) return (uint64_t)(((u128)(x % q) * (y % q)) % q);
  uint64_t xl = x & M32, xh = x >> 32, y0 = y & M32, y1 = y >> 32;
  return (uint64_t)((((u128)xl * y0) % q + ((u128)xh * y1) % q) % q);
}

// outside = 1: operands outside the declared domain (layout-a lanes >= 2^32) -> oracle verdict "na";
// such cases only tie the model's wrap-around / mul_epu32 truncation to the real code.
static void prod_case(Out& out, Rng& rng, int kern, int variant, uint64_t ell, int cls, int outside = 0) {
  const uint64_t xrow = (kern >= K_X2C1) ? 8 : 4;               // lanes per row of x
  const uint64_t yrow = (kern == K_X2C2) ? 16 : xrow;           // lanes per row of y
  const uint64_t nres = (kern == K_X2C1) ? 8 : (kern == K_X2C2 ? 16 : 4);
  // one full row of non-zero garbage behind the operands: a kernel that reads term `ell` shows in the result
  std::vector<uint64_t> x(xrow * ell + 16), y(yrow * ell + 16), res(nres, 0x5A5A5A5A5A5A5A5Aull);
  for (uint64_t i = 0; i < 16; i++) { x[xrow * ell + i] = (rng.next() & M32) | 1; y[yrow * ell + i] = (rng.next() & M32) | 1; }
  uint64_t special = rng.below(ell ? ell : 1);
  int xcls = cls, ycls = cls;
  for (uint64_t i = 0; i < ell; i++) {
    for (uint64_t l = 0; l < xrow; l++) {
      int k = (int)(l % 4);
      x[xrow * i + l] = (kern == K_BAA && !outside) ? gen_a(rng, xcls, k, i, ell, special, 0) : gen_b(rng, xcls, k, i, ell, special, 0);
      if (kern == K_BAA && !outside) x[xrow * i + l] &= M32;
    }
    for (uint64_t l = 0; l < yrow; l++) {
      int k = (int)(l % 4);
      uint64_t v;
      if (kern == K_BAA && outside) v = gen_b(rng, ycls, k, i, ell, special, 1);
      else if (kern == K_BAA) v = gen_a(rng, ycls, k, i, ell, special, 1) & M32;
      else if (kern == K_BBB) v = gen_b(rng, ycls, k, i, ell, special, 1);
      else v = gen_c(rng, ycls, k, i, ell, special, 1);
      y[yrow * i + l] = v;
    }
  }
  Precomps& P = precomps();
  switch (kern * 2 + variant) {
    case K_BAA * 2 + 0: q120_vec_mat1col_product_baa_ref(P.baa, ell, (q120b*)res.data(), (q120a*)x.data(), (q120a*)y.data()); break;
    case K_BAA * 2 + 1: q120_vec_mat1col_product_baa_avx2(P.baa, ell, (q120b*)res.data(), (q120a*)x.data(), (q120a*)y.data()); break;
    case K_BBB * 2 + 0: q120_vec_mat1col_product_bbb_ref(P.bbb, ell, (q120b*)res.data(), (q120b*)x.data(), (q120b*)y.data()); break;
    case K_BBB * 2 + 1: q120_vec_mat1col_product_bbb_avx2(P.bbb, ell, (q120b*)res.data(), (q120b*)x.data(), (q120b*)y.data()); break;
    case K_BBC * 2 + 0: q120_vec_mat1col_product_bbc_ref(P.bbc, ell, (q120b*)res.data(), (q120b*)x.data(), (q120c*)y.data()); break;
    case K_BBC * 2 + 1: q120_vec_mat1col_product_bbc_avx2(P.bbc, ell, (q120b*)res.data(), (q120b*)x.data(), (q120c*)y.data()); break;
    case K_X2C1 * 2 + 0: q120x2_vec_mat1col_product_bbc_ref(P.bbc, ell, (q120b*)res.data(), (q120b*)x.data(), (q120c*)y.data()); break;
    case K_X2C1 * 2 + 1: q120x2_vec_mat1col_product_bbc_avx2(P.bbc, ell, (q120b*)res.data(), (q120b*)x.data(), (q120c*)y.data()); break;
    case K_X2C2 * 2 + 0: q120x2_vec_mat2cols_product_bbc_ref(P.bbc, ell, (q120b*)res.data(), (q120b*)x.data(), (q120c*)y.data()); break;
    default: q120x2_vec_mat2cols_product_bbc_avx2(P.bbc, ell, (q120b*)res.data(), (q120b*)x.data(), (q120c*)y.data()); break;
  }
  // op line
  fprintf(out.ops, "q1 %s %s %" PRIu64, KNAME[kern], variant ? "avx2" : "ref", ell);
  put_precomp(out.ops, kern);
  fprintf(out.ops, " | ");
  put_u64s(out.ops, x.data(), xrow * ell);
  fprintf(out.ops, " | ");
  put_u64s(out.ops, y.data(), yrow * ell);
  put_u64s(out.real, res.data(), nres);
  // oracle: exact dot product modulo each prime
  std::string verdict = (outside || ell > CONTRACT_ELL) ? "na" : "ok";
  for (uint64_t r = 0; r < nres && verdict == "ok"; r++) {
    const int k = (int)(r % 4);
    const uint64_t q = QS[k];
    uint64_t xo, yo;  // lane offsets inside a row
    if (kern == K_X2C2) { xo = 4 * ((r / 4) % 2) + k; yo = r; }
    else { xo = r; yo = r; }
    u128 acc = 0;
    for (uint64_t i = 0; i < ell; i++) acc += term_mod(kern, x[xrow * i + xo], y[yrow * i + yo], q);
    uint64_t expect = (uint64_t)(acc % q);
    if (res[r] % q != expect) {
      char buf[256];
      snprintf(buf, sizeof buf, "FAIL %s_%s ell=%" PRIu64 " class=%s lane %" PRIu64 ": got %" PRIu64 " (mod q = %" PRIu64 ") expected %" PRIu64 " mod %" PRIu64,
               KNAME[kern], variant ? "avx2" : "ref", ell, CLNAME[cls], r, res[r], res[r] % q, expect, q);
      verdict = buf;
    }
  }
  out.count(std::string("kern_") + KNAME[kern] + (variant ? "_avx2" : "_ref"));
  out.count(std::string("class_") + CLNAME[cls]);
  out.count(ell == 0 ? "ell_0" : ell > CONTRACT_ELL ? "ell_beyond_contract" : ell >= 9999 ? "ell_max" : ell <= 3 ? "ell_1_3" : "ell_mid");
  if (outside) out.count("outside_layout");
  out.endcase(verdict);
}

STREAM(q1_prod) {
  static const uint64_t small_ells[] = {0, 1, 2, 3, 17, 100};
  for (int kern = 0; kern < NKERN; kern++)
    for (int variant = 0; variant < 2; variant++)
      for (uint64_t ell : small_ells)
        for (int cls = 0; cls < NCLASS; cls++) {
          if (cls == CL_RAW && kern < K_BBC) continue;  // only meaningful for layout c
          prod_case(out, rng, kern, variant, ell, cls);
        }
  // random lengths
  int nrand = thorough ? 400 : 60;
  for (int t = 0; t < nrand; t++) {
    int kern = (int)rng.below(NKERN);
    int cls = (int)rng.below(kern < K_BBC ? CL_RAW : NCLASS);
    prod_case(out, rng, kern, (int)rng.below(2), rng.below(300), cls);
  }
  // outside the contract (verdict "na"): layout-a lanes >= 2^32 (mul_epu32 drops the high halves, the
  // reference multiply wraps) and lengths beyond MAX_ELL (accumulators / mul_epu32 operands overflow)
  for (int variant = 0; variant < 2; variant++) {
    for (uint64_t ell : {1, 2, 17}) {
      prod_case(out, rng, K_BAA, variant, ell, CL_RANDOM, 1);
      prod_case(out, rng, K_BAA, variant, ell, CL_ALLMAX, 1);
    }
    prod_case(out, rng, K_BAA, variant, 4 * CONTRACT_ELL, CL_ALLMAX);
  }
  // maximal lengths: all-max at MAX_ELL for every kernel and variant; more classes in the thorough tier
  for (int kern = 0; kern < NKERN; kern++)
    for (int variant = 0; variant < 2; variant++) {
      prod_case(out, rng, kern, variant, CONTRACT_ELL, CL_ALLMAX);
      if (thorough) {
        for (int cls = 0; cls < NCLASS; cls++) {
          if (cls == CL_RAW && kern < K_BBC) continue;
          if (cls != CL_ALLMAX) prod_case(out, rng, kern, variant, CONTRACT_ELL, cls);
          if (cls == CL_ALLMAX || cls == CL_ALT || cls == CL_NONCANON) prod_case(out, rng, kern, variant, CONTRACT_ELL - 1, cls);
        }
      } else {
        int cls = (int)rng.below(kern < K_BBC ? CL_RAW : NCLASS);
        prod_case(out, rng, kern, variant, CONTRACT_ELL - 1, cls);
      }
    }
}

// -------------------------------------------------------------------------------------------------
// conversions
static int64_t pick_x(Rng& r, int cls) {
  switch (cls) {
    case 0: return INT64_MIN;
    case 1: return INT64_MAX;
    case 2: return 0;
    case 3: return 1;
    case 4: return -1;
    case 5: return INT64_MIN + (int64_t)r.below(3);
    case 6: return INT64_MAX - (int64_t)r.below(3);
    case 7: { int k = (int)r.below(4); int64_t m = (int64_t)r.below(1ull << 32); return (r.next() & 1) ? (int64_t)QS[k] * m : -(int64_t)QS[k] * m; }
    case 8: return r.sbits(1 + (int)r.below(63));
    default: return (int64_t)r.next();
  }
}
static uint64_t pick_lane(Rng& r, int cls, int k) {
  switch (cls) {
    case 0: return r.next();
    case 1: return ~0ull;
    case 2: return 0;
    case 3: return r.below(QS[k]);
    case 4: { uint64_t kmax = (~0ull) / QS[k]; return kmax * QS[k] - 1 + r.below(2); }
    case 5: return (QS[k] << 33) - 1 + r.below(3);
    case 6: return r.next() | (1ull << 63);
    default: return QS[k] - 1 + r.below(3);
  }
}
static inline uint64_t smod(s128 v, uint64_t q) {
  s128 t = v % (s128)q;
  if (t < 0) t += q;
  return (uint64_t)t;
}

static void head_q(FILE* f, const char* op, uint64_t nn, bool crt) {
  fprintf(f, "q1 %s %" PRIu64, op, nn);
  put4(f, QS);
  if (crt) put4(f, CRTS);
  fprintf(f, " | ");
}

// returns lanes
static std::vector<uint64_t> case_bfromznx(Out& out, const std::vector<int64_t>& x) {
  uint64_t nn = x.size();
  std::vector<uint64_t> res(4 * nn + 4, 0);
  q120_b_from_znx64_simple(nn, (q120b*)res.data(), x.data());
  head_q(out.ops, "bfromznx", nn, false);
  put_i64s(out.ops, x.data(), nn);
  put_u64s(out.real, res.data(), 4 * nn);
  std::string v = "ok";
  for (uint64_t j = 0; j < nn; j++)
    for (int k = 0; k < 4; k++)
      if (res[4 * j + k] % QS[k] != smod((s128)x[j], QS[k])) v = "FAIL b_from_znx64 not congruent";
  out.count("op_bfromznx");
  out.endcase(v);
  res.resize(4 * nn);
  return res;
}

static void case_btoznx128(Out& out, const std::vector<uint64_t>& lanes, const int64_t* expect_identity) {
  uint64_t nn = lanes.size() / 4;
  std::vector<s128> res(nn + 1, 0);
  q120_b_to_znx128_simple(nn, (__int128_t*)res.data(), (const q120b*)lanes.data());
  head_q(out.ops, "btoznx128", nn, true);
  put_u64s(out.ops, lanes.data(), 4 * nn);
  for (uint64_t j = 0; j < nn; j++) {
    if (j) fputc(' ', out.real);
    put_s128(out.real, res[j]);
  }
  const s128 Q = (s128)QS[0] * QS[1] * QS[2] * QS[3];
  std::string v = "ok";
  for (uint64_t j = 0; j < nn; j++) {
    if (res[j] > (Q - 1) / 2 || res[j] < -((Q - 1) / 2)) v = "FAIL b_to_znx128 not centered";
    for (int k = 0; k < 4; k++)
      if (smod(res[j], QS[k]) != lanes[4 * j + k] % QS[k]) v = "FAIL b_to_znx128 not congruent";
    if (expect_identity && res[j] != (s128)expect_identity[j]) v = "FAIL int64 -> b -> int128 is not the identity";
  }
  out.count(expect_identity ? "op_roundtrip" : "op_btoznx128");
  out.endcase(v);
}

// lanes of a given integer value (canonical residues, optionally lifted to lazy non-canonical representatives)
static void lanes_of(std::vector<uint64_t>& out, s128 v, Rng& rng, int lazy) {
  for (int k = 0; k < 4; k++) {
    s128 q = (s128)QS[k];
    uint64_t r = (uint64_t)(((v % q) + q) % q);
    if (lazy) r += QS[k] * (uint64_t)rng.below(((uint64_t)1 << 33));
    out.push_back(r);
  }
}

STREAM(q1_conv) {
  {
    // the centring boundary of the CRT lift: (Q-1)/2 is the largest representative, (Q+1)/2 must come back as -(Q-1)/2
    s128 Q = (s128)QS[0] * QS[1] * QS[2] * QS[3];
    for (int lazy = 0; lazy < 2; lazy++) {
      std::vector<uint64_t> lanes;
      s128 vals[] = {(Q - 1) / 2, (Q + 1) / 2, (Q - 1) / 2 - 1, (Q + 1) / 2 + 1, -((Q - 1) / 2), Q - 1, 0, 1, -1, (Q - 1) / 2 - (s128)rng.below(1000), (Q + 1) / 2 + (s128)rng.below(1000)};
      for (s128 v : vals) lanes_of(lanes, v, rng, lazy);
      while ((lanes.size() / 4) % 2) lanes_of(lanes, 0, rng, lazy);
      case_btoznx128(out, lanes, nullptr);
      out.count("crt_boundary");
    }
  }
  const int reps = thorough ? 40 : 6;
  for (int rep = 0; rep < reps; rep++) {
    // int64 -> b, int64 -> c, and the round trip int64 -> b -> int128
    for (int cls = 0; cls < 10; cls++) {
      uint64_t nn = (rep == 0 && cls == 0) ? 0 : 1 + rng.below(6);
      std::vector<int64_t> x(nn + 1);
      for (uint64_t j = 0; j < nn; j++) x[j] = (j == 0 || (rng.next() & 1)) ? pick_x(rng, cls) : pick_x(rng, (int)rng.below(10));
      x.resize(nn);
      std::vector<uint64_t> lanes = case_bfromznx(out, x);
      case_btoznx128(out, lanes, x.data());
      {
        std::vector<uint32_t> res(8 * nn + 8, 0);
        q120_c_from_znx64_simple(nn, (q120c*)res.data(), x.data());
        head_q(out.ops, "cfromznx", nn, false);
        put_i64s(out.ops, x.data(), nn);
        put_u32s(out.real, res.data(), 8 * nn);
        std::string v = "ok";
        for (uint64_t j = 0; j < nn; j++)
          for (int k = 0; k < 4; k++) {
            uint64_t w0 = res[8 * j + 2 * k], w1 = res[8 * j + 2 * k + 1];
            if (w0 != smod((s128)x[j], QS[k])) v = "FAIL c_from_znx64 word 0";
            if (w1 != (uint64_t)(((u128)w0 << 32) % QS[k])) v = "FAIL c_from_znx64 word 1";
          }
        out.count("op_cfromznx");
        out.endcase(v);
      }
    }
    // lanes: b -> c, b + b, b -> int128 ; words: c + c
    for (int cls = 0; cls < 8; cls++) {
      uint64_t nn = (rep == 0 && cls == 0) ? 0 : 1 + rng.below(6);
      std::vector<uint64_t> x(4 * nn + 4), y(4 * nn + 4);
      for (uint64_t i = 0; i < 4 * nn; i++) {
        x[i] = pick_lane(rng, (rng.next() & 3) ? cls : (int)rng.below(8), (int)(i % 4));
        y[i] = pick_lane(rng, (rng.next() & 3) ? cls : (int)rng.below(8), (int)(i % 4));
      }
      {
        std::vector<uint32_t> res(8 * nn + 8, 0);
        q120_c_from_b_simple(nn, (q120c*)res.data(), (const q120b*)x.data());
        head_q(out.ops, "cfromb", nn, false);
        put_u64s(out.ops, x.data(), 4 * nn);
        put_u32s(out.real, res.data(), 8 * nn);
        std::string v = "ok";
        for (uint64_t i = 0; i < 4 * nn; i++) {
          uint64_t q = QS[i % 4];
          if (res[2 * i] != x[i] % q) v = "FAIL c_from_b word 0";
          if (res[2 * i + 1] != (uint64_t)(((u128)(x[i] % q) << 32) % q)) v = "FAIL c_from_b word 1";
        }
        out.count("op_cfromb");
        out.endcase(v);
      }
      {
        std::vector<uint64_t> res(4 * nn + 4, 0);
        q120_add_bbb_simple(nn, (q120b*)res.data(), (const q120b*)x.data(), (const q120b*)y.data());
        head_q(out.ops, "addbbb", nn, false);
        put_u64s(out.ops, x.data(), 4 * nn);
        fprintf(out.ops, " | ");
        put_u64s(out.ops, y.data(), 4 * nn);
        put_u64s(out.real, res.data(), 4 * nn);
        std::string v = "ok";
        for (uint64_t i = 0; i < 4 * nn; i++) {
          uint64_t q = QS[i % 4];
          if (res[i] % q != (uint64_t)(((u128)x[i] + y[i]) % q)) v = "FAIL add_bbb not congruent";
        }
        out.count("op_addbbb");
        out.endcase(v);
      }
      {
        std::vector<s128> dummy;
        std::vector<uint64_t> xx(x.begin(), x.begin() + 4 * nn);
        case_btoznx128(out, xx, nullptr);
      }
      {
        std::vector<uint32_t> a(8 * nn + 8), b(8 * nn + 8), res(8 * nn + 8, 0);
        for (uint64_t i = 0; i < 8 * nn; i++) {
          int k = (int)((i % 8) / 2);
          auto pw = [&](int c) -> uint32_t {
            switch (c) {
              case 0: return (uint32_t)rng.next();
              case 1: return 0xFFFFFFFFu;
              case 2: return 0;
              case 3: return (uint32_t)rng.below(QS[k]);
              case 4: return (uint32_t)(QS[k] - 1 + rng.below(2));
              default: return (uint32_t)(4 * QS[k] - 1 - rng.below(2));
            }
          };
          a[i] = pw((rng.next() & 3) ? cls % 6 : (int)rng.below(6));
          b[i] = pw((rng.next() & 3) ? cls % 6 : (int)rng.below(6));
        }
        q120_add_ccc_simple(nn, (q120c*)res.data(), (const q120c*)a.data(), (const q120c*)b.data());
        head_q(out.ops, "addccc", nn, false);
        put_u32s(out.ops, a.data(), 8 * nn);
        fprintf(out.ops, " | ");
        put_u32s(out.ops, b.data(), 8 * nn);
        put_u32s(out.real, res.data(), 8 * nn);
        std::string v = "ok";
        for (uint64_t i = 0; i < 8 * nn; i++) {
          uint64_t q = QS[(i % 8) / 2];
          if (res[i] != ((uint64_t)a[i] + b[i]) % q) v = "FAIL add_ccc";
        }
        out.count("op_addccc");
        out.endcase(v);
      }
    }
    // block extract / save
    for (int t = 0; t < 6; t++) {
      uint64_t nn = 2ull << rng.below(4);  // 2..16
      uint64_t nblk = nn / 2;
      uint64_t blk = (t == 0) ? 0 : (t == 1 ? nblk - 1 : rng.below(nblk));
      uint64_t nrows = 1 + rng.below(3);
      std::vector<uint64_t> src(4 * nn * nrows);
      for (auto& v : src) v = rng.next();
      {
        std::vector<uint64_t> dst(8, 0);
        q120x2_extract_1blk_from_q120b_ref(nn, blk, (q120x2b*)dst.data(), (const q120b*)src.data());
        fprintf(out.ops, "q1 extract %" PRIu64 " %" PRIu64 " | ", nn, blk);
        put_u64s(out.ops, src.data(), 4 * nn);
        put_u64s(out.real, dst.data(), 8);
        std::string v = "ok";
        for (int i = 0; i < 8; i++)
          if (dst[i] != src[8 * blk + i]) v = "FAIL extract";
        out.count("op_extract");
        out.endcase(v);
      }
      {
        std::vector<uint64_t> dst(8 * nrows, 0);
        q120x2_extract_1blk_from_contiguous_q120b_ref(nn, nrows, blk, (q120x2b*)dst.data(), (const q120b*)src.data());
        fprintf(out.ops, "q1 extractc %" PRIu64 " %" PRIu64 " %" PRIu64 " | ", nn, nrows, blk);
        put_u64s(out.ops, src.data(), 4 * nn * nrows);
        put_u64s(out.real, dst.data(), 8 * nrows);
        std::string v = "ok";
        for (uint64_t r = 0; r < nrows; r++)
          for (int i = 0; i < 8; i++)
            if (dst[8 * r + i] != src[4 * nn * r + 8 * blk + i]) v = "FAIL extract contiguous";
        out.count("op_extractc");
        out.endcase(v);
      }
      {
        std::vector<uint64_t> dest(src.begin(), src.begin() + 4 * nn), before, blkv(8);
        for (auto& v : blkv) v = rng.next();
        before = dest;
        q120x2b_save_1blk_to_q120b_ref(nn, blk, (q120b*)dest.data(), (const q120x2b*)blkv.data());
        fprintf(out.ops, "q1 save %" PRIu64 " %" PRIu64 " | ", nn, blk);
        put_u64s(out.ops, before.data(), 4 * nn);
        fprintf(out.ops, " | ");
        put_u64s(out.ops, blkv.data(), 8);
        put_u64s(out.real, dest.data(), 4 * nn);
        std::string v = "ok";
        for (uint64_t i = 0; i < 4 * nn; i++) {
          uint64_t e = (i >= 8 * blk && i < 8 * blk + 8) ? blkv[i - 8 * blk] : before[i];
          if (dest[i] != e) v = "FAIL save";
        }
        // extract after save gives the block back
        std::vector<uint64_t> back(8, 0);
        q120x2_extract_1blk_from_q120b_ref(nn, blk, (q120x2b*)back.data(), (const q120b*)dest.data());
        if (back != blkv) v = "FAIL extract(save) != id";
        out.count("op_save");
        out.endcase(v);
      }
    }
  }
}
