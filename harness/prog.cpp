// C16: random well-typed straight-line programs over the public module API, checked against an exact
// interpreter over Z[X]/(X^N+1) with 128-bit coefficients (independent of the Lean model and of the library).
#include <cstdarg>
#include "hcommon.h"

typedef __int128 i128;
MODULE* get_module(uint64_t nn, int type, int mask);  // vz.cpp

typedef std::vector<i128> Poly;            // N coefficients
typedef std::vector<Poly> PVec;            // limbs

static Poly pzero(uint64_t n) { return Poly(n, 0); }
static Poly pmul(const Poly& a, const Poly& b) {
  uint64_t n = a.size();
  Poly r(n, 0);
  for (uint64_t i = 0; i < n; i++) {
    if (!a[i]) continue;
    for (uint64_t j = 0; j < n; j++) {
      i128 t = a[i] * b[j];
      if (i + j < n) r[i + j] += t; else r[i + j - n] -= t;
    }
  }
  return r;
}
static Poly prot(const Poly& a, int64_t p) {
  uint64_t n = a.size();
  Poly r(n);
  i128 twoN = 2 * (i128)n;
  for (uint64_t k = 0; k < n; k++) {
    i128 src = (((i128)k - p) % twoN + twoN) % twoN;
    r[k] = src < (i128)n ? a[(uint64_t)src] : -a[(uint64_t)(src - n)];
  }
  return r;
}
static Poly paut(const Poly& a, int64_t p) {
  uint64_t n = a.size();
  Poly r(n, 0);
  i128 twoN = 2 * (i128)n, pm = ((i128)p % twoN + twoN) % twoN;
  for (uint64_t i = 0; i < n; i++) {
    i128 e = ((i128)i * pm) % twoN;
    if (e < (i128)n) r[(uint64_t)e] = a[i]; else r[(uint64_t)(e - n)] = -a[i];
  }
  return r;
}
static long double pmax(const Poly& a) { long double m = 0; for (auto x : a) { long double v = fabsl((long double)x); if (v > m) m = v; } return m; }
static long double pn1(const Poly& a) { long double s = 0; for (auto x : a) s += fabsl((long double)x); return s; }
static long double pn2(const Poly& a) { long double s = 0; for (auto x : a) s += (long double)x * (long double)x; return sqrtl(s); }
// C01 error bound of one FFT64 product
static long double perr(const Poly& a, const Poly& b) {
  return 8.0L * log2l((long double)a.size()) * ldexpl(1.0L, -53) * (pn1(a) * pn2(b) + pn2(a) * pn1(b));
}
// balanced base-2^k digits of limbs (most significant first), truncated/extended to rsz limbs
static PVec pnorm(const PVec& a, uint64_t k, uint64_t rsz, uint64_t n) {
  PVec r(rsz, pzero(n));
  uint64_t asz = a.size();
  Poly carry(n, 0);
  i128 B = (i128)1 << k, H = B >> 1;
  for (uint64_t ii = asz; ii-- > 0;)
    for (uint64_t j = 0; j < n; j++) {
      i128 v = a[ii][j] + carry[j];
      i128 d = (((v + H) % B) + B) % B - H;
      carry[j] = (v - d) / B;
      if (ii < rsz) r[ii][j] = d;
    }
  return r;
}

enum Kind { KZ, KD, KB };
struct Var {
  Kind kind;
  uint64_t size, sl;       // limbs, stride (cells of int64 for Z; nn for D/B)
  std::vector<int64_t> z;  // Z: size*sl cells ; B (fft64): size*nn cells
  std::vector<double> d;   // D: size*nn doubles
  PVec val;                // exact value of each limb
};

struct Ctx {
  uint64_t n;
  MODULE* mod;
  Rng* rng;
  std::vector<Var> vars;
  std::string trace;
  std::vector<uint8_t> tmp;
};

static PVec zvals(const Var& v, uint64_t n) {
  PVec r(v.size, pzero(n));
  for (uint64_t i = 0; i < v.size; i++)
    for (uint64_t j = 0; j < n; j++) r[i][j] = v.z[i * v.sl + j];
  return r;
}
static Poly limb_or_zero(const Var& v, uint64_t i, uint64_t n) { return i < v.size ? v.val[i] : pzero(n); }

static int pick(Ctx& c, Kind k) {
  std::vector<int> ids;
  for (size_t i = 0; i < c.vars.size(); i++) if (c.vars[i].kind == k) ids.push_back((int)i);
  if (ids.empty()) return -1;
  return ids[c.rng->below(ids.size())];
}
static Var fresh(Ctx& c, Kind k, uint64_t size) {
  Var v;
  v.kind = k;
  v.size = size;
  v.sl = (k == KZ) ? c.n + c.rng->below(3) : c.n;
  if (k == KD) v.d.assign((size > 5 ? size : 5) * c.n + 1, 1e300); else v.z.assign(size * v.sl + 1, 0x7777777777777777LL);
  v.val.assign(size, pzero(c.n));
  return v;
}
static void note(Ctx& c, const char* fmt, ...) {
  char buf[200];
  va_list ap;
  va_start(ap, fmt);
  vsnprintf(buf, sizeof buf, fmt, ap);
  va_end(ap);
  c.trace += buf;
  c.trace += "; ";
}
static bool fits(const PVec& v, int bits) {
  for (auto& p : v) if (pmax(p) >= ldexpl(1.0L, bits)) return false;
  return true;
}

// one random operation; returns false if nothing applicable was generated
static bool step(Ctx& c) {
  Rng& r = *c.rng;
  const uint64_t n = c.n;
  MODULE* mod = c.mod;
  int op = (int)r.below(14);
  switch (op) {
    case 0: case 1: {  // add / sub on Z
      int a = pick(c, KZ), b = pick(c, KZ);
      if (a < 0 || b < 0) return false;
      int alias = (int)r.below(4);  // 0,1: fresh ; 2: res == a ; 3: res == b
      uint64_t rsz = 1 + r.below(4);
      Var out = fresh(c, KZ, rsz);
      Var& A = c.vars[a];
      Var& B = c.vars[b];
      PVec ex(alias == 2 ? A.size : (alias == 3 ? B.size : rsz));
      uint64_t osz = ex.size();
      for (uint64_t i = 0; i < osz; i++) {
        Poly x = limb_or_zero(A, i, n), y = limb_or_zero(B, i, n);
        ex[i] = pzero(n);
        for (uint64_t j = 0; j < n; j++) ex[i][j] = op == 0 ? x[j] + y[j] : x[j] - y[j];
      }
      if (!fits(ex, 50)) return false;
      if (alias == 2) { (op == 0 ? vec_znx_add : vec_znx_sub)(mod, A.z.data(), A.size, A.sl, A.z.data(), A.size, A.sl, B.z.data(), B.size, B.sl); A.val = ex; }
      else if (alias == 3 && a != b) { (op == 0 ? vec_znx_add : vec_znx_sub)(mod, B.z.data(), B.size, B.sl, A.z.data(), A.size, A.sl, B.z.data(), B.size, B.sl); B.val = ex; }
      else { (op == 0 ? vec_znx_add : vec_znx_sub)(mod, out.z.data(), rsz, out.sl, A.z.data(), A.size, A.sl, B.z.data(), B.size, B.sl); ex.resize(rsz, pzero(n)); out.val = ex; c.vars.push_back(out); }
      note(c, "%s z%d z%d alias=%d", op == 0 ? "add" : "sub", a, b, alias);
      return true;
    }
    case 2: case 3: {  // rotate / automorphism on Z (possibly in place)
      int a = pick(c, KZ);
      if (a < 0) return false;
      Var& A = c.vars[a];
      int64_t p = r.sbits(12);
      if (op == 3) p |= 1;
      bool inplace = r.below(2);
      uint64_t rsz = inplace ? A.size : 1 + r.below(4);
      PVec ex(rsz);
      for (uint64_t i = 0; i < rsz; i++) ex[i] = i < A.size ? (op == 2 ? prot(A.val[i], p) : paut(A.val[i], p)) : pzero(n);
      if (inplace) { (op == 2 ? vec_znx_rotate : vec_znx_automorphism)(mod, p, A.z.data(), A.size, A.sl, A.z.data(), A.size, A.sl); A.val = ex; }
      else { Var out = fresh(c, KZ, rsz); (op == 2 ? vec_znx_rotate : vec_znx_automorphism)(mod, p, out.z.data(), rsz, out.sl, A.z.data(), A.size, A.sl); out.val = ex; c.vars.push_back(out); }
      note(c, "%s z%d p=%ld inplace=%d", op == 2 ? "rotate" : "automorphism", a, (long)p, (int)inplace);
      return true;
    }
    case 4: {  // normalize Z -> Z
      int a = pick(c, KZ);
      if (a < 0) return false;
      Var& A = c.vars[a];
      uint64_t k = 4 + r.below(16), rsz = r.below(5);
      bool inplace = r.below(3) == 0 && A.size > 0;
      if (inplace) rsz = A.size;
      PVec ex = pnorm(A.val, k, rsz, n);
      c.tmp.assign(vec_znx_normalize_base2k_tmp_bytes(mod) + 8, 0xCD);
      if (inplace) { vec_znx_normalize_base2k(mod, k, A.z.data(), A.size, A.sl, A.z.data(), A.size, A.sl, c.tmp.data()); A.val = ex; }
      else { Var out = fresh(c, KZ, rsz); vec_znx_normalize_base2k(mod, k, out.z.data(), rsz, out.sl, A.z.data(), A.size, A.sl, c.tmp.data()); out.val = ex; c.vars.push_back(out); }
      note(c, "normalize z%d k=%lu rsz=%lu inplace=%d", a, (unsigned long)k, (unsigned long)rsz, (int)inplace);
      return true;
    }
    case 5: {  // dft Z -> D
      int a = pick(c, KZ);
      if (a < 0) return false;
      Var& A = c.vars[a];
      if (!fits(A.val, 49)) return false;
      uint64_t rsz = 1 + r.below(4);
      Var out = fresh(c, KD, rsz);
      vec_znx_dft(mod, (VEC_ZNX_DFT*)out.d.data(), rsz, A.z.data(), A.size, A.sl);
      for (uint64_t i = 0; i < rsz; i++) out.val[i] = limb_or_zero(A, i, n);
      c.vars.push_back(out);
      note(c, "dft z%d rsz=%lu", a, (unsigned long)rsz);
      return true;
    }
    case 6: {  // svp: prepare(limb 0 of s) then apply to a
      int s = pick(c, KZ), a = pick(c, KZ);
      if (s < 0 || a < 0 || c.vars[s].size == 0) return false;
      Var& S = c.vars[s];
      Var& A = c.vars[a];
      uint64_t rsz = 1 + r.below(4);
      long double err = 0;
      PVec ex(rsz);
      for (uint64_t i = 0; i < rsz; i++) {
        ex[i] = i < A.size ? pmul(S.val[0], A.val[i]) : pzero(n);
        if (i < A.size) err = fmaxl(err, perr(S.val[0], A.val[i]));
      }
      if (err >= 0.25L || !fits(ex, 49) || !fits(S.val, 49) || !fits(A.val, 49)) return false;
      std::vector<double> ppol(n + 1);
      svp_prepare(mod, (SVP_PPOL*)ppol.data(), S.z.data());
      Var out = fresh(c, KD, rsz);
      svp_apply_dft(mod, (VEC_ZNX_DFT*)out.d.data(), rsz, (SVP_PPOL*)ppol.data(), A.z.data(), A.size, A.sl);
      out.val = ex;
      c.vars.push_back(out);
      note(c, "svp z%d*z%d rsz=%lu", s, a, (unsigned long)rsz);
      return true;
    }
    case 7: case 8: {  // vmp: matrix from fresh small entries; apply to Z (7) or to D (8)
      uint64_t nrows = 1 + r.below(4), ncols = 1 + r.below(5), rsz = 1 + r.below(5);
      int a = pick(c, op == 7 ? KZ : KD);
      if (a < 0) return false;
      Var& A = c.vars[a];
      std::vector<int64_t> mat(nrows * ncols * n);
      for (auto& x : mat) x = r.sbits(6);
      uint64_t rows = nrows < A.size ? nrows : A.size;
      PVec ex(rsz, pzero(n));
      long double err = 0;
      for (uint64_t j = 0; j < rsz && j < ncols; j++)
        for (uint64_t i = 0; i < rows; i++) {
          Poly m(n);
          for (uint64_t k = 0; k < n; k++) m[k] = mat[(i * ncols + j) * n + k];
          Poly t = pmul(A.val[i], m);
          err += perr(A.val[i], m);
          for (uint64_t k = 0; k < n; k++) ex[j][k] += t[k];
        }
      if (err >= 0.25L || !fits(ex, 49) || !fits(A.val, 46)) return false;
      std::vector<double> pmat(nrows * ncols * n + 1);
      c.tmp.assign(vmp_prepare_contiguous_tmp_bytes(mod, nrows, ncols) + 8, 0xEE);
      vmp_prepare_contiguous(mod, (VMP_PMAT*)pmat.data(), mat.data(), nrows, ncols, c.tmp.data());
      Var out = fresh(c, KD, rsz);
      if (op == 7) {
        c.tmp.assign(vmp_apply_dft_tmp_bytes(mod, rsz, A.size, nrows, ncols) + 8, 0xEE);
        vmp_apply_dft(mod, (VEC_ZNX_DFT*)out.d.data(), rsz, A.z.data(), A.size, A.sl, (VMP_PMAT*)pmat.data(), nrows, ncols, c.tmp.data());
      } else {
        c.tmp.assign(vmp_apply_dft_to_dft_tmp_bytes(mod, rsz, A.size, nrows, ncols) + 8, 0xEE);
        vmp_apply_dft_to_dft(mod, (VEC_ZNX_DFT*)out.d.data(), rsz, (VEC_ZNX_DFT*)A.d.data(), A.size, (VMP_PMAT*)pmat.data(), nrows, ncols, c.tmp.data());
      }
      out.val = ex;
      c.vars.push_back(out);
      note(c, "vmp%s v%d %lux%lu rsz=%lu", op == 7 ? "" : "_dft_to_dft", a, (unsigned long)nrows, (unsigned long)ncols, (unsigned long)rsz);
      return true;
    }
    case 9: {  // idft D -> B  (separate / tmp_a which destroys the source)
      int a = pick(c, KD);
      if (a < 0) return false;
      Var& A = c.vars[a];
      uint64_t rsz = 1 + r.below(4);
      Var out = fresh(c, KB, rsz);
      int mode = (int)r.below(3);  // 0 separate, 1 tmp_a (destroys the source), 2 in place (res is the DFT buffer itself)
      bool tmpa = mode != 0;
      c.tmp.assign(vec_znx_idft_tmp_bytes(mod) + 8, 0xAB);
      if (mode == 1) vec_znx_idft_tmp_a(mod, (VEC_ZNX_BIG*)out.z.data(), rsz, (VEC_ZNX_DFT*)A.d.data(), A.size);
      else if (mode == 2) {
        // the buffer has room for 5 limbs; limbs beyond A.size hold stale data
        for (uint64_t i = A.size * n; i < 5 * n; i++) A.d[i] = 12345.678 + (double)i;
        vec_znx_idft(mod, (VEC_ZNX_BIG*)A.d.data(), rsz, (VEC_ZNX_DFT*)A.d.data(), A.size, c.tmp.data());
        memcpy(out.z.data(), A.d.data(), rsz * n * 8);
      } else vec_znx_idft(mod, (VEC_ZNX_BIG*)out.z.data(), rsz, (VEC_ZNX_DFT*)A.d.data(), A.size, c.tmp.data());
      for (uint64_t i = 0; i < rsz; i++) out.val[i] = limb_or_zero(A, i, n);
      if (tmpa) c.vars.erase(c.vars.begin() + a);  // the DFT variable is dead
      c.vars.push_back(out);
      note(c, "idft%s d%d rsz=%lu", mode == 1 ? "_tmp_a" : (mode == 2 ? "_inplace" : ""), a, (unsigned long)rsz);
      return true;
    }
    case 10: case 11: {  // big add/sub (big,big) or (big,small)
      int a = pick(c, KB);
      bool small = r.below(2);
      int b = pick(c, small ? KZ : KB);
      if (a < 0 || b < 0) return false;
      Var& A = c.vars[a];
      Var& B = c.vars[b];
      uint64_t rsz = 1 + r.below(4);
      PVec ex(rsz);
      for (uint64_t i = 0; i < rsz; i++) {
        Poly x = limb_or_zero(A, i, n), y = limb_or_zero(B, i, n);
        ex[i] = pzero(n);
        for (uint64_t j = 0; j < n; j++) ex[i][j] = op == 10 ? x[j] + y[j] : x[j] - y[j];
      }
      if (!fits(ex, 50)) return false;
      Var out = fresh(c, KB, rsz);
      if (small) {
        if (op == 10) vec_znx_big_add_small(mod, (VEC_ZNX_BIG*)out.z.data(), rsz, (VEC_ZNX_BIG*)A.z.data(), A.size, B.z.data(), B.size, B.sl);
        else vec_znx_big_sub_small_b(mod, (VEC_ZNX_BIG*)out.z.data(), rsz, (VEC_ZNX_BIG*)A.z.data(), A.size, B.z.data(), B.size, B.sl);
      } else {
        if (op == 10) vec_znx_big_add(mod, (VEC_ZNX_BIG*)out.z.data(), rsz, (VEC_ZNX_BIG*)A.z.data(), A.size, (VEC_ZNX_BIG*)B.z.data(), B.size);
        else vec_znx_big_sub(mod, (VEC_ZNX_BIG*)out.z.data(), rsz, (VEC_ZNX_BIG*)A.z.data(), A.size, (VEC_ZNX_BIG*)B.z.data(), B.size);
      }
      out.val = ex;
      c.vars.push_back(out);
      note(c, "big_%s%s b%d v%d", op == 10 ? "add" : "sub", small ? "_small" : "", a, b);
      return true;
    }
    case 12: {  // big rotate / automorphism (possibly in place)
      int a = pick(c, KB);
      if (a < 0) return false;
      Var& A = c.vars[a];
      bool aut = r.below(2), inplace = r.below(2);
      int64_t p = r.sbits(12);
      if (aut) p |= 1;
      uint64_t rsz = inplace ? A.size : 1 + r.below(4);
      PVec ex(rsz);
      for (uint64_t i = 0; i < rsz; i++) ex[i] = i < A.size ? (aut ? paut(A.val[i], p) : prot(A.val[i], p)) : pzero(n);
      if (inplace) { (aut ? vec_znx_big_automorphism : vec_znx_big_rotate)(mod, p, (VEC_ZNX_BIG*)A.z.data(), A.size, (VEC_ZNX_BIG*)A.z.data(), A.size); A.val = ex; }
      else { Var out = fresh(c, KB, rsz); (aut ? vec_znx_big_automorphism : vec_znx_big_rotate)(mod, p, (VEC_ZNX_BIG*)out.z.data(), rsz, (VEC_ZNX_BIG*)A.z.data(), A.size); out.val = ex; c.vars.push_back(out); }
      note(c, "big_%s b%d p=%ld inplace=%d", aut ? "automorphism" : "rotate", a, (long)p, (int)inplace);
      return true;
    }
    default: {  // big normalize / range normalize -> Z
      int a = pick(c, KB);
      if (a < 0) return false;
      Var& A = c.vars[a];
      uint64_t k = 6 + r.below(14), rsz = r.below(5);
      Var out = fresh(c, KZ, rsz);
      c.tmp.assign(vec_znx_big_normalize_base2k_tmp_bytes(mod) + 8, 0x11);
      if (r.below(2) || A.size == 0) {
        vec_znx_big_normalize_base2k(mod, k, out.z.data(), rsz, out.sl, (VEC_ZNX_BIG*)A.z.data(), A.size, c.tmp.data());
        out.val = pnorm(A.val, k, rsz, n);
        note(c, "big_normalize b%d k=%lu rsz=%lu", a, (unsigned long)k, (unsigned long)rsz);
      } else {
        uint64_t begin = r.below(A.size), stp = 1 + r.below(2), end = begin + r.below(A.size - begin + 1);
        PVec sel;
        for (uint64_t i = begin; i < end; i += stp) sel.push_back(A.val[i]);
        vec_znx_big_range_normalize_base2k(mod, k, out.z.data(), rsz, out.sl, (VEC_ZNX_BIG*)A.z.data(), begin, end, stp, c.tmp.data());
        out.val = pnorm(sel, k, rsz, n);
        note(c, "big_range_normalize b%d [%lu,%lu,%lu) k=%lu rsz=%lu", a, (unsigned long)begin, (unsigned long)end, (unsigned long)stp, (unsigned long)k, (unsigned long)rsz);
      }
      c.vars.push_back(out);
      return true;
    }
  }
}

static std::string verify(Ctx& c) {
  const uint64_t n = c.n;
  for (size_t v = 0; v < c.vars.size(); v++) {
    Var& V = c.vars[v];
    if (V.kind == KD) {
      // opaque object: checked through a non-destructive inverse transform of a copy
      std::vector<double> cp(V.d);
      std::vector<int64_t> big(V.size * n + 1);
      vec_znx_idft_tmp_a(c.mod, (VEC_ZNX_BIG*)big.data(), V.size, (VEC_ZNX_DFT*)cp.data(), V.size);
      for (uint64_t i = 0; i < V.size; i++)
        for (uint64_t j = 0; j < n; j++)
          if ((i128)big[i * n + j] != V.val[i][j]) {
            char buf[200];
            snprintf(buf, sizeof buf, "FAIL C16 DFT-space variable %zu limb %lu coeff %lu: inverse transform gives %ld expected %ld; program: ", v,
                     (unsigned long)i, (unsigned long)j, (long)big[i * n + j], (long)V.val[i][j]);
            return std::string(buf) + c.trace;
          }
      continue;
    }
    for (uint64_t i = 0; i < V.size; i++)
      for (uint64_t j = 0; j < n; j++)
        if ((i128)V.z[i * V.sl + j] != V.val[i][j]) {
          char buf[160];
          snprintf(buf, sizeof buf, "FAIL C16 variable %zu (%s) limb %lu coeff %lu: got %ld expected %ld; program: ", v, V.kind == KZ ? "znx" : "big",
                   (unsigned long)i, (unsigned long)j, (long)V.z[i * V.sl + j], (long)V.val[i][j]);
          return std::string(buf) + c.trace;
        }
  }
  return "ok";
}

STREAM(md_prog) {
  int nprog = thorough ? 600 : 120;
  int maxlen = thorough ? 40 : 20;
  for (int pi = 0; pi < nprog; pi++) {
    Ctx c;
    c.rng = &rng;
    int lg = 1 + (int)rng.below(thorough ? 9 : 7);
    c.n = (uint64_t)1 << lg;
    c.mod = get_module(c.n, 0, (int)rng.below(2));
    // initial inputs: a few small integer vectors
    int nin = 2 + (int)rng.below(3);
    for (int i = 0; i < nin; i++) {
      Var v = fresh(c, KZ, 1 + rng.below(3));
      int bits = 3 + (int)rng.below(10);
      for (uint64_t l = 0; l < v.size; l++)
        for (uint64_t j = 0; j < c.n; j++) v.z[l * v.sl + j] = rng.sbits(bits);
      v.val = zvals(v, c.n);
      c.vars.push_back(v);
    }
    int len = 4 + (int)rng.below(maxlen - 3), done = 0, tries = 0;
    while (done < len && tries < 20 * len) {
      tries++;
      if (step(c)) {
        done++;
        // check after every operation, so that the first wrong step is reported
        std::string v = verify(c);
        if (v != "ok") { fprintf(out.ops, "ca nop md_prog n=%lu program: %s", (unsigned long)c.n, c.trace.c_str()); fprintf(out.real, "nop"); out.endcase(v); goto next; }
      }
    }
    fprintf(out.ops, "ca nop md_prog n=%lu program: %s", (unsigned long)c.n, c.trace.c_str());
    fprintf(out.real, "nop");
    out.endcase("ok");
    out.count("ops", done);
  next:
    out.count("programs");
  }
}
