// C16: random well-typed straight-line programs over the public module API, checked against an exact
// interpreter over Z[X]/(X^N+1) with 128-bit coefficients (independent of the Lean model and of the library);
// plus programs of the Lean program language `Spq.Prog.OpD` that are ALSO run by the model driver (family `pg`).
#include <cstdarg>
#include "hcommon.h"

typedef __int128 i128;
MODULE* get_module(uint64_t nn, int type, int mask);  // vz.cpp

typedef std::vector<i128> Poly;            // N coefficients
typedef std::vector<Poly> PVec;            // limbs

static Poly pzero(uint64_t n) { return Poly(n, 0); }
static Poly pmul(const Poly& a, const Poly& b) {
  uint64_t n = a.size();
  Poly r(n, 0);
  for (uint64_t i = 0; i < n; i++) {
    if (!a[i]) continue;
    for (uint64_t j = 0; j < n; j++) {
      i128 t = a[i] * b[j];
      if (i + j < n) r[i + j] += t; else r[i + j - n] -= t;
    }
  }
  return r;
}
static Poly prot(const Poly& a, int64_t p) {
  uint64_t n = a.size();
  Poly r(n);
  i128 twoN = 2 * (i128)n;
  for (uint64_t k = 0; k < n; k++) {
    i128 src = (((i128)k - p) % twoN + twoN) % twoN;
    r[k] = src < (i128)n ? a[(uint64_t)src] : -a[(uint64_t)(src - n)];
  }
  return r;
}
static Poly paut(const Poly& a, int64_t p) {
  uint64_t n = a.size();
  Poly r(n, 0);
  i128 twoN = 2 * (i128)n, pm = ((i128)p % twoN + twoN) % twoN;
  for (uint64_t i = 0; i < n; i++) {
    i128 e = ((i128)i * pm) % twoN;
    if (e < (i128)n) r[(uint64_t)e] = a[i]; else r[(uint64_t)(e - n)] = -a[i];
  }
  return r;
}
static long double pmax(const Poly& a) { long double m = 0; for (auto x : a) { long double v = fabsl((long double)x); if (v > m) m = v; } return m; }
static long double pn1(const Poly& a) { long double s = 0; for (auto x : a) s += fabsl((long double)x); return s; }
static long double pn2(const Poly& a) { long double s = 0; for (auto x : a) s += (long double)x * (long double)x; return sqrtl(s); }
// C01 error bound of one FFT64 product
static long double perr(const Poly& a, const Poly& b) {
  return 8.0L * log2l((long double)a.size()) * ldexpl(1.0L, -53) * (pn1(a) * pn2(b) + pn2(a) * pn1(b));
}
// balanced base-2^k digits of limbs (most significant first), truncated/extended to rsz limbs
static PVec pnorm(const PVec& a, uint64_t k, uint64_t rsz, uint64_t n) {
  PVec r(rsz, pzero(n));
  uint64_t asz = a.size();
  Poly carry(n, 0);
  i128 B = (i128)1 << k, H = B >> 1;
  for (uint64_t ii = asz; ii-- > 0;)
    for (uint64_t j = 0; j < n; j++) {
      i128 v = a[ii][j] + carry[j];
      i128 d = (((v + H) % B) + B) % B - H;
      carry[j] = (v - d) / B;
      if (ii < rsz) r[ii][j] = d;
    }
  return r;
}

enum Kind { KZ, KD, KB };
struct Var {
  Kind kind;
  uint64_t size, sl;       // limbs, stride (cells of int64 for Z; nn for D/B)
  std::vector<int64_t> z;  // Z: size*sl cells ; B (fft64): size*nn cells
  std::vector<double> d;   // D: size*nn doubles
  PVec val;                // exact value of each limb
};

struct Ctx {
  uint64_t n;
  MODULE* mod;
  Rng* rng;
  std::vector<Var> vars;
  std::string trace;
  std::vector<uint8_t> tmp;
};

static PVec zvals(const Var& v, uint64_t n) {
  PVec r(v.size, pzero(n));
  for (uint64_t i = 0; i < v.size; i++)
    for (uint64_t j = 0; j < n; j++) r[i][j] = v.z[i * v.sl + j];
  return r;
}
static Poly limb_or_zero(const Var& v, uint64_t i, uint64_t n) { return i < v.size ? v.val[i] : pzero(n); }

static int pick(Ctx& c, Kind k) {
  std::vector<int> ids;
  for (size_t i = 0; i < c.vars.size(); i++) if (c.vars[i].kind == k) ids.push_back((int)i);
  if (ids.empty()) return -1;
  return ids[c.rng->below(ids.size())];
}
static Var fresh(Ctx& c, Kind k, uint64_t size) {
  Var v;
  v.kind = k;
  v.size = size;
  v.sl = (k == KZ) ? c.n + c.rng->below(3) : c.n;
  if (k == KD) v.d.assign((size > 5 ? size : 5) * c.n + 1, 1e300); else v.z.assign(size * v.sl + 1, 0x7777777777777777LL);
  v.val.assign(size, pzero(c.n));
  return v;
}
static void note(Ctx& c, const char* fmt, ...) {
  char buf[200];
  va_list ap;
  va_start(ap, fmt);
  vsnprintf(buf, sizeof buf, fmt, ap);
  va_end(ap);
  c.trace += buf;
  c.trace += "; ";
}
static bool fits(const PVec& v, int bits) {
  for (auto& p : v) if (pmax(p) >= ldexpl(1.0L, bits)) return false;
  return true;
}

// one random operation; returns false if nothing applicable was generated
static bool step(Ctx& c) {
  Rng& r = *c.rng;
  const uint64_t n = c.n;
  MODULE* mod = c.mod;
  int op = (int)r.below(14);
  switch (op) {
    case 0: case 1: {  // add / sub on Z
      int a = pick(c, KZ), b = pick(c, KZ);
      if (a < 0 || b < 0) return false;
      int alias = (int)r.below(4);  // 0,1: fresh ; 2: res == a ; 3: res == b
      uint64_t rsz = 1 + r.below(4);
      Var out = fresh(c, KZ, rsz);
      Var& A = c.vars[a];
      Var& B = c.vars[b];
      PVec ex(alias == 2 ? A.size : (alias == 3 ? B.size : rsz));
      uint64_t osz = ex.size();
      for (uint64_t i = 0; i < osz; i++) {
        Poly x = limb_or_zero(A, i, n), y = limb_or_zero(B, i, n);
        ex[i] = pzero(n);
        for (uint64_t j = 0; j < n; j++) ex[i][j] = op == 0 ? x[j] + y[j] : x[j] - y[j];
      }
      if (!fits(ex, 50)) return false;
      if (alias == 2) { (op == 0 ? vec_znx_add : vec_znx_sub)(mod, A.z.data(), A.size, A.sl, A.z.data(), A.size, A.sl, B.z.data(), B.size, B.sl); A.val = ex; }
      else if (alias == 3 && a != b) { (op == 0 ? vec_znx_add : vec_znx_sub)(mod, B.z.data(), B.size, B.sl, A.z.data(), A.size, A.sl, B.z.data(), B.size, B.sl); B.val = ex; }
      else { (op == 0 ? vec_znx_add : vec_znx_sub)(mod, out.z.data(), rsz, out.sl, A.z.data(), A.size, A.sl, B.z.data(), B.size, B.sl); ex.resize(rsz, pzero(n)); out.val = ex; c.vars.push_back(out); }
      note(c, "%s z%d z%d alias=%d", op == 0 ? "add" : "sub", a, b, alias);
      return true;
    }
    case 2: case 3: {  // rotate / automorphism on Z (possibly in place)
      int a = pick(c, KZ);
      if (a < 0) return false;
      Var& A = c.vars[a];
      int64_t p = r.sbits(12);
      if (op == 3) p |= 1;
      bool inplace = r.below(2);
      uint64_t rsz = inplace ? A.size : 1 + r.below(4);
      PVec ex(rsz);
      for (uint64_t i = 0; i < rsz; i++) ex[i] = i < A.size ? (op == 2 ? prot(A.val[i], p) : paut(A.val[i], p)) : pzero(n);
      if (inplace) { (op == 2 ? vec_znx_rotate : vec_znx_automorphism)(mod, p, A.z.data(), A.size, A.sl, A.z.data(), A.size, A.sl); A.val = ex; }
      else { Var out = fresh(c, KZ, rsz); (op == 2 ? vec_znx_rotate : vec_znx_automorphism)(mod, p, out.z.data(), rsz, out.sl, A.z.data(), A.size, A.sl); out.val = ex; c.vars.push_back(out); }
      note(c, "%s z%d p=%ld inplace=%d", op == 2 ? "rotate" : "automorphism", a, (long)p, (int)inplace);
      return true;
    }
    case 4: {  // normalize Z -> Z
      int a = pick(c, KZ);
      if (a < 0) return false;
      Var& A = c.vars[a];
      uint64_t k = 4 + r.below(16), rsz = r.below(5);
      bool inplace = r.below(3) == 0 && A.size > 0;
      if (inplace) rsz = A.size;
      PVec ex = pnorm(A.val, k, rsz, n);
      c.tmp.assign(vec_znx_normalize_base2k_tmp_bytes(mod) + 8, 0xCD);
      if (inplace) { vec_znx_normalize_base2k(mod, k, A.z.data(), A.size, A.sl, A.z.data(), A.size, A.sl, c.tmp.data()); A.val = ex; }
      else { Var out = fresh(c, KZ, rsz); vec_znx_normalize_base2k(mod, k, out.z.data(), rsz, out.sl, A.z.data(), A.size, A.sl, c.tmp.data()); out.val = ex; c.vars.push_back(out); }
      note(c, "normalize z%d k=%lu rsz=%lu inplace=%d", a, (unsigned long)k, (unsigned long)rsz, (int)inplace);
      return true;
    }
    case 5: {  // dft Z -> D
      int a = pick(c, KZ);
      if (a < 0) return false;
      Var& A = c.vars[a];
      if (!fits(A.val, 49)) return false;
      uint64_t rsz = 1 + r.below(4);
      Var out = fresh(c, KD, rsz);
      vec_znx_dft(mod, (VEC_ZNX_DFT*)out.d.data(), rsz, A.z.data(), A.size, A.sl);
      for (uint64_t i = 0; i < rsz; i++) out.val[i] = limb_or_zero(A, i, n);
      c.vars.push_back(out);
      note(c, "dft z%d rsz=%lu", a, (unsigned long)rsz);
      return true;
    }
    case 6: {  // svp: prepare(limb 0 of s) then apply to a
      int s = pick(c, KZ), a = pick(c, KZ);
      if (s < 0 || a < 0 || c.vars[s].size == 0) return false;
      Var& S = c.vars[s];
      Var& A = c.vars[a];
      uint64_t rsz = 1 + r.below(4);
      long double err = 0;
      PVec ex(rsz);
      for (uint64_t i = 0; i < rsz; i++) {
        ex[i] = i < A.size ? pmul(S.val[0], A.val[i]) : pzero(n);
        if (i < A.size) err = fmaxl(err, perr(S.val[0], A.val[i]));
      }
      if (err >= 0.25L || !fits(ex, 49) || !fits(S.val, 49) || !fits(A.val, 49)) return false;
      std::vector<double> ppol(n + 1);
      svp_prepare(mod, (SVP_PPOL*)ppol.data(), S.z.data());
      Var out = fresh(c, KD, rsz);
      svp_apply_dft(mod, (VEC_ZNX_DFT*)out.d.data(), rsz, (SVP_PPOL*)ppol.data(), A.z.data(), A.size, A.sl);
      out.val = ex;
      c.vars.push_back(out);
      note(c, "svp z%d*z%d rsz=%lu", s, a, (unsigned long)rsz);
      return true;
    }
    case 7: case 8: {  // vmp: matrix from fresh small entries; apply to Z (7) or to D (8)
      uint64_t nrows = 1 + r.below(4), ncols = 1 + r.below(5), rsz = 1 + r.below(5);
      int a = pick(c, op == 7 ? KZ : KD);
      if (a < 0) return false;
      Var& A = c.vars[a];
      std::vector<int64_t> mat(nrows * ncols * n);
      for (auto& x : mat) x = r.sbits(6);
      uint64_t rows = nrows < A.size ? nrows : A.size;
      PVec ex(rsz, pzero(n));
      long double err = 0;
      for (uint64_t j = 0; j < rsz && j < ncols; j++)
        for (uint64_t i = 0; i < rows; i++) {
          Poly m(n);
          for (uint64_t k = 0; k < n; k++) m[k] = mat[(i * ncols + j) * n + k];
          Poly t = pmul(A.val[i], m);
          err += perr(A.val[i], m);
          for (uint64_t k = 0; k < n; k++) ex[j][k] += t[k];
        }
      if (err >= 0.25L || !fits(ex, 49) || !fits(A.val, 46)) return false;
      std::vector<double> pmat(nrows * ncols * n + 1);
      c.tmp.assign(vmp_prepare_contiguous_tmp_bytes(mod, nrows, ncols) + 8, 0xEE);
      vmp_prepare_contiguous(mod, (VMP_PMAT*)pmat.data(), mat.data(), nrows, ncols, c.tmp.data());
      Var out = fresh(c, KD, rsz);
      if (op == 7) {
        c.tmp.assign(vmp_apply_dft_tmp_bytes(mod, rsz, A.size, nrows, ncols) + 8, 0xEE);
        vmp_apply_dft(mod, (VEC_ZNX_DFT*)out.d.data(), rsz, A.z.data(), A.size, A.sl, (VMP_PMAT*)pmat.data(), nrows, ncols, c.tmp.data());
      } else {
        c.tmp.assign(vmp_apply_dft_to_dft_tmp_bytes(mod, rsz, A.size, nrows, ncols) + 8, 0xEE);
        vmp_apply_dft_to_dft(mod, (VEC_ZNX_DFT*)out.d.data(), rsz, (VEC_ZNX_DFT*)A.d.data(), A.size, (VMP_PMAT*)pmat.data(), nrows, ncols, c.tmp.data());
      }
      out.val = ex;
      c.vars.push_back(out);
      note(c, "vmp%s v%d %lux%lu rsz=%lu", op == 7 ? "" : "_dft_to_dft", a, (unsigned long)nrows, (unsigned long)ncols, (unsigned long)rsz);
      return true;
    }
    case 9: {  // idft D -> B  (separate / tmp_a which destroys the source)
      int a = pick(c, KD);
      if (a < 0) return false;
      Var& A = c.vars[a];
      uint64_t rsz = 1 + r.below(4);
      Var out = fresh(c, KB, rsz);
      int mode = (int)r.below(3);  // 0 separate, 1 tmp_a (destroys the source), 2 in place (res is the DFT buffer itself)
      bool tmpa = mode != 0;
      c.tmp.assign(vec_znx_idft_tmp_bytes(mod) + 8, 0xAB);
      if (mode == 1) vec_znx_idft_tmp_a(mod, (VEC_ZNX_BIG*)out.z.data(), rsz, (VEC_ZNX_DFT*)A.d.data(), A.size);
      else if (mode == 2) {
        // the buffer has room for 5 limbs; limbs beyond A.size hold stale data
        for (uint64_t i = A.size * n; i < 5 * n; i++) A.d[i] = 12345.678 + (double)i;
        vec_znx_idft(mod, (VEC_ZNX_BIG*)A.d.data(), rsz, (VEC_ZNX_DFT*)A.d.data(), A.size, c.tmp.data());
        memcpy(out.z.data(), A.d.data(), rsz * n * 8);
      } else vec_znx_idft(mod, (VEC_ZNX_BIG*)out.z.data(), rsz, (VEC_ZNX_DFT*)A.d.data(), A.size, c.tmp.data());
      for (uint64_t i = 0; i < rsz; i++) out.val[i] = limb_or_zero(A, i, n);
      if (tmpa) c.vars.erase(c.vars.begin() + a);  // the DFT variable is dead
      c.vars.push_back(out);
      note(c, "idft%s d%d rsz=%lu", mode == 1 ? "_tmp_a" : (mode == 2 ? "_inplace" : ""), a, (unsigned long)rsz);
      return true;
    }
    case 10: case 11: {  // big add/sub (big,big) or (big,small)
      int a = pick(c, KB);
      bool small = r.below(2);
      int b = pick(c, small ? KZ : KB);
      if (a < 0 || b < 0) return false;
      Var& A = c.vars[a];
      Var& B = c.vars[b];
      uint64_t rsz = 1 + r.below(4);
      PVec ex(rsz);
      for (uint64_t i = 0; i < rsz; i++) {
        Poly x = limb_or_zero(A, i, n), y = limb_or_zero(B, i, n);
        ex[i] = pzero(n);
        for (uint64_t j = 0; j < n; j++) ex[i][j] = op == 10 ? x[j] + y[j] : x[j] - y[j];
      }
      if (!fits(ex, 50)) return false;
      Var out = fresh(c, KB, rsz);
      if (small) {
        if (op == 10) vec_znx_big_add_small(mod, (VEC_ZNX_BIG*)out.z.data(), rsz, (VEC_ZNX_BIG*)A.z.data(), A.size, B.z.data(), B.size, B.sl);
        else vec_znx_big_sub_small_b(mod, (VEC_ZNX_BIG*)out.z.data(), rsz, (VEC_ZNX_BIG*)A.z.data(), A.size, B.z.data(), B.size, B.sl);
      } else {
        if (op == 10) vec_znx_big_add(mod, (VEC_ZNX_BIG*)out.z.data(), rsz, (VEC_ZNX_BIG*)A.z.data(), A.size, (VEC_ZNX_BIG*)B.z.data(), B.size);
        else vec_znx_big_sub(mod, (VEC_ZNX_BIG*)out.z.data(), rsz, (VEC_ZNX_BIG*)A.z.data(), A.size, (VEC_ZNX_BIG*)B.z.data(), B.size);
      }
      out.val = ex;
      c.vars.push_back(out);
      note(c, "big_%s%s b%d v%d", op == 10 ? "add" : "sub", small ? "_small" : "", a, b);
      return true;
    }
    case 12: {  // big rotate / automorphism (possibly in place)
      int a = pick(c, KB);
      if (a < 0) return false;
      Var& A = c.vars[a];
      bool aut = r.below(2), inplace = r.below(2);
      int64_t p = r.sbits(12);
      if (aut) p |= 1;
      uint64_t rsz = inplace ? A.size : 1 + r.below(4);
      PVec ex(rsz);
      for (uint64_t i = 0; i < rsz; i++) ex[i] = i < A.size ? (aut ? paut(A.val[i], p) : prot(A.val[i], p)) : pzero(n);
      if (inplace) { (aut ? vec_znx_big_automorphism : vec_znx_big_rotate)(mod, p, (VEC_ZNX_BIG*)A.z.data(), A.size, (VEC_ZNX_BIG*)A.z.data(), A.size); A.val = ex; }
      else { Var out = fresh(c, KB, rsz); (aut ? vec_znx_big_automorphism : vec_znx_big_rotate)(mod, p, (VEC_ZNX_BIG*)out.z.data(), rsz, (VEC_ZNX_BIG*)A.z.data(), A.size); out.val = ex; c.vars.push_back(out); }
      note(c, "big_%s b%d p=%ld inplace=%d", aut ? "automorphism" : "rotate", a, (long)p, (int)inplace);
      return true;
    }
    default: {  // big normalize / range normalize -> Z
      int a = pick(c, KB);
      if (a < 0) return false;
      Var& A = c.vars[a];
      uint64_t k = 6 + r.below(14), rsz = r.below(5);
      Var out = fresh(c, KZ, rsz);
      c.tmp.assign(vec_znx_big_normalize_base2k_tmp_bytes(mod) + 8, 0x11);
      if (r.below(2) || A.size == 0) {
        vec_znx_big_normalize_base2k(mod, k, out.z.data(), rsz, out.sl, (VEC_ZNX_BIG*)A.z.data(), A.size, c.tmp.data());
        out.val = pnorm(A.val, k, rsz, n);
        note(c, "big_normalize b%d k=%lu rsz=%lu", a, (unsigned long)k, (unsigned long)rsz);
      } else {
        uint64_t begin = r.below(A.size), stp = 1 + r.below(2), end = begin + r.below(A.size - begin + 1);
        PVec sel;
        for (uint64_t i = begin; i < end; i += stp) sel.push_back(A.val[i]);
        vec_znx_big_range_normalize_base2k(mod, k, out.z.data(), rsz, out.sl, (VEC_ZNX_BIG*)A.z.data(), begin, end, stp, c.tmp.data());
        out.val = pnorm(sel, k, rsz, n);
        note(c, "big_range_normalize b%d [%lu,%lu,%lu) k=%lu rsz=%lu", a, (unsigned long)begin, (unsigned long)end, (unsigned long)stp, (unsigned long)k, (unsigned long)rsz);
      }
      c.vars.push_back(out);
      return true;
    }
  }
}

static std::string verify(Ctx& c) {
  const uint64_t n = c.n;
  for (size_t v = 0; v < c.vars.size(); v++) {
    Var& V = c.vars[v];
    if (V.kind == KD) {
      // opaque object: checked through a non-destructive inverse transform of a copy
      std::vector<double> cp(V.d);
      std::vector<int64_t> big(V.size * n + 1);
      vec_znx_idft_tmp_a(c.mod, (VEC_ZNX_BIG*)big.data(), V.size, (VEC_ZNX_DFT*)cp.data(), V.size);
      for (uint64_t i = 0; i < V.size; i++)
        for (uint64_t j = 0; j < n; j++)
          if ((i128)big[i * n + j] != V.val[i][j]) {
            char buf[200];
            snprintf(buf, sizeof buf, "FAIL C16 DFT-space variable %zu limb %lu coeff %lu: inverse transform gives %ld expected %ld; program: ", v,
                     (unsigned long)i, (unsigned long)j, (long)big[i * n + j], (long)V.val[i][j]);
            return std::string(buf) + c.trace;
          }
      continue;
    }
    for (uint64_t i = 0; i < V.size; i++)
      for (uint64_t j = 0; j < n; j++)
        if ((i128)V.z[i * V.sl + j] != V.val[i][j]) {
          char buf[160];
          snprintf(buf, sizeof buf, "FAIL C16 variable %zu (%s) limb %lu coeff %lu: got %ld expected %ld; program: ", v, V.kind == KZ ? "znx" : "big",
                   (unsigned long)i, (unsigned long)j, (long)V.z[i * V.sl + j], (long)V.val[i][j]);
          return std::string(buf) + c.trace;
        }
  }
  return "ok";
}

// ------------------------------------------------------------------------------------------------------
// Model-tied programs: programs of the language `Spq.Prog.OpD` (one int64 heap with variables (off, size, stride),
// VEC_ZNX_DFT / SVP_PPOL / VMP_PMAT objects by id) are run on the real library AND sent to the Lean driver (family
// `pg`), which runs `Prog.cstepD` with the binary64 module `Cfg.parts`; compared: the final heap (every cell, padding
// included) and every written VEC_ZNX_DFT object, bit for bit.  The verdict is the exact 128-bit interpreter's.
extern "C" {
#include "spqlios/reim/reim_fft.h"
#include "spqlios/reim/reim_fft_internal.h"
#include "spqlios/reim/reim_fft_private.h"
void reim_from_znx64_bnd50_fma(const REIM_FROM_ZNX64_PRECOMP* precomp, void* r, const int64_t* x);
void reim_to_znx64_avx2_bnd63_fma(const REIM_TO_ZNX64_PRECOMP* precomp, int64_t* r, const void* x);
void reim_to_znx64_avx2_bnd50_fma(const REIM_TO_ZNX64_PRECOMP* precomp, int64_t* r, const void* x);
}
static int pg_ilog2(size_t m) { int k = 0; while (((size_t)1 << k) < m) k++; return k; }
static size_t pg_bfs_len(size_t m) {
  size_t n = 0, mm = m;
  if (pg_ilog2(m) & 1) { n += 2; mm /= 2; }
  while (mm > 16) { n += (m / mm) * 4; mm /= 4; }
  return n + m;
}
static size_t pg_rec_len(size_t m) { return m <= 2048 ? pg_bfs_len(m) : 2 + 2 * pg_rec_len(m / 2); }
static size_t pg_table_len(size_t m) { return m == 1 ? 0 : m <= 16 ? m : pg_rec_len(m); }
static void pg_cfg(FILE* f, MODULE* mod) {
  const uint64_t m = mod->m;
  auto* pf = mod->mod.fft64.p_fft;
  auto* pi = mod->mod.fft64.p_ifft;
  int fftFma = (void*)pf->function == (void*)reim_fft_avx2_fma;
  int ifftFma = (void*)pi->function == (void*)reim_ifft_avx2_fma;
  int fromB = (void*)mod->mod.fft64.p_conv->function == (void*)reim_from_znx64_bnd50_fma;
  void* tf = (void*)mod->mod.fft64.p_reim_to_znx->function;
  int toV = tf == (void*)reim_to_znx64_avx2_bnd63_fma ? 2 : (tf == (void*)reim_to_znx64_avx2_bnd50_fma ? 1 : 0);
  int mulFma = (void*)mod->mod.fft64.mul_fft->function == (void*)reim_fftvec_mul_fma;
  int addmulFma = (void*)mod->mod.fft64.p_addmul->function == (void*)reim_fftvec_addmul_fma;
  int vmpAvx = (void*)mod->func.vmp_apply_dft_to_dft == (void*)fft64_vmp_apply_dft_to_dft_avx;
  fprintf(f, "pg %" PRIu64 " %d %d %d %d %d %d %d | ", mod->nn, fftFma, ifftFma, fromB, toV, mulFma, addmulFma, vmpAvx);
  put_f64bits(f, pf->powomegas, pg_table_len(m));
  fprintf(f, " | ");
  put_f64bits(f, pi->powomegas, pg_table_len(m));
}

struct HVar { uint64_t off, size, sl; PVec val; };
struct HD { uint64_t size; std::vector<double> d; PVec val; bool written = false; };
struct HM { uint64_t nrows, ncols; std::vector<double> d; std::vector<Poly> val; bool written = false; };
struct HS { std::vector<double> d; Poly val; bool written = false; };

static void model_program(Out& out, Rng& rng, int thorough) {
  const int lg = 1 + (int)rng.below(thorough ? 8 : 6);
  const uint64_t n = (uint64_t)1 << lg;
  MODULE* mod = get_module(n, 0, (int)rng.below(2));
  // layout: 3..5 general variables (random stride), one matrix source (stride n, nrows*ncols limbs), one big target
  std::vector<HVar> vars;
  uint64_t off = rng.below(2);
  auto add_var = [&](uint64_t size, uint64_t sl) { HVar v; v.off = off; v.size = size; v.sl = sl; v.val.assign(size, pzero(n)); vars.push_back(v); off += size * sl + rng.below(2); };
  int ngen = 3 + (int)rng.below(3);
  for (int i = 0; i < ngen; i++) add_var(1 + rng.below(3), n + (rng.below(3) == 0 ? rng.below(3) : 0));
  const uint64_t mr = 1 + rng.below(3), mc = 1 + rng.below(3);
  const int matv = (int)vars.size();
  add_var(mr * mc, n);
  add_var(1 + rng.below(3), n);  // a stride-n variable is always available as an idft target
  const uint64_t hsz = off + rng.below(2);
  std::vector<int64_t> H(hsz + 1, 0);
  for (uint64_t i = 0; i < hsz; i++) H[i] = rng.sbits(5);  // padding cells hold data too: they must survive
  for (size_t v = 0; v < vars.size(); v++) {
    int bits = (int)v == matv ? 5 : 3 + (int)rng.below(9);
    for (uint64_t l = 0; l < vars[v].size; l++)
      for (uint64_t j = 0; j < n; j++) { int64_t x = rng.sbits(bits); H[vars[v].off + l * vars[v].sl + j] = x; vars[v].val[l][j] = x; }
  }
  std::vector<int64_t> H0(H.begin(), H.begin() + hsz);
  std::vector<HD> D(4);
  for (auto& d : D) { d.size = 1 + rng.below(3); d.d.assign(d.size * n + 1, 1e300); d.val.assign(d.size, pzero(n)); }
  std::vector<HM> M(2);
  M[0].nrows = mr; M[0].ncols = mc;
  M[1].nrows = mr; M[1].ncols = mc;
  for (auto& m : M) m.d.assign(m.nrows * m.ncols * n + 1, 0.0);
  std::vector<HS> S(2);
  for (auto& s : S) s.d.assign(n + 1, 0.0);
  std::string prog;
  std::vector<uint8_t> tmp;
  auto vs = [&](const HVar& v) { char b[80]; snprintf(b, sizeof b, "%lu %lu %lu", (unsigned long)v.off, (unsigned long)v.size, (unsigned long)v.sl); return std::string(b); };
  auto emit = [&](const char* fmt, ...) { char b[400]; va_list ap; va_start(ap, fmt); vsnprintf(b, sizeof b, fmt, ap); va_end(ap); prog += b; prog += " ; "; };
  auto P = [&](const HVar& v) { return H.data() + v.off; };
  auto lz = [&](const HVar& v, uint64_t i) { return i < v.size ? v.val[i] : pzero(n); };
  int len = 6 + (int)rng.below(thorough ? 19 : 9), done = 0, tries = 0;
  // the DFT-space calls are weighted up; most programs start by preparing a matrix, a scalar and a raw transform
  static const int WOPS[] = {0, 1, 2, 3, 4, 5, 5, 7, 8, 8, 9, 10, 10, 11, 11, 12, 13, 13, 14, 15};
  std::vector<int> forced;
  if (rng.below(4)) forced.push_back(9);
  if (rng.below(4)) forced.push_back(7);
  if (rng.below(4)) forced.push_back(5);
  while (done < len && tries < 30 * len) {
    tries++;
    int op = WOPS[rng.below(sizeof WOPS / sizeof WOPS[0])];
    if (!forced.empty()) { op = forced.back(); forced.pop_back(); }
    HVar& A = vars[rng.below(vars.size())];
    HVar& B = vars[rng.below(vars.size())];
    HVar& R = vars[rng.below(vars.size())];
    if (op <= 1) {  // add / sub, destination any variable (possibly a source)
      PVec ex(R.size);
      for (uint64_t i = 0; i < R.size; i++) { Poly x = lz(A, i), y = lz(B, i); ex[i] = pzero(n); for (uint64_t j = 0; j < n; j++) ex[i][j] = op == 0 ? x[j] + y[j] : x[j] - y[j]; }
      if (!fits(ex, 50)) continue;
      (op == 0 ? vec_znx_add : vec_znx_sub)(mod, P(R), R.size, R.sl, P(A), A.size, A.sl, P(B), B.size, B.sl);
      R.val = ex;
      emit("%s %s %s %s", op == 0 ? "add" : "sub", vs(R).c_str(), vs(A).c_str(), vs(B).c_str());
    } else if (op == 2) {  // negate / copy
      bool neg = rng.below(2);
      PVec ex(R.size);
      for (uint64_t i = 0; i < R.size; i++) { ex[i] = lz(A, i); if (neg) for (auto& x : ex[i]) x = -x; }
      (neg ? vec_znx_negate : vec_znx_copy)(mod, P(R), R.size, R.sl, P(A), A.size, A.sl);
      R.val = ex;
      emit("%s %s %s", neg ? "neg" : "copy", vs(R).c_str(), vs(A).c_str());
    } else if (op == 3) {  // rotate / automorphism
      bool aut = rng.below(2);
      int64_t p = rng.sbits(8);
      if (aut) p |= 1;
      PVec ex(R.size);
      for (uint64_t i = 0; i < R.size; i++) ex[i] = i < A.size ? (aut ? paut(A.val[i], p) : prot(A.val[i], p)) : pzero(n);
      (aut ? vec_znx_automorphism : vec_znx_rotate)(mod, p, P(R), R.size, R.sl, P(A), A.size, A.sl);
      R.val = ex;
      emit("%s %ld %s %s", aut ? "aut" : "rot", (long)p, vs(R).c_str(), vs(A).c_str());
    } else if (op == 4) {  // normalize
      uint64_t k = 4 + rng.below(12);
      PVec ex = pnorm(A.val, k, R.size, n);
      tmp.assign(vec_znx_normalize_base2k_tmp_bytes(mod) + 8, 0xCD);
      vec_znx_normalize_base2k(mod, k, P(R), R.size, R.sl, P(A), A.size, A.sl, tmp.data());
      R.val = ex;
      emit("norm %lu %s %s", (unsigned long)k, vs(R).c_str(), vs(A).c_str());
    } else if (op == 5 || op == 6) {  // dft
      int di = (int)rng.below(D.size());
      if (!fits(A.val, 49)) continue;
      vec_znx_dft(mod, (VEC_ZNX_DFT*)D[di].d.data(), D[di].size, P(A), A.size, A.sl);
      for (uint64_t i = 0; i < D[di].size; i++) D[di].val[i] = lz(A, i);
      D[di].written = true;
      emit("dft %d %lu %s", di, (unsigned long)D[di].size, vs(A).c_str());
    } else if (op == 7) {  // svp_prepare (limb 0)
      int si = (int)rng.below(2);
      if (!fits(A.val, 49)) continue;
      svp_prepare(mod, (SVP_PPOL*)S[si].d.data(), P(A));
      S[si].val = A.val[0];
      S[si].written = true;
      emit("svpp %d %s", si, vs(A).c_str());
    } else if (op == 8) {  // svp_apply_dft
      int si = (int)rng.below(2), di = (int)rng.below(D.size());
      if (!S[si].written) continue;
      PVec ex(D[di].size);
      long double err = 0;
      for (uint64_t i = 0; i < D[di].size; i++) { ex[i] = i < A.size ? pmul(S[si].val, A.val[i]) : pzero(n); if (i < A.size) err = fmaxl(err, perr(S[si].val, A.val[i])); }
      if (err >= 0.25L || !fits(ex, 49) || !fits(A.val, 49)) continue;
      svp_apply_dft(mod, (VEC_ZNX_DFT*)D[di].d.data(), D[di].size, (SVP_PPOL*)S[si].d.data(), P(A), A.size, A.sl);
      D[di].val = ex;
      D[di].written = true;
      emit("svp %d %lu %d %s", di, (unsigned long)D[di].size, si, vs(A).c_str());
    } else if (op == 9) {  // vmp_prepare_contiguous from the matrix variable
      int mi = (int)rng.below(2);
      HVar& V = vars[matv];
      if (!fits(V.val, 20)) continue;
      tmp.assign(vmp_prepare_contiguous_tmp_bytes(mod, mr, mc) + 8, 0xEE);
      vmp_prepare_contiguous(mod, (VMP_PMAT*)M[mi].d.data(), P(V), mr, mc, tmp.data());
      M[mi].val = V.val;
      M[mi].written = true;
      emit("vmpp %d %lu %lu %s", mi, (unsigned long)mr, (unsigned long)mc, vs(V).c_str());
    } else if (op == 10 || op == 11 || op == 12) {  // vmp_apply_dft (10) / vmp_apply_dft_to_dft (11, 12)
      int mi = (int)rng.below(2), di = (int)rng.below(D.size()), ai = (int)rng.below(D.size());
      if (!M[mi].written) mi ^= 1;
      if (!M[mi].written) continue;
      const bool dd = op != 10;
      for (int t = 0; t < 4 && dd && (!D[ai].written || ai == di); t++) ai = (int)rng.below(D.size());
      if (dd && (!D[ai].written || ai == di)) continue;
      const PVec& av = dd ? D[ai].val : A.val;
      const uint64_t asz = dd ? D[ai].size : A.size;
      uint64_t rows = mr < asz ? mr : asz, rsz = D[di].size;
      PVec ex(rsz, pzero(n));
      long double err = 0;
      for (uint64_t j = 0; j < rsz && j < mc; j++)
        for (uint64_t i = 0; i < rows; i++) {
          Poly t = pmul(av[i], M[mi].val[i * mc + j]);
          err += perr(av[i], M[mi].val[i * mc + j]);
          for (uint64_t k = 0; k < n; k++) ex[j][k] += t[k];
        }
      if (err >= 0.25L || !fits(ex, 49) || !fits(av, 46)) continue;
      if (!dd) {
        tmp.assign(vmp_apply_dft_tmp_bytes(mod, rsz, asz, mr, mc) + 8, 0xEE);
        vmp_apply_dft(mod, (VEC_ZNX_DFT*)D[di].d.data(), rsz, P(A), A.size, A.sl, (VMP_PMAT*)M[mi].d.data(), mr, mc, tmp.data());
        emit("vmp %d %lu %s %d %lu %lu", di, (unsigned long)rsz, vs(A).c_str(), mi, (unsigned long)mr, (unsigned long)mc);
      } else {
        tmp.assign(vmp_apply_dft_to_dft_tmp_bytes(mod, rsz, asz, mr, mc) + 8, 0xEE);
        vmp_apply_dft_to_dft(mod, (VEC_ZNX_DFT*)D[di].d.data(), rsz, (VEC_ZNX_DFT*)D[ai].d.data(), asz, (VMP_PMAT*)M[mi].d.data(), mr, mc, tmp.data());
        emit("vdd %d %lu %d %lu %d %lu %lu", di, (unsigned long)rsz, ai, (unsigned long)asz, mi, (unsigned long)mr, (unsigned long)mc);
        out.count("pg_vmp_dft_to_dft");
      }
      D[di].val = ex;
      D[di].written = true;
    } else if (op == 13 || op == 14) {  // idft into a stride-n variable (a VEC_ZNX_BIG living in the heap)
      int ai = (int)rng.below(D.size());
      for (int t = 0; t < 4 && !D[ai].written; t++) ai = (int)rng.below(D.size());
      std::vector<int> bigs;
      for (size_t v = 0; v < vars.size(); v++) if (vars[v].sl == n) bigs.push_back((int)v);
      HVar& R = vars[bigs[rng.below(bigs.size())]];
      if (!D[ai].written) continue;
      tmp.assign(vec_znx_idft_tmp_bytes(mod) + 8, 0xAB);
      vec_znx_idft(mod, (VEC_ZNX_BIG*)P(R), R.size, (VEC_ZNX_DFT*)D[ai].d.data(), D[ai].size, tmp.data());
      for (uint64_t i = 0; i < R.size; i++) R.val[i] = i < D[ai].size ? D[ai].val[i] : pzero(n);
      emit("idft %s %d %lu", vs(R).c_str(), ai, (unsigned long)D[ai].size);
    } else {  // small single product of limbs 0 into a one-limb variable
      if (R.size != 1 || &R == &A || &R == &B) continue;
      Poly ex = pmul(A.val[0], B.val[0]);
      if (perr(A.val[0], B.val[0]) >= 0.25L || pmax(ex) >= ldexpl(1.0L, 49)) continue;
      tmp.assign(znx_small_single_product_tmp_bytes(mod) + 8, 0x5C);
      znx_small_single_product(mod, P(R), P(A), P(B), tmp.data());
      R.val[0] = ex;
      emit("small %s %s %s", vs(R).c_str(), vs(A).c_str(), vs(B).c_str());
    }
    done++;
  }
  // independent verdict: exact values of every variable, and of every written DFT object through a copy
  std::string verdict = "ok";
  for (size_t v = 0; v < vars.size() && verdict == "ok"; v++)
    for (uint64_t i = 0; i < vars[v].size; i++)
      for (uint64_t j = 0; j < n; j++)
        if ((i128)H[vars[v].off + i * vars[v].sl + j] != vars[v].val[i][j]) { verdict = "FAIL C16 model-tied program: variable " + std::to_string(v) + " differs from the exact interpreter; program: " + prog; i = vars[v].size; break; }
  for (size_t d = 0; d < D.size() && verdict == "ok"; d++) {
    if (!D[d].written) continue;
    std::vector<double> cp(D[d].d);
    std::vector<int64_t> big(D[d].size * n + 1);
    vec_znx_idft_tmp_a(mod, (VEC_ZNX_BIG*)big.data(), D[d].size, (VEC_ZNX_DFT*)cp.data(), D[d].size);
    for (uint64_t i = 0; i < D[d].size && verdict == "ok"; i++)
      for (uint64_t j = 0; j < n; j++)
        if ((i128)big[i * n + j] != D[d].val[i][j]) { verdict = "FAIL C16 model-tied program: DFT object " + std::to_string(d) + " does not inverse-transform to the exact value; program: " + prog; break; }
  }
  pg_cfg(out.ops, mod);
  fprintf(out.ops, " | ");
  put_i64s(out.ops, H0.data(), hsz);
  fprintf(out.ops, " | %s | ", prog.c_str());
  fprintf(out.real, "1 | ");
  put_i64s(out.real, H.data(), hsz);
  bool first = true;
  for (size_t d = 0; d < D.size(); d++)
    if (D[d].written) {
      fprintf(out.ops, first ? "%zu %lu" : " %zu %lu", d, (unsigned long)D[d].size);
      first = false;
      fprintf(out.real, " | ");
      put_f64bits(out.real, D[d].d.data(), D[d].size * n);
    }
  out.endcase(verdict);
  out.count("pg_programs");
  out.count("pg_ops", done);
}

STREAM(md_prog) {
  int nprog = thorough ? 600 : 120;
  int maxlen = thorough ? 40 : 20;
  for (int pi = 0; pi < nprog; pi++) {
    Ctx c;
    c.rng = &rng;
    int lg = 1 + (int)rng.below(thorough ? 9 : 7);
    c.n = (uint64_t)1 << lg;
    c.mod = get_module(c.n, 0, (int)rng.below(2));
    // initial inputs: a few small integer vectors
    int nin = 2 + (int)rng.below(3);
    for (int i = 0; i < nin; i++) {
      Var v = fresh(c, KZ, 1 + rng.below(3));
      int bits = 3 + (int)rng.below(10);
      for (uint64_t l = 0; l < v.size; l++)
        for (uint64_t j = 0; j < c.n; j++) v.z[l * v.sl + j] = rng.sbits(bits);
      v.val = zvals(v, c.n);
      c.vars.push_back(v);
    }
    int len = 4 + (int)rng.below(maxlen - 3), done = 0, tries = 0;
    while (done < len && tries < 20 * len) {
      tries++;
      if (step(c)) {
        done++;
        // check after every operation, so that the first wrong step is reported
        std::string v = verify(c);
        if (v != "ok") { fprintf(out.ops, "ca nop md_prog n=%lu program: %s", (unsigned long)c.n, c.trace.c_str()); fprintf(out.real, "nop"); out.endcase(v); goto next; }
      }
    }
    fprintf(out.ops, "ca nop md_prog n=%lu program: %s", (unsigned long)c.n, c.trace.c_str());
    fprintf(out.real, "nop");
    out.endcase("ok");
    out.count("ops", done);
  next:
    out.count("programs");
  }
  // programs of the Lean program language, run by the model driver as well (bit-exact tie)
  int npg = thorough ? 300 : 60;
  for (int i = 0; i < npg; i++) model_program(out, rng, thorough);
}
