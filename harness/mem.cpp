// C11: object lifetime and exact-size buffers.  Meaningful under the asan build (heap-buffer-overflow,
// LeakSanitizer at exit); under the plain build it only checks that nothing crashes.
#include "hcommon.h"
extern "C" {
#include "spqlios/cplx/cplx_fft.h"
#include "spqlios/q120/q120_arithmetic.h"
#include "spqlios/q120/q120_ntt.h"
#include "spqlios/reim/reim_fft.h"
#include "spqlios/reim4/reim4_fftvec_public.h"
}

static void nopcase(Out& out, const char* what) {
  static int k = 0;
  fprintf(out.ops, "ca nop mem_pairs %s #%d", what, k++);
  fprintf(out.real, "nop");
  out.endcase("ok");
  out.count(what);
}

// every new_*/delete_* pair, several dimensions, both dispatch masks
STREAM(mem_pairs) {
  for (int mask = 0; mask < 2; mask++) {
    spqlios_verif_set_cpu_mask(mask, mask, mask);
    for (uint32_t m : {1u, 2u, 4u, 8u, 16u, 32u, 1024u, 4096u}) {
      if (!thorough && m > 1024) continue;
      { auto* p = new_reim_fft_precomp(m, 0); delete_reim_fft_precomp(p); }
      { auto* p = new_reim_fft_precomp(m, 2); (void)reim_fft_precomp_get_buffer(p, 1); delete_reim_fft_precomp(p); }
      { auto* p = new_reim_ifft_precomp(m, 1); delete_reim_ifft_precomp(p); }
      { auto* p = new_cplx_fft_precomp(m, 1); delete_cplx_fft_precomp(p); }
      { auto* p = new_cplx_ifft_precomp(m, 0); delete_cplx_ifft_precomp(p); }
      { auto* p = new_reim_fftvec_mul_precomp(m); delete_reim_fftvec_mul_precomp(p); }
      { auto* p = new_reim_fftvec_addmul_precomp(m); delete_reim_fftvec_addmul_precomp(p); }
      { auto* p = new_cplx_fftvec_mul_precomp(m); delete_cplx_fftvec_mul_precomp(p); }
      { auto* p = new_cplx_fftvec_addmul_precomp(m); delete_cplx_fftvec_addmul_precomp(p); }
      { auto* p = new_reim_from_znx64_precomp(m, 50); delete_reim_from_znx64_precomp(p); }
      { auto* p = new_reim_to_znx64_precomp(m, 4.0, 63); delete_reim_to_znx64_precomp(p); }
      { auto* p = new_reim_to_tnx_precomp(m, 2.0, 18); delete_reim_to_tnx_precomp(p); }
      { auto* p = new_cplx_from_znx32_precomp(m); delete_cplx_from_znx32_precomp(p); }
      { auto* p = new_cplx_from_tnx32_precomp(m); delete_cplx_from_tnx32_precomp(p); }
      { auto* p = new_cplx_to_tnx32_precomp(m, 2.0, 18); delete_cplx_to_tnx32_precomp(p); }
      if (m >= 4) { auto* p = new_reim4_from_cplx_precomp(m); delete_reim4_from_cplx_precomp(p); }
      if (m >= 4) { auto* p = new_reim4_to_cplx_precomp(m); delete_reim4_to_cplx_precomp(p); }
      { auto* p = new_reim4_fftvec_mul_precomp(m); delete_reim4_fftvec_mul_precomp(p); }
      { auto* p = new_reim4_fftvec_addmul_precomp(m); delete_reim4_fftvec_addmul_precomp(p); }
      {  // portable C constructors: independent of the dispatch mask
        { auto* p = q120_new_ntt_bb_precomp(m); q120_del_ntt_bb_precomp(p); }
        { auto* p = q120_new_intt_bb_precomp(m); q120_del_intt_bb_precomp(p); }
      }
      if (m >= 1) {
        uint64_t nn = 2 * (uint64_t)m;
        MODULE* mod = new_module_info(nn, FFT64);
        { auto* p = new_vec_znx_dft(mod, 3); delete_vec_znx_dft(p); }
        { auto* p = new_vec_znx_big(mod, 3); delete_vec_znx_big(p); }
        { auto* p = new_svp_ppol(mod); delete_svp_ppol(p); }
        { auto* p = new_vmp_pmat(mod, 2, 3); delete_vmp_pmat(p); }
        delete_module_info(mod);
        // NTT120: with AVX2 masked off the module installs no kernels, but creation and destruction must still pair up
        { MODULE* mq = new_module_info(nn, NTT120); delete_module_info(mq); }
        if (nn <= 256) {
          // two modules of the same kind and dimension alive at once, the OLDER one deleted first, then the survivor is
          // used and deleted (tables shared between modules would be used after free / freed twice)
          for (int type = 0; type < 2; type++) {
            if (type == 1 && mask != 0) continue;   // NTT120 has kernels only with AVX2
            MODULE* m1 = new_module_info(nn, type ? NTT120 : FFT64);
            MODULE* m2 = new_module_info(nn, type ? NTT120 : FFT64);
            delete_module_info(m1);
            MODULE* m3 = new_module_info(nn, type ? NTT120 : FFT64);
            std::vector<int64_t> a(nn, 3), big(4 * nn);
            std::vector<uint64_t> d(4 * nn + nn);
            std::vector<uint8_t> tmp(vec_znx_idft_tmp_bytes(m2) + 64);
            vec_znx_dft(m2, (VEC_ZNX_DFT*)d.data(), 1, a.data(), 1, nn);
            vec_znx_idft(m2, (VEC_ZNX_BIG*)big.data(), 1, (VEC_ZNX_DFT*)d.data(), 1, tmp.data());
            delete_module_info(m3);
            delete_module_info(m2);
          }
        }
      }
      nopcase(out, "pairs_dim");
    }
    { auto* p = q120_new_vec_mat1col_product_baa_precomp(); q120_delete_vec_mat1col_product_baa_precomp(p); }
    { auto* p = q120_new_vec_mat1col_product_bbb_precomp(); q120_delete_vec_mat1col_product_bbb_precomp(p); }
    { auto* p = q120_new_vec_mat1col_product_bbc_precomp(); q120_delete_vec_mat1col_product_bbc_precomp(p); }
    nopcase(out, "pairs_q120");
  }
  spqlios_verif_set_cpu_mask(0, 0, 0);
}
