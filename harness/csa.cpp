// Stream cs_avx: the integer AVX2 kernels of coeffs_arithmetic_avx.c against the CIR interpreter running the terms
// GENERATED from their C source (vector intrinsics as IR primitives on lanes of 64-bit cells), bit-exact.
//   cs znx_add_i64_avx nn | 0:0 1:0 2:0 | res… | a… | b…      ->  ok | res… | a… | b…
// Sizes the kernels accept: nn = 1, nn = 2, nn a positive multiple of 4 (exact-size buffers).
#include "hcommon.h"

namespace {
enum { A_ADD, A_SUB, A_NEG, NA };
const char* AN[NA] = {"znx_add_i64_avx", "znx_sub_i64_avx", "znx_negate_i64_avx"};

// cfg: 0 distinct buffers, 1 res == a, 2 res == b (add/sub), 3 all equal
void avx_case(Out& out, Rng& rng, int f, uint64_t nn, int cfg) {
  int nptr = (f == A_NEG) ? 2 : 3;
  std::vector<std::vector<int64_t>> mem;
  auto fresh = [&]() { std::vector<int64_t> v(nn); for (auto& x : v) x = pick_i64(rng, (int)rng.below(6)); mem.push_back(v); return (int)mem.size() - 1; };
  int bd[3] = {0, 0, 0};
  bd[0] = fresh();
  bd[1] = (cfg == 1 || cfg == 3) ? bd[0] : fresh();
  if (nptr == 3) bd[2] = (cfg == 2 || cfg == 3) ? bd[0] : fresh();
  fprintf(out.ops, "cs %s %" PRIu64 " |", AN[f], nn);
  for (int i = 0; i < nptr; i++) fprintf(out.ops, " %d:0", bd[i]);
  for (auto& b : mem) { fprintf(out.ops, " | "); put_i64s(out.ops, b.data(), b.size()); }
  std::vector<std::vector<int64_t>> before = mem;
  int64_t* r = mem[bd[0]].data();
  const int64_t* a = mem[bd[1]].data();
  const int64_t* b = mem[bd[2]].data();
  switch (f) {
    case A_ADD: znx_add_i64_avx(nn, r, a, b); break;
    case A_SUB: znx_sub_i64_avx(nn, r, a, b); break;
    case A_NEG: znx_negate_i64_avx(nn, r, a); break;
  }
  fprintf(out.real, "ok");
  for (auto& bb : mem) { fprintf(out.real, " | "); put_i64s(out.real, bb.data(), bb.size()); }
  // independent check: the reference kernel on the same inputs
  std::string verdict = "ok";
  std::vector<int64_t> ref(nn);
  const int64_t* a0 = before[bd[1]].data();
  const int64_t* b0 = before[bd[2]].data();
  switch (f) {
    case A_ADD: znx_add_i64_ref(nn, ref.data(), a0, b0); break;
    case A_SUB: znx_sub_i64_ref(nn, ref.data(), a0, b0); break;
    case A_NEG: znx_negate_i64_ref(nn, ref.data(), a0); break;
  }
  for (uint64_t i = 0; i < nn; i++) if (ref[i] != mem[bd[0]][i]) verdict = std::string("FAIL C07 ") + AN[f] + " differs from the reference kernel";
  out.endcase(verdict);
  out.count(AN[f]);
  out.count("cfg" + std::to_string(cfg));
}
}  // namespace

STREAM(cs_avx) {
  std::vector<uint64_t> nns = {1, 2};
  for (uint64_t n = 4; n <= (thorough ? 256u : 64u); n += 4) nns.push_back(n);
  for (uint64_t n = 512; n <= (thorough ? 65536u : 4096u); n *= 2) nns.push_back(n);
  for (uint64_t nn : nns)
    for (int f = 0; f < NA; f++)
      for (int cfg = 0; cfg < 4; cfg++) {
        if (f == A_NEG && (cfg == 2)) continue;
        int reps = nn <= 16 ? 3 : 1;
        for (int t = 0; t < reps; t++) avx_case(out, rng, f, nn, cfg);
      }
}
