// Streams over the block layouts (reim <-> reim4 <-> cplx) and the complex-vector kernels (property C17).
//   r4 <op> <variant> <params...> <doff> | dst... | src/u/a... [| v/b...]   -> whole dst buffer after the call
// Every kernel is called directly (no dispatch) on exactly sized heap buffers; the destination has a
// canary zone in front of and behind the cells the kernel may write, and is compared as bit patterns.
// Oracles (independent of the Lean model):
//   r4_layout : the index formulas of the property (block b = evaluations 4b..4b+3, real parts then
//               imaginary parts; saving is the inverse; from_cplx -> to_cplx is the identity on all 2m
//               doubles, for every pairing of the ref/fma variants), canaries untouched.
//   r4_arith  : long double complex arithmetic, |got - exact| <= (n+2) 2^-52 sum|u_i||v_i| (+ a few
//               subnormal ulps), exact equality on small-integer data, canaries untouched.
#include "hcommon.h"

extern "C" {
#include "spqlios/cplx/cplx_fft.h"
#include "spqlios/cplx/cplx_fft_internal.h"
#include "spqlios/cplx/cplx_fft_private.h"
#include "spqlios/reim/reim_fft.h"
#include "spqlios/reim/reim_fft_internal.h"
#include "spqlios/reim/reim_fft_private.h"
#include "spqlios/reim4/reim4_arithmetic.h"
#include "spqlios/reim4/reim4_fftvec_internal.h"
#include "spqlios/reim4/reim4_fftvec_private.h"
}

namespace {

const uint64_t PAD = 5;  // canary cells in front of / behind the destination window

double bits2d(uint64_t b) { double d; memcpy(&d, &b, 8); return d; }
uint64_t d2bits(double d) { uint64_t b; memcpy(&b, &d, 8); return b; }

// finite double with an arbitrary bit pattern (distinct with overwhelming probability), some signed zeros
double gen_pattern(Rng& r) {
  uint64_t b = r.next();
  if ((r.next() & 31) == 0) return bits2d(b & 0x8000000000000000ull);  // +0 / -0
  if (((b >> 52) & 2047) == 2047) b ^= (1ull << 52);                   // no inf / nan
  return bits2d(b);
}

double* dalloc(uint64_t n) { return (double*)malloc(n ? n * 8 : 1); }

struct Canary {
  std::vector<uint64_t> before;
  void snap(const double* p, uint64_t n) { before.resize(n); for (uint64_t i = 0; i < n; i++) before[i] = d2bits(p[i]); }
};

void emit_head(Out& out, const char* op, const char* variant, const std::vector<uint64_t>& ps) {
  fprintf(out.ops, "r4 %s %s", op, variant);
  for (uint64_t p : ps) fprintf(out.ops, " %" PRIu64, p);
}
void emit_buf(Out& out, const double* p, uint64_t n) {
  fprintf(out.ops, " | ");
  put_f64bits(out.ops, p, n);
}

std::string failmsg(const char* what, uint64_t i, uint64_t exp, uint64_t got) {
  char buf[200];
  snprintf(buf, sizeof buf, "FAIL %s cell %" PRIu64 " expected %016" PRIx64 " got %016" PRIx64, what, i, exp, got);
  return buf;
}

// compare a whole buffer with the expected bit patterns
std::string cmp_bits(const double* got, const std::vector<uint64_t>& exp, const char* what) {
  for (uint64_t i = 0; i < exp.size(); i++)
    if (d2bits(got[i]) != exp[i]) return failmsg(what, i, exp[i], d2bits(got[i]));
  return "ok";
}

// ------------------------------------------------------------------------------------------------
// layout stream

enum { L_EXTRACT, L_EXTRACTC, L_EXTRACTSL, L_SAVE };

// one extraction: rows reim vectors of m complexes spaced by `stride` doubles
void layout_extract(Out& out, Rng& rng, int kind, int avx, uint64_t m, uint64_t rows, uint64_t blk, uint64_t sl) {
  uint64_t stride = (kind == L_EXTRACTSL) ? sl : 2 * m;
  uint64_t nsrc = (kind == L_EXTRACT) ? 2 * m : (rows ? (rows - 1) * stride + 2 * m : 0);
  if (kind == L_EXTRACTC) nsrc = rows * 2 * m;
  if (kind == L_EXTRACT) rows = 1;
  uint64_t ndst = PAD + 8 * rows + PAD;
  double* src = dalloc(nsrc);
  double* dst = dalloc(ndst);
  for (uint64_t i = 0; i < nsrc; i++) src[i] = gen_pattern(rng);
  for (uint64_t i = 0; i < ndst; i++) dst[i] = gen_pattern(rng);
  const char* v = avx ? "avx" : "ref";
  switch (kind) {
    case L_EXTRACT: emit_head(out, "extract", v, {m, blk, PAD}); break;
    case L_EXTRACTC: emit_head(out, "extractc", v, {m, rows, blk, PAD}); break;
    default: emit_head(out, "extractsl", v, {m, sl, rows, blk, PAD}); break;
  }
  emit_buf(out, dst, ndst);
  emit_buf(out, src, nsrc);
  std::vector<uint64_t> exp(ndst);
  for (uint64_t i = 0; i < ndst; i++) exp[i] = d2bits(dst[i]);
  for (uint64_t r = 0; r < rows; r++)
    for (uint64_t k = 0; k < 4; k++) {
      exp[PAD + 8 * r + k] = d2bits(src[r * stride + 4 * blk + k]);          // real parts of evaluations 4blk..4blk+3
      exp[PAD + 8 * r + 4 + k] = d2bits(src[r * stride + m + 4 * blk + k]);  // imaginary parts
    }
  switch (kind) {
    case L_EXTRACT:
      if (avx) reim4_extract_1blk_from_reim_avx(m, blk, dst + PAD, src); else reim4_extract_1blk_from_reim_ref(m, blk, dst + PAD, src);
      break;
    case L_EXTRACTC:
      if (avx) reim4_extract_1blk_from_contiguous_reim_avx(m, rows, blk, dst + PAD, src);
      else reim4_extract_1blk_from_contiguous_reim_ref(m, rows, blk, dst + PAD, src);
      break;
    default:
      if (avx) reim4_extract_1blk_from_contiguous_reim_sl_avx(m, sl, rows, blk, dst + PAD, src);
      else reim4_extract_1blk_from_contiguous_reim_sl_ref(m, sl, rows, blk, dst + PAD, src);
      break;
  }
  put_f64bits(out.real, dst, ndst);
  out.endcase(cmp_bits(dst, exp, "extract"));
  out.count(kind == L_EXTRACT ? "op_extract" : kind == L_EXTRACTC ? "op_extractc" : "op_extractsl");
  out.count(avx ? "variant_avx" : "variant_ref");
  if (rows == 0) out.count("rows_0");
  if (kind == L_EXTRACTSL && sl > 2 * m) out.count("stride_padded");
  free(src);
  free(dst);
}

// save one block into a reim vector, then extract it again (inverse), also extract-then-save = identity
void layout_save(Out& out, Rng& rng, int avx, uint64_t m, uint64_t blk) {
  uint64_t ndst = PAD + 2 * m + PAD;
  double* dst = dalloc(ndst);
  double* src = dalloc(8);
  for (uint64_t i = 0; i < ndst; i++) dst[i] = gen_pattern(rng);
  for (uint64_t i = 0; i < 8; i++) src[i] = gen_pattern(rng);
  const char* v = avx ? "avx" : "ref";
  emit_head(out, "save", v, {m, blk, PAD});
  emit_buf(out, dst, ndst);
  emit_buf(out, src, 8);
  std::vector<uint64_t> exp(ndst);
  for (uint64_t i = 0; i < ndst; i++) exp[i] = d2bits(dst[i]);
  for (uint64_t k = 0; k < 4; k++) {
    exp[PAD + 4 * blk + k] = d2bits(src[k]);
    exp[PAD + m + 4 * blk + k] = d2bits(src[4 + k]);
  }
  if (avx) reim4_save_1blk_to_reim_avx(m, blk, dst + PAD, src); else reim4_save_1blk_to_reim_ref(m, blk, dst + PAD, src);
  put_f64bits(out.real, dst, ndst);
  std::string verdict = cmp_bits(dst, exp, "save");
  // inverse: extracting the saved block returns the 8 values, with the other implementation too
  if (verdict == "ok") {
    double back[8];
    for (int w = 0; w < 2 && verdict == "ok"; w++) {
      for (int i = 0; i < 8; i++) back[i] = 0;
      if (w) reim4_extract_1blk_from_reim_avx(m, blk, back, dst + PAD); else reim4_extract_1blk_from_reim_ref(m, blk, back, dst + PAD);
      for (int i = 0; i < 8; i++)
        if (d2bits(back[i]) != d2bits(src[i])) verdict = failmsg("extract-after-save", i, d2bits(src[i]), d2bits(back[i]));
    }
    // extract then save leaves the vector unchanged
    if (verdict == "ok") {
      std::vector<double> copy(dst, dst + ndst);
      if (avx) reim4_save_1blk_to_reim_avx(m, blk, copy.data() + PAD, back); else reim4_save_1blk_to_reim_ref(m, blk, copy.data() + PAD, back);
      for (uint64_t i = 0; i < ndst; i++)
        if (d2bits(copy[i]) != d2bits(dst[i])) { verdict = failmsg("save-after-extract", i, d2bits(dst[i]), d2bits(copy[i])); break; }
    }
  }
  out.endcase(verdict);
  out.count("op_save");
  out.count(avx ? "variant_avx" : "variant_ref");
  free(src);
  free(dst);
}

// The conversion tables come from the public constructors (they hold the number of complexes the
// conversion walks over); variant 0 = _ref, 1 = _fma called directly on that table, 2 = the dispatching entry point.
const char* CV[] = {"ref", "fma", "api"};
void call_from(int var, uint64_t m, double* r, const double* a) {
  REIM4_FROM_CPLX_PRECOMP* p = new_reim4_from_cplx_precomp((uint32_t)m);
  if (var == 0) reim4_from_cplx_ref(p, r, a); else if (var == 1) reim4_from_cplx_fma(p, r, a); else reim4_from_cplx(p, r, a);
  free(p);
}
void call_to(int var, uint64_t m, double* r, const double* a) {
  REIM4_TO_CPLX_PRECOMP* p = new_reim4_to_cplx_precomp((uint32_t)m);
  if (var == 0) reim4_to_cplx_ref(p, r, a); else if (var == 1) reim4_to_cplx_fma(p, r, a); else reim4_to_cplx(p, r, a);
  free(p);
}

// from_cplx (variant f1) then to_cplx (variant f2): two cases, round trip = identity on all 2m doubles
void layout_conv(Out& out, Rng& rng, int f1, int f2, uint64_t m) {
  uint64_t n = 2 * m, nd = PAD + n + PAD;
  double* x = dalloc(n);
  double* r4 = dalloc(nd);
  double* y = dalloc(nd);
  for (uint64_t i = 0; i < n; i++) x[i] = gen_pattern(rng);
  for (uint64_t i = 0; i < nd; i++) { r4[i] = gen_pattern(rng); y[i] = gen_pattern(rng); }
  emit_head(out, "fromcplx", CV[f1], {m, PAD});
  emit_buf(out, r4, nd);
  emit_buf(out, x, n);
  std::vector<uint64_t> before(nd);
  for (uint64_t i = 0; i < nd; i++) before[i] = d2bits(r4[i]);
  call_from(f1, m, r4 + PAD, x);
  put_f64bits(out.real, r4, nd);
  // oracle: block b holds the real parts of complexes 4b..4b+3 in its first half and their imaginary
  // parts, in the same order, in the second half; every complex of the input appears exactly once; canaries kept.
  std::string verdict = "ok";
  for (uint64_t i = 0; i < PAD && verdict == "ok"; i++) {
    if (d2bits(r4[i]) != before[i]) verdict = failmsg("fromcplx front canary", i, before[i], d2bits(r4[i]));
    if (d2bits(r4[PAD + n + i]) != before[PAD + n + i]) verdict = failmsg("fromcplx back canary", PAD + n + i, before[PAD + n + i], d2bits(r4[PAD + n + i]));
  }
  for (uint64_t b = 0; b < m / 4 && verdict == "ok"; b++) {
    int seen = 0;
    for (uint64_t k = 0; k < 4; k++) {
      uint64_t re = d2bits(r4[PAD + 8 * b + k]), im = d2bits(r4[PAD + 8 * b + 4 + k]);
      for (uint64_t c = 0; c < 4; c++)
        if (!(seen & (1 << c)) && d2bits(x[2 * (4 * b + c)]) == re && d2bits(x[2 * (4 * b + c) + 1]) == im) { seen |= 1 << c; break; }
    }
    if (seen != 15) verdict = failmsg("fromcplx block is not a pairing of complexes 4b..4b+3", b, 15, seen);
  }
  out.endcase(verdict);
  out.count("op_fromcplx");
  out.count(std::string("variant_") + CV[f1]);

  emit_head(out, "tocplx", CV[f2], {m, PAD});
  emit_buf(out, y, nd);
  emit_buf(out, r4 + PAD, n);
  std::vector<uint64_t> exp(nd);
  for (uint64_t i = 0; i < nd; i++) exp[i] = d2bits(y[i]);
  for (uint64_t i = 0; i < n; i++) exp[PAD + i] = d2bits(x[i]);  // round trip: identity on all 2m doubles
  call_to(f2, m, y + PAD, r4 + PAD);
  put_f64bits(out.real, y, nd);
  out.endcase(cmp_bits(y, exp, "roundtrip"));
  out.count("op_tocplx");
  out.count(std::string("variant_") + CV[f2]);
  free(x);
  free(r4);
  free(y);
}

// ------------------------------------------------------------------------------------------------
// arithmetic stream

enum { V_INT, V_UNIT, V_ZEROS, V_RANGE, V_TINY, NVCLS };
const char* VCLS[] = {"int", "unit", "zeros", "range", "tiny"};

double gen_val(Rng& r, int cls) {
  switch (cls) {
    case V_INT: return (double)r.sbits(20);
    case V_UNIT: { double x = (double)(r.next() >> 11) * 0x1p-53; return (r.next() & 1) ? x : -x; }
    case V_ZEROS:
      switch (r.below(6)) {
        case 0: return 0.0;
        case 1: return -0.0;
        case 2: return 1.0;
        case 3: return -1.0;
        case 4: return (double)r.sbits(3);
        default: return -0.0;
      }
    case V_RANGE: { double x = ldexp(1.0 + (double)(r.next() >> 12) * 0x1p-52, (int)r.range(-300, 300)); return (r.next() & 1) ? x : -x; }
    default: { double x = ldexp(1.0 + (double)(r.next() >> 12) * 0x1p-52, (int)r.range(-560, -500)); return (r.next() & 1) ? x : -x; }
  }
}

struct Acc {  // one complex output: exact value (long double) and the magnitude the error is relative to
  long double re = 0, im = 0, sre = 0, sim = 0;
  int n = 0;
  void init(double r, double i) { re = r; im = i; sre = fabsl((long double)r); sim = fabsl((long double)i); n++; }
  void addprod(double a, double b, double c, double d) {
    long double A = a, B = b, C = c, D = d;
    re += A * C - B * D;
    im += A * D + B * C;
    sre += fabsl(A * C) + fabsl(B * D);
    sim += fabsl(A * D) + fabsl(B * C);
    n++;
  }
  std::string check(double gre, double gim, int exact, uint64_t where) const {
    long double tol_re = (n + 2) * 0x1p-52L * sre + (n + 2) * 0x1p-1073L;
    long double tol_im = (n + 2) * 0x1p-52L * sim + (n + 2) * 0x1p-1073L;
    if (exact) tol_re = tol_im = 0;
    char buf[240];
    if (!(fabsl((long double)gre - re) <= tol_re)) {
      snprintf(buf, sizeof buf, "FAIL re of output %" PRIu64 ": got %.17g exact %.21Lg tol %.6Lg", where, gre, re, tol_re);
      return buf;
    }
    if (!(fabsl((long double)gim - im) <= tol_im)) {
      snprintf(buf, sizeof buf, "FAIL im of output %" PRIu64 ": got %.17g exact %.21Lg tol %.6Lg", where, gim, im, tol_im);
      return buf;
    }
    return "ok";
  }
};

struct ArithCase {
  const char* op;
  const char* variant;
  std::vector<uint64_t> ps;  // params (without doff)
  uint64_t nd, nu, nv;       // payload sizes (doubles)
  int cls;
};

struct Bufs {
  double *dst, *u, *v;
  uint64_t nd, nu, nv;
  std::vector<double> dst0;
};

Bufs arith_begin(Out& out, Rng& rng, const ArithCase& c, bool dst_is_input) {
  Bufs b;
  b.nd = PAD + c.nd + PAD; b.nu = c.nu; b.nv = c.nv;
  b.dst = dalloc(b.nd); b.u = dalloc(b.nu); b.v = dalloc(b.nv);
  for (uint64_t i = 0; i < b.nd; i++) b.dst[i] = gen_pattern(rng);
  if (dst_is_input) for (uint64_t i = 0; i < c.nd; i++) b.dst[PAD + i] = gen_val(rng, c.cls);
  for (uint64_t i = 0; i < b.nu; i++) b.u[i] = gen_val(rng, c.cls);
  for (uint64_t i = 0; i < b.nv; i++) b.v[i] = gen_val(rng, c.cls);
  std::vector<uint64_t> ps = c.ps;
  ps.push_back(PAD);
  emit_head(out, c.op, c.variant, ps);
  emit_buf(out, b.dst, b.nd);
  emit_buf(out, b.u, b.nu);
  emit_buf(out, b.v, b.nv);
  b.dst0.assign(b.dst, b.dst + b.nd);
  return b;
}

std::string canaries(const Bufs& b, uint64_t written) {
  for (uint64_t i = 0; i < b.nd; i++) {
    if (i >= PAD && i < PAD + written) continue;
    if (d2bits(b.dst[i]) != d2bits(b.dst0[i])) return failmsg("cell outside the result", i, d2bits(b.dst0[i]), d2bits(b.dst[i]));
  }
  return "ok";
}

void arith_end(Out& out, Bufs& b, const ArithCase& c, const std::string& verdict) {
  put_f64bits(out.real, b.dst, b.nd);
  out.endcase(verdict);
  out.count(std::string("op_") + c.op);
  out.count(std::string("variant_") + c.variant);
  out.count(std::string("values_") + VCLS[c.cls]);
  free(b.dst); free(b.u); free(b.v);
}

// reim4_add / reim4_mul / reim4_add_mul
void arith_blk(Out& out, Rng& rng, int which, int cls) {
  const char* names[] = {"add", "mul", "addmul"};
  ArithCase c{names[which], "ref", {}, 8, 8, 8, cls};
  Bufs b = arith_begin(out, rng, c, which == 2);
  double* d = b.dst + PAD;
  if (which == 0) reim4_add(d, b.u, b.v); else if (which == 1) reim4_mul(d, b.u, b.v); else reim4_add_mul(d, b.u, b.v);
  std::string verdict = canaries(b, 8);
  for (int k = 0; k < 4 && verdict == "ok"; k++) {
    Acc a;
    if (which == 0) {
      a.init(b.u[k], b.u[k + 4]);
      a.re += b.v[k]; a.im += b.v[k + 4]; a.sre += fabsl((long double)b.v[k]); a.sim += fabsl((long double)b.v[k + 4]);
    } else {
      if (which == 2) a.init(b.dst0[PAD + k], b.dst0[PAD + k + 4]);
      a.addprod(b.u[k], b.u[k + 4], b.v[k], b.v[k + 4]);
    }
    verdict = a.check(d[k], d[k + 4], cls == V_INT, k);
  }
  arith_end(out, b, c, verdict);
}

// dot products: cols = 1 or 2
void arith_dot(Out& out, Rng& rng, int cols, int avx2, uint64_t nrows, int cls) {
  ArithCase c{cols == 1 ? "mat1col" : "mat2cols", avx2 ? "avx2" : "ref", {nrows}, 8ull * cols, 8 * nrows, 8 * cols * nrows, cls};
  Bufs b = arith_begin(out, rng, c, false);
  double* d = b.dst + PAD;
  if (cols == 1) {
    if (avx2) reim4_vec_mat1col_product_avx2(nrows, d, b.u, b.v); else reim4_vec_mat1col_product_ref(nrows, d, b.u, b.v);
  } else {
    if (avx2) reim4_vec_mat2cols_product_avx2(nrows, d, b.u, b.v); else reim4_vec_mat2cols_product_ref(nrows, d, b.u, b.v);
  }
  std::string verdict = canaries(b, 8 * cols);
  for (int col = 0; col < cols && verdict == "ok"; col++)
    for (int k = 0; k < 4 && verdict == "ok"; k++) {
      Acc a;
      for (uint64_t i = 0; i < nrows; i++) {
        const double* ub = b.u + 8 * i;
        const double* vb = b.v + 8 * cols * i + 8 * col;
        a.addprod(ub[k], ub[k + 4], vb[k], vb[k + 4]);
      }
      verdict = a.check(d[8 * col + k], d[8 * col + k + 4], cls == V_INT, 4 * col + k);
    }
  if (nrows == 0) out.count("len_0");
  arith_end(out, b, c, verdict);
}

// convolution: kind 1 = 1coeff(k), 2 = 2coeff(k), 0 = window (dsize, doffset)
void arith_conv(Out& out, Rng& rng, int kind, uint64_t k_or_size, uint64_t offset, uint64_t sizea, uint64_t sizeb, int cls) {
  uint64_t ncoef = kind == 1 ? 1 : kind == 2 ? 2 : k_or_size;
  uint64_t first = kind == 0 ? offset : k_or_size;
  ArithCase c{kind == 1 ? "conv1" : kind == 2 ? "conv2" : "conv", "ref", {}, 8 * ncoef, 8 * sizea, 8 * sizeb, cls};
  if (kind == 0) c.ps = {k_or_size, offset, sizea, sizeb}; else c.ps = {k_or_size, sizea, sizeb};
  Bufs b = arith_begin(out, rng, c, false);
  double* d = b.dst + PAD;
  if (kind == 1) reim4_convolution_1coeff_ref(k_or_size, d, b.u, sizea, b.v, sizeb);
  else if (kind == 2) reim4_convolution_2coeff_ref(k_or_size, d, b.u, sizea, b.v, sizeb);
  else reim4_convolution_ref(d, k_or_size, offset, b.u, sizea, b.v, sizeb);
  std::string verdict = canaries(b, 8 * ncoef);
  long nonempty = 0;
  for (uint64_t t = 0; t < ncoef && verdict == "ok"; t++) {
    uint64_t kk = first + t;
    for (int l = 0; l < 4 && verdict == "ok"; l++) {
      Acc a;
      // definition: sum over all (i, j) with i + j = kk, i < sizea, j < sizeb
      for (uint64_t i = 0; i < sizea; i++)
        for (uint64_t j = 0; j < sizeb; j++)
          if (i + j == kk) a.addprod(b.u[8 * i + l], b.u[8 * i + 4 + l], b.v[8 * j + l], b.v[8 * j + 4 + l]);
      if (a.n) nonempty++;
      verdict = a.check(d[8 * t + l], d[8 * t + 4 + l], cls == V_INT, 4 * t + l);
    }
  }
  if (!nonempty) out.count("window_empty");
  if (sizea == 0 || sizeb == 0) out.count("len_0");
  arith_end(out, b, c, verdict);
}

// whole-vector multiply / multiply-accumulate.  layout: 0 reim4, 1 reim, 2 cplx;  variant: 0 ref, 1 fma, 2 sse, 3 avx512
void arith_fftvec(Out& out, Rng& rng, int layout, int addmul, int variant, uint64_t m, int cls) {
  const char* ops[3][2] = {{"r4mul", "r4addmul"}, {"remul", "readdmul"}, {"cxmul", "cxaddmul"}};
  const char* vars[] = {"ref", "fma", "sse", "avx512"};
  ArithCase c{ops[layout][addmul], vars[variant], {m}, 2 * m, 2 * m, 2 * m, cls};
  Bufs b = arith_begin(out, rng, c, addmul);
  double* d = b.dst + PAD;
  // tables from the public constructors (they hold the dimension the kernels walk over); the kernels are called directly
  if (layout == 0) {
    if (addmul) {
      REIM4_FFTVEC_ADDMUL_PRECOMP* p = new_reim4_fftvec_addmul_precomp((uint32_t)m);
      if (variant) reim4_fftvec_addmul_fma(p, d, b.u, b.v); else reim4_fftvec_addmul_ref(p, d, b.u, b.v);
      free(p);
    } else {
      REIM4_FFTVEC_MUL_PRECOMP* p = new_reim4_fftvec_mul_precomp((uint32_t)m);
      if (variant) reim4_fftvec_mul_fma(p, d, b.u, b.v); else reim4_fftvec_mul_ref(p, d, b.u, b.v);
      free(p);
    }
  } else if (layout == 1) {
    if (addmul) {
      REIM_FFTVEC_ADDMUL_PRECOMP* p = new_reim_fftvec_addmul_precomp((uint32_t)m);
      if (variant) reim_fftvec_addmul_fma(p, d, b.u, b.v); else reim_fftvec_addmul_ref(p, d, b.u, b.v);
      free(p);
    } else {
      REIM_FFTVEC_MUL_PRECOMP* p = new_reim_fftvec_mul_precomp((uint32_t)m);
      if (variant) reim_fftvec_mul_fma(p, d, b.u, b.v); else reim_fftvec_mul_ref(p, d, b.u, b.v);
      free(p);
    }
  } else {
    bool pow2 = !(m & (m - 1));  // the cplx constructors refuse other dimensions: build the table by hand then
    if (addmul) {
      CPLX_FFTVEC_ADDMUL_PRECOMP local; local.function = nullptr; local.m = (int64_t)m;
      CPLX_FFTVEC_ADDMUL_PRECOMP* p = pow2 ? new_cplx_fftvec_addmul_precomp((uint32_t)m) : &local;
      switch (variant) {
        case 0: cplx_fftvec_addmul_ref(p, d, b.u, b.v); break;
        case 1: cplx_fftvec_addmul_fma(p, d, b.u, b.v); break;
        case 2: cplx_fftvec_addmul_sse(p, d, b.u, b.v); break;
        default: cplx_fftvec_addmul_avx512(p, d, b.u, b.v); break;
      }
      if (pow2) free(p);
    } else {
      CPLX_FFTVEC_MUL_PRECOMP local; local.function = nullptr; local.m = (int64_t)m;
      CPLX_FFTVEC_MUL_PRECOMP* p = pow2 ? new_cplx_fftvec_mul_precomp((uint32_t)m) : &local;
      if (variant) cplx_fftvec_mul_fma(p, d, b.u, b.v); else cplx_fftvec_mul_ref(p, d, b.u, b.v);
      if (pow2) free(p);
    }
  }
  std::string verdict = canaries(b, 2 * m);
  for (uint64_t e = 0; e < m && verdict == "ok"; e++) {
    uint64_t ire, iim;
    if (layout == 0) { ire = 8 * (e / 4) + e % 4; iim = ire + 4; }
    else if (layout == 1) { ire = e; iim = e + m; }
    else { ire = 2 * e; iim = 2 * e + 1; }
    Acc a;
    if (addmul) a.init(b.dst0[PAD + ire], b.dst0[PAD + iim]);
    a.addprod(b.u[ire], b.u[iim], b.v[ire], b.v[iim]);
    verdict = a.check(d[ire], d[iim], cls == V_INT, e);
  }
  arith_end(out, b, c, verdict);
}

bool has_avx512() { return __builtin_cpu_supports("avx512f") && __builtin_cpu_supports("avx512dq") && __builtin_cpu_supports("avx512vl"); }

}  // namespace

STREAM(r4_layout) {
  std::vector<uint64_t> ms;
  if (thorough) { for (uint64_t m = 4; m <= 256; m += 4) ms.push_back(m); }
  else ms = {4, 8, 12, 16, 20, 32, 48, 64, 100, 128, 256};
  uint64_t maxrows = thorough ? 6 : 3;
  for (uint64_t m : ms) {
    std::vector<uint64_t> blks;
    if (m <= 32 || (thorough && m <= 64)) for (uint64_t b = 0; b < m / 4; b++) blks.push_back(b);
    else { blks = {0, 1, m / 4 - 1, (uint64_t)rng.below(m / 4)}; }
    for (uint64_t blk : blks)
      for (int avx = 0; avx < 2; avx++) {
        layout_extract(out, rng, L_EXTRACT, avx, m, 1, blk, 0);
        layout_save(out, rng, avx, m, blk);
        for (uint64_t rows = 0; rows <= maxrows; rows++) {
          if (m > 64 && rows != 0 && rows != maxrows && rows != (uint64_t)(1 + rng.below(maxrows))) continue;
          layout_extract(out, rng, L_EXTRACTC, avx, m, rows, blk, 0);
          uint64_t sls[] = {2 * m, 2 * m + 4, 2 * m + 1, 3 * m + 7};
          for (int s = 0; s < 4; s++) {
            if (m > 32 && s >= 2 && !thorough) continue;
            layout_extract(out, rng, L_EXTRACTSL, avx, m, rows, blk, sls[s]);
          }
        }
      }
    for (int f1 = 0; f1 < 3; f1++)
      for (int f2 = 0; f2 < 3; f2++) layout_conv(out, rng, f1, f2, m);
  }
  // large dimensions (sampled)
  std::vector<uint64_t> big = thorough ? std::vector<uint64_t>{512, 1000, 4096, 16384, 65536} : std::vector<uint64_t>{1024};
  for (uint64_t m : big) {
    for (int avx = 0; avx < 2; avx++) {
      uint64_t blk = (avx ? m / 4 - 1 : rng.below(m / 4));
      layout_extract(out, rng, L_EXTRACT, avx, m, 1, blk, 0);
      layout_save(out, rng, avx, m, blk);
      layout_extract(out, rng, L_EXTRACTC, avx, m, 2, blk, 0);
      layout_extract(out, rng, L_EXTRACTSL, avx, m, 2, m / 4 - 1 - blk, 2 * m + 4 * (1 + rng.below(5)));
    }
    layout_conv(out, rng, 0, 1, m);
    layout_conv(out, rng, 1, 0, m);
    if (!(m & (m - 1))) layout_conv(out, rng, 2, 2, m);
  }
}

STREAM(r4_arith) {
  // block operations
  for (int cls = 0; cls < NVCLS; cls++)
    for (int which = 0; which < 3; which++)
      for (int t = 0; t < (thorough ? 20 : 4); t++) arith_blk(out, rng, which, cls);
  // dot products, lengths 0..5 (thorough: up to 64 exhaustively, sampled up to 200)
  std::vector<uint64_t> lens;
  for (uint64_t n = 0; n <= (thorough ? 64 : 5); n++) lens.push_back(n);
  if (thorough) { lens.push_back(100); lens.push_back(199); lens.push_back(200); } else for (uint64_t n : {7, 8, 9, 15, 16, 17, 24, 32, 33}) lens.push_back(n);  // around every unroll factor
  for (uint64_t n : lens)
    for (int cols = 1; cols <= 2; cols++)
      for (int avx2 = 0; avx2 < 2; avx2++)
        for (int cls = 0; cls < NVCLS; cls++) {
          if (thorough && n > 8 && cls != (int)(n % NVCLS) && cls != V_INT) continue;
          arith_dot(out, rng, cols, avx2, n, cls);
        }
  // convolution: every k around the window, every pair of sizes
  uint64_t smax = thorough ? 8 : 5;
  for (uint64_t sa = 0; sa <= smax; sa++)
    for (uint64_t sb = 0; sb <= smax; sb++) {
      for (uint64_t k = 0; k <= sa + sb + 1; k++) {
        int cls = (int)rng.below(NVCLS);
        arith_conv(out, rng, 1, k, 0, sa, sb, cls);
        if (thorough || ((k + sa + sb) % 3 == 0)) arith_conv(out, rng, 2, k, 0, sa, sb, (int)rng.below(NVCLS));
      }
      // windows: full product, and offsets/sizes cutting the ends
      arith_conv(out, rng, 0, sa + sb + 1, 0, sa, sb, (int)rng.below(NVCLS));
      for (int t = 0; t < (thorough ? 4 : 1); t++) {
        uint64_t off = rng.below(sa + sb + 2), sz = rng.below(sa + sb + 3);
        arith_conv(out, rng, 0, sz, off, sa, sb, (int)rng.below(NVCLS));
      }
      arith_conv(out, rng, 0, 0, rng.below(4), sa, sb, V_UNIT);
    }
  if (thorough) {
    uint64_t pairs[][2] = {{64, 64}, {1, 64}, {64, 3}, {33, 17}, {0, 64}};
    for (auto& p : pairs) {
      arith_conv(out, rng, 0, p[0] + p[1] + 1, 0, p[0], p[1], V_INT);
      arith_conv(out, rng, 0, 20, rng.below(p[0] + p[1] + 1), p[0], p[1], V_UNIT);
      for (int t = 0; t < 6; t++) arith_conv(out, rng, 1, rng.below(p[0] + p[1] + 2), 0, p[0], p[1], (int)rng.below(NVCLS));
    }
  }
  // whole-vector kernels
  std::vector<uint64_t> ms = thorough ? std::vector<uint64_t>{1, 2, 3, 4, 5, 8, 12, 16, 20, 24, 32, 40, 64, 100, 128, 256, 1024}
                                      : std::vector<uint64_t>{1, 2, 3, 4, 8, 12, 16, 24, 32, 64};
  bool a512 = has_avx512();
  if (!a512) out.count("avx512_not_available");
  for (uint64_t m : ms)
    for (int layout = 0; layout < 3; layout++)
      for (int addmul = 0; addmul < 2; addmul++)
        for (int variant = 0; variant < 4; variant++) {
          // domains of the kernels (loop structure): see the model
          if (variant >= 2 && !(layout == 2 && addmul)) continue;
          if (layout == 0 && m % 4) continue;  // reim4 layout: whole blocks (ref truncates, fma does not terminate)
          if (layout == 1 && variant == 1 && m % 4) continue;
          if (layout == 2 && variant == 1 && (addmul ? (m % 4 != 0) : (m % 8 != 0))) continue;
          if (layout == 2 && variant == 2 && m % 2) continue;
          if (layout == 2 && variant == 3 && (m % 8 || !a512)) continue;
          for (int cls = 0; cls < NVCLS; cls++) {
            if (m > 64 && cls != V_UNIT && cls != V_RANGE) continue;
            arith_fftvec(out, rng, layout, addmul, variant, m, cls);
          }
        }
  if (thorough)
    for (uint64_t m : {(uint64_t)8192, (uint64_t)65536})
      for (int layout = 0; layout < 3; layout++)
        for (int addmul = 0; addmul < 2; addmul++)
          for (int variant = 0; variant < 4; variant++) {
            if (variant >= 2 && !(layout == 2 && addmul)) continue;
            if (variant == 3 && !a512) continue;
            if (m == 65536 && ((layout + addmul + variant) % 2)) continue;
            arith_fftvec(out, rng, layout, addmul, variant, m, V_UNIT);
          }
}
