// Streams over the single-polynomial kernels of coeffs_arithmetic.c (int64 and double variants).
//   kz <op> nn p k | in…            -> out…
//   kz norm nn 0 k | in… | cin…     -> out… | cout…
// C09: the maps are data-independent signed permutations, so the injective probe in[i] = i+1
// determines the real function completely for a given (nn, p).
#include "hcommon.h"

typedef __int128 i128;
static inline int64_t w64(i128 x) { return (int64_t)(uint64_t)x; }

// independent oracle: closed coefficient formulas in Z[X]/(X^nn+1)
static void oracle_rot(std::vector<int64_t>& r, const std::vector<int64_t>& a, uint64_t nn, int64_t p) {
  i128 twoN = 2 * (i128)nn;
  for (uint64_t k = 0; k < nn; k++) {
    i128 src = (((i128)k - (i128)p) % twoN + twoN) % twoN;
    r[k] = (src < (i128)nn) ? a[(uint64_t)src] : w64(-(i128)a[(uint64_t)(src - nn)]);
  }
}
static void oracle_aut(std::vector<int64_t>& r, const std::vector<int64_t>& a, uint64_t nn, int64_t p) {
  i128 twoN = 2 * (i128)nn;
  i128 pm = ((i128)p % twoN + twoN) % twoN;
  for (uint64_t i = 0; i < nn; i++) {
    i128 e = ((i128)i * pm) % twoN;
    if (e < (i128)nn) r[(uint64_t)e] = a[i]; else r[(uint64_t)(e - nn)] = w64(-(i128)a[i]);
  }
}

enum { K_ROT, K_ROTI, K_MUL, K_MULI, K_AUT, K_AUTI, NK };
static const char* KN[] = {"rotate", "rotate_inplace", "mulxp", "mulxp_inplace", "autom", "autom_inplace"};

static void one(Out& out, Rng& rng, uint64_t nn, int64_t p, int kop, int dbl, int probe) {
  std::vector<int64_t> in(nn), res(nn), exp(nn), tmp(nn);
  for (uint64_t i = 0; i < nn; i++) in[i] = probe ? (int64_t)(i + 1) : pick_i64(rng, 0);
  if (dbl) for (uint64_t i = 0; i < nn; i++) in[i] = probe ? (int64_t)(i + 1) : rng.sbits(40);  // exactly representable
  std::vector<double> din(nn), dres(nn);
  for (uint64_t i = 0; i < nn; i++) { din[i] = (double)in[i]; dres[i] = 12345.0 + i; }
  for (uint64_t i = 0; i < nn; i++) res[i] = (int64_t)rng.next();
  std::vector<int64_t> res0 = res;
  if (dbl) {
    // double variants: compared coefficient-for-coefficient with the int64 model on integer-valued data
    switch (kop) {
      case K_ROT: rnx_rotate_f64(nn, p, dres.data(), din.data()); break;
      case K_ROTI: dres = din; rnx_rotate_inplace_f64(nn, p, dres.data()); break;
      case K_MUL: rnx_mul_xp_minus_one(nn, p, dres.data(), din.data()); break;
      case K_MULI: dres = din; rnx_mul_xp_minus_one_inplace(nn, p, dres.data()); break;
      case K_AUT: rnx_automorphism_f64(nn, p, dres.data(), din.data()); break;
      case K_AUTI: dres = din; rnx_automorphism_inplace_f64(nn, p, dres.data()); break;
    }
    for (uint64_t i = 0; i < nn; i++) res[i] = (int64_t)dres[i];
  } else {
    switch (kop) {
      case K_ROT: znx_rotate_i64(nn, p, res.data(), in.data()); break;
      case K_ROTI: res = in; znx_rotate_inplace_i64(nn, p, res.data()); break;
      case K_MUL: znx_mul_xp_minus_one(nn, p, res.data(), in.data()); break;
      case K_MULI: abort(); break;
      case K_AUT: znx_automorphism_i64(nn, p, res.data(), in.data()); break;
      case K_AUTI: res = in; znx_automorphism_inplace_i64(nn, p, res.data()); break;
    }
  }
  fprintf(out.ops, "kz %s %" PRIu64 " %" PRId64 " 0 | ", KN[kop], nn, p);
  if (probe) fprintf(out.ops, "@probe"); else put_i64s(out.ops, in.data(), nn);
  if (kop == K_AUT) {
    // prior content of the output buffer (all cells are overwritten for odd p; the model takes it anyway)
    fprintf(out.ops, " | ");
    if (dbl) { for (uint64_t i = 0; i < nn; i++) fprintf(out.ops, i ? " %d" : "%d", (int)(12345 + i)); }
    else put_i64s(out.ops, res0.data(), nn);
  }
  put_i64s(out.real, res.data(), nn);
  // oracle
  if (kop == K_AUT || kop == K_AUTI) oracle_aut(exp, in, nn, p);
  else {
    oracle_rot(exp, in, nn, p);
    if (kop == K_MUL || kop == K_MULI) for (uint64_t i = 0; i < nn; i++) exp[i] = w64((i128)exp[i] - in[i]);
  }
  std::string verdict = "ok";
  for (uint64_t i = 0; i < nn; i++)
    if (exp[i] != res[i]) {
      char buf[160];
      snprintf(buf, sizeof buf, "FAIL %s%s nn=%" PRIu64 " p=%" PRId64 " coeff %" PRIu64 " expected %" PRId64 " got %" PRId64,
               dbl ? "rnx_" : "znx_", KN[kop], nn, p, i, exp[i], res[i]);
      verdict = buf;
      break;
    }
  out.endcase(verdict);
  out.count(std::string(dbl ? "rnx_" : "znx_") + KN[kop]);
}

static void all_kernels(Out& out, Rng& rng, uint64_t nn, int64_t p, int probe, int with_dbl) {
  for (int dbl = 0; dbl <= with_dbl; dbl++)
    for (int k = 0; k < NK; k++) {
      if ((k == K_AUT || k == K_AUTI) && !(p & 1)) continue;
      if (k == K_MULI && !dbl) continue;  // there is no int64 in-place (X^p-1) kernel in the library
      one(out, rng, nn, p, k, dbl, probe);
    }
}

static std::vector<int64_t> special_ps(Rng& rng, uint64_t nn, int nrandom) {
  std::vector<int64_t> ps;
  int64_t N = (int64_t)nn;
  int64_t base[] = {0, 1, -1, 2, 3, 5, 25, N - 1, N, N + 1, 2 * N - 1, 2 * N, 2 * N + 1, -N, -N + 1, -N - 1, 3 * N + 1, N / 2 + 1, N / 2 - 1, 3 * N / 2 + 1};
  for (int64_t b : base) ps.push_back(b);
  for (int64_t s = 2; s <= 2 * N; s *= 2) { ps.push_back(s + 1); ps.push_back(s - 1); ps.push_back(2 * N - s + 1); ps.push_back(N + s + 1); }
  int64_t f = 1;
  for (int i = 0; i < 20; i++) { f = (f * 5) % (2 * N > 0 ? 2 * N : 1); ps.push_back(f); ps.push_back(2 * N - f); }
  for (int i = 0; i < nrandom; i++) ps.push_back(rng.range(-4 * N, 4 * N));
  // far outside [0, 2N): huge, negative, near the int64 limits
  ps.push_back(INT64_MAX); ps.push_back(INT64_MIN + 1); ps.push_back(INT64_MAX - 1); ps.push_back(INT64_MIN + 2);
  ps.push_back((int64_t)(rng.next() >> 1)); ps.push_back(-(int64_t)(rng.next() >> 1)); ps.push_back((int64_t)(rng.next() >> 1) | 1);
  return ps;
}

STREAM(kz_probe) {
  // exhaustive residues p mod 2N for small N (all odd residues for automorphisms), plus a band outside
  uint64_t exh_max = thorough ? 1024 : 128;
  for (uint64_t nn = 1; nn <= exh_max; nn *= 2) {
    int64_t lo = -(int64_t)(nn <= 16 ? 2 * nn : 0), hi = (int64_t)(2 * nn) + (nn <= 16 ? (int64_t)(2 * nn) : 0);
    for (int64_t p = lo; p < hi; p++) all_kernels(out, rng, nn, p, 1, nn <= 64);
    out.count("exhaustive_dims");
  }
  uint64_t top = thorough ? 65536 : 4096;
  for (uint64_t nn = exh_max * 2; nn <= top; nn *= 2) {
    auto ps = special_ps(rng, nn, thorough ? 24 : 6);
    if (!thorough && nn > 1024) ps.resize(ps.size() / 2);
    for (int64_t p : ps) all_kernels(out, rng, nn, p, 1, 0);
    out.count("sampled_dims");
  }
  // random data (not the probe): wrap-around values through the same maps
  for (uint64_t nn = 1; nn <= 64; nn *= 2)
    for (int t = 0; t < 6; t++) all_kernels(out, rng, nn, special_ps(rng, nn, 1)[rng.below(20)], 0, 0);
}

// ---------------------------------------------------------------------------------------------------
// C05: znx_normalize in its 8 argument shapes (out / carry_in / carry_out absent or not, in place or not)
static void norm_case(Out& out, Rng& rng, uint64_t nn, uint64_t k, const std::vector<int64_t>& in, const std::vector<int64_t>& cin,
                      int has_out, int has_cin, int has_cout, int alias) {
  std::vector<int64_t> a = in, c = cin, o(nn), co(nn);
  for (uint64_t i = 0; i < nn; i++) { o[i] = (int64_t)rng.next(); co[i] = (int64_t)rng.next(); }
  std::vector<int64_t> o0 = o, co0 = co;
  int64_t* pout = has_out ? o.data() : nullptr;
  int64_t* pcout = has_cout ? co.data() : nullptr;
  const int64_t* pin = a.data();
  const int64_t* pcin = has_cin ? c.data() : nullptr;
  // aliasing patterns of the existing tests: out==in, cout==cin, cout==in, out==cin
  if (alias == 1 && has_out) pout = a.data();
  if (alias == 2 && has_cout && has_cin) pcout = c.data();
  if (alias == 3 && has_cout && !(has_out)) pcout = a.data();
  if (alias == 4 && has_out && has_cin) pout = c.data();
  znx_normalize(nn, k, pout, pcout, pin, pcin);
  fprintf(out.ops, "kz norm %" PRIu64 " 0 %" PRIu64 " | ", nn, k);
  put_i64s(out.ops, in.data(), nn);
  if (has_cin) { fprintf(out.ops, " | "); put_i64s(out.ops, cin.data(), nn); }
  // real line: out | cout  (values the call stored; when a pointer is absent we print the model-independent
  // exact value instead, computed below, so that the line format is uniform)
  std::vector<i128> ey(nn), ec(nn);
  std::string verdict = "ok";
  i128 B = (i128)1 << k, H = B >> 1;
  for (uint64_t i = 0; i < nn; i++) {
    i128 v = (i128)in[i] + (has_cin ? (i128)cin[i] : 0);
    i128 d = (((v + H) % B) + B) % B - H;
    ey[i] = d;
    ec[i] = (v - d) / B;
  }
  const int64_t* so = has_out ? pout : nullptr;
  const int64_t* sc = has_cout ? pcout : nullptr;
  for (uint64_t i = 0; i < nn; i++) {
    if (so && (i128)so[i] != ey[i]) { verdict = "FAIL digit"; }
    if (sc && (i128)sc[i] != ec[i]) { verdict = "FAIL carry"; }
  }
  for (uint64_t i = 0; i < nn; i++) fprintf(out.real, i ? " %" PRId64 : "%" PRId64, so ? so[i] : (int64_t)ey[i]);
  fprintf(out.real, " | ");
  for (uint64_t i = 0; i < nn; i++) fprintf(out.real, i ? " %" PRId64 : "%" PRId64, sc ? sc[i] : (int64_t)ec[i]);
  if (verdict != "ok") {
    char buf[128];
    snprintf(buf, sizeof buf, " znx_normalize k=%" PRIu64 " out=%d cin=%d cout=%d alias=%d", k, has_out, has_cin, has_cout, alias);
    verdict += buf;
  }
  out.endcase(verdict);
  out.count("norm_shape_" + std::to_string(has_out) + std::to_string(has_cin) + std::to_string(has_cout));
}

STREAM(kz_norm) {
  // exhaustive: small k, one coefficient per value pair in a box
  for (uint64_t k = 1; k <= (thorough ? 4u : 3u); k++) {
    int64_t R = (int64_t)1 << (2 * k);
    std::vector<int64_t> in, cin;
    for (int64_t x = -R; x <= R; x++)
      for (int64_t c = -R; c <= R; c += (thorough ? 1 : 3)) { in.push_back(x); cin.push_back(c); }
    for (int ho = 0; ho < 2; ho++)
      for (int hc = 0; hc < 2; hc++)
        for (int hco = 0; hco < 2; hco++) {
          if (!ho && !hco) continue;
          norm_case(out, rng, in.size(), k, in, cin, ho, hc, hco, 0);
        }
    out.count("exhaustive_k");
  }
  // every k: boundary magnitudes and maximal carry chains, all shapes and aliasing patterns
  for (uint64_t k = 1; k <= 62; k++) {
    if (!thorough && !(k <= 4 || k == 19 || k == 31 || k == 32 || k == 33 || k >= 60)) continue;
    std::vector<int64_t> in, cin;
    int64_t H = (int64_t)1 << (k - 1), M = (int64_t)1 << 62;
    int64_t xs[] = {0, 1, -1, H - 1, H, -H, -H - 1, H + 1, 2 * H - 1, 2 * H, -2 * H, M, -M, M - 1, -M + 1, M - H, -M + H, M - H - 1};
    for (int64_t x : xs)
      for (int64_t c : xs) { in.push_back(x); cin.push_back(c); }
    for (int t = 0; t < 40; t++) { in.push_back(rng.sbits(62)); cin.push_back(rng.sbits(t % 2 ? 62 : (int)(63 - k))); }
    for (int ho = 0; ho < 2; ho++)
      for (int hc = 0; hc < 2; hc++)
        for (int hco = 0; hco < 2; hco++) {
          if (!ho && !hco) continue;
          for (int alias = 0; alias < 5; alias++) norm_case(out, rng, in.size(), k, in, cin, ho, hc, hco, alias);
        }
    out.count("boundary_k");
  }
}

// ---------------------------------------------------------------------------------------------------
// the double-precision kernels on genuine binary64 data (non-integers, signed zeros, wide exponent range):
// bit-exact against the model; in-place variants must equal the out-of-place ones numerically (C09)
STREAM(kz_f64) {
  for (uint64_t nn = 1; nn <= (thorough ? 1024u : 64u); nn *= 2)
    for (int rep = 0; rep < (thorough ? 12 : 6); rep++) {
      std::vector<double> in(nn), res(nn), res0(nn);
      for (uint64_t i = 0; i < nn; i++) {
        switch (rng.below(6)) {
          case 0: in[i] = (rng.next() & 1) ? 0.0 : -0.0; break;
          case 1: in[i] = (double)rng.sbits(20); break;
          case 2: in[i] = ldexp((double)rng.sbits(52), (int)rng.range(-200, 200)); break;
          default: in[i] = (double)rng.sbits(40) / 3.0; break;
        }
        res0[i] = 7.25 + (double)i;
      }
      if (nn >= 2 && rep == 0) { in[1] = -in[0]; }  // exact cancellations in (X^p - 1)
      int64_t p = special_ps(rng, nn, 2)[rng.below(24)];
      for (int k = 0; k < NK; k++) {
        if ((k == K_AUT || k == K_AUTI) && !(p & 1)) continue;
        res = res0;
        std::vector<double> ref(nn);
        switch (k) {
          case K_ROT: rnx_rotate_f64(nn, p, res.data(), in.data()); break;
          case K_ROTI: res = in; rnx_rotate_inplace_f64(nn, p, res.data()); rnx_rotate_f64(nn, p, ref.data(), in.data()); break;
          case K_MUL: rnx_mul_xp_minus_one(nn, p, res.data(), in.data()); break;
          case K_MULI: res = in; rnx_mul_xp_minus_one_inplace(nn, p, res.data()); rnx_mul_xp_minus_one(nn, p, ref.data(), in.data()); break;
          case K_AUT: rnx_automorphism_f64(nn, p, res.data(), in.data()); break;
          case K_AUTI: res = in; rnx_automorphism_inplace_f64(nn, p, res.data()); rnx_automorphism_f64(nn, p, ref.data(), in.data()); break;
        }
        fprintf(out.ops, "kf %s %" PRIu64 " %" PRId64 " | ", KN[k], nn, p);
        put_f64bits(out.ops, in.data(), nn);
        if (k == K_AUT) { fprintf(out.ops, " | "); put_f64bits(out.ops, res0.data(), nn); }
        put_f64bits(out.real, res.data(), nn);
        std::string verdict = "ok";
        if (k == K_ROTI || k == K_MULI || k == K_AUTI)
          for (uint64_t i = 0; i < nn; i++)
            if (!(res[i] == ref[i])) { verdict = std::string("FAIL rnx_") + KN[k] + " differs numerically from the out-of-place variant"; break; }
        out.endcase(verdict);
        out.count(std::string("f64_") + KN[k]);
      }
    }
}
