// spqh <stream> <outprefix> <seed> <tier:quick|thorough>
#include <xmmintrin.h>
#include <fenv.h>
#include "hcommon.h"

static std::vector<StreamReg>& regs() {
  static std::vector<StreamReg> r;
  return r;
}
void register_stream(const char* name, StreamFn fn) { regs().push_back({name, fn}); }

int main(int argc, char** argv) {
  if (argc < 5) {
    fprintf(stderr, "usage: spqh <stream> <outprefix> <seed> <quick|thorough>\nstreams:");
    for (auto& r : regs()) fprintf(stderr, " %s", r.name);
    fprintf(stderr, "\n");
    return 2;
  }
  std::string name = argv[1], pre = argv[2];
  uint64_t seed = strtoull(argv[3], 0, 10);
  int thorough = strcmp(argv[4], "thorough") == 0;
  for (auto& r : regs()) {
    if (name == r.name) {
      Out out;
      out.ops = fopen((pre + ".ops").c_str(), "w");
      out.real = fopen((pre + ".real").c_str(), "w");
      out.oracle = fopen((pre + ".oracle").c_str(), "w");
      if (!out.ops || !out.real || !out.oracle) { perror("open"); return 2; }
      uint64_t hname = 1469598103934665603ull;
      for (char ch : name) hname = (hname ^ (uint8_t)ch) * 1099511628211ull;
      Rng rng(seed ^ hname);
      const unsigned mxcsr0 = _mm_getcsr() & ~0x3Fu;  // control bits only (rounding mode, FTZ, DAZ, exception masks)
      const int round0 = fegetround();
      r.fn(out, rng, thorough);
      {
        // no library call may leave the floating-point control state changed (hidden state carried between calls)
        const unsigned mxcsr1 = _mm_getcsr() & ~0x3Fu;
        fprintf(out.ops, "ca nop fp-control-state-after-stream %s", name.c_str());
        fprintf(out.real, "nop");
        char buf[160];
        snprintf(buf, sizeof buf, "FAIL the library changed the floating-point control state (MXCSR control bits %#x -> %#x, rounding %d -> %d)", mxcsr0, mxcsr1, round0, fegetround());
        out.endcase((mxcsr1 != mxcsr0 || fegetround() != round0) ? buf : "ok");
      }
      fclose(out.ops);
      fclose(out.real);
      fclose(out.oracle);
      FILE* m = fopen((pre + ".meta").c_str(), "w");
      fprintf(m, "{\"cases\": %ld, \"oracle_fail\": %ld", out.cases, out.oracle_fail);
      for (auto& kv : out.counters) fprintf(m, ", \"%s\": %ld", kv.first.c_str(), kv.second);
      fprintf(m, "}\n");
      fclose(m);
      return 0;
    }
  }
  fprintf(stderr, "unknown stream %s\n", name.c_str());
  return 2;
}
