// spqh <stream> <outprefix> <seed> <tier:quick|thorough>
#include "hcommon.h"

static std::vector<StreamReg>& regs() {
  static std::vector<StreamReg> r;
  return r;
}
void register_stream(const char* name, StreamFn fn) { regs().push_back({name, fn}); }

int main(int argc, char** argv) {
  if (argc < 5) {
    fprintf(stderr, "usage: spqh <stream> <outprefix> <seed> <quick|thorough>\nstreams:");
    for (auto& r : regs()) fprintf(stderr, " %s", r.name);
    fprintf(stderr, "\n");
    return 2;
  }
  std::string name = argv[1], pre = argv[2];
  uint64_t seed = strtoull(argv[3], 0, 10);
  int thorough = strcmp(argv[4], "thorough") == 0;
  for (auto& r : regs()) {
    if (name == r.name) {
      Out out;
      out.ops = fopen((pre + ".ops").c_str(), "w");
      out.real = fopen((pre + ".real").c_str(), "w");
      out.oracle = fopen((pre + ".oracle").c_str(), "w");
      if (!out.ops || !out.real || !out.oracle) { perror("open"); return 2; }
      uint64_t hname = 1469598103934665603ull;
      for (char ch : name) hname = (hname ^ (uint8_t)ch) * 1099511628211ull;
      Rng rng(seed ^ hname);
      r.fn(out, rng, thorough);
      fclose(out.ops);
      fclose(out.real);
      fclose(out.oracle);
      FILE* m = fopen((pre + ".meta").c_str(), "w");
      fprintf(m, "{\"cases\": %ld, \"oracle_fail\": %ld", out.cases, out.oracle_fail);
      for (auto& kv : out.counters) fprintf(m, ", \"%s\": %ld", kv.first.c_str(), kv.second);
      fprintf(m, "}\n");
      fclose(m);
      return 0;
    }
  }
  fprintf(stderr, "unknown stream %s\n", name.c_str());
  return 2;
}
