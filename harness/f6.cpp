// Stream f6_conv: the numeric layout conversions (property C14).
//
// For every conversion, every variant (the _ref/_avx functions called directly AND the function selected by
// the precomp constructor with the AVX2 feature masked on/off), several m (below and above the vector
// thresholds) and inputs at and around every domain boundary:
//   op line   f6 <conversion> <variant> k=v … | inputs (int64/int32 in decimal, doubles as the decimal 64-bit pattern)
//   real line [selected function] outputs
//   verdict   __float128 evaluation of the property statement ("ok" / "FAIL …"); "na" when an input of the case is
//             outside the documented domain of the function that ran (the case is still compared bit-exactly
//             with the Lean model).
#include <quadmath.h>

#include <algorithm>
#include <cstdarg>

#include "hcommon.h"

extern "C" {
#include "spqlios/cplx/cplx_fft_internal.h"
#include "spqlios/cplx/cplx_fft_private.h"
#include "spqlios/reim/reim_fft_internal.h"
#include "spqlios/reim/reim_fft_private.h"
void reim_to_tnx_basic_ref(const REIM_TO_TNX_PRECOMP* tables, double* r, const double* x);
}

typedef __float128 q128;

#include <immintrin.h>
// Standalone copy of reim_to_znx64_avx2_bnd63_fma (spqlios/reim/reim_conversions_avx.c) with the one-line repair of
// finding D7:   const double offset = precomp->divisor * (0.5 - 0x1p-54);   (was: precomp->divisor / 2.)
// It is streamed as variant "bnd63" so that the model of the repaired kernel is validated against hardware whether
// or not the tree under test already contains the repair.
static void fixed_reim_to_znx64_avx2_bnd63_fma(const REIM_TO_ZNX64_PRECOMP* precomp, int64_t* r, const void* x) {
  static const uint64_t SIGN_MASK = 0x8000000000000000UL;
  static const uint64_t EXPO_MASK = 0x7FF0000000000000UL;
  static const uint64_t MANTISSA_MASK = 0x000FFFFFFFFFFFFFUL;
  static const uint64_t MANTISSA_MSB = 0x0010000000000000UL;
  const double divisor_bits = precomp->divisor * ((double)(INT64_C(1) << 52));
  const double offset = precomp->divisor * (0.5 - 0x1p-54);
  const __m256d SIGN_MASK_4 = _mm256_castsi256_pd(_mm256_set1_epi64x(SIGN_MASK));
  const __m256i EXPO_MASK_4 = _mm256_set1_epi64x(EXPO_MASK);
  const __m256i MANTISSA_MASK_4 = _mm256_set1_epi64x(MANTISSA_MASK);
  const __m256i MANTISSA_MSB_4 = _mm256_set1_epi64x(MANTISSA_MSB);
  const __m256d offset_4 = _mm256_set1_pd(offset);
  const __m256i divi_bits_4 = _mm256_castpd_si256(_mm256_set1_pd(divisor_bits));
  double(*in)[4] = (double(*)[4])x;
  __m256i* out = (__m256i*)r;
  __m256i* outend = (__m256i*)(r + (precomp->m << 1));
  do {
    __m256d a = _mm256_loadu_pd(in[0]);
    __m256d asign = _mm256_and_pd(a, SIGN_MASK_4);
    a = _mm256_add_pd(a, _mm256_or_pd(asign, offset_4));
    __m256i sign_mask = _mm256_castpd_si256(asign);
    sign_mask = _mm256_sub_epi64(_mm256_set1_epi64x(0), _mm256_srli_epi64(sign_mask, 63));
    __m256i a0exp = _mm256_and_si256(_mm256_castpd_si256(a), EXPO_MASK_4);
    __m256i a0lsh = _mm256_sub_epi64(a0exp, divi_bits_4);
    __m256i a0rsh = _mm256_sub_epi64(divi_bits_4, a0exp);
    a0lsh = _mm256_srli_epi64(a0lsh, 52);
    a0rsh = _mm256_srli_epi64(a0rsh, 52);
    __m256i a0pos = _mm256_and_si256(_mm256_castpd_si256(a), MANTISSA_MASK_4);
    a0pos = _mm256_or_si256(a0pos, MANTISSA_MSB_4);
    a0lsh = _mm256_sllv_epi64(a0pos, a0lsh);
    a0rsh = _mm256_srlv_epi64(a0pos, a0rsh);
    __m256i final = _mm256_or_si256(a0lsh, a0rsh);
    final = _mm256_xor_si256(final, sign_mask);
    final = _mm256_sub_epi64(final, sign_mask);
    _mm256_storeu_si256(out, final);
    ++out;
    ++in;
  } while (out < outend);
}
// does the library under test already contain the repair?  (probe: pred(1/2) with divisor 1)
static bool lib_bnd63_is_fixed() {
  REIM_TO_ZNX64_PRECOMP p;
  p.m = 2; p.divisor = 1.0; p.function = 0;
  double x[4] = {0.49999999999999994, 0, 0, 0};
  int64_t r[4];
  reim_to_znx64_avx2_bnd63_fma(&p, r, x);
  return r[0] == 0;
}

static inline uint64_t d2u(double d) {
  uint64_t u;
  memcpy(&u, &d, 8);
  return u;
}
static inline double u2d(uint64_t u) {
  double d;
  memcpy(&d, &u, 8);
  return d;
}
static inline double ulp_step(double x, int k) {  // k steps away in pattern order (towards larger magnitude for k>0)
  return u2d(d2u(x) + (int64_t)k);
}
static std::string fmt(const char* f, ...) {
  char buf[512];
  va_list ap;
  va_start(ap, f);
  vsnprintf(buf, sizeof buf, f, ap);
  va_end(ap);
  return buf;
}
static inline q128 pow2q(int e) { return ldexpq((q128)1, e); }

// ------------------------------------------------------------------------------------------------
// input pools (values of y = x/d; the input is y*d, exact for d = 2^j)

// magnitudes around a point p: p, p±1ulp, p±2ulp
static void around(std::vector<double>& v, double p) {
  for (int k = -2; k <= 2; k++) v.push_back(ulp_step(p, k));
}

static std::vector<double> pool_to_znx64(Rng& rng, int nrandom) {
  std::vector<double> v;
  v.push_back(0.0);
  v.push_back(5e-324);
  v.push_back(2.2250738585072014e-308);
  v.push_back(1e-300);
  v.push_back(1e-20);
  v.push_back(0.25);
  around(v, 0.5);
  around(v, 1.0);
  around(v, 1.5);
  around(v, 2.5);
  around(v, 3.5);
  const double ks[] = {2,      7,          1000,          1048576,          1073741825.0,        1099511627776.0,
                       562949953421311.0, 562949953421312.0, 1125899906842622.0, 1125899906842623.0};
  for (double k : ks) around(v, k + 0.5);
  const int es[] = {49, 50, 51, 52, 53, 62, 63};
  for (int e : es) {
    double p = ldexp(1.0, e);
    around(v, p);
    v.push_back(p - 1);
    v.push_back(p + 1);
    v.push_back(p - 0.5);
    v.push_back(p + 0.5);  // (not representable above 2^52: rounds, harmless)
    v.push_back(p - 1.5);
  }
  v.push_back(4503599627370497.0);   // 2^52+1: odd integer, x + 0.5 is a tie
  v.push_back(4503599627370499.0);
  v.push_back(6755399441055744.0);   // 3*2^51
  v.push_back(9007199254740991.0);
  for (int i = 0; i < nrandom; i++) {
    int e = (int)rng.range(-6, 64);
    double m = 1.0 + (double)(rng.next() >> 11) / 9007199254740992.0;
    v.push_back(ldexp(m, e));
  }
  for (int i = 0; i < nrandom; i++) {  // k + 0.5 exactly, and k + 0.5 +- ulp for random k
    int e = (int)rng.range(1, 51);
    double k = floor(ldexp(1.0 + (double)(rng.next() >> 11) / 9007199254740992.0, e));
    v.push_back(ulp_step(k + 0.5, (int)rng.range(-1, 1)));
  }
  size_t n = v.size();
  for (size_t i = 0; i < n; i++) v.push_back(-v[i]);
  return v;
}

static std::vector<int64_t> pool_from_znx64(Rng& rng, int nrandom) {
  std::vector<int64_t> v = {0, 1, 2, 3};
  const int es[] = {31, 32, 49, 50, 51, 52, 53, 54, 62};
  for (int e : es) {
    int64_t p = (int64_t)1 << e;
    for (int k = -2; k <= 2; k++) v.push_back(p + k);
  }
  v.push_back(INT64_MAX);
  v.push_back(((int64_t)3 << 51));
  v.push_back(((int64_t)3 << 51) - 1);
  for (int i = 0; i < nrandom; i++) v.push_back((int64_t)(rng.next() >> (int)rng.range(1, 63)));
  size_t n = v.size();
  for (size_t i = 0; i < n; i++) v.push_back(-v[i]);
  v.push_back(INT64_MIN);
  return v;
}

static std::vector<int32_t> pool_i32(Rng& rng, int nrandom) {
  std::vector<int32_t> v = {0, 1, -1, 2, -2, INT32_MAX, INT32_MIN, INT32_MAX - 1, INT32_MIN + 1, 65536, -65536, 1 << 30, -(1 << 30)};
  for (int i = 0; i < nrandom; i++) v.push_back((int32_t)(rng.next() >> (int)rng.range(32, 63)) * ((rng.next() & 1) ? 1 : -1));
  for (int i = 0; i < nrandom; i++) v.push_back((int32_t)rng.next());
  return v;
}

// y values for to_tnx with overhead L: |y| <= 2^L is the domain
static std::vector<double> pool_to_tnx(Rng& rng, int L, int nrandom) {
  std::vector<double> v;
  double B = ldexp(1.0, L);
  v.push_back(0.0);
  v.push_back(5e-324);
  v.push_back(1e-300);
  v.push_back(1e-17);
  v.push_back(0.25);
  v.push_back(0.75);
  around(v, 0.5);
  around(v, 1.5);
  v.push_back(1000.25);
  around(v, B);            // the boundary itself and 2 ulps inside / outside
  v.push_back(B - 0.5);
  v.push_back(B - 0.25);
  v.push_back(B / 2 + 0.5);
  around(v, B / 2 + 0.5);
  v.push_back(2 * B);      // outside
  v.push_back(3 * B);
  v.push_back(4 * B);
  v.push_back(B + 0.25);
  for (int i = 0; i < nrandom; i++) {
    int e = (int)rng.range(-8, L - 1);
    double m = 1.0 + (double)(rng.next() >> 11) / 9007199254740992.0;
    double y = ldexp(m, e);
    if (rng.next() & 1) y = floor(y) + ((rng.next() & 3) ? ldexp((double)(rng.next() >> 11), -53) : 0.5);  // few fraction bits beyond the table precision
    if (fabs(y) <= B) v.push_back(y);
  }
  for (int i = 0; i < nrandom / 2; i++) {  // near ties k + 0.5 +- small
    double k = floor(ldexp((double)(rng.next() >> 11), L - 53));
    double y = k + 0.5;
    v.push_back(ulp_step(y, (int)rng.range(-2, 2)));
  }
  size_t n = v.size();
  for (size_t i = 0; i < n; i++) v.push_back(-v[i]);
  return v;
}

static std::vector<double> pool_to_tnx32(Rng& rng, int nrandom) {
  std::vector<double> v;
  v.push_back(0.0);
  v.push_back(5e-324);
  v.push_back(1e-300);
  v.push_back(ldexp(1.0, -33));              // exactly half a torus32 unit
  around(v, ldexp(1.0, -33));
  around(v, ldexp(3.0, -33));
  v.push_back(ldexp(1.0, -32));
  around(v, 0.5);                            // 2^31 torus units: INT32_MIN after the wrap
  around(v, 0.25);
  v.push_back(0.5 - ldexp(1.0, -32));        // INT32_MAX
  v.push_back(0.5 - ldexp(1.0, -33));
  v.push_back(0.5 - ldexp(3.0, -34));
  around(v, 1.0);
  around(v, 262144.0);                       // 2^18: boundary
  v.push_back(262144.0 - ldexp(1.0, -32));
  v.push_back(262144.0 - ldexp(1.0, -33));
  v.push_back(262143.5);
  v.push_back(524288.0 - 0.5);               // outside
  v.push_back(786432.0);
  v.push_back(1048576.0);
  v.push_back(ldexp(1.0, 30));
  v.push_back(ldexp(1.0, 31) + 0.25);
  for (int i = 0; i < nrandom; i++) {
    int e = (int)rng.range(-40, 17);
    double m = 1.0 + (double)(rng.next() >> 11) / 9007199254740992.0;
    v.push_back(ldexp(m, e));
  }
  for (int i = 0; i < nrandom / 2; i++) {  // exact and near half-unit ties: (k + 0.5) * 2^-32
    double k = (double)(rng.next() >> (int)rng.range(15, 40));
    v.push_back(ulp_step(ldexp(k + 0.5, -32), (int)rng.range(-1, 1)));
  }
  size_t n = v.size();
  for (size_t i = 0; i < n; i++) v.push_back(-v[i]);
  return v;
}

// ------------------------------------------------------------------------------------------------
static const uint32_t MS[] = {1, 2, 4, 8, 16, 64};

template <class T>
static std::vector<T> take(const std::vector<T>& pool, size_t& pos, size_t n) {
  std::vector<T> r(n);
  for (size_t i = 0; i < n; i++) r[i] = pool[(pos + i) % pool.size()];
  pos += n;
  return r;
}
static void mask(int avx_on) { spqlios_verif_set_cpu_mask(!avx_on, !avx_on, !avx_on); }

static void put_i32s(FILE* f, const int32_t* v, size_t n) {
  for (size_t i = 0; i < n; i++) fprintf(f, i ? " %d" : "%d", v[i]);
}

// ---- from_znx64 -------------------------------------------------------------------------------
static void run_from_znx64(Out& out, Rng& rng, int thorough) {
  auto pool = pool_from_znx64(rng, thorough ? 400 : 60);
  const char* variants[] = {"ref", "bnd50", "api0", "api1"};
  for (int vi = 0; vi < 4; vi++)
    for (uint32_t m : MS) {
      if (vi == 1 && m < 2) continue;  // the 4-lane do-while overruns a 2-element buffer
      size_t pos = 0;
      uint32_t log2bound = 50;
      while (pos < pool.size()) {
        size_t n = 2 * (size_t)m;
        auto x = take(pool, pos, n);
        std::vector<double> r(n, 12345.0);
        REIM_FROM_ZNX64_PRECOMP direct;
        direct.m = m;
        direct.function = 0;
        const char* sel = 0;
        if (vi == 0) reim_from_znx64_ref(&direct, r.data(), x.data());
        else if (vi == 1) reim_from_znx64_bnd50_fma(&direct, r.data(), x.data());
        else {
          mask(vi == 3);
          REIM_FROM_ZNX64_PRECOMP* p = new_reim_from_znx64_precomp(m, log2bound);
          mask(1);
          sel = p->function == reim_from_znx64_ref ? "reim_from_znx64_ref" : p->function == reim_from_znx64_bnd50_fma ? "reim_from_znx64_bnd50_fma" : "unknown";
          reim_from_znx64(p, r.data(), x.data());
          free(p);
        }
        fprintf(out.ops, "f6 from_znx64 %s m=%u log2bound=%u | ", variants[vi], m, log2bound);
        put_i64s(out.ops, x.data(), n);
        if (sel) fprintf(out.real, "%s ", sel);
        put_f64bits(out.real, r.data(), n);
        std::string verdict = "ok";
        bool indom = true;
        for (size_t i = 0; i < n; i++) {
          bool in = x[i] > -((int64_t)1 << 50) && x[i] < ((int64_t)1 << 50);
          if (!in) { indom = false; continue; }
          if ((q128)r[i] != (q128)x[i]) verdict = fmt("FAIL from_znx64 %s: x=%" PRId64 " -> %.17g (not exact)", variants[vi], x[i], r[i]);
        }
        if (verdict == "ok" && !indom) verdict = "na";
        out.count(std::string("from_znx64.") + variants[vi]);
        out.count(indom ? "indomain" : "outdomain");
        out.endcase(verdict);
      }
    }
}

// ---- to_znx64 ---------------------------------------------------------------------------------
static void run_to_znx64(Out& out, Rng& rng, int thorough) {
  auto pool = pool_to_znx64(rng, thorough ? 300 : 40);
  std::vector<int> js;
  for (int j = -8; j <= 8; j++) js.push_back(j);
  if (thorough) { js.push_back(-200); js.push_back(-64); js.push_back(33); js.push_back(64); js.push_back(200); }
  // the library kernel is always compared with the model of the REPAIRED kernel (D7): a regression of the repair is a
  // model/implementation disagreement, not only an oracle failure
  const bool libfixed = true;
  out.count(lib_bnd63_is_fixed() ? "lib_bnd63_fixed" : "lib_bnd63_old");
  // vi 5 = standalone repaired kernel.  The library's own kernel is named after what it is.
  const char* variants[] = {"ref", "bnd50", libfixed ? "bnd63" : "bnd63old", "api0", libfixed ? "api1" : "api1old", "bnd63"};
  for (int vi = 0; vi < 6; vi++)
    for (uint32_t m : MS)
      for (int j : js) {
        if ((vi == 1 || vi == 2 || vi == 5) && m < 2) continue;
        // quick tier: every (variant, j) on two m, every (variant, m) on three j
        if (!thorough && !(m == 8 || m == 64 || j == 0 || j == -3 || j == 5)) continue;
        double d = ldexp(1.0, j);
        size_t pos = rng.below(pool.size());
        size_t ncases = (pool.size() + 2 * m - 1) / (2 * m);
        if (!thorough && m < 8) ncases = std::min<size_t>(ncases, 12);
        for (size_t c = 0; c < ncases; c++) {
          size_t n = 2 * (size_t)m;
          auto y = take(pool, pos, n);
          std::vector<double> x(n);
          for (size_t i = 0; i < n; i++) x[i] = ldexp(y[i], j);
          std::vector<int64_t> r(n, 77);
          uint32_t log2bound = (vi == 3 || vi == 4) ? (uint32_t)((c % 3 == 0) ? 50 : (c % 3 == 1) ? 52 : 63) : 0;
          REIM_TO_ZNX64_PRECOMP direct;
          direct.m = m;
          direct.divisor = d;
          direct.function = 0;
          int fn = vi;  // 0 ref 1 bnd50 2 bnd63
          const char* sel = 0;
          if (vi == 0) reim_to_znx64_ref(&direct, r.data(), x.data());
          else if (vi == 1) reim_to_znx64_avx2_bnd50_fma(&direct, r.data(), x.data());
          else if (vi == 2) reim_to_znx64_avx2_bnd63_fma(&direct, r.data(), x.data());
          else if (vi == 5) { fixed_reim_to_znx64_avx2_bnd63_fma(&direct, r.data(), x.data()); fn = 2; }
          else {
            mask(vi == 4);
            REIM_TO_ZNX64_PRECOMP* p = new_reim_to_znx64_precomp(m, d, log2bound);
            mask(1);
            if (p->function == reim_to_znx64_ref) { sel = "reim_to_znx64_ref"; fn = 0; }
            else if (p->function == reim_to_znx64_avx2_bnd50_fma) { sel = "reim_to_znx64_avx2_bnd50_fma"; fn = 1; }
            else if (p->function == reim_to_znx64_avx2_bnd63_fma) { sel = "reim_to_znx64_avx2_bnd63_fma"; fn = 2; }
            else { sel = "unknown"; fn = 0; }
            reim_to_znx64(p, r.data(), x.data());
            free(p);
          }
          fprintf(out.ops, "f6 to_znx64 %s m=%u log2bound=%u div=%" PRIu64 " | ", variants[vi], m, log2bound, d2u(d));
          put_f64bits(out.ops, x.data(), n);
          if (sel) fprintf(out.real, "%s ", sel);
          put_i64s(out.real, r.data(), n);
          std::string verdict = "ok";
          bool indom = true;
          q128 bound = fn == 1 ? pow2q(50) : pow2q(52);   // documented domain of the function that ran
          const bool fixed63 = fn == 2 && (vi == 5 || libfixed);
          for (size_t i = 0; i < n; i++) {
            q128 q = (q128)x[i] / (q128)d;
            if (fixed63 && fabsq(q) >= pow2q(52) && fabsq(q) < pow2q(63)) {
              // extended range of the repaired kernel: x/d is an integer and must be returned exactly
              if ((q128)r[i] != q)
                verdict = fmt("FAIL to_znx64 bnd63 wide: x=%" PRIu64 " (x/d=%.17g) d=2^%d -> %" PRId64, d2u(x[i]), y[i], j, r[i]);
              out.count("bnd63_wide_checked");
              continue;
            }
            if (!(fabsq(q) < bound)) { indom = false; continue; }
            q128 err = fabsq((q128)r[i] - q);
            if (err > (q128)0.5) {
              bool pred = fabs(y[i]) == ulp_step(0.5, -1);
              verdict = fmt("FAIL to_znx64 %s%s: x=%" PRIu64 " (x/d=%.17g) d=2^%d -> %" PRId64 ", |r-x/d|-1/2=%.3g",
                            fn == 0 ? "ref" : fn == 1 ? "bnd50" : "bnd63", pred ? " [x/d = pred(1/2)]" : "", d2u(x[i]), y[i], j, r[i],
                            (double)(err - (q128)0.5));
            }
          }
          if (verdict == "ok" && !indom) verdict = "na";
          out.count(std::string("to_znx64.") + variants[vi]);
          out.count(indom ? "indomain" : "outdomain");
          out.endcase(verdict);
        }
      }
}

// ---- to_tnx -----------------------------------------------------------------------------------
static void run_to_tnx(Out& out, Rng& rng, int thorough) {
  std::vector<int> Ls;
  if (thorough) for (int L = 0; L <= 50; L++) Ls.push_back(L);
  else Ls = {0, 1, 2, 10, 17, 18, 19, 28, 29, 30, 31, 32, 33, 40, 47, 48, 49, 50};
  std::vector<int> js;
  for (int j = -8; j <= 8; j++) js.push_back(j);
  const char* variants[] = {"basic", "ref", "avx", "api0", "api1"};
  for (int L : Ls) {
    auto pool = pool_to_tnx(rng, L, thorough ? 120 : 30);
    // table constants as such
    for (int j : js) {
      if (!thorough && (j & 3)) continue;
      double d = ldexp(1.0, j);
      REIM_TO_TNX_PRECOMP* p = new_reim_to_tnx_precomp(1, d, L);
      fprintf(out.ops, "f6 tnx_precomp log2overhead=%d div=%" PRIu64, L, d2u(d));
      fprintf(out.real, "%" PRIu64 " %" PRIu64 " %" PRIu64 " %" PRIu64, d2u(p->add_cst), p->mask_and, p->mask_or, d2u(p->sub_cst));
      // expected by the formulas of the comment in the C file
      q128 ovh = (q128)0.5 + (q128)6 * pow2q(L);
      bool good = (q128)p->sub_cst == ovh && (q128)p->add_cst == ovh * (q128)d && p->mask_and == (((uint64_t)1 << (50 - L)) - 1) &&
                  p->mask_or == (d2u((double)ovh) & ~p->mask_and);
      out.count("tnx_precomp");
      out.endcase(L <= 48 ? (good ? "ok" : fmt("FAIL tnx_precomp log2overhead=%d: constants differ from (0.5+6*2^L)*d", L)) : "na");
      free(p);
    }
    for (int vi = 0; vi < 5; vi++)
      for (uint32_t m : MS)
        for (int j : js) {
          if (vi == 2 && m < 4) continue;  // 8 lanes per iteration
          if (!thorough && !((m == 8 && (j % 4 == 0)) || (j == 0 && (m == 1 || m == 4 || m == 16)) || (m == 64 && (j == -8 || j == 3))))
            continue;
          if (thorough && !(m == 8 || m == 64 || j == 0 || j == -8 || j == 8 || j == 3)) continue;
          double d = ldexp(1.0, j);
          size_t pos = rng.below(pool.size());
          size_t ncases = (pool.size() + 2 * m - 1) / (2 * m);
          if (m < 8) ncases = std::min<size_t>(ncases, thorough ? 30 : 8);
          for (size_t c = 0; c < ncases; c++) {
            size_t n = 2 * (size_t)m;
            auto y = take(pool, pos, n);
            std::vector<double> x(n), r(n, 4242.0);
            for (size_t i = 0; i < n; i++) x[i] = ldexp(y[i], j);
            const char* sel = 0;
            mask(vi == 4 || vi < 3);
            REIM_TO_TNX_PRECOMP* p = new_reim_to_tnx_precomp(m, d, L);
            mask(1);
            if (vi == 0) reim_to_tnx_basic_ref(p, r.data(), x.data());
            else if (vi == 1) reim_to_tnx_ref(p, r.data(), x.data());
            else if (vi == 2) reim_to_tnx_avx(p, r.data(), x.data());
            else {
              sel = p->function == reim_to_tnx_ref ? "reim_to_tnx_ref" : p->function == reim_to_tnx_avx ? "reim_to_tnx_avx" : "unknown";
              reim_to_tnx(p, r.data(), x.data());
            }
            free(p);
            fprintf(out.ops, "f6 to_tnx %s m=%u log2overhead=%d div=%" PRIu64 " | ", variants[vi], m, L, d2u(d));
            put_f64bits(out.ops, x.data(), n);
            if (sel) fprintf(out.real, "%s ", sel);
            put_f64bits(out.real, r.data(), n);
            std::string verdict = "ok";
            bool indom = L <= 48;
            q128 tol = pow2q(L - 50);
            for (size_t i = 0; i < n && L <= 48; i++) {
              q128 q = (q128)x[i] / (q128)d;
              if (!(fabsq(q) <= pow2q(L))) { indom = false; continue; }
              // r must be q - n for a nearest integer n of q (either neighbour when q is within tol of a tie)
              q128 n0 = floorq(q);
              bool good = false;
              for (int k = 0; k <= 1; k++) {
                q128 nn = n0 + k;
                if (fabsq(q - nn) <= (q128)0.5 + tol && fabsq((q128)r[i] - (q - nn)) <= tol) good = true;
              }
              if (!good)
                verdict = fmt("FAIL to_tnx %s log2overhead=%d: x=%" PRIu64 " (x/d=%.17g) d=2^%d -> %.17g", variants[vi], L, d2u(x[i]), y[i], j, r[i]);
            }
            if (verdict == "ok" && !indom) verdict = "na";
            out.count(std::string("to_tnx.") + variants[vi]);
            out.count(indom ? "indomain" : "outdomain");
            out.endcase(verdict);
          }
        }
  }
}

// ---- cplx_from_znx32 / cplx_from_tnx32 --------------------------------------------------------
static void run_cplx_from(Out& out, Rng& rng, int thorough, int tnx) {
  auto pool = pool_i32(rng, thorough ? 600 : 80);
  const char* variants[] = {"ref", "avx", "api0", "api1"};
  const char* name = tnx ? "cplx_from_tnx32" : "cplx_from_znx32";
  for (int vi = 0; vi < 4; vi++)
    for (uint32_t m : MS) {
      if (vi == 1 && m < 8) continue;  // m/8 iterations: nothing is written below 8
      size_t pos = 0;
      while (pos < pool.size()) {
        size_t n = 2 * (size_t)m;
        auto x = take(pool, pos, n);
        std::vector<double> r(n, 999.0);
        const char* sel = 0;
        if (!tnx) {
          CPLX_FROM_ZNX32_PRECOMP direct;
          direct.m = m;
          direct.function = 0;
          if (vi == 0) cplx_from_znx32_ref(&direct, r.data(), x.data());
          else if (vi == 1) cplx_from_znx32_avx2_fma(&direct, r.data(), x.data());
          else {
            mask(vi == 3);
            CPLX_FROM_ZNX32_PRECOMP* p = new_cplx_from_znx32_precomp(m);
            mask(1);
            sel = p->function == cplx_from_znx32_ref ? "cplx_from_znx32_ref" : p->function == cplx_from_znx32_avx2_fma ? "cplx_from_znx32_avx2_fma" : "unknown";
            cplx_from_znx32(p, r.data(), x.data());
            free(p);
          }
        } else {
          CPLX_FROM_TNX32_PRECOMP direct;
          direct.m = m;
          direct.function = 0;
          if (vi == 0) cplx_from_tnx32_ref(&direct, r.data(), x.data());
          else if (vi == 1) cplx_from_tnx32_avx2_fma(&direct, r.data(), x.data());
          else {
            mask(vi == 3);
            CPLX_FROM_TNX32_PRECOMP* p = new_cplx_from_tnx32_precomp(m);
            mask(1);
            sel = p->function == cplx_from_tnx32_ref ? "cplx_from_tnx32_ref" : p->function == cplx_from_tnx32_avx2_fma ? "cplx_from_tnx32_avx2_fma" : "unknown";
            cplx_from_tnx32(p, r.data(), x.data());
            free(p);
          }
        }
        fprintf(out.ops, "f6 %s %s m=%u | ", name, variants[vi], m);
        put_i32s(out.ops, x.data(), n);
        if (sel) fprintf(out.real, "%s ", sel);
        put_f64bits(out.real, r.data(), n);
        std::string verdict = "ok";
        for (size_t i = 0; i < m; i++) {
          q128 ere = (q128)x[i], eim = (q128)x[m + i];
          if (tnx) { ere = ere / pow2q(32); eim = eim / pow2q(32); }
          if ((q128)r[2 * i] != ere || (q128)r[2 * i + 1] != eim)
            verdict = fmt("FAIL %s %s: (%d,%d) -> (%.17g,%.17g)", name, variants[vi], x[i], x[m + i], r[2 * i], r[2 * i + 1]);
        }
        out.count(std::string(name) + "." + variants[vi]);
        out.count("indomain");
        out.endcase(verdict);
      }
    }
}

// ---- cplx_to_tnx32 ----------------------------------------------------------------------------
static void run_cplx_to_tnx32(Out& out, Rng& rng, int thorough) {
  auto pool = pool_to_tnx32(rng, thorough ? 300 : 50);
  std::vector<int> js;
  for (int j = -8; j <= 8; j++) js.push_back(j);
  const char* variants[] = {"ref", "avx", "api0", "api1"};
  for (int vi = 0; vi < 4; vi++)
    for (uint32_t m : MS)
      for (int j : js) {
        if (vi == 1 && m < 8) continue;
        if (!thorough && !(m == 8 || j == 0 || (m == 64 && (j == -8 || j == 8 || j == 3)))) continue;
        double d = ldexp(1.0, j);
        size_t pos = rng.below(pool.size());
        size_t ncases = (pool.size() + 2 * m - 1) / (2 * m);
        if (m < 8) ncases = std::min<size_t>(ncases, thorough ? 40 : 10);
        for (size_t c = 0; c < ncases; c++) {
          size_t n = 2 * (size_t)m;
          auto y = take(pool, pos, n);
          std::vector<double> x(n);
          for (size_t i = 0; i < n; i++) x[i] = ldexp(y[i], j);
          std::vector<int32_t> r(n, 31337);
          uint32_t log2overhead = (vi >= 2) ? (uint32_t)((c % 4 == 3) ? 19 : (c % 4 == 2) ? 0 : 18) : 18;
          CPLX_TO_TNX32_PRECOMP direct;
          direct.m = m;
          direct.divisor = d;
          direct.function = 0;
          const char* sel = 0;
          if (vi == 0) cplx_to_tnx32_ref(&direct, r.data(), x.data());
          else if (vi == 1) cplx_to_tnx32_avx2_fma(&direct, r.data(), x.data());
          else {
            mask(vi == 3);
            CPLX_TO_TNX32_PRECOMP* p = new_cplx_to_tnx32_precomp(m, d, log2overhead);
            mask(1);
            sel = p->function == cplx_to_tnx32_ref ? "cplx_to_tnx32_ref" : p->function == cplx_to_tnx32_avx2_fma ? "cplx_to_tnx32_avx2_fma" : "unknown";
            cplx_to_tnx32(p, r.data(), x.data());
            free(p);
          }
          fprintf(out.ops, "f6 cplx_to_tnx32 %s m=%u log2overhead=%u div=%" PRIu64 " | ", variants[vi], m, log2overhead, d2u(d));
          put_f64bits(out.ops, x.data(), n);
          if (sel) fprintf(out.real, "%s ", sel);
          put_i32s(out.real, r.data(), n);
          std::string verdict = "ok";
          bool indom = true;
          for (size_t i = 0; i < n; i++) {
            // complex i has re at x[2i], im at x[2i+1]; outputs re at r[i], im at r[m+i]
            size_t src = (i < m) ? 2 * i : 2 * (i - m) + 1;
            q128 q = (q128)x[src] / (q128)d;
            if (!(fabsq(q) < pow2q(18))) { indom = false; continue; }
            q128 t = q * pow2q(32);
            q128 k = rintq((t - (q128)r[i]) / pow2q(32));
            q128 nn = (q128)r[i] + k * pow2q(32);
            if (fabsq(nn - t) > (q128)0.5)
              verdict = fmt("FAIL cplx_to_tnx32 %s: x=%" PRIu64 " (x/d=%.17g) d=2^%d -> %d", variants[vi], d2u(x[src]), y[src], j, r[i]);
          }
          if (verdict == "ok" && !indom) verdict = "na";
          out.count(std::string("cplx_to_tnx32.") + variants[vi]);
          out.count(indom ? "indomain" : "outdomain");
          out.endcase(verdict);
        }
      }
}

// ---- primitives added to the soft-float for the conversions (division) --------------------------
static void run_div(Out& out, Rng& rng, int thorough) {
  int n = thorough ? 60000 : 6000;
  for (int i = 0; i < n; i++) {
    uint64_t a = rng.next(), b = rng.next();
    int cls = (int)rng.below(6);
    if (cls == 0) b = d2u(ldexp(1.0, (int)rng.range(-1000, 1000)));            // power-of-two divisor
    if (cls == 1) { a &= 0x800FFFFFFFFFFFFFull; a |= (uint64_t)rng.range(0, 60) << 52; b = d2u(ldexp(1.0, (int)rng.range(0, 1000))); }  // underflowing quotient
    if (cls == 2) { a = d2u((double)(int64_t)rng.sbits(40)); b = d2u((double)(1 + rng.below(1000))); }
    if (cls == 3) { a &= 0x800FFFFFFFFFFFFFull; }                                 // subnormal dividend
    if (cls == 4) { b &= 0x800FFFFFFFFFFFFFull; if (!(b << 1)) b |= 1; }          // subnormal divisor
    double x = u2d(a), y = u2d(b);
    if (!std::isfinite(x) || !std::isfinite(y) || y == 0) { i--; continue; }
    volatile double q = x / y;
    if (!std::isfinite((double)q)) { i--; continue; }
    fprintf(out.ops, "f6 div %" PRIu64 " %" PRIu64, a, b);
    fprintf(out.real, "%" PRIu64, d2u((double)q));
    // independent check: the quotient in binary128 rounded once to binary64 (double rounding is innocuous for
    // division: 113 >= 2*53+2)
    double ref = (double)((q128)x / (q128)y);
    out.count("div");
    out.endcase(d2u(ref) == d2u((double)q) ? "ok" : "FAIL div: hardware and binary128 disagree");
  }
}

STREAM(f6_conv) {
  run_div(out, rng, thorough);
  run_from_znx64(out, rng, thorough);
  run_to_znx64(out, rng, thorough);
  run_to_tnx(out, rng, thorough);
  run_cplx_from(out, rng, thorough, 0);
  run_cplx_from(out, rng, thorough, 1);
  run_cplx_to_tnx32(out, rng, thorough);
  spqlios_verif_set_cpu_mask(0, 0, 0);
}
