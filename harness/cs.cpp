// Stream cs_kern: the real coefficient kernels of coeffs_arithmetic.c against the CIR interpreter running the
// term GENERATED from their C source (tools/c2lean.py -> lean/Gen/CSrc.lean), bit-exact on the whole memory.
//   cs <fn> scalars… | ptr… | buffer 0 | buffer 1 | …      ->  ok | buffer 0 | buffer 1 | …
// ptr = b:off (cell `off` of buffer `b`).  int64 cells in decimal, binary64 cells as the 64-bit pattern.
// This validates translator + interpreter (pointer binding, aliasing, wrap-around) against the compiled code;
// the for-all statement is SpqProofs/Properties/Src.lean.
#include "hcommon.h"

typedef __int128 i128;
namespace {

enum { F_ADD, F_SUB, F_NEG, F_COPY, F_ZERO, F_ROT, F_MULXP, F_AUT, F_RROT, F_RMULXP, F_RAUT,
       F_ROTI, F_RROTI, F_RMULXPI, F_AUTI, F_RAUTI, NF };
struct FnInfo { const char* name; int has_p; int nptr; int dbl; int loops; int inplace; };
const FnInfo FI[NF] = {
    {"znx_add_i64_ref", 0, 3, 0, 1, 0},        {"znx_sub_i64_ref", 0, 3, 0, 1, 0},
    {"znx_negate_i64_ref", 0, 2, 0, 1, 0},     {"znx_copy_i64_ref", 0, 2, 0, 0, 0},
    {"znx_zero_i64_ref", 0, 1, 0, 0, 0},       {"znx_rotate_i64", 1, 2, 0, 1, 0},
    {"znx_mul_xp_minus_one", 1, 2, 0, 1, 0},   {"znx_automorphism_i64", 1, 2, 0, 1, 0},
    {"rnx_rotate_f64", 1, 2, 1, 1, 0},         {"rnx_mul_xp_minus_one", 1, 2, 1, 1, 0},
    {"rnx_automorphism_f64", 1, 2, 1, 1, 0},   {"znx_rotate_inplace_i64", 1, 1, 0, 1, 1},
    {"rnx_rotate_inplace_f64", 1, 1, 1, 1, 1}, {"rnx_mul_xp_minus_one_inplace", 1, 1, 1, 1, 1},
    {"znx_automorphism_inplace_i64", 1, 1, 0, 1, 1}, {"rnx_automorphism_inplace_f64", 1, 1, 1, 1, 1}};

void call(int f, uint64_t nn, int64_t p, void* q0, void* q1, void* q2) {
  int64_t *i0 = (int64_t*)q0, *i1 = (int64_t*)q1, *i2 = (int64_t*)q2;
  double *d0 = (double*)q0, *d1 = (double*)q1;
  switch (f) {
    case F_ADD: znx_add_i64_ref(nn, i0, i1, i2); break;
    case F_SUB: znx_sub_i64_ref(nn, i0, i1, i2); break;
    case F_NEG: znx_negate_i64_ref(nn, i0, i1); break;
    case F_COPY: znx_copy_i64_ref(nn, i0, i1); break;
    case F_ZERO: znx_zero_i64_ref(nn, i0); break;
    case F_ROT: znx_rotate_i64(nn, p, i0, i1); break;
    case F_MULXP: znx_mul_xp_minus_one(nn, p, i0, i1); break;
    case F_AUT: znx_automorphism_i64(nn, p, i0, i1); break;
    case F_RROT: rnx_rotate_f64(nn, p, d0, d1); break;
    case F_RMULXP: rnx_mul_xp_minus_one(nn, p, d0, d1); break;
    case F_RAUT: rnx_automorphism_f64(nn, p, d0, d1); break;
    case F_ROTI: znx_rotate_inplace_i64(nn, p, i0); break;
    case F_RROTI: rnx_rotate_inplace_f64(nn, p, d0); break;
    case F_RMULXPI: rnx_mul_xp_minus_one_inplace(nn, p, d0); break;
    case F_AUTI: znx_automorphism_inplace_i64(nn, p, i0); break;
    case F_RAUTI: rnx_automorphism_inplace_f64(nn, p, d0); break;
  }
}

// a 64-bit cell of the data class of the function: any int64 / any pattern for the kernels that move or negate,
// finite doubles of moderate exponent range where binary64 arithmetic is performed
uint64_t cell(Rng& r, int f) {
  if (!FI[f].dbl) return (uint64_t)pick_i64(r, (int)r.below(6));
  if (f == F_RMULXP || f == F_RMULXPI) {
    double d;
    switch (r.below(5)) {
      case 0: d = (r.next() & 1) ? 0.0 : -0.0; break;
      case 1: d = (double)r.sbits(20); break;
      case 2: d = ldexp((double)r.sbits(52), (int)r.range(-200, 200)); break;
      default: d = (double)r.sbits(40) / 3.0; break;
    }
    uint64_t b;
    memcpy(&b, &d, 8);
    return b;
  }
  return r.next();  // any pattern, NaNs and infinities included: the kernel only moves it or flips its sign bit
}

void put_buf(FILE* f, const std::vector<uint64_t>& b, int dbl) {
  for (size_t i = 0; i < b.size(); i++) {
    if (dbl) fprintf(f, i ? " %" PRIu64 : "%" PRIu64, b[i]);
    else fprintf(f, i ? " %" PRId64 : "%" PRId64, (int64_t)b[i]);
  }
}

// pointer configurations
//  0 distinct exact-size buffers            1 one buffer, disjoint windows with canaries between them
//  2 all pointers equal (in place)          3 res == a, b distinct (3 pointers)     4 a == b, res distinct
//  5 res = buf+1, a = buf (partial overlap) 6 res = buf, a = buf+1 (partial overlap)
struct Bind { int b; uint64_t off; };

void one_case(Out& out, Rng& rng, int f, uint64_t nn, int64_t p, int cfg) {
  const FnInfo& I = FI[f];
  std::vector<std::vector<uint64_t>> mem;
  Bind bd[3] = {{0, 0}, {0, 0}, {0, 0}};
  auto fresh = [&](uint64_t n) { std::vector<uint64_t> v(n); for (auto& x : v) x = cell(rng, f); mem.push_back(v); return (int)mem.size() - 1; };
  switch (cfg) {
    case 0: for (int i = 0; i < I.nptr; i++) bd[i] = {fresh(nn), 0}; break;
    case 1: {
      uint64_t gap = 1 + rng.below(3);
      int b = fresh(I.nptr * nn + (I.nptr + 1) * gap);
      int perm[3] = {0, 1, 2};
      for (int i = I.nptr - 1; i > 0; i--) std::swap(perm[i], perm[rng.below(i + 1)]);
      for (int i = 0; i < I.nptr; i++) bd[i] = {b, gap + perm[i] * (nn + gap)};
      break;
    }
    case 2: { int b = fresh(nn); for (int i = 0; i < I.nptr; i++) bd[i] = {b, 0}; break; }
    case 3: { int b = fresh(nn), c = fresh(nn); bd[0] = {b, 0}; bd[1] = {b, 0}; bd[2] = {c, 0}; break; }
    case 4: { int b = fresh(nn), c = fresh(nn); bd[0] = {b, 0}; bd[1] = {c, 0}; bd[2] = {c, 0}; break; }
    case 5: { int b = fresh(nn + 1); bd[0] = {b, 1}; bd[1] = {b, 0}; if (I.nptr == 3) bd[2] = {fresh(nn), 0}; break; }
    case 6: { int b = fresh(nn + 1); bd[0] = {b, 0}; bd[1] = {b, 1}; if (I.nptr == 3) bd[2] = {fresh(nn), 0}; break; }
  }
  // op line (memory before the call)
  fprintf(out.ops, "cs %s %" PRIu64, I.name, nn);
  if (I.has_p) fprintf(out.ops, " %" PRId64, p);
  fprintf(out.ops, " |");
  for (int i = 0; i < I.nptr; i++) fprintf(out.ops, " %d:%" PRIu64, bd[i].b, bd[i].off);
  for (auto& b : mem) { fprintf(out.ops, " | "); put_buf(out.ops, b, I.dbl); }
  std::vector<std::vector<uint64_t>> mem0 = mem;
  // the real kernel, on heap buffers of exactly the declared sizes
  void* q[3] = {0, 0, 0};
  for (int i = 0; i < I.nptr; i++) q[i] = mem[bd[i].b].data() + bd[i].off;
  call(f, nn, p, q[0], q[1], q[2]);
  fprintf(out.real, "ok");
  for (auto& b : mem) { fprintf(out.real, " | "); put_buf(out.real, b, I.dbl); }
  // oracle independent of the Lean side: closed formulas for the int64 kernels on distinct buffers;
  // for every configuration: cells outside the result window are unchanged
  std::string verdict = "ok";
  for (size_t b = 0; b < mem.size(); b++)
    for (size_t i = 0; i < mem[b].size(); i++) {
      bool in_res = ((int)b == bd[0].b && i >= bd[0].off && i < bd[0].off + nn);
      if (!in_res && mem[b][i] != mem0[b][i]) verdict = std::string("FAIL Src ") + I.name + " wrote outside its result window";
    }
  if (cfg == 0 && !I.dbl && verdict == "ok") {
    auto W = [](i128 x) { return (uint64_t)x; };
    const std::vector<uint64_t>& R = mem[bd[0].b];
    bool pow2 = nn && !(nn & (nn - 1));
    for (uint64_t k = 0; k < nn && verdict == "ok"; k++) {
      bool bad = false;
      i128 A = I.nptr > 1 ? (i128)(int64_t)mem0[bd[1].b][k] : 0, B = I.nptr > 2 ? (i128)(int64_t)mem0[bd[2].b][k] : 0;
      if (f == F_ADD) bad = R[k] != W(A + B);
      if (f == F_SUB) bad = R[k] != W(A - B);
      if (f == F_NEG) bad = R[k] != W(-A);
      if (f == F_COPY) bad = R[k] != W(A);
      if (f == F_ZERO) bad = R[k] != 0;
      if ((f == F_ROT || f == F_MULXP) && pow2) {
        i128 twoN = 2 * (i128)nn, src = (((i128)k - (i128)p) % twoN + twoN) % twoN;
        const std::vector<uint64_t>& X = mem0[bd[1].b];
        i128 v = src < (i128)nn ? (i128)(int64_t)X[(uint64_t)src] : -(i128)(int64_t)X[(uint64_t)(src - nn)];
        if (f == F_MULXP) v = (i128)(int64_t)W(v) - A;
        bad = R[k] != W(v);
      }
      if (bad) verdict = std::string("FAIL Src ") + I.name + " differs from the closed formula";
    }
  }
  out.endcase(verdict);
  out.count(std::string(I.name));
  out.count("cfg" + std::to_string(cfg));
}

// which kernels a stream covers: 0 all, 1 element-wise (C08), 2 rotation-shaped incl. in place (C09), 3 znx_normalize (C05)
int g_group = 0;

void sweep(Out& out, Rng& rng, uint64_t nn, const std::vector<int64_t>& ps, int all_cfg) {
  bool pow2 = nn && !(nn & (nn - 1));
  if (g_group == 3) return;
  for (int f = 0; f < NF; f++) {
    const FnInfo& I = FI[f];
    if (g_group == 1 && f >= 5) continue;
    if (g_group == 2 && f < 5) continue;
    if (nn == 0 && I.has_p) continue;          // nn = 0 is outside every contract of the (nn, p) kernels
    if (I.inplace && !pow2) continue;           // the cycle walks need nn = 2^k to terminate
    std::vector<int64_t> one = {0, 0, 0, 0, 0, 0};   // kernels without p: six data draws per size, every configuration
    for (int64_t p : (I.has_p ? ps : one)) {
      if ((f == F_AUTI || f == F_RAUTI) && !(p & 1)) continue;   // contract: odd p
      one_case(out, rng, f, nn, p, 0);
      if (!all_cfg && I.has_p && rng.below(4)) continue;
      if (I.nptr >= 2) one_case(out, rng, f, nn, p, 1);
      // binary64 arithmetic fed back through overlapping pointers grows geometrically: keep those chains short
      // (Spq/F64.lean does not model Inf/NaN operands; the library never produces them in-domain)
      if (f == F_RMULXP && nn > 64) continue;
      if (I.nptr >= 2 && !I.inplace && (I.loops || nn == 0)) one_case(out, rng, f, nn, p, 2);
      if (I.nptr >= 2 && f == F_COPY) one_case(out, rng, f, nn, p, 2);   // memcpy(p, p, n)
      if (I.nptr == 3) { one_case(out, rng, f, nn, p, 3); one_case(out, rng, f, nn, p, 4); }
      if (I.nptr >= 2 && I.loops && nn >= 1) { one_case(out, rng, f, nn, p, 5); one_case(out, rng, f, nn, p, 6); }
    }
  }
}

// znx_normalize(nn, base_k, out, carry_out, in, carry_in): null pointers select one of six loops; the aliasing
// patterns are those of the library's own callers (out==in, carry_out==carry_in, carry_out==in, out==carry_in)
void norm_case(Out& out, Rng& rng, uint64_t nn, uint64_t k, int has_out, int has_cin, int has_cout, int alias) {
  std::vector<std::vector<uint64_t>> mem;
  auto fresh = [&](int cls) {
    std::vector<uint64_t> v(nn);
    for (auto& x : v) x = (uint64_t)(cls == 0 ? pick_i64(rng, (int)rng.below(6)) : rng.sbits((int)(63 - k)));
    mem.push_back(v);
    return (int)mem.size() - 1;
  };
  int b_in = fresh(0), b_cin = has_cin ? fresh(rng.below(2)) : -1, b_out = -1, b_cout = -1;
  if (has_out) b_out = (alias == 1) ? b_in : (alias == 4 && has_cin) ? b_cin : fresh(0);
  if (has_cout) b_cout = (alias == 2 && has_cin) ? b_cin : (alias == 3 && !has_out) ? b_in : fresh(0);
  int bs[4] = {b_out, b_cout, b_in, b_cin};
  fprintf(out.ops, "cs znx_normalize %" PRIu64 " %" PRIu64 " |", nn, k);
  for (int i = 0; i < 4; i++) { if (bs[i] < 0) fprintf(out.ops, " null"); else fprintf(out.ops, " %d:0", bs[i]); }
  for (auto& b : mem) { fprintf(out.ops, " | "); put_buf(out.ops, b, 0); }
  int64_t* q[4];
  for (int i = 0; i < 4; i++) q[i] = bs[i] < 0 ? nullptr : (int64_t*)mem[bs[i]].data();
  znx_normalize(nn, k, q[0], q[1], q[2], q[3]);
  fprintf(out.real, "ok");
  for (auto& b : mem) { fprintf(out.real, " | "); put_buf(out.real, b, 0); }
  out.endcase("na");
  out.count("znx_normalize");
  out.count("norm_shape_" + std::to_string(has_out) + std::to_string(has_cin) + std::to_string(has_cout));
}
}  // namespace

static void cs_all(Out& out, Rng& rng, int thorough);
STREAM(cs_kern) { g_group = 0; cs_all(out, rng, thorough); }
STREAM(cs_elem) { g_group = 1; cs_all(out, rng, thorough); g_group = 0; }
STREAM(cs_rot) { g_group = 2; cs_all(out, rng, thorough); g_group = 0; }
STREAM(cs_norm) { g_group = 3; cs_all(out, rng, thorough); g_group = 0; }

static void cs_all(Out& out, Rng& rng, int thorough) {
  // every nn of a small box (powers of two or not), every p in [-2nn-1, 2nn+1] and the int64 extremes
  uint64_t box = thorough ? 33 : 17;
  for (uint64_t nn = 0; nn <= box; nn++) {
    std::vector<int64_t> ps;
    for (int64_t p = -(int64_t)(2 * nn) - 1; p <= (int64_t)(2 * nn) + 1; p++) ps.push_back(p);
    ps.push_back(INT64_MIN); ps.push_back(INT64_MIN + 1); ps.push_back(INT64_MAX); ps.push_back(INT64_MAX - 1);
    ps.push_back((int64_t)rng.next()); ps.push_back((int64_t)rng.next() | 1);
    sweep(out, rng, nn, ps, nn <= 4);
    out.count("box_dims");
  }
  // znx_normalize: every pointer shape and aliasing pattern, every base_k in 1..63 on small sizes
  for (uint64_t k = 1; k <= 63 && (g_group == 0 || g_group == 3); k++) {
    if (!thorough && !(k <= 3 || k == 19 || k == 31 || k == 32 || k == 33 || k >= 61)) continue;
    for (uint64_t nn : {0, 1, 2, 3, 5, 8, 16})
      for (int ho = 0; ho < 2; ho++)
        for (int hc = 0; hc < 2; hc++)
          for (int hco = 0; hco < 2; hco++) {
            if (!ho && !hco) continue;
            for (int alias = 0; alias < 5; alias++) norm_case(out, rng, nn, k, ho, hc, hco, alias);
          }
  }
  // larger powers of two
  uint64_t top = thorough ? 65536 : 4096;
  for (uint64_t nn = 32; nn <= top; nn *= 2) {
    int64_t N = (int64_t)nn;
    std::vector<int64_t> ps = {0, 1, -1, 2, 5, N - 1, N, N + 1, 2 * N - 1, 2 * N, 2 * N + 1, -N, -2 * N - 1, 3 * N + 1, N / 2 + 1,
                               INT64_MIN, INT64_MAX, (int64_t)rng.next(), (int64_t)rng.next() | 1, rng.range(-4 * N, 4 * N)};
    if (!thorough && nn > 512) ps.resize(8), ps.push_back(INT64_MIN), ps.push_back((int64_t)rng.next() | 1);
    sweep(out, rng, nn, ps, 0);
    out.count("pow2_dims");
  }
}
