// Streams over kernels that no other stream calls (model: lean/Spq/Cover.lean, driver family `cv`).
//   cv_conv32  : constructors, kernels, dispatchers and _simple wrappers of reim_{from_znx32,from_tnx32,to_tnx32}
//                (spqlios/reim/reim_conversions.c).  The six kernels are NOT_IMPLEMENTED() stubs: every call is made
//                in a forked child and the way the child ended is the result ("abort").  A constructor that refuses
//                its arguments calls spqlios_error() = abort(): result "error".
//   cv_rnx     : rnx_divide_by_m_{ref,avx}; oracle: __float128 evaluation of  res[i] = RN(a[i] * RN(1/m)),
//                res[i]*m == a[i] exactly when m is a power of two and the exact quotient is 0 or normal, avx == ref,
//                canaries.  Inputs at the edges of the format relative to m (zeros, subnormals, quotients below
//                2^-1022, ties, overflow) for both variants with power-of-two m and n >= 8; +-inf / NaN operands are
//                oracle-only cases (the soft-float of the model has no non-finite operands): avx == ref bitwise.
//   cv_cplxvec : cplx_fftvec_{add,sub2_to,copy,twiddle,bitwiddle}_fma, cplx_fftvec_{twiddle,bitwiddle}_avx512,
//                cplx_twiddle_fft_ref, cplx_bitwiddle_fft_ref; oracle: __float128 complex arithmetic; the AVX-512
//                kernels additionally bit for bit against their 256-bit twins (findings D8/D9, repaired).
// Op lines: see lean/Spq/Drv/Cover.lean.  Every destination has a canary zone in front of and behind the cells the
// kernel may write; pointers are 8-byte aligned but (odd offsets) not 16/32/64-byte aligned.
#include <fcntl.h>
#include <quadmath.h>
#include <signal.h>
#include <sys/wait.h>
#include <unistd.h>

#include <cstdarg>
#include <functional>

#include <malloc.h>
#include "hcommon.h"

extern "C" {
#include "spqlios/cplx/cplx_fft_internal.h"
#include "spqlios/cplx/cplx_fft_private.h"
#include "spqlios/reim/reim_fft.h"
#include "spqlios/reim/reim_fft_internal.h"
#include "spqlios/reim/reim_fft_private.h"
void reim_from_tnx32_ref(const REIM_FROM_TNX32_PRECOMP* precomp, void* r, const int32_t* x);
void reim_from_tnx32_avx2_fma(const REIM_FROM_TNX32_PRECOMP* precomp, void* r, const int32_t* x);
void reim_to_tnx32_ref(const REIM_TO_TNX32_PRECOMP* precomp, int32_t* r, const void* x);
void reim_to_tnx32_avx2_fma(const REIM_TO_TNX32_PRECOMP* precomp, int32_t* r, const void* x);
// exported by cplx_fftvec_avx2_fma.c but declared in no header of the library
void cplx_fftvec_add_fma(uint32_t m, void* r, const void* a, const void* b);
void cplx_fftvec_sub2_to_fma(uint32_t m, void* r, const void* a, const void* b);
void cplx_fftvec_copy_fma(uint32_t m, void* r, const void* a);
void cplx_twiddle_fft_ref(int32_t h, CPLX* data, const CPLX powom);
void cplx_bitwiddle_fft_ref(int32_t h, CPLX* data, const CPLX powom[2]);
}

namespace {

typedef __float128 q128;

uint64_t d2u(double d) { uint64_t u; memcpy(&u, &d, 8); return u; }
double u2d(uint64_t u) { double d; memcpy(&d, &u, 8); return d; }

std::string fmt(const char* f, ...) {
  char buf[640];
  va_list ap;
  va_start(ap, f);
  vsnprintf(buf, sizeof buf, f, ap);
  va_end(ap);
  return buf;
}

// Runs `f` in a forked child with stderr silenced.  Returns "abort" (SIGABRT), "exit <code>" or "signal <n>".
// The child never returns into the harness: it leaves with _exit(f()).
std::string run_forked(Out& out, const std::function<int()>& f) {
  fflush(out.ops); fflush(out.real); fflush(out.oracle);
  fflush(stdout); fflush(stderr);
  pid_t pid = fork();
  if (pid < 0) return "fork-failed";
  if (pid == 0) {
    int dn = open("/dev/null", O_WRONLY);
    if (dn >= 0) dup2(dn, 2);
    signal(SIGABRT, SIG_DFL);
    _exit(f());
  }
  int st = 0;
  if (waitpid(pid, &st, 0) < 0) return "wait-failed";
  if (WIFSIGNALED(st)) return WTERMSIG(st) == SIGABRT ? "abort" : fmt("signal %d", WTERMSIG(st));
  return fmt("exit %d", WEXITSTATUS(st));
}

void mask(int avx_on) { spqlios_verif_set_cpu_mask(!avx_on, !avx_on, !avx_on); }

// ------------------------------------------------------------------------------------------------
// cv_conv32

const char* KIND[] = {"znx", "tnx", "totnx"};

// constructor in a child: exit 0 = ref selected, 1 = avx selected, 2 = unknown pointer, 3 = NULL returned,
// 4/5 = a field of the table is not the argument; abort = spqlios_error()
std::string real_init32(Out& out, int kind, int avx2, uint32_t m, uint32_t lb, double d) {
  std::string r = run_forked(out, [&]() -> int {
    mask(avx2);
    if (kind == 0) {
      REIM_FROM_ZNX32_PRECOMP* p = new_reim_from_znx32_precomp(m, lb);
      if (!p) return 3;
      if (p->m != (int64_t)m) return 4;
      return p->function == reim_from_znx32_ref ? 0 : p->function == reim_from_znx32_avx2_fma ? 1 : 2;
    } else if (kind == 1) {
      REIM_FROM_TNX32_PRECOMP* p = new_reim_from_tnx32_precomp(m);
      if (!p) return 3;
      if (p->m != (int64_t)m) return 4;
      return p->function == reim_from_tnx32_ref ? 0 : p->function == reim_from_tnx32_avx2_fma ? 1 : 2;
    } else {
      REIM_TO_TNX32_PRECOMP* p = new_reim_to_tnx32_precomp(m, d, lb);
      if (!p) return 3;
      if (p->m != (int64_t)m) return 4;
      if (d2u(p->divisor) != d2u(d)) return 5;
      return p->function == reim_to_tnx32_ref ? 0 : p->function == reim_to_tnx32_avx2_fma ? 1 : 2;
    }
  });
  if (r == "abort") return "error";
  if (r == "exit 0") return "ref";
  if (r == "exit 1") return "avx";
  return r;
}

void case_init32(Out& out, int kind, int avx2, uint32_t m, uint32_t lb, double d) {
  fprintf(out.ops, "cv init32 %s avx2=%d m=%u lb=%u div=%" PRIu64, KIND[kind], avx2, m, lb, d2u(d));
  std::string r = real_init32(out, kind, avx2, m, lb, d);
  fputs(r.c_str(), out.real);
  // documented rules, re-derived here: refused iff m is not a power of two / the bound is above the documented
  // maximum / the divisor is not a power of two; an accelerated kernel only with AVX2 and m >= 8
  std::string verdict = "ok";
  bool pow2m = (m & (m - 1)) == 0;
  bool refused = !pow2m || (kind == 0 && lb > 32) || (kind == 2 && lb > 52);
  if (kind == 2) {
    int e; double f = frexp(d, &e);
    bool dpow2 = (d != 0 && std::isfinite(d) && fabs(f) == 0.5 && fabs(d) >= 0x1p-1022);
    if (!dpow2 && !refused) {
      // is_not_pow2_double only looks at the low 51 bits: 0, 1.5·2^j, ±inf pass the test, the subnormal powers of
      // two 2^-1074..2^-1023 do not (reported, not a violation of the conversions' contract because no kernel exists)
      out.count("totnx_divisor_not_pow2_accepted_or_refused");
      verdict = "na";
    }
  }
  if (verdict == "ok") {
    if (refused && r != "error") verdict = fmt("FAIL C14 init32 %s accepted invalid arguments m=%u lb=%u: %s", KIND[kind], m, lb, r.c_str());
    if (!refused && r != "ref" && r != "avx") verdict = fmt("FAIL C14 init32 %s refused valid arguments m=%u lb=%u: %s", KIND[kind], m, lb, r.c_str());
    if (!refused && r == "avx" && (!avx2 || m < 8)) verdict = fmt("FAIL C14 init32 %s selected the AVX2 kernel with avx2=%d m=%u", KIND[kind], avx2, m);
  }
  out.count(std::string("init32_") + KIND[kind] + "_" + r);
  out.endcase(verdict);
}

void case_kern32(Out& out, Rng& rng, int kind, int how, int avx2, uint32_t m, uint32_t lb, double d) {
  const char* HOW[] = {"ref", "avx", "api", "simple"};
  size_t n = 2 * (size_t)m;
  std::vector<int32_t> xi(n), ri(n, 77);
  std::vector<double> xd(n), rd(n, 77.0);
  for (size_t i = 0; i < n; i++) { xi[i] = (int32_t)rng.next(); xd[i] = (double)rng.sbits(30) / 65536.0; }
  if (n >= 2) { xi[0] = INT32_MIN; xi[1] = INT32_MAX; }
  fprintf(out.ops, "cv kern32 %s %s avx2=%d m=%u lb=%u div=%" PRIu64 " | ", KIND[kind], HOW[how], avx2, m, lb, d2u(d));
  if (kind == 2) put_f64bits(out.ops, xd.data(), n);
  else for (size_t i = 0; i < n; i++) fprintf(out.ops, i ? " %d" : "%d", xi[i]);
  std::string r = run_forked(out, [&]() -> int {
    mask(avx2);
    if (kind == 0) {
      REIM_FROM_ZNX32_PRECOMP t; t.function = 0; t.m = m;
      if (how == 0) reim_from_znx32_ref(&t, rd.data(), xi.data());
      else if (how == 1) reim_from_znx32_avx2_fma(&t, rd.data(), xi.data());
      else if (how == 2) { REIM_FROM_ZNX32_PRECOMP* p = new_reim_from_znx32_precomp(m, lb); reim_from_znx32(p, rd.data(), xi.data()); }
      else reim_from_znx32_simple(m, lb, rd.data(), xi.data());
    } else if (kind == 1) {
      REIM_FROM_TNX32_PRECOMP t; t.function = 0; t.m = m;
      if (how == 0) reim_from_tnx32_ref(&t, rd.data(), xi.data());
      else if (how == 1) reim_from_tnx32_avx2_fma(&t, rd.data(), xi.data());
      else if (how == 2) { REIM_FROM_TNX32_PRECOMP* p = new_reim_from_tnx32_precomp(m); reim_from_tnx32(p, rd.data(), xi.data()); }
      else reim_from_tnx32_simple(m, rd.data(), xi.data());
    } else {
      REIM_TO_TNX32_PRECOMP t; t.function = 0; t.m = m; t.divisor = d;
      if (how == 0) reim_to_tnx32_ref(&t, ri.data(), xd.data());
      else if (how == 1) reim_to_tnx32_avx2_fma(&t, ri.data(), xd.data());
      else if (how == 2) { REIM_TO_TNX32_PRECOMP* p = new_reim_to_tnx32_precomp(m, d, lb); reim_to_tnx32(p, ri.data(), xd.data()); }
      else reim_to_tnx32_simple(m, d, lb, ri.data(), xd.data());
    }
    return 0;  // the kernel returned: it is no longer a stub (the model has to be written then)
  });
  fputs(r == "exit 0" ? "returned" : r.c_str(), out.real);
  out.count(std::string("kern32_") + KIND[kind] + "_" + HOW[how] + "_" + r);
  out.endcase("na");  // nothing to check: the conversion does not exist
}

}  // namespace

STREAM(cv_conv32) {
  // every case forks (a refused constructor and every kernel abort the process): the quick tier keeps ~230 cases
  // (each rule of the constructors at both sides of its threshold, both CPU masks), the thorough tier all of them
  std::vector<uint32_t> ms = {0, 1, 2, 3, 4, 6, 7, 8, 9, 12, 16, 64, 1000, 1024, 65536, 0x80000000u, 0xFFFFFFFFu};
  std::vector<uint32_t> lbs = {0, 1, 18, 19, 32, 33, 52, 53, 64, 4000000000u};
  std::vector<double> ds = {1.0, 2.0, 0.5, 0x1p32, 0x1p-40, 0x1p1023, 0x1p-1022, -4.0, 3.0, 1.5, 0.0, 0.75, 1e10, 0x1p-1074,
                            u2d(0x3FF0000000000001ull), u2d(0x3FF4000000000000ull)};
  if (thorough) { for (uint32_t j = 5; j < 31; j += 3) ms.push_back(1u << j); ms.push_back(24); ms.push_back(4097); }
  else ms = {0, 1, 3, 4, 7, 8, 16, 1024, 0x80000000u, 0xFFFFFFFFu};
  for (int kind = 0; kind < 3; kind++)
    for (int avx2 = 0; avx2 < 2; avx2++)
      for (uint32_t m : ms) {
        if (kind == 1) { case_init32(out, kind, avx2, m, 0, 1.0); continue; }
        for (uint32_t lb : lbs) {
          if (!thorough) {
            bool keep = kind == 0 ? (lb == 0 || lb == 32 || lb == 33) : (lb == 18 || lb == 19 || lb == 52 || lb == 53);
            if (!keep) continue;
          }
          if (kind == 0) case_init32(out, kind, avx2, m, lb, 1.0);
          else {
            case_init32(out, kind, avx2, m, lb, ds[rng.below(4)]);
            if (thorough ? (m == 8 || m == 16 || m == 4) : (m == 8 && lb == 18))
              for (double d : ds) case_init32(out, kind, avx2, m, lb, d);
          }
        }
      }
  // the kernels, the dispatching entry points and the _simple wrappers
  for (int kind = 0; kind < 3; kind++)
    for (int how = 0; how < 4; how++)
      for (int avx2 = 0; avx2 < 2; avx2++)
        for (uint32_t m : {1u, 2u, 4u, 8u, 16u, 64u}) {
          if (how < 2 && avx2 == 0) continue;  // direct calls do not depend on the CPU mask
          if (!thorough && m != 1 && m != 8) continue;
          case_kern32(out, rng, kind, how, avx2, m, kind == 2 ? (avx2 ? 18 : 30) : 20, kind == 2 ? 0x1p10 : 1.0);
        }
  mask(1);
}

// ------------------------------------------------------------------------------------------------
// cv_rnx

namespace {

const uint64_t PADMAX = 7;

double gen_coeff(Rng& r, int cls) {
  switch (cls) {
    case 0: return (double)r.sbits(20);                                                // small integers
    case 1: { double x = ldexp((double)r.sbits(53), (int)r.range(-200, 200)); return x; }  // full mantissas
    case 2: {                                                                          // special values
      static const double sp[] = {0.0, -0.0, 1.0, -1.0, 0x1p-1074, -0x1p-1074, 0x1p-1022, -0x1p-1022, 0x1.fffffffffffffp1023,
                                  -0x1.fffffffffffffp1023, 0x0.fffffffffffffp-1022, 3 * 0x1p-1074, 5 * 0x1p-1074, 6 * 0x1p-1074,
                                  7 * 0x1p-1074, 0x1.8p-1022, 0x1.0000000000001p-1022, 0x1.fffffffffffffp-1023, 2147483647.0, -2147483648.0};
      return sp[r.below(sizeof sp / sizeof sp[0])];
    }
    case 3: {                                                                          // any finite pattern
      uint64_t b = r.next();
      if (((b >> 52) & 2047) == 2047) b ^= (1ull << 52);
      return u2d(b);
    }
    default: {                                                                         // around the underflow threshold
      double x = ldexp(1.0 + (double)(r.next() >> 12) * 0x1p-52, (int)r.range(-1074, -1000));
      return (r.next() & 1) ? x : -x;
    }
  }
}

// inputs at the edges of the binary64 format RELATIVE to the divisor m (|m| = 2^j or any finite m): zeros, subnormal
// inputs, normal inputs whose quotient is subnormal (inexact, and exact ties), quotients at the smallest normals, at
// the overflow threshold, and ordinary values.  All finite: these cases are compared with the model bit for bit.
double gen_edge(Rng& r, double m, uint64_t i) {
  int j = std::isfinite(m) && m != 0 ? ilogb(m) : 0;
  double frac = 1.0 + (double)(r.next() >> 12) * 0x1p-52;
  double sg = (r.next() & 1) ? 1.0 : -1.0;
  switch (i % 14) {
    case 0: return (r.next() & 1) ? 0.0 : -0.0;
    case 1: return u2d(r.next() & 0x800FFFFFFFFFFFFFull);                              // any subnormal, either sign
    case 2: return sg * ldexp((double)(1 + r.below(9)), -1074);                          // k * denorm_min
    case 3: return sg * ldexp(frac, -1022 - (int)(1 + r.below(54)) + j);                 // quotient subnormal, bits are lost
    case 4: return sg * ldexp((double)(2 * r.below(1000) + 1), -1075 + j);               // quotient = odd multiple of 2^-1075: a tie
    case 5: return sg * ldexp(1.0, -1022 + j);                                           // quotient = smallest normal
    case 6: { double t = ldexp(1.0, -1022 + j); return t == 0 ? sg * 0x1p-1074 : sg * u2d(d2u(t) - 1); }  // … one ulp below it
    case 7: return sg * ldexp(frac, -1022 + j);                                          // quotient in the lowest binade
    case 8: return sg * 0x1.fffffffffffffp1023;                                          // DBL_MAX (overflows when |m| < 1)
    case 9: return sg * ldexp(frac, std::min(1023, 1023 + j));                           // quotient in the top binade
    case 10: return sg * u2d(0x000FFFFFFFFFFFFFull);                                     // largest subnormal
    case 11: return sg * 0x1p-1022;                                                      // DBL_MIN
    case 12: return (double)r.sbits(20);
    default: return sg * ldexp(frac, (int)r.range(-1000, 1000));
  }
}

// __float128 evaluation of the contract: RN(a * RN(1/m)); both roundings are single roundings of exact or
// 113-bit values (a product of two doubles is exact in binary128; 113 >= 2*53+2 makes the double rounding of the
// quotient innocuous)
double oracle_div(double a, double m) {
  double invm = (double)((q128)1 / (q128)m);
  return (double)((q128)a * (q128)invm);
}

bool is_pow2_double(double m) { int e; return m != 0 && std::isfinite(m) && fabs(frexp(m, &e)) == 0.5; }

// variant: 0 ref, 1 avx.  alias: in place.  na: outside the documented domain (m not a power of two is "na" for the
// exactness part only)
void case_divm(Out& out, Rng& rng, int variant, uint64_t n, double m, int cls, int alias, uint64_t doff, uint64_t aoff) {
  // cells the kernel touches: ref n; avx 1,2,4 or whole groups of 8 (do-while)
  uint64_t touched = n;
  bool avx_abort = false;
  if (variant == 1) {
    if (n < 8) avx_abort = !(n == 1 || n == 2 || n == 4);
    else touched = ((n + 7) / 8) * 8;
  }
  bool overrun = touched != n;
  uint64_t nres = doff + touched + PADMAX;
  std::vector<double> res(nres), abuf(aoff + touched + 1);
  for (auto& x : res) x = gen_coeff(rng, 3);
  for (auto& x : abuf) x = gen_coeff(rng, cls >= 5 ? (int)rng.below(5) : cls);
  double* a = alias ? res.data() + doff : abuf.data() + aoff;
  if (alias) for (uint64_t i = 0; i < touched; i++) res[doff + i] = gen_coeff(rng, cls >= 5 ? (int)rng.below(5) : cls);
  if (cls == 6) { uint64_t rot = rng.below(14); for (uint64_t i = 0; i < touched; i++) a[i] = gen_edge(rng, m, i + rot); out.count("divm_edge_inputs"); }
  std::vector<double> res0 = res, a0(a, a + touched);
  fprintf(out.ops, "cv divm %s %" PRIu64 " %" PRIu64 " %d %" PRIu64 " | ", variant ? "avx" : "ref", n, d2u(m), alias, doff);
  put_f64bits(out.ops, res.data(), nres);
  fprintf(out.ops, " | ");
  put_f64bits(out.ops, a0.data(), touched);
  out.count(variant ? "divm_avx" : "divm_ref");
  if (avx_abort) {
    std::string r = run_forked(out, [&]() -> int { rnx_divide_by_m_avx(n, m, res.data() + doff, a); return 0; });
    fputs(r == "exit 0" ? "returned" : r.c_str(), out.real);
    out.count("divm_avx_not_supported_n");
    out.endcase("na");
    return;
  }
  if (variant) rnx_divide_by_m_avx(n, m, res.data() + doff, a); else rnx_divide_by_m_ref(n, m, res.data() + doff, a);
  put_f64bits(out.real, res.data(), nres);
  std::string verdict = "ok";
  for (uint64_t i = 0; i < nres && verdict == "ok"; i++) {
    if (i >= doff && i < doff + n) continue;
    if (i >= doff + n && i < doff + touched) {
      // cells behind res[n-1] written by the 8-wide do-while: an overrun of the caller's n-element buffer
      if (d2u(res[i]) != d2u(res0[i])) { verdict = "na"; out.count("divm_avx_writes_past_n"); }
      continue;
    }
    if (d2u(res[i]) != d2u(res0[i])) verdict = fmt("FAIL C07 rnx_divide_by_m_%s n=%" PRIu64 " wrote cell %" PRId64 " outside res[0,n)", variant ? "avx" : "ref", n, (int64_t)i - (int64_t)doff);
  }
  if (verdict == "ok" || verdict == "na") {
    std::vector<double> viaref(n);
    rnx_divide_by_m_ref(n, m, viaref.data(), a0.data());
    for (uint64_t i = 0; i < n; i++) {
      double got = res[doff + i], exp = oracle_div(a0[i], m);
      if (d2u(got) != d2u(exp) && !(std::isnan(got) && std::isnan(exp))) {
        verdict = fmt("FAIL C07 rnx_divide_by_m_%s: a=%a m=%a got %a, correctly rounded a*fl(1/m) is %a", variant ? "avx" : "ref", a0[i], m, got, exp);
        break;
      }
      if (variant && d2u(got) != d2u(viaref[i])) { verdict = fmt("FAIL C07 rnx_divide_by_m_avx differs from _ref: a=%a m=%a avx %a ref %a", a0[i], m, got, viaref[i]); break; }
      // exact whenever the exact quotient is 0 or normal (a subnormal quotient may round, even up to 2^-1022)
      if (is_pow2_double(m) && std::isfinite(got) && (a0[i] == 0 || fabsq((q128)a0[i] / (q128)m) >= (q128)0x1p-1022)) {
        if ((q128)got * (q128)m != (q128)a0[i]) { verdict = fmt("FAIL C07 rnx_divide_by_m_%s: a=%a m=%a (a power of two) got %a which is not a/m", variant ? "avx" : "ref", a0[i], m, got); break; }
      }
    }
  }
  if (!is_pow2_double(m)) out.count("divm_m_not_pow2");
  if (overrun) out.count("divm_avx_n_not_multiple_of_8");
  out.endcase(verdict);
}

// ±inf and NaN operands (not modelled by the soft-float of the Lean model): oracle-only.  Both variants on the same
// data: avx == ref bit for bit (the same mulsd/vmulpd per lane), inf stays inf with the sign of a/m, NaN stays NaN,
// the finite cells are the correctly rounded products, nothing outside res[0,n) changes.
void case_divm_nonfinite(Out& out, Rng& rng, uint64_t n, double m) {
  const uint64_t pad = 1 + rng.below(PADMAX);
  std::vector<double> a(n), r0(pad + n + PADMAX), r1;
  for (auto& x : r0) x = gen_coeff(rng, 3);
  uint64_t rot = rng.below(20);
  for (uint64_t i = 0; i < n; i++) {
    switch ((i + rot) % 20) {
      case 0: a[i] = INFINITY; break;
      case 1: a[i] = -INFINITY; break;
      case 2: a[i] = u2d(0x7FF8000000000000ull); break;                          // quiet NaN
      case 3: a[i] = u2d(0xFFF8000000000000ull | (rng.next() >> 13)); break;      // quiet NaN with payload, negative
      case 4: a[i] = u2d(0x7FF0000000000000ull | (1 + (rng.next() >> 13))); break; // signalling NaN
      default: a[i] = gen_edge(rng, m, i); break;
    }
  }
  r1 = r0;
  const std::vector<double> init = r0;
  rnx_divide_by_m_ref(n, m, r0.data() + pad, a.data());
  rnx_divide_by_m_avx(n, m, r1.data() + pad, a.data());
  fprintf(out.ops, "ca nop divm_nonfinite n=%" PRIu64 " m=%" PRIu64, n, d2u(m));
  fprintf(out.real, "nop");
  std::string verdict = "ok";
  for (uint64_t i = 0; i < n && verdict == "ok"; i++) {
    double g0 = r0[pad + i], g1 = r1[pad + i];
    if (d2u(g0) != d2u(g1)) verdict = fmt("FAIL C07 rnx_divide_by_m_avx differs from _ref: a=%a (%016" PRIx64 ") m=%a avx %016" PRIx64 " ref %016" PRIx64, a[i], d2u(a[i]), m, d2u(g1), d2u(g0));
    else if (std::isnan(a[i])) { if (!std::isnan(g0)) verdict = fmt("FAIL C07 rnx_divide_by_m: NaN / %a = %a", m, g0); }
    else if (std::isinf(a[i])) { if (!(std::isinf(g0) && std::signbit(g0) == (std::signbit(a[i]) != std::signbit(m)))) verdict = fmt("FAIL C07 rnx_divide_by_m: %a / %a = %a", a[i], m, g0); }
    else if (d2u(g0) != d2u(oracle_div(a[i], m))) verdict = fmt("FAIL C07 rnx_divide_by_m: a=%a m=%a got %a, correctly rounded a*fl(1/m) is %a", a[i], m, g0, oracle_div(a[i], m));
  }
  for (uint64_t i = 0; i < r0.size() && verdict == "ok"; i++)
    if ((i < pad || i >= pad + n) && (d2u(r0[i]) != d2u(init[i]) || d2u(r1[i]) != d2u(init[i]))) verdict = fmt("FAIL C11 rnx_divide_by_m wrote cell %" PRId64 " outside res[0,n)", (int64_t)i - (int64_t)pad);
  out.count("divm_nonfinite");
  out.endcase(verdict);
}

double gen_m(Rng& rng, int k) {
  static const int js[] = {0, 1, 2, 3, 4, 5, 6, 10, 11, 12, 16, 20, 31, 32, 52, 53, 64, 600, 1000, 1022, 1023, -1, -2, -10, -52, -600, -1021, -1022, -1023};
  switch (k) {
    case 0: return ldexp(1.0, js[rng.below(sizeof js / sizeof js[0])]);
    case 1: return -ldexp(1.0, js[rng.below(12)]);
    case 2: { static const double v[] = {3.0, 7.0, 10.0, 1e10, 1.0 / 3, 0.1, 65537.0, 0x1.fffffffffffffp1023, 0x1.fffffffffffffp-1, 0x1.0000000000001p0, -3.0, 6.0};
              return v[rng.below(sizeof v / sizeof v[0])]; }
    default: { double x = ldexp(1.0 + (double)(rng.next() >> 12) * 0x1p-52, (int)rng.range(-1000, 1000)); return (rng.next() & 1) ? x : -x; }
  }
}

}  // namespace

STREAM(cv_rnx) {
  std::vector<uint64_t> ns;
  for (uint64_t n = 0; n <= (thorough ? 40u : 17u); n++) ns.push_back(n);
  for (uint64_t n : {24u, 32u, 63u, 64u, 100u, 128u, 256u}) ns.push_back(n);
  if (thorough) for (uint64_t n : {512u, 1000u, 1024u, 4096u, 65536u}) ns.push_back(n);
  for (uint64_t n : ns)
    for (int variant = 0; variant < 2; variant++) {
      int reps = n <= 64 ? (thorough ? 10 : 4) : (n <= 1024 ? 3 : 1);
      for (int rep = 0; rep < reps; rep++) {
        int cls = n > 1024 ? 1 : (rep < 5 ? rep : 5);
        double m = gen_m(rng, rep == 0 ? 0 : (int)rng.below(4));
        if (cls == 4 && rep == 4) m = ldexp(1.0, (int)rng.range(1, 4));  // ties at the bottom of the subnormal range
        int alias = (rep % 3) == 2;
        case_divm(out, rng, variant, n, m, cls, alias, rng.below(PADMAX + 1), rng.below(4));
      }
    }
  // power-of-two m, n >= 8 (the 8-wide loop of the AVX kernel), BOTH variants on inputs at the edges of the format
  // relative to m: zeros, subnormal inputs, quotients below 2^-1022 (inexact and ties), at the smallest normals, at
  // the overflow threshold — where "divide by 2^j" is not an exponent-field subtraction
  {
    static const int js[] = {1, 2, 3, 4, 10, 11, 16, 52, 53, 600, 1022, -1, -2, -10, -52, -600, -1022, 0};
    std::vector<uint64_t> ens = thorough ? std::vector<uint64_t>{8, 16, 24, 32, 64, 128, 1024} : std::vector<uint64_t>{8, 16, 24, 64};
    for (uint64_t n : ens)
      for (int j : js) {
        if (!thorough && n != 16 && (j != 1 && j != 4 && j != 16 && j != -2 && j != 1022)) continue;
        double m = ldexp(1.0, j);
        if ((rng.next() & 3) == 0) m = -m;
        uint64_t doff = rng.below(PADMAX + 1), aoff = rng.below(4);
        int alias = (int)(rng.below(3) == 0);
        for (int variant = 0; variant < 2; variant++) case_divm(out, rng, variant, n, m, 6, alias, doff, aoff);
        case_divm_nonfinite(out, rng, n, m);
      }
    // the same edges with a divisor that is not a power of two, and the ring dimension as divisor
    for (uint64_t n : {(uint64_t)8, (uint64_t)64})
      for (double m : {3.0, 0x1.8p-3, (double)n}) {
        for (int variant = 0; variant < 2; variant++) case_divm(out, rng, variant, n, m, 6, 0, rng.below(PADMAX + 1), rng.below(4));
        case_divm_nonfinite(out, rng, n, m);
      }
  }
  // the dimension is what the library divides by after an inverse FFT: m = n, n a power of two
  for (uint64_t n = 1; n <= (thorough ? 65536u : 4096u); n *= 2)
    for (int variant = 0; variant < 2; variant++) case_divm(out, rng, variant, n, (double)n, 5, 0, rng.below(PADMAX + 1), rng.below(4));
}

// ------------------------------------------------------------------------------------------------
// cv_cplxvec

namespace {

enum { V_INT, V_UNIT, V_ZEROS, V_RANGE, V_TINY, NVCLS };
const char* VCLS[] = {"int", "unit", "zeros", "range", "tiny"};

double gen_val(Rng& r, int cls) {
  switch (cls) {
    case V_INT: return (double)r.sbits(20);
    case V_UNIT: { double x = (double)(r.next() >> 11) * 0x1p-53; return (r.next() & 1) ? x : -x; }
    case V_ZEROS:
      switch (r.below(6)) {
        case 0: return 0.0;
        case 1: return -0.0;
        case 2: return 1.0;
        case 3: return -1.0;
        case 4: return (double)r.sbits(3);
        default: return -0.0;
      }
    case V_RANGE: { double x = ldexp(1.0 + (double)(r.next() >> 12) * 0x1p-52, (int)r.range(-300, 300)); return (r.next() & 1) ? x : -x; }
    default: { double x = ldexp(1.0 + (double)(r.next() >> 12) * 0x1p-52, (int)r.range(-560, -500)); return (r.next() & 1) ? x : -x; }
  }
}
double gen_canary(Rng& r) {
  uint64_t b = r.next();
  if (((b >> 52) & 2047) == 2047) b ^= (1ull << 52);
  return u2d(b);
}

// a buffer: `doff` canary cells, `n` payload cells, PADMAX canary cells
struct Buf {
  std::vector<double> v, v0;
  uint64_t doff, n;
  double* p() { return v.data() + doff; }
  const double* p0() const { return v0.data() + doff; }
};
Buf mkbuf(Rng& rng, uint64_t n, int cls, bool payload_random_pattern = false) {
  Buf b;
  b.doff = rng.below(PADMAX + 1);
  b.n = n;
  b.v.resize(b.doff + n + PADMAX);
  for (auto& x : b.v) x = gen_canary(rng);
  if (!payload_random_pattern) for (uint64_t i = 0; i < n; i++) b.v[b.doff + i] = gen_val(rng, cls);
  b.v0 = b.v;
  return b;
}
void emit(FILE* f, const Buf& b, bool whole) {
  if (whole) put_f64bits(f, b.v.data(), b.v.size()); else put_f64bits(f, b.v.data() + b.doff, b.n);
}
std::string canaries(const Buf& b, uint64_t written, const char* what) {
  for (uint64_t i = 0; i < b.v.size(); i++) {
    if (i >= b.doff && i < b.doff + written) continue;
    if (d2u(b.v[i]) != d2u(b.v0[i])) return fmt("FAIL C07 %s wrote cell %" PRId64 " outside its %" PRIu64 " result cells", what, (int64_t)i - (int64_t)b.doff, written);
  }
  return "ok";
}

struct Cq { q128 re, im; };
Cq cq(double re, double im) { return {(q128)re, (q128)im}; }
q128 absq(q128 x) { return x < 0 ? -x : x; }
// exact product and the magnitude its rounding errors are relative to
struct Pq { Cq v; q128 sre, sim; };
Pq mulq(Cq w, Cq b) {
  return {{w.re * b.re - w.im * b.im, w.re * b.im + w.im * b.re}, absq(w.re * b.re) + absq(w.im * b.im), absq(w.re * b.im) + absq(w.im * b.re)};
}
bool closeq(double got, q128 exact, q128 scale, bool exactly, int k) {
  if (exactly) return (q128)got == exact;
  q128 tol = (q128)k * ldexpq((q128)1, -52) * scale + (q128)k * ldexpq((q128)1, -1070);
  return absq((q128)got - exact) <= tol;
}

uint64_t ymm_count(uint64_t total, uint64_t step) { uint64_t it = (total + step - 1) / step; return step * (it ? it : 1); }

bool has_avx512() { return __builtin_cpu_supports("avx512f") && __builtin_cpu_supports("avx512dq") && __builtin_cpu_supports("avx512vl"); }

// cplx_fftvec_add_fma / sub2_to_fma / copy_fma.   which: 0 add, 1 sub2, 2 copy
void case_pointwise(Out& out, Rng& rng, int which, uint64_t m, int cls) {
  const char* OP[] = {"cadd", "csub2", "ccopy"};
  const char* FN[] = {"cplx_fftvec_add_fma", "cplx_fftvec_sub2_to_fma", "cplx_fftvec_copy_fma"};
  uint64_t touched = 4 * ymm_count(m / 2, 4);
  bool indomain = m > 0 && m % 8 == 0;
  Buf r = mkbuf(rng, touched, cls, which != 1), a = mkbuf(rng, touched, cls), b = mkbuf(rng, touched, cls);
  fprintf(out.ops, "cv %s fma %" PRIu64 " %" PRIu64 " | ", OP[which], m, r.doff);
  emit(out.ops, r, true);
  fprintf(out.ops, " | ");
  emit(out.ops, a, false);
  if (which != 2) { fprintf(out.ops, " | "); emit(out.ops, b, false); }
  if (which == 0) cplx_fftvec_add_fma((uint32_t)m, r.p(), a.p(), b.p());
  else if (which == 1) cplx_fftvec_sub2_to_fma((uint32_t)m, r.p(), a.p(), b.p());
  else cplx_fftvec_copy_fma((uint32_t)m, r.p(), a.p());
  emit(out.real, r, true);
  std::string verdict = canaries(r, touched, FN[which]);
  for (uint64_t i = 0; i < 2 * m && i < touched && verdict == "ok"; i++) {
    volatile double s = a.p()[i] + b.p()[i];  // hardware binary64, no contraction possible
    volatile double e = which == 0 ? s : which == 1 ? r.p0()[i] - s : a.p()[i];
    if (d2u(r.p()[i]) != d2u(e)) verdict = fmt("FAIL C07 %s m=%" PRIu64 " cell %" PRIu64 ": got %a expected %a", FN[which], m, i, r.p()[i], (double)e);
  }
  if (!indomain) {  // the 8-complex do-while handles whole groups: cells past 2m are written too
    out.count(std::string(OP[which]) + "_m_not_multiple_of_8");
    if (verdict == "ok") verdict = "na";
  }
  out.count(std::string("op_") + OP[which]);
  out.count(std::string("values_") + VCLS[cls]);
  out.endcase(verdict);
}

void gen_omega(Rng& rng, int cls, double* om, int kind) {
  // kind 0: the same twiddle for both parities (what an FFT pass uses), 1: two different twiddles, 2: om[3] = 0
  for (int i = 0; i < 4; i++) om[i] = gen_val(rng, cls);
  if (cls == V_UNIT || cls == V_RANGE) {
    double t = (double)(rng.next() >> 11) * 0x1p-53 * 6.283185307179586;
    om[0] = cos(t); om[1] = sin(t);
    double t2 = (double)(rng.next() >> 11) * 0x1p-53 * 6.283185307179586;
    om[2] = cos(t2); om[3] = sin(t2);
  }
  if (kind == 0) { om[2] = om[0]; om[3] = om[1]; }
  if (kind == 2) om[3] = (rng.next() & 1) ? 0.0 : -0.0;
}

// variant 0 fma, 1 avx512
void case_twiddle(Out& out, Rng& rng, int variant, uint64_t m, int cls, int omkind) {
  const char* FN = variant ? "cplx_fftvec_twiddle_avx512" : "cplx_fftvec_twiddle_fma";
  uint64_t touched = variant ? 8 * ymm_count(m / 4, 4) : 4 * ymm_count(m / 2, 4);
  bool indomain = m > 0 && m % (variant ? 16 : 8) == 0;
  Buf a = mkbuf(rng, touched, cls), b = mkbuf(rng, touched, cls);
  double om[4];
  gen_omega(rng, cls, om, omkind);
  fprintf(out.ops, "cv twiddle %s %" PRIu64 " %" PRIu64 " %" PRIu64 " | ", variant ? "avx512" : "fma", m, a.doff, b.doff);
  emit(out.ops, a, true);
  fprintf(out.ops, " | ");
  emit(out.ops, b, true);
  fprintf(out.ops, " | ");
  put_f64bits(out.ops, om, 4);
  CPLX_FFTVEC_TWIDDLE_PRECOMP t; t.function = 0; t.m = (int64_t)m;
  if (variant) cplx_fftvec_twiddle_avx512(&t, a.p(), b.p(), om); else cplx_fftvec_twiddle_fma(&t, a.p(), b.p(), om);
  emit(out.real, a, true);
  fprintf(out.real, " | ");
  emit(out.real, b, true);
  std::string verdict = canaries(a, touched, FN);
  if (verdict == "ok") verdict = canaries(b, touched, FN);
  for (uint64_t i = 0; i < m && 2 * i + 1 < touched && verdict == "ok"; i++) {
    Cq w = cq(om[2 * (i % 2)], om[2 * (i % 2) + 1]);
    Cq a0 = cq(a.p0()[2 * i], a.p0()[2 * i + 1]), b0 = cq(b.p0()[2 * i], b.p0()[2 * i + 1]);
    Pq p = mulq(w, b0);
    bool ex = cls == V_INT;
    q128 sre = absq(a0.re) + p.sre, sim = absq(a0.im) + p.sim;
    if (!closeq(a.p()[2 * i], a0.re + p.v.re, sre, ex, 4) || !closeq(a.p()[2 * i + 1], a0.im + p.v.im, sim, ex, 4) ||
        !closeq(b.p()[2 * i], a0.re - p.v.re, sre, ex, 4) || !closeq(b.p()[2 * i + 1], a0.im - p.v.im, sim, ex, 4))
      verdict = fmt("FAIL C07 %s m=%" PRIu64 " complex %" PRIu64 ": a=(%a,%a) b=(%a,%a) om=(%a,%a) -> a'=(%a,%a) b'=(%a,%a), expected a+om*b=(%.17g,%.17g) a-om*b=(%.17g,%.17g)",
                    FN, m, i, a.p0()[2 * i], a.p0()[2 * i + 1], b.p0()[2 * i], b.p0()[2 * i + 1], om[2 * (i % 2)], om[2 * (i % 2) + 1],
                    a.p()[2 * i], a.p()[2 * i + 1], b.p()[2 * i], b.p()[2 * i + 1], (double)(a0.re + p.v.re), (double)(a0.im + p.v.im),
                    (double)(a0.re - p.v.re), (double)(a0.im - p.v.im));
  }
  if (variant && indomain && verdict == "ok") {
    // the AVX-512 kernel performs, lane by lane, the operations of its 256-bit twin: bit-for-bit the same result
    std::vector<double> ta(a.p0(), a.p0() + touched), tb(b.p0(), b.p0() + touched);
    cplx_fftvec_twiddle_fma(&t, ta.data(), tb.data(), om);
    for (uint64_t i = 0; i < touched && verdict == "ok"; i++)
      if (d2u(ta[i]) != d2u(a.p()[i]) || d2u(tb[i]) != d2u(b.p()[i]))
        verdict = fmt("FAIL C07 cplx_fftvec_twiddle_avx512 differs from cplx_fftvec_twiddle_fma: m=%" PRIu64 " cell %" PRIu64 " avx512 (%a,%a) fma (%a,%a)",
                      m, i, a.p()[i], b.p()[i], ta[i], tb[i]);
  }
  if (!indomain) { out.count("twiddle_m_outside_domain"); if (verdict == "ok") verdict = "na"; }
  out.count(variant ? "op_twiddle_avx512" : "op_twiddle_fma");
  out.count(std::string("values_") + VCLS[cls]);
  out.endcase(verdict);
}

// reference semantics in binary128: (a,b) <- (a + w b, a - w b); returns per-cell error scales in sc[]
void bf_q(std::vector<q128>& d, std::vector<q128>& sc, uint64_t ia, uint64_t ib, Cq w) {
  Cq b = {d[2 * ib], d[2 * ib + 1]};
  Pq p = mulq(w, b);
  q128 sre = sc[2 * ia] + absq(w.re) * sc[2 * ib] + absq(w.im) * sc[2 * ib + 1];
  q128 sim = sc[2 * ia + 1] + absq(w.re) * sc[2 * ib + 1] + absq(w.im) * sc[2 * ib];
  q128 are = d[2 * ia], aim = d[2 * ia + 1];
  d[2 * ib] = are - p.v.re; d[2 * ib + 1] = aim - p.v.im;
  d[2 * ia] = are + p.v.re; d[2 * ia + 1] = aim + p.v.im;
  sc[2 * ia] = sc[2 * ib] = sre;
  sc[2 * ia + 1] = sc[2 * ib + 1] = sim;
}

// cplx_twiddle_fft_ref (levels = 1) / cplx_bitwiddle_fft_ref (levels = 2)
void case_ref(Out& out, Rng& rng, int levels, uint64_t h, int cls) {
  const char* FN = levels == 1 ? "cplx_twiddle_fft_ref" : "cplx_bitwiddle_fft_ref";
  uint64_t n = (levels == 1 ? 4 : 8) * h;
  Buf d = mkbuf(rng, n, cls);
  double om[4];
  gen_omega(rng, cls, om, 1);
  if (levels == 2 && cls == V_INT) {  // two levels of products: keep every intermediate below 2^53 (exact arithmetic)
    for (uint64_t i = 0; i < n; i++) d.v[d.doff + i] = (double)rng.sbits(14);
    d.v0 = d.v;
    for (int i = 0; i < 4; i++) om[i] = (double)rng.sbits(14);
  }
  fprintf(out.ops, "cv %s ref %" PRIu64 " %" PRIu64 " | ", levels == 1 ? "twref" : "bitwref", h, d.doff);
  emit(out.ops, d, true);
  fprintf(out.ops, " | ");
  put_f64bits(out.ops, om, levels == 1 ? 2 : 4);
  if (levels == 1) cplx_twiddle_fft_ref((int32_t)h, (CPLX*)d.p(), om);
  else cplx_bitwiddle_fft_ref((int32_t)h, (CPLX*)d.p(), (const CPLX*)om);
  emit(out.real, d, true);
  std::string verdict = canaries(d, n, FN);
  std::vector<q128> e(n), sc(n);
  for (uint64_t i = 0; i < n; i++) { e[i] = d.p0()[i]; sc[i] = absq(e[i]); }
  Cq w0 = cq(om[0], om[1]), w1 = cq(om[2], om[3]), iw1 = cq(-om[3], om[2]);
  if (levels == 1) for (uint64_t i = 0; i < h; i++) bf_q(e, sc, i, h + i, w0);
  else {
    for (uint64_t i = 0; i < h; i++) { bf_q(e, sc, i, 2 * h + i, w0); bf_q(e, sc, h + i, 3 * h + i, w0); }
    for (uint64_t i = 0; i < h; i++) { bf_q(e, sc, i, h + i, w1); bf_q(e, sc, 2 * h + i, 3 * h + i, iw1); }
  }
  for (uint64_t i = 0; i < n && verdict == "ok"; i++)
    if (!closeq(d.p()[i], e[i], sc[i], cls == V_INT, 8))
      verdict = fmt("FAIL C07 %s h=%" PRIu64 " cell %" PRIu64 ": got %a expected %.17g", FN, h, i, d.p()[i], (double)e[i]);
  out.count(levels == 1 ? "op_twref" : "op_bitwref");
  out.count(std::string("values_") + VCLS[cls]);
  if (h == 0) out.count("h_0");
  out.endcase(verdict);
}

// variant 0 fma, 1 avx512.  slack: extra bytes between the slices
void case_bitwiddle(Out& out, Rng& rng, int variant, uint64_t m, uint64_t slicea, int cls, int omkind) {
  const char* FN = variant ? "cplx_fftvec_bitwiddle_avx512" : "cplx_fftvec_bitwiddle_fma";
  uint64_t off = variant ? 8 * (slicea / 64) : 4 * (slicea / 32);
  uint64_t per = variant ? 8 * ymm_count(m / 4, 2) : 4 * ymm_count(m / 2, 1);  // doubles per slice
  uint64_t n = 3 * off + per;
  bool indomain = m > 0 && m % (variant ? 8 : 2) == 0 && per <= off;
  Buf a = mkbuf(rng, n, cls);
  double om[4];
  gen_omega(rng, cls, om, omkind);
  fprintf(out.ops, "cv bitwiddle %s %" PRIu64 " %" PRIu64 " %" PRIu64 " | ", variant ? "avx512" : "fma", m, slicea, a.doff);
  emit(out.ops, a, true);
  fprintf(out.ops, " | ");
  put_f64bits(out.ops, om, 4);
  CPLX_FFTVEC_BITWIDDLE_PRECOMP t; t.function = 0; t.m = (int64_t)m;
  if (variant) cplx_fftvec_bitwiddle_avx512(&t, a.p(), slicea, om); else cplx_fftvec_bitwiddle_fma(&t, a.p(), slicea, om);
  emit(out.real, a, true);
  std::string verdict = canaries(a, n, FN);
  // cells between the slices are not written
  for (uint64_t s = 0; s < 3 && verdict == "ok" && per <= off; s++)
    for (uint64_t i = s * off + per; i < (s + 1) * off; i++)
      if (d2u(a.p()[i]) != d2u(a.p0()[i])) verdict = fmt("FAIL C07 %s wrote cell %" PRIu64 " between two slices", FN, i);
  if (verdict == "ok" && indomain) {
    if (variant == 0) {
      // The kernel has no second-level twiddle input and uses (om.re, om.re) / (om.im, om.im) there: it is not
      // cplx_bitwiddle_fft_ref for any reading of `omg`.  Counted, not judged (no caller, no documentation).
      verdict = "na";
      out.count("bitwiddle_fma_no_contract");
    } else {
      // contract: the 256-bit twin on the same data
      std::vector<double> twin(a.p0(), a.p0() + n);
      cplx_fftvec_bitwiddle_fma(&t, twin.data(), (slicea / 64) * 64, om);
      for (uint64_t i = 0; i < n && verdict == "ok"; i++)
        if (d2u(twin[i]) != d2u(a.p()[i]))
          verdict = fmt("FAIL C07 cplx_fftvec_bitwiddle_avx512 differs from cplx_fftvec_bitwiddle_fma: m=%" PRIu64 " cell %" PRIu64 " (complex %" PRIu64 " of slice %" PRIu64 ") avx512 %a fma %a",
                        m, i, (i % off) / 2, i / off, a.p()[i], twin[i]);
    }
  }
  if (!indomain) { out.count("bitwiddle_outside_domain"); if (verdict == "ok") verdict = "na"; }
  out.count(variant ? "op_bitwiddle_avx512" : "op_bitwiddle_fma");
  out.count(std::string("values_") + VCLS[cls]);
  out.endcase(verdict);
}

}  // namespace

STREAM(cv_cplxvec) {
  bool a512 = has_avx512();
  if (!a512) out.count("avx512_not_available");
  std::vector<uint64_t> ms = thorough ? std::vector<uint64_t>{8, 16, 24, 32, 40, 48, 64, 96, 128, 256, 1024, 4096}
                                      : std::vector<uint64_t>{8, 16, 24, 32, 64, 128};
  std::vector<uint64_t> odd_ms = {0, 1, 2, 4, 6, 10, 12, 20};  // outside the loop structure's domain (do-while over 8 complexes)
  for (int which = 0; which < 3; which++) {
    for (uint64_t m : ms)
      for (int cls = 0; cls < NVCLS; cls++) {
        if (m > 128 && cls != V_UNIT && cls != V_RANGE) continue;
        case_pointwise(out, rng, which, m, cls);
      }
    for (uint64_t m : odd_ms) case_pointwise(out, rng, which, m, (int)rng.below(NVCLS));
  }
  for (int variant = 0; variant < 2; variant++) {
    if (variant && !a512) continue;
    for (uint64_t m : ms)
      for (int cls = 0; cls < NVCLS; cls++)
        for (int omkind = 0; omkind < 3; omkind++) {
          if (m > 128 && (cls != V_UNIT || omkind == 2)) continue;
          if (variant && m % 16) continue;
          case_twiddle(out, rng, variant, m, cls, omkind);
        }
    for (uint64_t m : odd_ms) case_twiddle(out, rng, variant, m, (int)rng.below(NVCLS), 1);
    if (variant) case_twiddle(out, rng, variant, 8, V_UNIT, 1);
  }
  // reference butterflies: every h from 0
  for (uint64_t h = 0; h <= (thorough ? 40u : 9u); h++)
    for (int levels = 1; levels <= 2; levels++)
      for (int cls = 0; cls < NVCLS; cls++) case_ref(out, rng, levels, h, cls);
  for (uint64_t h : {64u, 256u}) for (int levels = 1; levels <= 2; levels++) case_ref(out, rng, levels, h, V_UNIT);
  // bitwiddle: slices of m complexes, tightly packed or with a gap
  std::vector<uint64_t> bms = thorough ? std::vector<uint64_t>{2, 4, 6, 8, 10, 16, 24, 32, 64, 128, 512} : std::vector<uint64_t>{2, 4, 6, 8, 16, 32, 64};
  for (int variant = 0; variant < 2; variant++) {
    if (variant && !a512) continue;
    for (uint64_t m : bms)
      for (int cls = 0; cls < NVCLS; cls++) {
        if (variant && m % 8) continue;
        if (m > 64 && cls != V_UNIT) continue;
        uint64_t unit = variant ? 64 : 32;
        uint64_t tight = ((16 * m + unit - 1) / unit) * unit;
        case_bitwiddle(out, rng, variant, m, tight, cls, (int)rng.below(3));
        case_bitwiddle(out, rng, variant, m, tight + unit * (1 + rng.below(3)), cls, 1);
        if (cls == V_UNIT) case_bitwiddle(out, rng, variant, m, tight + 8 * (1 + rng.below(3)), cls, 0);  // slicea not a multiple of the register size
      }
    // outside the domain of the loop structure (m = 0, odd m, half a step): the do-while still handles one whole
    // step; the slices are kept far enough apart for the step not to overlap the next slice
    for (uint64_t m : {0u, 1u, 3u}) case_bitwiddle(out, rng, variant, m, 128, V_INT, 1);
    if (variant) case_bitwiddle(out, rng, variant, 4, 128, V_INT, 1);
  }
}

// ------------------------------------------------------------------------------------------------
// cv_q120old : q120 entry points that no other stream calls, against the EXISTING model functions of family `q1`
//   q120_vec_mat1col_product_bbc_ref_old          -> op "q1 bbc ref …"       (Spq.Q120.bbcRef)
//   q120x2_vec_mat2cols_product_bbc_avx2_old      -> op "q1 x2bbc2 avx2 …"   (Spq.Q120.x2Col2Avx)
//   q120x2_extract_1blk_from_q120c_ref (an alias) -> op "q1 extract …"       (Spq.Q120.extract1blk)
// Read statement by statement / intrinsic by intrinsic: the deprecated kernels perform the operations of the current
// ones in the same order (the AVX2 one treats a whole row of x before the second column instead of half rows), so the
// same model functions apply.  Oracle: the exact dot product modulo each prime (128-bit integers) and bit-equality
// with the current kernel.

extern "C" {
#include "spqlios/q120/q120_arithmetic.h"
#include "spqlios/q120/q120_arithmetic_private.h"
#include "spqlios/q120/q120_common.h"
void q120_vec_mat1col_product_bbc_ref_old(q120_mat1col_product_bbc_precomp* precomp, const uint64_t ell, q120b* const res, const q120b* const x, const q120c* const y);
void q120x2_vec_mat2cols_product_bbc_avx2_old(q120_mat1col_product_bbc_precomp* precomp, const uint64_t ell, q120b* const res, const q120b* const x, const q120c* const y);
void q120x2_extract_1blk_from_q120c_ref(uint64_t nn, uint64_t blk, q120x2c* const dst, const q120c* const src);
}

namespace {

typedef unsigned __int128 u128;
const uint64_t QS4[4] = {Q1, Q2, Q3, Q4};
const uint64_t MSK32 = 0xFFFFFFFFull;

// classes: 0 valid random (y1 = y0·2^32 mod q), 1 all-max words, 2 valid with the largest 32-bit representatives,
// 3 raw words (not a valid layout-c element: ties the wrap-around only)
uint64_t gen_clane(Rng& r, int cls, int k) {
  const uint64_t q = QS4[k];
  uint64_t y0, y1;
  switch (cls) {
    case 0: y0 = r.below(q); y1 = (uint64_t)(((u128)y0 << 32) % q); break;
    case 1: y0 = MSK32; y1 = MSK32; break;
    case 2: {
      y0 = q - 1; y1 = (uint64_t)(((u128)y0 << 32) % q);
      y0 += q * ((MSK32 - y0) / q); y1 += q * ((MSK32 - y1) / q);
      break;
    }
    default: y0 = r.next() & MSK32; y1 = r.next() & MSK32; break;
  }
  return y0 | (y1 << 32);
}
uint64_t gen_blane(Rng& r, int cls) { return cls == 1 ? ~0ull : cls == 2 ? (r.next() | (1ull << 63)) : r.next(); }

void case_q120old(Out& out, Rng& rng, int which, uint64_t ell, int cls) {
  static q120_mat1col_product_bbc_precomp* pc = q120_new_vec_mat1col_product_bbc_precomp();
  const uint64_t xrow = which ? 8 : 4, yrow = which ? 16 : 4, nres = which ? 16 : 4;
  std::vector<uint64_t> x(xrow * ell + 4), y(yrow * ell + 4), res(nres, 0x5A5A5A5A5A5A5A5Aull), cur(nres, 0);
  for (uint64_t i = 0; i < ell; i++) {
    for (uint64_t l = 0; l < xrow; l++) x[xrow * i + l] = gen_blane(rng, cls);
    for (uint64_t l = 0; l < yrow; l++) y[yrow * i + l] = gen_clane(rng, cls, (int)(l % 4));
  }
  if (which == 0) {
    q120_vec_mat1col_product_bbc_ref_old(pc, ell, (q120b*)res.data(), (q120b*)x.data(), (q120c*)y.data());
    q120_vec_mat1col_product_bbc_ref(pc, ell, (q120b*)cur.data(), (q120b*)x.data(), (q120c*)y.data());
  } else {
    q120x2_vec_mat2cols_product_bbc_avx2_old(pc, ell, (q120b*)res.data(), (q120b*)x.data(), (q120c*)y.data());
    q120x2_vec_mat2cols_product_bbc_avx2(pc, ell, (q120b*)cur.data(), (q120b*)x.data(), (q120c*)y.data());
  }
  fprintf(out.ops, "q1 %s %" PRIu64 " %" PRIu64, which ? "x2bbc2 avx2" : "bbc ref", ell, pc->h);
  for (int k = 0; k < 4; k++) fprintf(out.ops, " %" PRIu64, pc->s2l_pow_red[k]);
  for (int k = 0; k < 4; k++) fprintf(out.ops, " %" PRIu64, pc->s2h_pow_red[k]);
  fprintf(out.ops, " | ");
  put_u64s(out.ops, x.data(), xrow * ell);
  fprintf(out.ops, " | ");
  put_u64s(out.ops, y.data(), yrow * ell);
  put_u64s(out.real, res.data(), nres);
  const char* FN = which ? "q120x2_vec_mat2cols_product_bbc_avx2_old" : "q120_vec_mat1col_product_bbc_ref_old";
  std::string verdict = (cls == 3 || cls == 1 || ell > 10000) ? "na" : "ok";
  for (uint64_t r = 0; r < nres; r++) {
    if (res[r] != cur[r]) { verdict = fmt("FAIL C10 %s differs from the current kernel: ell=%" PRIu64 " lane %" PRIu64 " old %" PRIu64 " current %" PRIu64, FN, ell, r, res[r], cur[r]); break; }
    if (verdict != "ok") continue;
    const int k = (int)(r % 4);
    const uint64_t q = QS4[k];
    uint64_t xo = which ? 4 * ((r / 4) % 2) + k : r, yo = r;
    u128 acc = 0;
    for (uint64_t i = 0; i < ell; i++) {
      uint64_t xv = x[xrow * i + xo], yv = y[yrow * i + yo];
      acc += (uint64_t)((((u128)(xv & MSK32) * (yv & MSK32)) % q + ((u128)(xv >> 32) * (yv >> 32)) % q) % q);
    }
    if (res[r] % q != (uint64_t)(acc % q)) verdict = fmt("FAIL C10 %s ell=%" PRIu64 " lane %" PRIu64 ": got %" PRIu64 " expected %" PRIu64 " mod %" PRIu64, FN, ell, r, res[r], (uint64_t)(acc % q), q);
  }
  out.count(which ? "x2bbc2_avx2_old" : "bbc_ref_old");
  out.endcase(verdict);
}

}  // namespace

STREAM(cv_q120old) {
  std::vector<uint64_t> ells = {0, 1, 2, 3, 5, 17, 100};
  if (thorough) { ells.push_back(1000); ells.push_back(9999); ells.push_back(10000); }
  for (int which = 0; which < 2; which++)
    for (uint64_t ell : ells)
      for (int cls = 0; cls < 4; cls++)
        for (int rep = 0; rep < (thorough && ell <= 100 ? 4 : 1); rep++) case_q120old(out, rng, which, ell, cls);
  // the alias q120x2_extract_1blk_from_q120c_ref
  for (uint64_t nn : {2u, 4u, 16u, 64u})
    for (uint64_t blk = 0; blk < nn / 2; blk += (nn > 16 ? 7 : 1)) {
      std::vector<uint64_t> src(4 * nn), dst(8, 0x1111111111111111ull);
      for (auto& v : src) v = rng.next();
      q120x2_extract_1blk_from_q120c_ref(nn, blk, (q120x2c*)dst.data(), (const q120c*)src.data());
      fprintf(out.ops, "q1 extract %" PRIu64 " %" PRIu64 " | ", (uint64_t)nn, blk);
      put_u64s(out.ops, src.data(), src.size());
      put_u64s(out.real, dst.data(), 8);
      std::string v = "ok";
      for (int i = 0; i < 8; i++) if (dst[i] != src[8 * blk + i]) v = "FAIL C10 q120x2_extract_1blk_from_q120c_ref";
      out.count("extract_c_alias");
      out.endcase(v);
    }
}

// ------------------------------------------------------------------------------------------------
// cv_naive : the library's own "naive" transforms (reim_naive_fft/ifft, cplx_fft_naive/ifft_naive), which no other
// stream calls.  They evaluate cos/sin of libm on the fly, so there is no bit-exact model: oracle-only cases
// (`ca nop …`).  Contract (what the library's test-suite uses them for): naive(m, 0.25, x) is the transform that
// reim_fft / cplx_fft compute, up to rounding; naive_ifft(naive_fft(x)) = m·x.
extern "C" {
#include "spqlios/cplx/cplx_fft.h"
void reim_naive_fft(uint64_t m, double entry_pwr, double* re, double* im);
void reim_naive_ifft(uint64_t m, double entry_pwr, double* re, double* im);
void cplx_fft_naive(const uint32_t m, const double entry_pwr, CPLX* data);
void cplx_ifft_naive(const uint32_t m, const double entry_pwr, CPLX* data);
}

namespace {

void case_naive(Out& out, Rng& rng, int cplx, uint32_t m, int cls) {
  std::vector<double> x(2 * (size_t)m), viaLib(2 * (size_t)m), viaNaive, back;
  double mx = 0;
  for (auto& v : x) { v = cls == 0 ? (double)rng.sbits(20) : (double)(rng.next() >> 11) * 0x1p-53 - 0.5; mx = std::max(mx, fabs(v)); }
  viaLib = x; viaNaive = x;
  fprintf(out.ops, "ca nop naive %s m=%u class=%d", cplx ? "cplx" : "reim", m, cls);
  fprintf(out.real, "nop");
  if (cplx) {
    CPLX_FFT_PRECOMP* p = new_cplx_fft_precomp(m, 0);
    cplx_fft(p, viaLib.data());
    free(p);
    cplx_fft_naive(m, 0.25, (CPLX*)viaNaive.data());
  } else {
    REIM_FFT_PRECOMP* p = new_reim_fft_precomp(m, 0);
    reim_fft(p, viaLib.data());
    free(p);
    reim_naive_fft(m, 0.25, viaNaive.data(), viaNaive.data() + m);
  }
  back = viaNaive;
  if (cplx) cplx_ifft_naive(m, 0.25, (CPLX*)back.data()); else reim_naive_ifft(m, 0.25, back.data(), back.data() + m);
  double lg = 1; for (uint32_t t = m; t > 1; t >>= 1) lg += 1;
  double tol = 64.0 * lg * 0x1p-52 * (double)m * (mx + 1e-300);
  std::string verdict = "ok";
  const char* FN = cplx ? "cplx_fft_naive" : "reim_naive_fft";
  for (size_t i = 0; i < x.size() && verdict == "ok"; i++) {
    if (!(fabs(viaNaive[i] - viaLib[i]) <= tol))
      verdict = fmt("FAIL C06 %s m=%u differs from the library FFT at cell %zu: naive %.17g fft %.17g tol %.3g", FN, m, i, viaNaive[i], viaLib[i], tol);
    else if (!(fabs(back[i] - (double)m * x[i]) <= tol))
      verdict = fmt("FAIL C06 %s m=%u: ifft_naive(fft_naive(x)) != m*x at cell %zu: %.17g vs %.17g", FN, m, i, back[i], (double)m * x[i]);
  }
  out.count(cplx ? "naive_cplx" : "naive_reim");
  out.endcase(verdict);
}

}  // namespace

extern "C" {
double accurate_cos(int32_t i, int32_t n);
double accurate_sin(int32_t i, int32_t n);
void internal_accurate_sincos(double* rcos, double* rsin, double x);
double internal_accurate_cos(double x);
double internal_accurate_sin(double x);
double max_bit_size(const void* const begin, const void* const end);
void* spqlios_debug_alloc(uint64_t size);
void spqlios_debug_free(void* addr);
}

STREAM(cv_naive) {
  for (uint32_t m = 1; m <= (thorough ? 16384u : 1024u); m *= 2)
    for (int cplx = 0; cplx < 2; cplx++)
      for (int cls = 0; cls < 2; cls++) case_naive(out, rng, cplx, m, cls);
  // trigonometric helpers that are compiled but have no caller (oracle-only, binary128 reference)
  const q128 TWO_PI = 2 * M_PIq;
  for (int32_t n : {1, 2, 4, 8, 16, 64, 1024, 65536, 1 << 20, 3, 6, 12, 1000}) {
    double worst = 0;
    std::string verdict = "ok";
    // the quadrant reduction uses n/4, n/2, 3n/4 in integer arithmetic: only meaningful when 4 | n (the FFT sizes);
    // e.g. accurate_cos(0, 3) = 0.5.  Other n are run (sanitizers) but not judged.
    const bool judged = n % 4 == 0 || n <= 2;
    int step = n > 4096 ? n / 997 + 1 : 1;
    for (int32_t i = -n; i <= 2 * n && verdict == "ok"; i += step) {
      q128 t = TWO_PI * (q128)i / (q128)n;
      double ec = (double)cosq(t), es = (double)sinq(t);
      double gc = accurate_cos(i, n), gs = accurate_sin(i, n);
      worst = std::max(worst, std::max(fabs(gc - ec), fabs(gs - es)));
      if (fabs(gc - ec) > 0x1p-51 || fabs(gs - es) > 0x1p-51)
        verdict = fmt("FAIL C06 accurate_cos/sin(%d, %d) = (%.17g, %.17g), exact (%.17g, %.17g)", i, n, gc, gs, ec, es);
    }
    fprintf(out.ops, "ca nop accurate_cos_sin n=%d", n);
    fprintf(out.real, "nop");
    out.count(judged ? "accurate_cos_sin" : "accurate_cos_sin_n_not_multiple_of_4");
    out.endcase(judged ? verdict : "na");
  }
  {
    // internal_accurate_sincos: Taylor series after a reduction by multiples of pi/4 (only the low 3 bits of the
    // multiple are removed from the argument: rint(4x/pi) = 8 just below 2pi is reduced by 0, so the error is ~1.4e-14
    // (60 ulp) on the last sixteenth of the circle and ~5e-12 near 4pi).  Judged with the function's own self-check
    // threshold 1e-10 on [-2pi, 4pi]; the worst errors are recorded in the case descriptor.
    std::string verdict = "ok";
    double worst = 0, worstx = 0, worst1 = 0, worst1x = 0;
    int N = thorough ? 20000 : 2000;
    for (int k = 0; k <= N && verdict == "ok"; k++) {
      double x = -6.283185307179586 + 18.84955592153876 * (double)k / (double)N;
      if (k % 7 == 3) x = (double)(rng.next() >> 11) * 0x1p-53 * 6.283185307179586;
      double c, s;
      internal_accurate_sincos(&c, &s, x);
      double ec = (double)cosq((q128)x), es = (double)sinq((q128)x);
      double e = std::max(fabs(c - ec), fabs(s - es));
      if (e > worst) { worst = e; worstx = x; }
      if (x >= 0 && x < 6.283185307179586 && e > worst1) { worst1 = e; worst1x = x; }
      if (!(e <= 1e-10) || internal_accurate_cos(x) != c || internal_accurate_sin(x) != s)
        verdict = fmt("FAIL C06 internal_accurate_sincos(%.17g) = (%.17g, %.17g), exact (%.17g, %.17g)", x, c, s, ec, es);
    }
    fprintf(out.ops, "ca nop internal_accurate_sincos worst_error=%.3g at x=%.17g ; on [0,2pi): %.3g at x=%.17g", worst, worstx, worst1, worst1x);
    fprintf(out.real, "nop");
    out.count("internal_accurate_sincos");
    out.endcase(verdict);
  }
  {
    // max_bit_size (debug helper of the NTT): log2 of the largest word;  spqlios_debug_alloc/free: a malloc shifted by 64 bytes
    std::vector<uint64_t> w(37);
    for (auto& v : w) v = 1 + (rng.next() >> (1 + rng.below(60)));
    uint64_t mx = 0; for (auto v : w) mx = std::max(mx, v);
    double bs = max_bit_size(w.data(), w.data() + w.size());
    fprintf(out.ops, "ca nop max_bit_size");
    fprintf(out.real, "nop");
    out.endcase(bs == log2((double)mx) ? "ok" : fmt("FAIL C04 max_bit_size = %.17g, log2(max) = %.17g", bs, log2((double)mx)));
    uint8_t* p = (uint8_t*)spqlios_debug_alloc(100);
    memset(p, 0xAB, 100);
    spqlios_debug_free(p);
    fprintf(out.ops, "ca nop spqlios_debug_alloc_free");
    fprintf(out.real, "nop");
    out.endcase("ok");
    out.count("debug_helpers", 2);
  }
}

// ------------------------------------------------------------------------------------------------
// cv_misc : small utilities that no other stream calls
//   revbits, ceilto32b (ceilto64b alongside), module_get_n, vec_znx_big_range_normalize_base2k_tmp_bytes: model ops;
//   {reim,cplx}_{fft,ifft}_precomp_get_buffer: oracle-only (pointers): 64-byte aligned, pairwise disjoint buffers of
//   2m doubles inside the table's allocation, usable as FFT input/output.
extern "C" {
uint32_t revbits(uint32_t nbits, uint32_t value);
uint64_t ceilto32b(uint64_t size);
uint64_t ceilto64b(uint64_t size);
}

namespace {

void case_buffers(Out& out, Rng& rng, int kind, uint32_t m, uint32_t nbuf, int want_mod64 = -1) {
  const char* KN[] = {"reim_fft", "reim_ifft", "cplx_fft", "cplx_ifft"};
  fprintf(out.ops, "ca nop get_buffer %s m=%u num_buffers=%u", KN[kind], m, nbuf);
  fprintf(out.real, "nop");
  auto mk = [&]() { return kind == 0 ? (void*)new_reim_fft_precomp(m, nbuf) : kind == 1 ? (void*)new_reim_ifft_precomp(m, nbuf)
                         : kind == 2 ? (void*)new_cplx_fft_precomp(m, nbuf) : (void*)new_cplx_ifft_precomp(m, nbuf); };
  void* tab = mk();
  // a table whose address has a given residue modulo 64 (the alignment padding inside the block depends on it):
  // keep the misses alive so that the allocator hands out other addresses
  std::vector<void*> misses;
  for (int t = 0; want_mod64 >= 0 && (int)((uintptr_t)tab % 64) != want_mod64 && t < 300; t++) {
    misses.push_back(tab);
    if (t % 3 == 0) misses.push_back(malloc(16));
    tab = mk();
  }
  for (void* q : misses) free(q);
  std::vector<uint8_t*> b(nbuf);
  for (uint32_t i = 0; i < nbuf; i++)
    b[i] = kind == 0 ? (uint8_t*)reim_fft_precomp_get_buffer((REIM_FFT_PRECOMP*)tab, i)
         : kind == 1 ? (uint8_t*)reim_ifft_precomp_get_buffer((REIM_IFFT_PRECOMP*)tab, i)
         : kind == 2 ? (uint8_t*)cplx_fft_precomp_get_buffer((CPLX_FFT_PRECOMP*)tab, i)
                     : (uint8_t*)cplx_ifft_precomp_get_buffer((CPLX_IFFT_PRECOMP*)tab, i);
  std::string verdict = "ok";
  const uint64_t bytes = 16ull * m;
  out.count("table_addr_mod64_" + std::to_string((uintptr_t)tab % 64));
  for (uint32_t i = 0; i < nbuf && verdict == "ok"; i++) {
    // inside the table's own allocation, whatever the residue of its address modulo 64
    if (b[i] < (uint8_t*)tab || b[i] + bytes > (uint8_t*)tab + malloc_usable_size(tab))
      verdict = fmt("FAIL C11 %s_precomp_get_buffer(%u) [m=%u, %u buffers, table at address = %u mod 64] ends %ld bytes past the table's allocation", KN[kind], i, m, nbuf,
                    (unsigned)((uintptr_t)tab % 64), (long)((b[i] + bytes) - ((uint8_t*)tab + malloc_usable_size(tab))));
    if ((uintptr_t)b[i] % 64) verdict = fmt("FAIL C15 %s_precomp_get_buffer(%u) is not 64-byte aligned", KN[kind], i);
    for (uint32_t j = 0; j < i; j++)
      if (b[i] < b[j] + bytes && b[j] < b[i] + bytes) verdict = fmt("FAIL C15 %s_precomp_get_buffer: buffers %u and %u overlap", KN[kind], j, i);
  }
  if (verdict == "ok" && nbuf) {
    // every buffer is writable over 2m doubles (ASan: inside the allocation) and the transform runs in it
    std::vector<double> x(2 * (size_t)m), ext;
    for (auto& v : x) v = (double)rng.sbits(20);
    ext = x;
    for (uint32_t i = 0; i < nbuf; i++) memcpy(b[i], x.data(), bytes);
    if (kind == 0) reim_fft((REIM_FFT_PRECOMP*)tab, ext.data()); else if (kind == 1) reim_ifft((REIM_IFFT_PRECOMP*)tab, ext.data());
    else if (kind == 2) cplx_fft((CPLX_FFT_PRECOMP*)tab, ext.data()); else cplx_ifft((CPLX_IFFT_PRECOMP*)tab, ext.data());
    for (uint32_t i = 0; i < nbuf && verdict == "ok"; i++) {
      if (kind == 0) reim_fft((REIM_FFT_PRECOMP*)tab, (double*)b[i]); else if (kind == 1) reim_ifft((REIM_IFFT_PRECOMP*)tab, (double*)b[i]);
      else if (kind == 2) cplx_fft((CPLX_FFT_PRECOMP*)tab, b[i]); else cplx_ifft((CPLX_IFFT_PRECOMP*)tab, b[i]);
      if (memcmp(b[i], ext.data(), bytes)) verdict = fmt("FAIL C15 %s in the table's buffer %u differs from the transform of an external array", KN[kind], i);
      for (uint32_t j = i + 1; j < nbuf && verdict == "ok"; j++)
        if (memcmp(b[j], x.data(), bytes)) verdict = fmt("FAIL C15 %s in buffer %u changed buffer %u", KN[kind], i, j);
    }
  }
  free(tab);
  out.count(std::string("get_buffer_") + KN[kind]);
  out.endcase(verdict);
}

}  // namespace

STREAM(cv_misc) {
  for (uint32_t nbits = 0; nbits <= 32; nbits++)
    for (int rep = 0; rep < (thorough ? 12 : 3); rep++) {
      uint32_t v = rep == 0 ? 0xFFFFFFFFu : rep == 1 ? 1u : (uint32_t)rng.next();
      if (rep >= 2 && nbits < 32 && (rng.next() & 1)) v &= (1u << nbits) - 1;
      uint32_t r = revbits(nbits, v);
      fprintf(out.ops, "cv revbits %u %u", nbits, v);
      fprintf(out.real, "%u", r);
      std::string verdict = "ok";
      // definition: bit i of the result is bit nbits-1-i of the value; an involution on nbits-bit values
      for (uint32_t i = 0; i < nbits; i++) if (((r >> i) & 1) != ((v >> (nbits - 1 - i)) & 1)) verdict = fmt("FAIL C11 revbits(%u, %u) = %u", nbits, v, r);
      if (nbits < 32 && (r >> nbits)) verdict = fmt("FAIL C11 revbits(%u, %u) = %u has more than nbits bits", nbits, v, r);
      out.count("revbits");
      out.endcase(verdict);
    }
  std::vector<uint64_t> sizes = {0, 1, 31, 32, 33, 63, 64, 65, 4096, 4097, ~0ull, ~0ull - 30, ~0ull - 31, ~0ull - 62, ~0ull - 63, 1ull << 63};
  for (int t = 0; t < (thorough ? 200 : 30); t++) sizes.push_back(rng.next() >> rng.below(64));
  for (uint64_t s : sizes)
    for (int w = 32; w <= 64; w += 32) {
      uint64_t r = w == 32 ? ceilto32b(s) : ceilto64b(s);
      fprintf(out.ops, "cv ceilto %d %" PRIu64, w, s);
      fprintf(out.real, "%" PRIu64, r);
      std::string verdict = "ok";
      if (s <= ~0ull - (uint64_t)(w - 1)) { if (r % w || r < s || r - s >= (uint64_t)w) verdict = fmt("FAIL C11 ceilto%db(%" PRIu64 ") = %" PRIu64, w, s, r); }
      else verdict = "na";  // size + w - 1 wraps
      out.count(w == 32 ? "ceilto32b" : "ceilto64b");
      out.endcase(verdict);
    }
  for (uint64_t nn = 2; nn <= (thorough ? 65536u : 1024u); nn *= 2) {
    MODULE* mod = new_module_info(nn, FFT64);
    uint64_t n = module_get_n(mod), tb = vec_znx_big_range_normalize_base2k_tmp_bytes(mod);
    fprintf(out.ops, "cv modn %" PRIu64, nn);
    fprintf(out.real, "%" PRIu64, n);
    out.endcase(n == nn ? "ok" : "FAIL C11 module_get_n");
    fprintf(out.ops, "cv rangetmp %" PRIu64, nn);
    fprintf(out.real, "%" PRIu64, tb);
    // the scratch space the range-normalisation needs is that of the plain normalisation (one carry limb)
    out.endcase(tb == vec_znx_big_normalize_base2k_tmp_bytes(mod) && tb >= nn * 8 ? "ok" : "FAIL C11 vec_znx_big_range_normalize_base2k_tmp_bytes");
    out.count("module_queries");
    delete_module_info(mod);
  }
  {
    // placeholder entry points of commons.c: each one is a message + abort()
    double d3[3] = {1, 2, 3};
    struct { const char* name; std::function<int()> f; } stubs[] = {
      {"UNDEFINED_p_ii", [&] { UNDEFINED_p_ii(1, 2); return 0; }},
      {"UNDEFINED_p_uu", [&] { UNDEFINED_p_uu(1, 2); return 0; }},
      {"UNDEFINED_dp_pi", [&] { UNDEFINED_dp_pi(d3, 1); return 0; }},
      {"UNDEFINED_vp_pi", [&] { UNDEFINED_vp_pi(d3, 1); return 0; }},
      {"UNDEFINED_vp_pu", [&] { UNDEFINED_vp_pu(d3, 1); return 0; }},
      {"UNDEFINED_v_vpdp", [&] { UNDEFINED_v_vpdp(d3, d3); return 0; }},
      {"UNDEFINED_v_vpvp", [&] { UNDEFINED_v_vpvp(d3, d3); return 0; }},
      {"NOT_IMPLEMENTED_dp_i", [&] { NOT_IMPLEMENTED_dp_i(1); return 0; }},
      {"NOT_IMPLEMENTED_vp_i", [&] { NOT_IMPLEMENTED_vp_i(1); return 0; }},
      {"NOT_IMPLEMENTED_vp_u", [&] { NOT_IMPLEMENTED_vp_u(1); return 0; }},
      {"NOT_IMPLEMENTED_v_dp", [&] { NOT_IMPLEMENTED_v_dp(d3); return 0; }},
      {"NOT_IMPLEMENTED_v_vp", [&] { NOT_IMPLEMENTED_v_vp(d3); return 0; }},
      {"NOT_IMPLEMENTED_v_idpdpdp", [&] { NOT_IMPLEMENTED_v_idpdpdp(1, d3, d3, d3); return 0; }},
      {"NOT_IMPLEMENTED_v_uvpcvpcvp", [&] { NOT_IMPLEMENTED_v_uvpcvpcvp(1, d3, d3, d3); return 0; }},
      {"NOT_IMPLEMENTED_v_uvpvpcvp", [&] { NOT_IMPLEMENTED_v_uvpvpcvp(1, d3, d3, d3); return 0; }},
    };
    for (auto& s : stubs) {
      fprintf(out.ops, "cv stub %s", s.name);
      std::string r = run_forked(out, s.f);
      fputs(r == "exit 0" ? "returned" : r.c_str(), out.real);
      out.count("placeholder_stub");
      out.endcase("na");
    }
  }
  for (int kind = 0; kind < 4; kind++)
    for (uint32_t m : {1u, 2u, 4u, 8u, 16u, 64u, 1024u})
      for (uint32_t nbuf : {0u, 1u, 2u, 5u}) {
        if (!thorough && m > 16 && nbuf == 5) continue;
        case_buffers(out, rng, kind, m, nbuf);
        // the same with the table at every residue of its address modulo 64 that malloc can produce
        if (nbuf && m <= 16)
          for (int want : {0, 16, 32, 48}) case_buffers(out, rng, kind, m, nbuf, want);
      }
}
