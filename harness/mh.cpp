// mh_arena: the FFT64 module entry points (vec_znx_dft / idft / idft_tmp_a, svp_prepare / svp_apply_dft,
// znx_small_single_product, vmp_prepare_contiguous / vmp_apply_dft_to_dft / vmp_apply_dft) run on ONE exactly-sized
// arena of 64-bit cells in which result, sources, prepared objects and scratch are placed in random order with small
// random gaps.  The op line carries the whole arena before the call and the placement; the real line is the whole arena
// after the call EXCEPT the scratch area (its content after a call is unspecified), compared bit for bit with the
// heap-level Lean model (Spq.ModuleHeap), whose `ok` flag must stay set.
// Independent oracle (C18 / C11 frame): every cell outside result + scratch (+ a_dft for idft_tmp_a) is unchanged.
#include <cstdarg>
#include "hcommon.h"
extern "C" {
#include "spqlios/reim/reim_fft.h"
#include "spqlios/reim/reim_fft_internal.h"
#include "spqlios/reim/reim_fft_private.h"
void reim_from_znx64_bnd50_fma(const REIM_FROM_ZNX64_PRECOMP* precomp, void* r, const int64_t* x);
void reim_to_znx64_avx2_bnd63_fma(const REIM_TO_ZNX64_PRECOMP* precomp, int64_t* r, const void* x);
void reim_to_znx64_avx2_bnd50_fma(const REIM_TO_ZNX64_PRECOMP* precomp, int64_t* r, const void* x);
}

MODULE* get_module(uint64_t nn, int type, int mask);  // vz.cpp

namespace {

int mh_ilog2u(size_t m) { int k = 0; while (((size_t)1 << k) < m) k++; return k; }
size_t mh_bfs_len(size_t m) {
  size_t n = 0, mm = m;
  if (mh_ilog2u(m) & 1) { n += 2; mm /= 2; }
  while (mm > 16) { n += (m / mm) * 4; mm /= 4; }
  return n + m;
}
size_t mh_rec_len(size_t m) { return m <= 2048 ? mh_bfs_len(m) : 2 + 2 * mh_rec_len(m / 2); }
size_t mh_table_len(size_t m) { return m == 1 ? 0 : m <= 16 ? m : mh_rec_len(m); }

// driver family of the op lines: "mh" = the hand-written heap model Spq.ModuleHeap (stream mh_arena);
// "mhs" = the terms GENERATED from the C source of the entry points, run with the kernel record of that model as the
// semantics of the opaque kernel calls (stream cs_mod; lean/Spq/Drv/ModSrc.lean)
static const char* g_mh_family = "mh";

// "mh <op> nn <flags> <args> | fftT | ifftT"  (same configuration tokens as family md)
void mh_cfg(Out& out, const char* op, MODULE* mod, const std::string& args) {
  const uint64_t m = mod->m;
  auto* pf = mod->mod.fft64.p_fft;
  auto* pi = mod->mod.fft64.p_ifft;
  int fftFma = (void*)pf->function == (void*)reim_fft_avx2_fma;
  int ifftFma = (void*)pi->function == (void*)reim_ifft_avx2_fma;
  int fromB = (void*)mod->mod.fft64.p_conv->function == (void*)reim_from_znx64_bnd50_fma;
  void* tf = (void*)mod->mod.fft64.p_reim_to_znx->function;
  int toV = tf == (void*)reim_to_znx64_avx2_bnd63_fma ? 2 : (tf == (void*)reim_to_znx64_avx2_bnd50_fma ? 1 : 0);
  int mulFma = (void*)mod->mod.fft64.mul_fft->function == (void*)reim_fftvec_mul_fma;
  int addmulFma = (void*)mod->mod.fft64.p_addmul->function == (void*)reim_fftvec_addmul_fma;
  int vmpAvx = (void*)mod->func.vmp_apply_dft_to_dft == (void*)fft64_vmp_apply_dft_to_dft_avx;
  fprintf(out.ops, "%s %s %" PRIu64 " %d %d %d %d %d %d %d %s | ", g_mh_family, op, mod->nn, fftFma, ifftFma, fromB, toV, mulFma, addmulFma, vmpAvx, args.c_str());
  put_f64bits(out.ops, pf->powomegas, mh_table_len(m));
  fprintf(out.ops, " | ");
  put_f64bits(out.ops, pi->powomegas, mh_table_len(m));
}

enum Kind { K_GARBAGE, K_INT, K_DBL };
struct Region {
  const char* name;
  uint64_t cells;
  Kind kind;
  uint64_t off;
};

// random order, random gaps of 0..2 cells, the arena ends with the last region in half of the layouts
struct Layout {
  std::vector<Region> rs;
  uint64_t total = 0;
  void add(const char* name, uint64_t cells, Kind k) { rs.push_back({name, cells, k, 0}); }
  void place(Rng& rng) {
    std::vector<size_t> ord(rs.size());
    for (size_t i = 0; i < ord.size(); i++) ord[i] = i;
    for (size_t i = ord.size(); i > 1; i--) std::swap(ord[i - 1], ord[rng.below(i)]);
    uint64_t cur = rng.below(3);
    for (size_t k = 0; k < ord.size(); k++) {
      rs[ord[k]].off = cur;
      cur += rs[ord[k]].cells;
      if (k + 1 < ord.size() || (rng.next() & 1)) cur += rng.below(3);
    }
    total = cur;
  }
  uint64_t off(const char* name) const {
    for (auto& r : rs) if (!strcmp(r.name, name)) return r.off;
    return 0;
  }
  uint64_t cells(const char* name) const {
    for (auto& r : rs) if (!strcmp(r.name, name)) return r.cells;
    return 0;
  }
};

struct Arena {
  uint64_t* p;
  uint64_t n;
  std::vector<uint64_t> before;
  Arena(const Layout& L, Rng& rng, int ibits) : n(L.total) {
    p = (uint64_t*)malloc(n ? n * 8 : 1);  // exactly sized: the sanitizer build sees any access behind the arena
    for (uint64_t i = 0; i < n; i++) p[i] = rng.next();
    for (auto& r : L.rs) {
      for (uint64_t i = 0; i < r.cells; i++) {
        if (r.kind == K_INT) { int64_t v = rng.sbits(ibits); memcpy(p + r.off + i, &v, 8); }
        else if (r.kind == K_DBL) {
          // finite doubles of moderate size: integers below 2^26 scaled by 2^-6 (so that idft / products stay far from overflow)
          double d = (double)rng.sbits(26) * 0.015625;
          if (rng.below(16) == 0) d = (rng.next() & 1) ? 0.0 : -0.0;
          memcpy(p + r.off + i, &d, 8);
        }
      }
    }
    before.assign(p, p + n);
  }
  ~Arena() { free(p); }
  int64_t* i64(uint64_t off) { return (int64_t*)(p + off); }
  double* f64(uint64_t off) { return (double*)(p + off); }
  uint8_t* u8(uint64_t off) { return (uint8_t*)(p + off); }
};

struct Win { uint64_t lo, n; };

// op line payload (arena before), real line (ok flag + arena after without scratch), frame oracle
void finish(Out& out, Arena& A, const std::vector<Win>& writable, Win scratch, const char* what) {
  fprintf(out.ops, " | ");
  put_u64s(out.ops, A.before.data(), A.n);
  fprintf(out.real, "1 ");
  bool first = true;
  for (uint64_t i = 0; i < A.n; i++) {
    if (i >= scratch.lo && i < scratch.lo + scratch.n) continue;
    fprintf(out.real, first ? "%" PRIu64 : " %" PRIu64, A.p[i]);
    first = false;
  }
  std::string verdict = "ok";
  for (uint64_t i = 0; i < A.n; i++) {
    bool w = i >= scratch.lo && i < scratch.lo + scratch.n;
    for (auto& r : writable) w = w || (i >= r.lo && i < r.lo + r.n);
    if (!w && A.p[i] != A.before[i]) {
      char buf[200];
      snprintf(buf, sizeof buf, "FAIL C18 %s changed cell %" PRIu64 " of the arena, which is outside its result and scratch regions", what, i);
      verdict = buf;
      break;
    }
  }
  out.endcase(verdict);
}

std::string fmt(const char* f, ...) {
  char buf[400];
  va_list ap;
  va_start(ap, f);
  vsnprintf(buf, sizeof buf, f, ap);
  va_end(ap);
  return buf;
}

uint64_t extent(uint64_t sz, uint64_t sl, uint64_t nn) { return sz ? (sz - 1) * sl + nn : 0; }

// a source stride: mostly >= nn, sometimes smaller (overlapping source limbs are legal: sources are only read)
uint64_t pick_sl(Rng& rng, uint64_t nn) {
  switch (rng.below(6)) {
    case 0: return nn + 1;
    case 1: return nn + 3;
    case 2: return nn / 2;
    case 3: return 0;
    default: return nn;
  }
}

}  // namespace

#define U64 "%" PRIu64

static void mh_dft(Out& out, Rng& rng, MODULE* mod, uint64_t rsz, uint64_t asz) {
  const uint64_t nn = mod->nn, asl = pick_sl(rng, nn);
  Layout L;
  L.add("res", rsz * nn, K_GARBAGE);
  L.add("a", extent(asz, asl, nn), K_INT);
  L.place(rng);
  Arena A(L, rng, 30);
  uint64_t res = L.off("res"), a = L.off("a");
  vec_znx_dft(mod, (VEC_ZNX_DFT*)A.f64(res), rsz, A.i64(a), asz, asl);
  mh_cfg(out, "dft", mod, fmt(U64 " " U64 " " U64 " " U64 " " U64, res, rsz, a, asz, asl));
  finish(out, A, {{res, rsz * nn}}, {0, 0}, "vec_znx_dft");
  out.count("dft");
  if (rsz == 0 || asz == 0) out.count("zero_size");
  if (asl < nn) out.count("overlapping_source_limbs");
}

// mode 0: out of place, 1: in place (res == a_dft), 2: tmp_a out of place, 3: tmp_a with res == a_dft
static void mh_idft(Out& out, Rng& rng, MODULE* mod, uint64_t rsz, uint64_t asz, int mode) {
  const uint64_t nn = mod->nn;
  Layout L;
  bool same = (mode == 1 || mode == 3);
  if (same) L.add("both", (rsz > asz ? rsz : asz) * nn, K_DBL);
  else { L.add("res", rsz * nn, K_GARBAGE); L.add("adft", asz * nn, K_DBL); }
  L.place(rng);
  Arena A(L, rng, 30);
  uint64_t res = same ? L.off("both") : L.off("res"), adft = same ? L.off("both") : L.off("adft");
  if (same) for (uint64_t i = asz * nn; i < rsz * nn; i++) A.p[res + i] = rng.next();  // beyond a_dft: garbage
  std::vector<Win> wr = {{res, rsz * nn}};
  if (mode >= 2) {
    wr.push_back({adft, asz * nn});
    vec_znx_idft_tmp_a(mod, (VEC_ZNX_BIG*)A.i64(res), rsz, (VEC_ZNX_DFT*)A.f64(adft), asz);
  } else {
    uint64_t tb = vec_znx_idft_tmp_bytes(mod);
    uint8_t* tmp = (uint8_t*)malloc(tb ? tb : 1);
    vec_znx_idft(mod, (VEC_ZNX_BIG*)A.i64(res), rsz, (const VEC_ZNX_DFT*)A.f64(adft), asz, tmp);
    free(tmp);
  }
  mh_cfg(out, mode >= 2 ? "idfta" : "idft", mod, fmt(U64 " " U64 " " U64 " " U64, res, rsz, adft, asz));
  finish(out, A, wr, {0, 0}, mode >= 2 ? "vec_znx_idft_tmp_a" : "vec_znx_idft");
  out.count(mode == 0 ? "idft" : mode == 1 ? "idft_inplace" : mode == 2 ? "idft_tmp_a" : "idft_tmp_a_inplace");
  if (rsz == 0 || asz == 0) out.count("zero_size");
}

static void mh_svp(Out& out, Rng& rng, MODULE* mod, uint64_t rsz, uint64_t asz) {
  const uint64_t nn = mod->nn, asl = pick_sl(rng, nn);
  {
    Layout L;
    L.add("ppol", nn, K_GARBAGE);
    L.add("pol", nn, K_INT);
    L.place(rng);
    Arena A(L, rng, 16);
    uint64_t ppol = L.off("ppol"), pol = L.off("pol");
    svp_prepare(mod, (SVP_PPOL*)A.f64(ppol), A.i64(pol));
    mh_cfg(out, "svpprep", mod, fmt(U64 " " U64, ppol, pol));
    finish(out, A, {{ppol, nn}}, {0, 0}, "svp_prepare");
    out.count("svp_prepare");
  }
  Layout L;
  L.add("res", rsz * nn, K_GARBAGE);
  L.add("ppol", nn, K_DBL);
  L.add("a", extent(asz, asl, nn), K_INT);
  L.place(rng);
  Arena A(L, rng, 16);
  uint64_t res = L.off("res"), ppol = L.off("ppol"), a = L.off("a");
  svp_apply_dft(mod, (VEC_ZNX_DFT*)A.f64(res), rsz, (const SVP_PPOL*)A.f64(ppol), A.i64(a), asz, asl);
  mh_cfg(out, "svpapply", mod, fmt(U64 " " U64 " " U64 " " U64 " " U64 " " U64, res, rsz, ppol, a, asz, asl));
  finish(out, A, {{res, rsz * nn}}, {0, 0}, "svp_apply_dft");
  out.count("svp_apply");
  if (rsz == 0 || asz == 0) out.count("zero_size");
}

// alias 0: res, a, b distinct; 1: res == a; 2: res == b; 3: a == b
static void mh_small(Out& out, Rng& rng, MODULE* mod, int alias) {
  const uint64_t nn = mod->nn;
  const uint64_t tb = znx_small_single_product_tmp_bytes(mod);
  Layout L;
  L.add("a", nn, K_INT);
  if (alias != 3) L.add("b", nn, K_INT);
  if (alias == 0 || alias == 3) L.add("res", nn, K_GARBAGE);
  L.add("tmp", tb / 8, K_GARBAGE);
  L.place(rng);
  Arena A(L, rng, 18);
  uint64_t a = L.off("a"), b = alias == 3 ? a : L.off("b"), tmp = L.off("tmp");
  uint64_t res = alias == 1 ? a : alias == 2 ? b : L.off("res");
  znx_small_single_product(mod, A.i64(res), A.i64(a), A.i64(b), A.u8(tmp));
  mh_cfg(out, "small", mod, fmt(U64 " " U64 " " U64 " " U64 " " U64, res, a, b, tmp, tb));
  finish(out, A, {{res, nn}}, {tmp, tb / 8}, "znx_small_single_product");
  out.count(alias == 0 ? "small" : "small_aliased");
}

static void mh_vmp(Out& out, Rng& rng, MODULE* mod, uint64_t nrows, uint64_t ncols, uint64_t rsz, uint64_t asz) {
  const uint64_t nn = mod->nn, asl = pick_sl(rng, nn);
  {  // prepare
    const uint64_t tb = vmp_prepare_contiguous_tmp_bytes(mod, nrows, ncols);
    Layout L;
    L.add("pmat", nn * nrows * ncols, K_GARBAGE);
    L.add("mat", nn * nrows * ncols, K_INT);
    L.add("tmp", tb / 8, K_GARBAGE);
    L.place(rng);
    Arena A(L, rng, 12);
    uint64_t pmat = L.off("pmat"), mat = L.off("mat"), tmp = L.off("tmp");
    vmp_prepare_contiguous(mod, (VMP_PMAT*)A.f64(pmat), A.i64(mat), nrows, ncols, A.u8(tmp));
    mh_cfg(out, "vmpprep", mod, fmt(U64 " " U64 " " U64 " " U64 " " U64 " " U64, pmat, mat, nrows, ncols, tmp, tb));
    finish(out, A, {{pmat, nn * nrows * ncols}}, {tmp, tb / 8}, "vmp_prepare_contiguous");
    out.count("vmp_prepare");
  }
  {  // apply_dft_to_dft
    const uint64_t tb = vmp_apply_dft_to_dft_tmp_bytes(mod, rsz, asz, nrows, ncols);
    Layout L;
    L.add("res", rsz * nn, K_GARBAGE);
    L.add("adft", asz * nn, K_DBL);
    L.add("pmat", nn * nrows * ncols, K_DBL);
    L.add("tmp", tb / 8, K_GARBAGE);
    L.place(rng);
    Arena A(L, rng, 12);
    uint64_t res = L.off("res"), adft = L.off("adft"), pmat = L.off("pmat"), tmp = L.off("tmp");
    vmp_apply_dft_to_dft(mod, (VEC_ZNX_DFT*)A.f64(res), rsz, (const VEC_ZNX_DFT*)A.f64(adft), asz, (const VMP_PMAT*)A.f64(pmat), nrows, ncols, A.u8(tmp));
    mh_cfg(out, "vmpdd", mod, fmt(U64 " " U64 " " U64 " " U64 " " U64 " " U64 " " U64 " " U64 " " U64, res, rsz, adft, asz, pmat, nrows, ncols, tmp, tb));
    finish(out, A, {{res, rsz * nn}}, {tmp, tb / 8}, "vmp_apply_dft_to_dft");
    out.count("vmp_apply_dft_to_dft");
  }
  {  // apply_dft
    const uint64_t tb = vmp_apply_dft_tmp_bytes(mod, rsz, asz, nrows, ncols);
    Layout L;
    L.add("res", rsz * nn, K_GARBAGE);
    L.add("a", extent(asz, asl, nn), K_INT);
    L.add("pmat", nn * nrows * ncols, K_DBL);
    L.add("tmp", tb / 8, K_GARBAGE);
    L.place(rng);
    Arena A(L, rng, 12);
    uint64_t res = L.off("res"), a = L.off("a"), pmat = L.off("pmat"), tmp = L.off("tmp");
    vmp_apply_dft(mod, (VEC_ZNX_DFT*)A.f64(res), rsz, A.i64(a), asz, asl, (const VMP_PMAT*)A.f64(pmat), nrows, ncols, A.u8(tmp));
    mh_cfg(out, "vmpapply", mod, fmt(U64 " " U64 " " U64 " " U64 " " U64 " " U64 " " U64 " " U64 " " U64 " " U64, res, rsz, a, asz, asl, pmat, nrows, ncols, tmp, tb));
    finish(out, A, {{res, rsz * nn}}, {tmp, tb / 8}, "vmp_apply_dft");
    out.count("vmp_apply_dft");
  }
  if (rsz == 0 || asz == 0) out.count("zero_size");
  if (asz > nrows) out.count("vmp_more_limbs_than_rows");
  if (rsz > ncols) out.count("vmp_more_res_than_cols");
  if ((ncols < rsz ? ncols : rsz) % 2 == 1 && ncols > rsz) out.count("vmp_odd_tail_in_pair");
}

static void mh_arena_body(Out& out, Rng& rng, int thorough);

STREAM(mh_arena) {
  g_mh_family = "mh";
  mh_arena_body(out, rng, thorough);
}

// the same cases, answered by the generated source terms (family mhs)
STREAM(cs_mod) {
  g_mh_family = "mhs";
  mh_arena_body(out, rng, thorough);
  g_mh_family = "mh";
}

static void mh_arena_body(Out& out, Rng& rng, int thorough) {
  std::vector<uint64_t> dims = thorough ? std::vector<uint64_t>{2, 4, 8, 16, 32, 64, 128, 256} : std::vector<uint64_t>{2, 4, 8, 16, 32, 64};
  for (uint64_t n : dims)
    for (int mask = 0; mask < 2; mask++) {
      MODULE* mod = get_module(n, 0, mask);
      const uint64_t smax = n <= 16 ? 4 : 3;
      // limb-vector entry points: all (res_size, a_size) pairs of a small box
      for (uint64_t rsz = 0; rsz < smax; rsz++)
        for (uint64_t asz = 0; asz < smax; asz++) {
          mh_dft(out, rng, mod, rsz, asz);
          for (int mode = 0; mode < 4; mode++) mh_idft(out, rng, mod, rsz, asz, mode);
          mh_svp(out, rng, mod, rsz, asz);
        }
      for (int alias = 0; alias < 4; alias++) mh_small(out, rng, mod, alias);
      // matrix shapes: nrows, ncols in 0..3 / 0..4, sizes around them
      int reps = thorough ? 40 : (n <= 16 ? 24 : 12);
      for (int t = 0; t < reps; t++) {
        uint64_t nrows = rng.below(4), ncols = rng.below(5), rsz = rng.below(6), asz = rng.below(5);
        if (t < 4) { nrows = 1 + rng.below(3); ncols = 1 + rng.below(4); }  // non-degenerate first
        mh_vmp(out, rng, mod, nrows, ncols, rsz, asz);
      }
    }
}
