// Streams for C06: reim/cplx FFT and iFFT, bit patterns in / out, twiddle tables passed as data.
//   ff <reim_fft|reim_ifft|cplx_fft|cplx_ifft> <ref|fma> <m> | table patterns | input patterns
// Oracle (independent of the Lean model and of the library's algorithm): __float128 evaluation of
// the input polynomial at omega^(1+4*bitrev_k(j)), omega = exp(i*pi/(2m)), computed as
// "twist by omega^i, then a textbook cyclic radix-2 DFT of size m" with cosq/sinq twiddles.
#include <quadmath.h>

#include <map>
#include "hcommon.h"
extern "C" {
#include "spqlios/cplx/cplx_fft_internal.h"
#include "spqlios/cplx/cplx_fft_private.h"
#include "spqlios/reim/reim_fft_internal.h"
#include "spqlios/reim/reim_fft_private.h"
}

typedef __float128 q128;
struct QC {
  q128 re, im;
};
static inline QC qmul(QC a, QC b) { return {a.re * b.re - a.im * b.im, a.re * b.im + a.im * b.re}; }
static inline QC qadd(QC a, QC b) { return {a.re + b.re, a.im + b.im}; }
static inline QC qsub(QC a, QC b) { return {a.re - b.re, a.im - b.im}; }
static const q128 QPI = M_PIq;
// exp(2 i pi num/den)
static inline QC qroot(int64_t num, int64_t den) {
  num %= den;
  if (num < 0) num += den;
  // reduce to the first octant-ish for accuracy: use symmetries of the quarter turn
  q128 x = 2 * QPI * (q128)num / (q128)den;
  return {cosq(x), sinq(x)};
}
static uint32_t brev(uint32_t k, uint32_t x) {
  uint32_t r = 0;
  for (uint32_t i = 0; i < k; i++) r |= ((x >> i) & 1u) << (k - 1 - i);
  return r;
}
static uint32_t ilog2(uint64_t m) {
  uint32_t k = 0;
  while ((1ull << k) < m) k++;
  return k;
}

// cyclic DFT: X[n] = sum_i x[i] exp(sign * 2 i pi n i / m), natural order in and out
static void qdft(std::vector<QC>& x, int sign) {
  size_t m = x.size();
  uint32_t k = ilog2(m);
  std::vector<QC> y(m);
  for (size_t i = 0; i < m; i++) y[brev(k, i)] = x[i];
  std::vector<QC> w(m / 2 + 1);
  for (size_t i = 0; i < m / 2; i++) w[i] = qroot(sign * (int64_t)i, (int64_t)m);
  for (size_t len = 2; len <= m; len <<= 1) {
    size_t half = len / 2, step = m / len;
    for (size_t b = 0; b < m; b += len)
      for (size_t i = 0; i < half; i++) {
        QC t = qmul(w[i * step], y[b + half + i]);
        QC u = y[b + i];
        y[b + i] = qadd(u, t);
        y[b + half + i] = qsub(u, t);
      }
  }
  x.swap(y);
}

// exact forward transform: out[j] = sum_i a[i] omega^((1+4 brev_k j) i)
static std::vector<QC> exact_fft(const std::vector<QC>& a) {
  size_t m = a.size();
  uint32_t k = ilog2(m);
  std::vector<QC> t(m);
  for (size_t i = 0; i < m; i++) t[i] = qmul(a[i], qroot((int64_t)i, 4 * (int64_t)m));
  qdft(t, +1);
  std::vector<QC> out(m);
  for (size_t j = 0; j < m; j++) out[j] = t[brev(k, j)];
  return out;
}
// exact inverse up to the factor m: x[i] = sum_j y[j] omega^(-(1+4 brev_k j) i)
static std::vector<QC> exact_ifft(const std::vector<QC>& y) {
  size_t m = y.size();
  uint32_t k = ilog2(m);
  std::vector<QC> z(m);
  for (size_t j = 0; j < m; j++) z[brev(k, j)] = y[j];
  qdft(z, -1);
  for (size_t i = 0; i < m; i++) z[i] = qmul(z[i], qroot(-(int64_t)i, 4 * (int64_t)m));
  return z;
}

// verdict of the 2-norm bound of the property
static std::string norm_verdict(const std::vector<QC>& exact, const std::vector<QC>& got, uint32_t m, double* ratio) {
  q128 e2 = 0, n2 = 0;
  for (size_t i = 0; i < exact.size(); i++) {
    QC d = qsub(got[i], exact[i]);
    e2 += d.re * d.re + d.im * d.im;
    n2 += exact[i].re * exact[i].re + exact[i].im * exact[i].im;
  }
  q128 bound = 8 * (q128)(ilog2(m) + 1) * scalbnq(1, -53);
  q128 err = sqrtq(e2), nrm = sqrtq(n2);
  *ratio = nrm > 0 ? (double)(err / (bound * nrm)) : (err > 0 ? 1e300 : 0.0);
  if (!(err <= bound * nrm)) {
    char buf[200];
    snprintf(buf, sizeof buf, "FAIL norm bound: err/(bound*norm) = %.6g", *ratio);
    return buf;
  }
  return "ok";
}

// ---------------------------------------------------------------------------------------------
// number of table entries (doubles) the kernels consume: mirrors the pointer advance of the C
static size_t reim_bfs_len(size_t m) {
  size_t n = 0, mm = m;
  if (ilog2(m) & 1) { n += 2; mm /= 2; }
  while (mm > 16) { n += (m / mm) * 4; mm /= 4; }
  return n + m;
}
static size_t reim_rec_len(size_t m) { return m <= 2048 ? reim_bfs_len(m) : 2 + 2 * reim_rec_len(m / 2); }
static size_t reim_table_len(size_t m) { return m == 1 ? 0 : m <= 16 ? m : reim_rec_len(m); }

enum { CL_IMPULSE, CL_CONST, CL_RESONANT, CL_DYN, CL_UNIF, CL_INT50, CL_TINY, NCLASS };
static const char* CLN[] = {"impulse", "const", "resonant", "dynrange", "uniform", "int50", "tiny"};

static double rnd_unit(Rng& r) { return (double)(int64_t)(r.next() >> 11) * 0x1p-52 - 1.0; }  // [-1,1)
static double rnd_scaled(Rng& r, int elo, int ehi) {
  double f = 1.0 + (double)(r.next() >> 12) * 0x1p-52;
  double v = ldexp(f, (int)r.range(elo, ehi));
  return (r.next() & 1) ? v : -v;
}
// complex input vector of class cls (re[i], im[i])
static void gen_input(Rng& r, int cls, size_t m, std::vector<double>& re, std::vector<double>& im) {
  re.assign(m, 0.0);
  im.assign(m, 0.0);
  uint32_t k = ilog2(m);
  switch (cls) {
    case CL_IMPULSE: {
      size_t p = r.below(m);
      if (r.below(2))  // background of negative zeros: exposes sign-of-zero differences between butterfly shapes
        for (size_t i = 0; i < m; i++) { re[i] = (r.next() & 1) ? -0.0 : 0.0; im[i] = (r.next() & 1) ? -0.0 : 0.0; }
      switch (r.below(4)) {
        case 0: re[p] = 1; break;
        case 1: im[p] = 1; break;
        case 2: re[p] = -1; im[p] = 1; break;
        default: re[p] = rnd_scaled(r, -30, 30); im[p] = rnd_scaled(r, -30, 30);
      }
      break;
    }
    case CL_CONST: {
      double a = r.below(3) ? rnd_unit(r) : 1.0, b = r.below(3) ? rnd_unit(r) : 0.0;
      for (size_t i = 0; i < m; i++) { re[i] = a; im[i] = b; }
      break;
    }
    case CL_RESONANT: {  // conj(root_j)^i : the forward transform concentrates everything in output j
      size_t j = r.below(m);
      int64_t e = 1 + 4 * (int64_t)brev(k, j);
      double sc = r.below(2) ? 1.0 : ldexp(1.0, (int)r.range(-40, 40));
      for (size_t i = 0; i < m; i++) {
        QC w = qroot(-(e * (int64_t)i), 4 * (int64_t)m);
        re[i] = sc * (double)w.re;
        im[i] = sc * (double)w.im;
      }
      break;
    }
    case CL_DYN:
      for (size_t i = 0; i < m; i++) { re[i] = rnd_scaled(r, -200, 200); im[i] = rnd_scaled(r, -200, 200); }
      break;
    case CL_UNIF:
      for (size_t i = 0; i < m; i++) { re[i] = rnd_unit(r); im[i] = rnd_unit(r); }
      break;
    case CL_INT50:
      for (size_t i = 0; i < m; i++) { re[i] = (double)r.sbits(50); im[i] = (double)r.sbits(50); }
      break;
    default:  // CL_TINY: underflow region (subnormal intermediate results); the norm bound is not claimed there
      for (size_t i = 0; i < m; i++) { re[i] = rnd_scaled(r, -1074, -1010); im[i] = rnd_scaled(r, -1074, -1010); }
  }
}

// ---------------------------------------------------------------------------------------------
// precomp objects per (layout, inverse, flavour, m); flavour 0 = ref (all features masked), 1 = fma
struct PKey {
  int layout, inv, flav;
  size_t m;
  bool operator<(const PKey& o) const {
    if (layout != o.layout) return layout < o.layout;
    if (inv != o.inv) return inv < o.inv;
    if (flav != o.flav) return flav < o.flav;
    return m < o.m;
  }
};
static std::map<PKey, void*> g_pre;
static void* get_precomp(int layout, int inv, int flav, size_t m) {
  PKey k{layout, inv, flav, m};
  auto it = g_pre.find(k);
  if (it != g_pre.end()) return it->second;
  int mask = flav == 0 ? 1 : 0;
  spqlios_verif_set_cpu_mask(mask, mask, mask);
  void* p;
  if (layout == 0)
    p = inv ? (void*)new_reim_ifft_precomp(m, 0) : (void*)new_reim_fft_precomp(m, 0);
  else
    p = inv ? (void*)new_cplx_ifft_precomp(m, 0) : (void*)new_cplx_fft_precomp(m, 0);
  spqlios_verif_set_cpu_mask(0, 0, 0);
  g_pre[k] = p;
  return p;
}
static void drop_precomps() {
  for (auto& kv : g_pre) free(kv.second);
  g_pre.clear();
}

static size_t cplx_table_len(size_t m, int inv);  // below (doubles)

// one case: real transform on a fresh copy, op line, real line, quad oracle
// crafted "twiddle": small dyadic value chosen by a hash of |v| with the sign of v, so that the equalities and
// negations between table entries which the reference kernels assert are preserved
static double craft(double v, uint64_t salt) {
  static const double S[] = {1.0, 0.5, 2.0, 1.0, 1.5, 0.0, 1.0, 0.25};
  uint64_t b;
  double a = fabs(v);
  memcpy(&b, &a, 8);
  b = (b ^ salt) * 0x9E3779B97F4A7C15ull;
  double r = S[(b >> 40) % 8];
  return std::signbit(v) ? -r : r;
}
static void gen_crafted_input(Rng& r, size_t m, std::vector<double>& re, std::vector<double>& im) {
  static const double V[] = {0.0, -0.0, 1.0, -1.0, 2.0, -2.0, 0.5, 3.0, -3.0, -0.0, 0.0, 1.0};
  static const double Z[] = {0.0, -0.0, 0.0, -0.0, 1.0, -1.0, -0.0, 0.0};
  re.resize(m);
  im.resize(m);
  bool sparse = r.below(2);  // mostly signed zeros and +-1: exact cancellations next to -0
  for (size_t i = 0; i < m; i++) {
    re[i] = sparse ? Z[r.below(8)] : V[r.below(12)];
    im[i] = sparse ? Z[r.below(8)] : V[r.below(12)];
  }
}

// crafted != 0: the real driver is run on a copy of the precomp object whose table is replaced by small dyadic
// values (exact cancellations, signed zeros: separates butterfly shapes that differ only in the sign of zero)
static void run_case(Out& out, Rng& rng, int layout, int inv, int flav, size_t m, int cls, bool with_oracle,
                     int crafted = 0) {
  static const char* OPN[2][2] = {{"reim_fft", "reim_ifft"}, {"cplx_fft", "cplx_ifft"}};
  static const char* FLN[2] = {"ref", "fma"};
  std::vector<double> re, im;
  if (crafted) gen_crafted_input(rng, m, re, im); else gen_input(rng, cls, m, re, im);
  double* buf = (double*)aligned_alloc(64, (2 * m * sizeof(double) + 63) / 64 * 64);
  for (size_t i = 0; i < m; i++) {
    if (layout == 0) { buf[i] = re[i]; buf[m + i] = im[i]; }
    else { buf[2 * i] = re[i]; buf[2 * i + 1] = im[i]; }
  }
  void* pre = get_precomp(layout, inv, flav, m);
  const double* table;
  size_t tlen;
  if (layout == 0) {
    table = inv ? ((REIM_IFFT_PRECOMP*)pre)->powomegas : ((REIM_FFT_PRECOMP*)pre)->powomegas;
    tlen = reim_table_len(m);
  } else {
    table = inv ? ((CPLX_IFFT_PRECOMP*)pre)->powomegas : ((CPLX_FFT_PRECOMP*)pre)->powomegas;
    tlen = cplx_table_len(m, inv);
  }
  // all four precomp structs share the layout {function, m, buf_size, powomegas, aligned_buffers}
  REIM_FFT_PRECOMP fake = *(REIM_FFT_PRECOMP*)pre;
  double* ctab = 0;
  if (crafted) {
    ctab = (double*)aligned_alloc(64, (tlen * sizeof(double) + 64 + 63) / 64 * 64);
    uint64_t salt = rng.next();
    // the FMA drivers assert nothing about the table: craft every entry independently there (separates the two
    // copies of a duplicated twiddle, which the AVX2 code loads into different lanes)
    bool indep = flav == 1 && !(layout == 1 && m <= 4) && (rng.next() & 1);
    for (size_t i = 0; i < tlen; i++) ctab[i] = craft(table[i], indep ? salt + 0x632BE59BD9B4E019ull * (i + 1) : salt);
    fake.powomegas = ctab;
    table = ctab;
    pre = &fake;
  }
  fprintf(out.ops, "ff %s %s %zu | ", OPN[layout][inv], FLN[flav], m);
  put_f64bits(out.ops, table, tlen);
  fprintf(out.ops, " | ");
  put_f64bits(out.ops, buf, 2 * m);
  if (layout == 0) {
    if (inv) reim_ifft((REIM_IFFT_PRECOMP*)pre, buf); else reim_fft((REIM_FFT_PRECOMP*)pre, buf);
  } else {
    if (inv) cplx_ifft((CPLX_IFFT_PRECOMP*)pre, buf); else cplx_fft((CPLX_FFT_PRECOMP*)pre, buf);
  }
  put_f64bits(out.real, buf, 2 * m);
  std::string verdict = "na";
  if (with_oracle && !crafted && cls != CL_TINY) {
    std::vector<QC> a(m), got(m);
    for (size_t i = 0; i < m; i++) {
      a[i] = {(q128)re[i], (q128)im[i]};
      got[i] = layout == 0 ? QC{(q128)buf[i], (q128)buf[m + i]} : QC{(q128)buf[2 * i], (q128)buf[2 * i + 1]};
    }
    std::vector<QC> ex = inv ? exact_ifft(a) : exact_fft(a);
    double ratio;
    verdict = norm_verdict(ex, got, m, &ratio);
    // distribution of the observed error relative to the bound, in percent buckets
    long pct = (long)(ratio * 100);
    std::string key = std::string("maxpct_") + OPN[layout][inv] + "_" + FLN[flav];
    if (out.counters[key] < pct) out.counters[key] = pct;
  }
  for (size_t i = 0; i < 2 * m; i++)
    if (!std::isfinite(buf[i])) { out.count("nonfinite_output"); break; }
  out.count(std::string("op_") + OPN[layout][inv] + "_" + FLN[flav]);
  out.count(crafted ? std::string("class_crafted") : std::string("class_") + CLN[cls]);
  out.count(m <= 16 ? "m_le16" : m <= 2048 ? "m_bfs" : "m_rec");
  out.endcase(verdict);
  free(buf);
  free(ctab);
}

static void fft_stream(Out& out, Rng& rng, int thorough, int layout) {
  int cls = 0;
  for (uint32_t k = 0; k <= 16; k++) {
    size_t m = (size_t)1 << k;
    bool small = m <= 1024;
    if (!thorough && !small && m != 4096 && m != 65536) continue;
    int nvec = thorough ? (m <= 4096 ? 7 : 3) : (small ? 2 : 1);
    for (int inv = 0; inv < 2; inv++)
      for (int flav = 0; flav < 2; flav++)
        for (int v = 0; v < nvec; v++) {
          // quick tier: the largest size once per direction (the model costs ~9 s per transform there)
          if (!thorough && m == 65536 && flav != (inv ? 0 : 1)) continue;
          run_case(out, rng, layout, inv, flav, m, cls % NCLASS, true);
          cls++;
        }
    // subnormal data through the recursive path (m > 2048): flush-to-zero style shortcuts show here, bit for bit
    if (m == 4096)
      for (int inv = 0; inv < 2; inv++)
        for (int flav = 0; flav < 2; flav++) run_case(out, rng, layout, inv, flav, m, CL_TINY, true);
    if (m >= 16384) drop_precomps();
  }
  drop_precomps();
}

STREAM(ff_fft) { fft_stream(out, rng, thorough, 0); }

// crafted tables through the real drivers
static void crafted_stream(Out& out, Rng& rng, int thorough, int layout) {
  for (uint32_t k = 1; k <= (thorough ? 14u : 12u); k++) {
    size_t m = (size_t)1 << k;
    if (!thorough && m > 1024 && m != 4096) continue;
    int nvec = m <= 16 ? (thorough ? 1000 : 250) : m <= 64 ? (thorough ? 200 : 50) : m <= 1024 ? (thorough ? 6 : 2) : 1;
    for (int inv = 0; inv < 2; inv++)
      for (int flav = 0; flav < 2; flav++)
        for (int v = 0; v < nvec; v++) run_case(out, rng, layout, inv, flav, m, 0, false, 1);
  }
  drop_precomps();
}
STREAM(ff_crafted) { crafted_stream(out, rng, thorough, 0); }

// cplx tables (in doubles): mirrors the pointer advance of cplx_(i)fft_ref_{bfs_2,bfs_16,rec_16}
static size_t cplx_len_rec(size_t m, int inv) {
  if (m <= 1) return 0;
  size_t n = 0;
  if (m <= 8) {
    for (size_t h = m / 2; h >= 2; h >>= 1) n += (m / (2 * h)) * 4;
    return n + (m / 2) * (inv ? 2 : 4);
  }
  if (m <= 2048) {
    if (!inv) {
      size_t mm = m;
      if (ilog2(m) & 1) { n += 4; mm /= 2; }
      while (mm > 16) { n += (m / mm) * 4; mm /= 4; }
      return n + m;
    }
    size_t h = 16;
    n = m;
    if (ilog2(m) & 1) { n += (m / 32) * 2; h = 32; }
    for (; h < m; h <<= 2) n += (m / (4 * h)) * 4;
    return n;
  }
  return 4 + 2 * cplx_len_rec(m / 2, inv);
}
static size_t cplx_table_len(size_t m, int inv) { return cplx_len_rec(m, inv); }
STREAM(ff_cfft) { fft_stream(out, rng, thorough, 1); }
STREAM(ff_ccrafted) { crafted_stream(out, rng, thorough, 1); }

// ---------------------------------------------------------------------------------------------
// ff_tables: every entry of every table against cosq/sinq of the exact dyadic angle the C intends.
// The angle bookkeeping below is a transcription of the fill_* functions (angles are dyadic rationals,
// exact in binary64).  kind: 0 = cos, 1 = sin, 2 = -sin, 3 = -cos.
struct Ang { int kind; double x; };
typedef std::vector<Ang> AV;
static double frb(uint32_t i) { return fracrevbits(i); }
static void pe(AV& v, double x) { v.push_back({0, x}); v.push_back({1, x}); }    // exp(2 i pi x)
static void pm(AV& v, double x) { v.push_back({0, x}); v.push_back({2, x}); }    // exp(-2 i pi x)
static const double JP = 1. / 8, KP = 1. / 16;
static void r_fill16(AV& v, double s) {
  double p = s / 2, p2 = s / 4, p4 = s / 8, p8 = s / 16;
  pe(v, p); pe(v, p2); pe(v, p4); pe(v, p4 + JP);
  double g[4] = {p8, p8 + JP, p8 + KP, p8 + JP + KP};
  for (int i = 0; i < 4; i++) v.push_back({0, g[i]});
  for (int i = 0; i < 4; i++) v.push_back({1, g[i]});
}
static void r_fill8(AV& v, double s) {
  double p = s / 2, p2 = s / 4, p4 = s / 8;
  pe(v, p); pe(v, p2);
  v.push_back({0, p4}); v.push_back({0, p4 + JP}); v.push_back({1, p4}); v.push_back({1, p4 + JP});
}
static void r_bfs(AV& v, size_t m, double pwr) {
  size_t mm = m;
  double ss = pwr;
  if (ilog2(m) & 1) { ss /= 2; pe(v, ss); mm /= 2; }
  while (mm > 16) {
    double s = ss / 4;
    for (size_t off = 0; off < m; off += mm) { double rs0 = s + frb(off / mm) / 4; pe(v, 2 * rs0); pe(v, rs0); }
    mm /= 4; ss = s;
  }
  for (size_t off = 0; off < m; off += 16) r_fill16(v, ss + frb(off / 16));
}
static void r_rec(AV& v, size_t m, double pwr) {
  if (m <= 2048) return r_bfs(v, m, pwr);
  double s = pwr / 2;
  pe(v, s); r_rec(v, m / 2, s); r_rec(v, m / 2, s + 0.5);
}
static void r_ifill16(AV& v, double s) {
  double p = s / 2, p2 = s / 4, p4 = s / 8, p8 = s / 16;
  double g[4] = {p8, p8 + JP, p8 + KP, p8 + JP + KP};
  for (int i = 0; i < 4; i++) v.push_back({0, g[i]});
  for (int i = 0; i < 4; i++) v.push_back({2, g[i]});
  pm(v, p4); pm(v, p4 + JP); pm(v, p2); pm(v, p);
}
static void r_ifill8(AV& v, double s) {
  double p = s / 2, p2 = s / 4, p4 = s / 8;
  v.push_back({0, p4}); v.push_back({0, p4 + JP}); v.push_back({2, p4}); v.push_back({2, p4 + JP});
  pm(v, p2); pm(v, p);
}
static void r_ibfs(AV& v, size_t m, double pwr) {
  double ss = pwr * 16. / m;
  for (size_t off = 0; off < m; off += 16) r_ifill16(v, ss + frb(off / 16));
  size_t h = 16;
  while (h < m / 2) {
    size_t mm = h * 4;
    for (size_t off = 0; off < m; off += mm) { double rs0 = ss + frb(off / mm) / 4; pm(v, rs0); pm(v, 2 * rs0); }
    ss *= 4; h = mm;
  }
  if (ilog2(m) & 1) pm(v, ss);
}
static void r_irec(AV& v, size_t m, double pwr) {
  if (m <= 2048) return r_ibfs(v, m, pwr);
  double s = pwr / 2;
  r_irec(v, m / 2, s); r_irec(v, m / 2, s + 0.5); pm(v, s);
}
static AV reim_angles(size_t m, int inv) {
  AV v;
  if (m == 1) return v;
  if (!inv) {
    if (m == 2) pe(v, 0.125);
    else if (m == 4) { pe(v, 0.125); pe(v, 0.0625); }
    else if (m == 8) r_fill8(v, 0.25);
    else if (m == 16) r_fill16(v, 0.25);
    else r_rec(v, m, 0.25);
  } else {
    if (m == 2) pm(v, 0.125);
    else if (m == 4) { pm(v, 0.0625); pm(v, 0.125); }
    else if (m == 8) r_ifill8(v, 0.25);
    else if (m == 16) r_ifill16(v, 0.25);
    else r_irec(v, m, 0.25);
  }
  return v;
}
static void pneg(AV& v, double x) { v.push_back({3, x}); v.push_back({2, x}); }  // -exp(2 i pi x)
static void c_16(AV& v, double s) {
  double p = s / 2, p2 = s / 4, p4 = s / 8, p8 = s / 16;
  pe(v, p); pe(v, p2); pe(v, p4); pe(v, p4 + JP); pe(v, p8); pe(v, p8 + JP); pe(v, p8 + KP); pe(v, p8 + JP + KP);
}
static void c_bfs2(AV& v, double pwr, size_t m) {
  double pom = pwr / 2;
  for (size_t h = m / 2; h >= 2; h >>= 1) {
    for (size_t i = 0; i < m / (2 * h); i++) { pe(v, pom + frb(i) / 2); pe(v, pom + frb(i) / 2); }
    pom /= 2;
  }
  for (size_t i = 0; i < m / 2; i++) { pe(v, pom + frb(i) / 2); pneg(v, pom + frb(i) / 2); }
}
static void c_bfs16(AV& v, double pwr, size_t m) {
  size_t mm = m;
  double ss = pwr;
  if (ilog2(m) & 1) {
    double pom = ss / 2;
    for (size_t i = 0; i < m / mm; i++) { pe(v, pom + frb(i) / 2); pe(v, pom + frb(i) / 2); }
    mm /= 2; ss = pom;
  }
  while (mm > 16) {
    double pom = ss / 4;
    for (size_t i = 0; i < m / mm; i++) { double om = pom + frb(i) / 4; pe(v, 2 * om); pe(v, om); }
    mm /= 4; ss = pom;
  }
  for (size_t i = 0; i < m / 16; i++) c_16(v, ss + frb(i));
}
static void c_rec(AV& v, double pwr, size_t m) {
  if (m == 1) return;
  if (m <= 8) return c_bfs2(v, pwr, m);
  if (m <= 2048) return c_bfs16(v, pwr, m);
  double pom = pwr / 2;
  pe(v, pom); pe(v, pom);
  c_rec(v, pom, m / 2); c_rec(v, pom + 0.5, m / 2);
}
static void ic_16(AV& v, double s) {
  double p = s / 2, p2 = s / 4, p4 = s / 8, p8 = s / 16;
  pm(v, p8); pm(v, p8 + JP); pm(v, p8 + KP); pm(v, p8 + JP + KP); pm(v, p4); pm(v, p4 + JP); pm(v, p2); pm(v, p);
}
static void ic_bfs2(AV& v, double pwr, size_t m) {
  double pom = pwr / m;
  for (size_t i = 0; i < m / 2; i++) pm(v, pom + frb(i) / 2);
  for (size_t h = 2; h <= m / 2; h <<= 1) {
    pom *= 2;
    for (size_t i = 0; i < m / (2 * h); i++) { pm(v, pom + frb(i) / 2); pm(v, pom + frb(i) / 2); }
  }
}
static void ic_bfs16(AV& v, double pwr, size_t m) {
  double p = pwr * 16. / m;
  for (size_t i = 0; i < m / 16; i++) ic_16(v, p + frb(i));
  size_t h = 16;
  if (ilog2(m) & 1) {
    for (size_t i = 0; i < m / (2 * h); i++) pm(v, p + frb(i) / 2);
    p *= 2; h = 32;
  }
  for (; h < m; h <<= 2) {
    for (size_t i = 0; i < m / (2 * h); i += 2) { pm(v, p + frb(i) / 2); pm(v, 2 * p + frb(i)); }
    p *= 4;
  }
}
static void ic_rec(AV& v, double pwr, size_t m) {
  if (m == 1) return;
  if (m <= 8) return ic_bfs2(v, pwr, m);
  if (m <= 2048) return ic_bfs16(v, pwr, m);
  double pom = pwr / 2;
  ic_rec(v, pom, m / 2); ic_rec(v, pom + 0.5, m / 2);
  pm(v, pom); pm(v, pom);
}
static AV cplx_angles(size_t m, int inv) {
  AV v;
  if (inv) ic_rec(v, 0.25, m);
  else if (m <= 8) c_bfs2(v, 0.25, m);
  else if (m <= 2048) c_bfs16(v, 0.25, m);
  else c_rec(v, 0.25, m);
  return v;
}

// op: ff angles <reim_fft|…> <m> ; real: for every table entry "kind e" with angle = e/(4m) turns, 0 <= e < 4m
STREAM(ff_tables) {
  static const char* OPN[2][2] = {{"reim_fft", "reim_ifft"}, {"cplx_fft", "cplx_ifft"}};
  (void)rng;
  for (uint32_t k = 0; k <= 16; k++) {
    size_t m = (size_t)1 << k;
    for (int layout = 0; layout < 2; layout++)
      for (int inv = 0; inv < 2; inv++) {
        void* pre = get_precomp(layout, inv, 0, m);
        const double* table = ((REIM_FFT_PRECOMP*)pre)->powomegas;  // same struct layout for the four precomps
        AV av = layout == 0 ? reim_angles(m, inv) : cplx_angles(m, inv);
        size_t tlen = layout == 0 ? reim_table_len(m) : cplx_table_len(m, inv);
        std::string verdict = "ok";
        if (av.size() != tlen) verdict = "FAIL table length bookkeeping";
        fprintf(out.ops, "ff angles %s %zu", OPN[layout][inv], m);
        double worst = 0, worst_pair = 0;
        bool above_one = false;
        std::map<int64_t, std::pair<double, double>> by_exp;   // exponent -> (|cos error|, |sin error|) in units of u
        for (size_t i = 0; i < av.size() && i < tlen; i++) {
          double e = av[i].x * 4.0 * (double)m;
          if (e != floor(e)) verdict = "FAIL angle is not a multiple of 1/(4m)";
          int64_t ei = (int64_t)e % (int64_t)(4 * m);
          fprintf(out.real, i ? " %d %" PRId64 : "%d %" PRId64, av[i].kind, ei);
          QC w = qroot(ei, 4 * (int64_t)m);
          q128 ex = av[i].kind == 0 ? w.re : av[i].kind == 1 ? w.im : av[i].kind == 2 ? -w.im : -w.re;
          double err = (double)(fabsq((q128)table[i] - ex) * scalbnq(1, 53));
          if (err > worst) worst = err;
          auto& pe = by_exp[ei];
          if (av[i].kind == 0 || av[i].kind == 3) pe.first = std::max(pe.first, err); else pe.second = std::max(pe.second, err);
          if (fabs(table[i]) > 1.0) above_one = true;
        }
        // the hypothesis of the rounding-bound theorems (C06Err, C01Err, C02Err, C16Err): for every exponent the stored
        // PAIR (cos, sin) is within 3.5u of the exact root as a complex number, and no stored entry exceeds 1 in magnitude
        for (auto& kv : by_exp) worst_pair = std::max(worst_pair, hypot(kv.second.first, kv.second.second));
        if ((worst > 4.0 || worst_pair > 3.5 || above_one) && verdict == "ok") {
          char buf[160];
          snprintf(buf, sizeof buf, "FAIL table accuracy: worst entry error %.3f u, worst (cos,sin) pair error %.3f u (theorem hypothesis: 3.5 u), |entry| > 1: %d (u = 2^-53)", worst, worst_pair, (int)above_one);
          verdict = buf;
        }
        std::string keyp = std::string("max_pair_centi_u_") + OPN[layout][inv];
        if (out.counters[keyp] < (long)(worst_pair * 100)) out.counters[keyp] = (long)(worst_pair * 100);
        std::string key = std::string("max_centi_u_") + OPN[layout][inv];
        if (out.counters[key] < (long)(worst * 100)) out.counters[key] = (long)(worst * 100);
        out.count("entries", (long)tlen);
        out.endcase(verdict);
      }
    if (m >= 8192) drop_precomps();
  }
  drop_precomps();
}
