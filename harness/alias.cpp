// C13: pointwise products with r == a or r == b (every variant of the reim / reim4 / cplx fftvec multiply),
// compared bit for bit with the same call on a separate output buffer.
#include "hcommon.h"
extern "C" {
#include "spqlios/cplx/cplx_fft.h"
#include "spqlios/cplx/cplx_fft_internal.h"
#include "spqlios/reim/reim_fft.h"
#include "spqlios/reim/reim_fft_internal.h"
#include "spqlios/reim4/reim4_fftvec_internal.h"
#include "spqlios/reim4/reim4_fftvec_public.h"
}

typedef void (*MulFn)(const void* tables, double* r, const double* a, const double* b);

static void alias_case(Out& out, Rng& rng, const char* name, MulFn fn, const void* tables, uint32_t m) {
  size_t nd = 2 * (size_t)m;
  std::vector<double> a(nd), b(nd), r0(nd, -7.0), ra(nd), rb(nd);
  for (size_t i = 0; i < nd; i++) { a[i] = (double)rng.sbits(20) / 1024.0 + 1.0 / 3.0; b[i] = (double)rng.sbits(20) / 512.0 - 1.0 / 7.0; }
  fn(tables, r0.data(), a.data(), b.data());
  ra = a;
  fn(tables, ra.data(), ra.data(), b.data());  // r == a
  rb = b;
  fn(tables, rb.data(), a.data(), rb.data());  // r == b
  std::string verdict = "ok";
  if (memcmp(r0.data(), ra.data(), nd * 8)) verdict = std::string("FAIL C13 ") + name + " with r==a differs from the out-of-place product (m=" + std::to_string(m) + ")";
  else if (memcmp(r0.data(), rb.data(), nd * 8)) verdict = std::string("FAIL C13 ") + name + " with r==b differs from the out-of-place product (m=" + std::to_string(m) + ")";
  fprintf(out.ops, "ca nop alias_mul %s m=%u", name, m);
  fprintf(out.real, "nop");
  out.endcase(verdict);
  out.count(name);
}

STREAM(alias_mul) {
  for (int mask = 0; mask < 2; mask++) {
    spqlios_verif_set_cpu_mask(mask, mask, mask);
    for (uint32_t m = 1; m <= (thorough ? 4096u : 256u); m *= 2) {
      { auto* t = new_reim_fftvec_mul_precomp(m); alias_case(out, rng, "reim_fftvec_mul", (MulFn)reim_fftvec_mul, t, m); free(t); }
      { auto* t = new_reim_fftvec_mul_precomp(m); alias_case(out, rng, "reim_fftvec_mul_ref", (MulFn)reim_fftvec_mul_ref, t, m); if (m >= 4) alias_case(out, rng, "reim_fftvec_mul_fma", (MulFn)reim_fftvec_mul_fma, t, m); free(t); }
      { auto* t = new_cplx_fftvec_mul_precomp(m); alias_case(out, rng, "cplx_fftvec_mul", (MulFn)cplx_fftvec_mul, t, m); free(t); }
      if (m >= 4) { auto* t = new_reim4_fftvec_mul_precomp(m); alias_case(out, rng, "reim4_fftvec_mul", (MulFn)reim4_fftvec_mul, t, m); alias_case(out, rng, "reim4_fftvec_mul_ref", (MulFn)reim4_fftvec_mul_ref, t, m); free(t); }
    }
  }
  spqlios_verif_set_cpu_mask(0, 0, 0);
}
