// C13: pointwise products with r == a or r == b (every variant of the reim / reim4 / cplx fftvec multiply),
// compared bit for bit with the same call on a separate output buffer.
#include "hcommon.h"
extern "C" {
#include "spqlios/cplx/cplx_fft.h"
#include "spqlios/cplx/cplx_fft_internal.h"
#include "spqlios/reim/reim_fft.h"
#include "spqlios/reim/reim_fft_internal.h"
#include "spqlios/reim4/reim4_fftvec_internal.h"
#include "spqlios/reim4/reim4_fftvec_public.h"
}

typedef void (*MulFn)(const void* tables, double* r, const double* a, const double* b);

static void alias_case(Out& out, Rng& rng, const char* name, MulFn fn, const void* tables, uint32_t m) {
  size_t nd = 2 * (size_t)m;
  std::vector<double> a(nd), b(nd), r0(nd, -7.0), ra(nd), rb(nd);
  for (size_t i = 0; i < nd; i++) { a[i] = (double)rng.sbits(20) / 1024.0 + 1.0 / 3.0; b[i] = (double)rng.sbits(20) / 512.0 - 1.0 / 7.0; }
  fn(tables, r0.data(), a.data(), b.data());
  ra = a;
  fn(tables, ra.data(), ra.data(), b.data());  // r == a
  rb = b;
  fn(tables, rb.data(), a.data(), rb.data());  // r == b
  std::string verdict = "ok";
  if (memcmp(r0.data(), ra.data(), nd * 8)) verdict = std::string("FAIL C13 ") + name + " with r==a differs from the out-of-place product (m=" + std::to_string(m) + ")";
  else if (memcmp(r0.data(), rb.data(), nd * 8)) verdict = std::string("FAIL C13 ") + name + " with r==b differs from the out-of-place product (m=" + std::to_string(m) + ")";
  fprintf(out.ops, "ca nop alias_mul %s m=%u", name, m);
  fprintf(out.real, "nop");
  out.endcase(verdict);
  out.count(name);
}

STREAM(alias_mul) {
  for (int mask = 0; mask < 2; mask++) {
    spqlios_verif_set_cpu_mask(mask, mask, mask);
    for (uint32_t m = 1; m <= (thorough ? 4096u : 256u); m *= 2) {
      { auto* t = new_reim_fftvec_mul_precomp(m); alias_case(out, rng, "reim_fftvec_mul", (MulFn)reim_fftvec_mul, t, m); free(t); }
      { auto* t = new_reim_fftvec_mul_precomp(m); alias_case(out, rng, "reim_fftvec_mul_ref", (MulFn)reim_fftvec_mul_ref, t, m); if (m >= 4) alias_case(out, rng, "reim_fftvec_mul_fma", (MulFn)reim_fftvec_mul_fma, t, m); free(t); }
      { auto* t = new_cplx_fftvec_mul_precomp(m); alias_case(out, rng, "cplx_fftvec_mul", (MulFn)cplx_fftvec_mul, t, m); free(t); }
      if (m >= 4) { auto* t = new_reim4_fftvec_mul_precomp(m); alias_case(out, rng, "reim4_fftvec_mul", (MulFn)reim4_fftvec_mul, t, m); alias_case(out, rng, "reim4_fftvec_mul_ref", (MulFn)reim4_fftvec_mul_ref, t, m); free(t); }
    }
  }
  spqlios_verif_set_cpu_mask(0, 0, 0);
}

// large dimensions with every pointer 8 bytes off a 64-byte boundary vs the same data on 64-byte aligned buffers:
// bitwise equal results (C15: no dependence on alignment), and no fault (a kernel that switches to aligned or
// streaming stores above some size shows as a crash here)
typedef void (*Mul3)(const void* tables, double* r, const double* a, const double* b);
typedef void (*Tr1)(const void* tables, void* data);
static double* aligned_doubles(size_t n, size_t off_bytes, std::vector<void*>& keep) {
  void* p = nullptr;
  if (posix_memalign(&p, 64, n * 8 + 128)) abort();
  keep.push_back(p);
  return (double*)((uint8_t*)p + off_bytes);
}
static void big_mul_case(Out& out, Rng& rng, const char* name, Mul3 fn, const void* tables, uint32_t m, int accumulate) {
  size_t nd = 2 * (size_t)m;
  std::vector<void*> keep;
  double *a0 = aligned_doubles(nd, 0, keep), *b0 = aligned_doubles(nd, 0, keep), *r0 = aligned_doubles(nd, 0, keep);
  double *a1 = aligned_doubles(nd, 8, keep), *b1 = aligned_doubles(nd, 8, keep), *r1 = aligned_doubles(nd, 8, keep);
  for (size_t i = 0; i < nd; i++) {
    a0[i] = a1[i] = (double)rng.sbits(20) / 1024.0 + 1.0 / 3.0;
    b0[i] = b1[i] = (double)rng.sbits(20) / 512.0 - 1.0 / 7.0;
    r0[i] = r1[i] = accumulate ? (double)rng.sbits(12) : -7.0;
  }
  fn(tables, r0, a0, b0);
  fn(tables, r1, a1, b1);
  std::string verdict = memcmp(r0, r1, nd * 8) ? std::string("FAIL C15 ") + name + " depends on the alignment of its buffers (m=" + std::to_string(m) + ")" : "ok";
  fprintf(out.ops, "ca nop big_align %s m=%u", name, m);
  fprintf(out.real, "nop");
  out.endcase(verdict);
  out.count(name);
  for (void* p : keep) free(p);
}
static void big_tr_case(Out& out, Rng& rng, const char* name, Tr1 fn, const void* tables, uint32_t m) {
  size_t nd = 2 * (size_t)m;
  std::vector<void*> keep;
  double *d0 = aligned_doubles(nd, 0, keep), *d1 = aligned_doubles(nd, 8, keep);
  for (size_t i = 0; i < nd; i++) d0[i] = d1[i] = (double)rng.sbits(30) / 4096.0 + 1.0 / 3.0;
  fn(tables, d0);
  fn(tables, d1);
  std::string verdict = memcmp(d0, d1, nd * 8) ? std::string("FAIL C15 ") + name + " depends on the alignment of its buffer (m=" + std::to_string(m) + ")" : "ok";
  fprintf(out.ops, "ca nop big_align %s m=%u", name, m);
  fprintf(out.real, "nop");
  out.endcase(verdict);
  out.count(name);
  for (void* p : keep) free(p);
}

STREAM(big_align) {
  for (int mask = 0; mask < 2; mask++) {
    spqlios_verif_set_cpu_mask(mask, mask, mask);
    for (uint32_t m : (thorough ? std::vector<uint32_t>{2048, 4096, 16384, 32768, 65536} : std::vector<uint32_t>{4096, 16384})) {
      { auto* t = new_reim_fftvec_mul_precomp(m); big_mul_case(out, rng, "reim_fftvec_mul", (Mul3)reim_fftvec_mul, t, m, 0); free(t); }
      { auto* t = new_reim_fftvec_addmul_precomp(m); big_mul_case(out, rng, "reim_fftvec_addmul", (Mul3)reim_fftvec_addmul, t, m, 1); free(t); }
      { auto* t = new_cplx_fftvec_mul_precomp(m); big_mul_case(out, rng, "cplx_fftvec_mul", (Mul3)cplx_fftvec_mul, t, m, 0); free(t); }
      { auto* t = new_cplx_fftvec_addmul_precomp(m); big_mul_case(out, rng, "cplx_fftvec_addmul", (Mul3)cplx_fftvec_addmul, t, m, 1); free(t); }
      { auto* t = new_reim4_fftvec_mul_precomp(m); big_mul_case(out, rng, "reim4_fftvec_mul", (Mul3)reim4_fftvec_mul, t, m, 0); free(t); }
      { auto* t = new_reim4_fftvec_addmul_precomp(m); big_mul_case(out, rng, "reim4_fftvec_addmul", (Mul3)reim4_fftvec_addmul, t, m, 1); free(t); }
      { auto* t = new_reim_fft_precomp(m, 0); big_tr_case(out, rng, "reim_fft", (Tr1)reim_fft, t, m); free(t); }
      { auto* t = new_reim_ifft_precomp(m, 0); big_tr_case(out, rng, "reim_ifft", (Tr1)reim_ifft, t, m); free(t); }
      { auto* t = new_cplx_fft_precomp(m, 0); big_tr_case(out, rng, "cplx_fft", (Tr1)cplx_fft, t, m); free(t); }
      { auto* t = new_cplx_ifft_precomp(m, 0); big_tr_case(out, rng, "cplx_ifft", (Tr1)cplx_ifft, t, m); free(t); }
    }
  }
  spqlios_verif_set_cpu_mask(0, 0, 0);
}
