// C12: concurrent use of shared MODULE / *_PRECOMP objects.  Run under the plain build (per-thread outputs
// vs sequential outputs, bitwise) and under the ThreadSanitizer build (any report makes the harness exit
// with TSAN_OPTIONS exitcode).  The concurrent phase runs FIRST, on freshly created objects, so that
// first uses happen concurrently; the sequential reference runs afterwards.
#include <pthread.h>

#include <atomic>

#include "hcommon.h"
extern "C" {
#include "spqlios/cplx/cplx_fft.h"
#include "spqlios/reim/reim_fft.h"
#include "spqlios/reim4/reim4_fftvec_public.h"
#include "spqlios/q120/q120_arithmetic.h"
#include "spqlios/q120/q120_ntt.h"
}

static uint64_t fnv(uint64_t h, const void* p, size_t n) {
  const uint8_t* b = (const uint8_t*)p;
  for (size_t i = 0; i < n; i++) h = (h ^ b[i]) * 1099511628211ull;
  return h;
}

struct Shared {
  MODULE* fft;
  MODULE* ntt;
  REIM_FFT_PRECOMP* rfft;
  REIM_IFFT_PRECOMP* rifft;
  CPLX_FFT_PRECOMP* cfft;
  SVP_PPOL* ppol;
  VMP_PMAT* pmat;
  // more shared tables (every table-based kernel family)
  REIM_FFTVEC_MUL_PRECOMP* rmul = nullptr;
  REIM_FFTVEC_ADDMUL_PRECOMP* raddmul = nullptr;
  CPLX_FFTVEC_MUL_PRECOMP* cmul = nullptr;
  CPLX_FFTVEC_ADDMUL_PRECOMP* caddmul = nullptr;
  REIM4_FFTVEC_MUL_PRECOMP* r4mul = nullptr;
  REIM4_FFTVEC_ADDMUL_PRECOMP* r4addmul = nullptr;
  REIM_FROM_ZNX64_PRECOMP* rfrom = nullptr;
  REIM_TO_ZNX64_PRECOMP* rto = nullptr;
  REIM_TO_TNX_PRECOMP* rtnx = nullptr;
  CPLX_FROM_ZNX32_PRECOMP* cfrom = nullptr;
  CPLX_TO_TNX32_PRECOMP* cto = nullptr;
  CPLX_IFFT_PRECOMP* cifft = nullptr;
  q120_mat1col_product_baa_precomp* qbaa = nullptr;
  q120_mat1col_product_bbb_precomp* qbbb = nullptr;
  q120_mat1col_product_bbc_precomp* qbbc = nullptr;
  q120_ntt_precomp* qntt = nullptr;
  q120_ntt_precomp* qintt = nullptr;
  uint64_t nn;
  int iters;
  int simple;  // also exercise the *_simple API (after warm-up)
};

static void make_more(Shared& S) {
  const uint32_t m = (uint32_t)(S.nn / 2);
  S.rmul = new_reim_fftvec_mul_precomp(m);
  S.raddmul = new_reim_fftvec_addmul_precomp(m);
  S.cmul = new_cplx_fftvec_mul_precomp(m);
  S.caddmul = new_cplx_fftvec_addmul_precomp(m);
  S.r4mul = new_reim4_fftvec_mul_precomp(m);
  S.r4addmul = new_reim4_fftvec_addmul_precomp(m);
  S.rfrom = new_reim_from_znx64_precomp(m, 50);
  S.rto = new_reim_to_znx64_precomp(m, (double)m, 63);
  S.rtnx = new_reim_to_tnx_precomp(m, 4.0, 18);
  S.cfrom = new_cplx_from_znx32_precomp(m);
  S.cto = new_cplx_to_tnx32_precomp(m, 2.0, 18);
  S.cifft = new_cplx_ifft_precomp(m, 0);
  S.qbaa = q120_new_vec_mat1col_product_baa_precomp();
  S.qbbb = q120_new_vec_mat1col_product_bbb_precomp();
  S.qbbc = q120_new_vec_mat1col_product_bbc_precomp();
  S.qntt = q120_new_ntt_bb_precomp(S.nn);
  S.qintt = q120_new_intt_bb_precomp(S.nn);
}
static void free_more(Shared& S) {
  if (!S.rmul) return;
  free(S.rmul); free(S.raddmul); free(S.cmul); free(S.caddmul); free(S.r4mul); free(S.r4addmul);
  free(S.rfrom); free(S.rto); free(S.rtnx); free(S.cfrom); free(S.cto); free(S.cifft);
  q120_delete_vec_mat1col_product_baa_precomp(S.qbaa);
  q120_delete_vec_mat1col_product_bbb_precomp(S.qbbb);
  q120_delete_vec_mat1col_product_bbc_precomp(S.qbbc);
  q120_del_ntt_bb_precomp(S.qntt);
  q120_del_intt_bb_precomp(S.qintt);
}

// the work of one thread; deterministic in (seed); returns a hash of everything it computed
static uint64_t work(const Shared& S, uint64_t seed) {
  Rng r(seed);
  const uint64_t nn = S.nn, m = nn / 2;
  uint64_t h = 1469598103934665603ull;
  std::vector<int64_t> a(3 * nn), b(3 * nn), c(3 * nn);
  std::vector<uint8_t> tmp(1 << 18);
  for (int it = 0; it < S.iters; it++) {
    for (auto& x : a) x = r.sbits(20);
    for (auto& x : b) x = r.sbits(20);
    vec_znx_add(S.fft, c.data(), 3, nn, a.data(), 3, nn, b.data(), 2, nn);
    h = fnv(h, c.data(), c.size() * 8);
    vec_znx_rotate(S.fft, (int64_t)r.sbits(20), c.data(), 3, nn, a.data(), 3, nn);
    h = fnv(h, c.data(), c.size() * 8);
    vec_znx_automorphism(S.ntt, (int64_t)(r.sbits(20) | 1), c.data(), 2, nn, c.data(), 2, nn);
    h = fnv(h, c.data(), c.size() * 8);
    vec_znx_normalize_base2k(S.fft, 1 + r.below(30), c.data(), 3, nn, a.data(), 3, nn, tmp.data());
    h = fnv(h, c.data(), c.size() * 8);
    // dft -> svp -> idft ; small product ; vmp
    std::vector<double> d(3 * nn), e(3 * nn);
    vec_znx_dft(S.fft, (VEC_ZNX_DFT*)d.data(), 3, a.data(), 3, nn);
    h = fnv(h, d.data(), d.size() * 8);
    svp_apply_dft(S.fft, (VEC_ZNX_DFT*)e.data(), 3, S.ppol, a.data(), 2, nn);
    vec_znx_idft(S.fft, (VEC_ZNX_BIG*)c.data(), 3, (VEC_ZNX_DFT*)e.data(), 3, tmp.data());
    h = fnv(h, c.data(), c.size() * 8);
    vec_znx_idft_tmp_a(S.fft, (VEC_ZNX_BIG*)c.data(), 2, (VEC_ZNX_DFT*)d.data(), 3);
    h = fnv(h, c.data(), c.size() * 8);
    znx_small_single_product(S.fft, c.data(), a.data(), b.data(), tmp.data());
    h = fnv(h, c.data(), nn * 8);
    vmp_apply_dft(S.fft, (VEC_ZNX_DFT*)e.data(), 3, a.data(), 2, nn, S.pmat, 2, 3, tmp.data());
    h = fnv(h, e.data(), e.size() * 8);
    vec_znx_big_add_small(S.fft, (VEC_ZNX_BIG*)c.data(), 3, (VEC_ZNX_BIG*)c.data(), 3, a.data(), 3, nn);
    h = fnv(h, c.data(), c.size() * 8);
    // ntt120 module
    std::vector<int64_t> q(4 * nn * 2);
    std::vector<__int128> big(2 * nn);
    vec_znx_dft(S.ntt, (VEC_ZNX_DFT*)q.data(), 2, a.data(), 2, nn);
    vec_znx_idft(S.ntt, (VEC_ZNX_BIG*)big.data(), 2, (VEC_ZNX_DFT*)q.data(), 2, tmp.data());
    h = fnv(h, big.data(), big.size() * 16);
    // table-based kernels on shared precomps
    for (uint64_t i = 0; i < nn; i++) d[i] = (double)r.sbits(30);
    reim_fft(S.rfft, d.data());
    reim_ifft(S.rifft, d.data());
    cplx_fft(S.cfft, d.data());
    h = fnv(h, d.data(), nn * 8);
    if (S.rmul) {
      // the remaining module-level entry points and every table-based kernel family on SHARED tables
      std::vector<int64_t> c2(3 * nn);
      vec_znx_sub(S.fft, c.data(), 3, nn, a.data(), 2, nn, b.data(), 3, nn);
      vec_znx_negate(S.fft, c2.data(), 3, nn, c.data(), 2, nn);
      vec_znx_copy(S.fft, c.data(), 2, nn, c2.data(), 3, nn);
      vec_znx_zero(S.fft, c2.data(), 1, nn);
      h = fnv(h, c.data(), c.size() * 8);
      h = fnv(h, c2.data(), c2.size() * 8);
      h = fnv(h, &nn, 0) + module_get_n(S.fft) + vec_znx_normalize_base2k_tmp_bytes(S.fft) + znx_small_single_product_tmp_bytes(S.fft) +
          vmp_apply_dft_tmp_bytes(S.fft, 3, 2, 2, 3) + bytes_of_vec_znx_dft(S.fft, 3) + bytes_of_vmp_pmat(S.fft, 2, 3);
      VEC_ZNX_BIG* A = (VEC_ZNX_BIG*)a.data();
      VEC_ZNX_BIG* B = (VEC_ZNX_BIG*)b.data();
      VEC_ZNX_BIG* C = (VEC_ZNX_BIG*)c.data();
      vec_znx_big_add(S.fft, C, 3, A, 3, B, 2);                           h = fnv(h, c.data(), c.size() * 8);
      vec_znx_big_sub(S.fft, C, 3, A, 2, B, 3);                           h = fnv(h, c.data(), c.size() * 8);
      vec_znx_big_add_small2(S.fft, C, 3, a.data(), 3, nn, b.data(), 3, nn);   h = fnv(h, c.data(), c.size() * 8);
      vec_znx_big_sub_small_a(S.fft, C, 3, a.data(), 3, nn, B, 3);        h = fnv(h, c.data(), c.size() * 8);
      vec_znx_big_sub_small_b(S.fft, C, 3, A, 3, b.data(), 3, nn);        h = fnv(h, c.data(), c.size() * 8);
      vec_znx_big_sub_small2(S.fft, C, 3, a.data(), 3, nn, b.data(), 3, nn);   h = fnv(h, c.data(), c.size() * 8);
      vec_znx_big_rotate(S.fft, (int64_t)r.sbits(12), C, 3, A, 3);        h = fnv(h, c.data(), c.size() * 8);
      vec_znx_big_automorphism(S.fft, (int64_t)(r.sbits(12) | 1), C, 3, A, 3);  h = fnv(h, c.data(), c.size() * 8);
      vec_znx_big_normalize_base2k(S.fft, 1 + r.below(30), c2.data(), 3, nn, A, 3, tmp.data());   h = fnv(h, c2.data(), c2.size() * 8);
      vec_znx_big_range_normalize_base2k(S.fft, 1 + r.below(30), c2.data(), 2, nn, A, 0, 3, 2, tmp.data());   h = fnv(h, c2.data(), c2.size() * 8);
      // own prepared objects through the shared module, then the DFT-to-DFT product on the shared matrix
      {
        std::vector<double> pp(nn), pm(6 * nn), dd(3 * nn), ee(3 * nn);
        svp_prepare(S.fft, (SVP_PPOL*)pp.data(), a.data());                 h = fnv(h, pp.data(), pp.size() * 8);
        vmp_prepare_contiguous(S.fft, (VMP_PMAT*)pm.data(), c.data(), 1, 2, tmp.data());   h = fnv(h, pm.data(), 2 * nn * 8);
        vec_znx_dft(S.fft, (VEC_ZNX_DFT*)dd.data(), 2, a.data(), 2, nn);
        vmp_apply_dft_to_dft(S.fft, (VEC_ZNX_DFT*)ee.data(), 3, (VEC_ZNX_DFT*)dd.data(), 2, S.pmat, 2, 3, tmp.data());
        h = fnv(h, ee.data(), ee.size() * 8);
      }
      // fftvec products and conversions on shared tables
      {
        std::vector<double> x(2 * nn), y(2 * nn), z(2 * nn, 1.5);
        for (uint64_t i = 0; i < nn; i++) { x[i] = (double)r.sbits(20) / 64.0; y[i] = (double)r.sbits(20) / 32.0; }
        reim_fftvec_mul(S.rmul, z.data(), x.data(), y.data());            h = fnv(h, z.data(), nn * 8);
        reim_fftvec_addmul(S.raddmul, z.data(), x.data(), y.data());      h = fnv(h, z.data(), nn * 8);
        cplx_fftvec_mul(S.cmul, z.data(), x.data(), y.data());            h = fnv(h, z.data(), nn * 8);
        cplx_fftvec_addmul(S.caddmul, z.data(), x.data(), y.data());      h = fnv(h, z.data(), nn * 8);
        if (m >= 4) {
          reim4_fftvec_mul(S.r4mul, z.data(), x.data(), y.data());        h = fnv(h, z.data(), nn * 8);
          reim4_fftvec_addmul(S.r4addmul, z.data(), x.data(), y.data());  h = fnv(h, z.data(), nn * 8);
        }
        cplx_ifft(S.cifft, x.data());                                     h = fnv(h, x.data(), nn * 8);
        reim_from_znx64(S.rfrom, z.data(), a.data());                     h = fnv(h, z.data(), nn * 8);
        reim_to_znx64(S.rto, c2.data(), z.data());                        h = fnv(h, c2.data(), nn * 8);
        reim_to_tnx(S.rtnx, z.data(), y.data());                          h = fnv(h, z.data(), nn * 8);
        std::vector<int32_t> i32(nn);
        for (auto& v : i32) v = (int32_t)r.next();
        cplx_from_znx32(S.cfrom, z.data(), i32.data());                   h = fnv(h, z.data(), nn * 8);
        for (uint64_t i = 0; i < nn; i++) y[i] = (double)r.sbits(16) / 8.0;
        cplx_to_tnx32(S.cto, i32.data(), y.data());                       h = fnv(h, i32.data(), nn * 4);
      }
      // q120: products and NTT on shared precomputations
      {
        const uint64_t ell = 5;
        std::vector<uint64_t> xa(4 * ell), ya(4 * ell), xb(4 * ell), yc(8 * ell), res(8);
        for (auto& v : xa) v = r.next() & 0xFFFFFFFFull;
        for (auto& v : ya) v = r.next() & 0xFFFFFFFFull;
        for (auto& v : xb) v = r.next();
        for (auto& v : yc) v = r.next() & 0xFFFFFFFFull;
        q120_vec_mat1col_product_baa_ref(S.qbaa, ell, (q120b*)res.data(), (q120a*)xa.data(), (q120a*)ya.data());   h = fnv(h, res.data(), 32);
        q120_vec_mat1col_product_baa_avx2(S.qbaa, ell, (q120b*)res.data(), (q120a*)xa.data(), (q120a*)ya.data());  h = fnv(h, res.data(), 32);
        q120_vec_mat1col_product_bbb_ref(S.qbbb, ell, (q120b*)res.data(), (q120b*)xb.data(), (q120b*)xb.data());   h = fnv(h, res.data(), 32);
        q120_vec_mat1col_product_bbb_avx2(S.qbbb, ell, (q120b*)res.data(), (q120b*)xb.data(), (q120b*)xb.data());  h = fnv(h, res.data(), 32);
        q120_vec_mat1col_product_bbc_ref(S.qbbc, ell, (q120b*)res.data(), (q120b*)xb.data(), (q120c*)yc.data());   h = fnv(h, res.data(), 32);
        q120_vec_mat1col_product_bbc_avx2(S.qbbc, ell, (q120b*)res.data(), (q120b*)xb.data(), (q120c*)yc.data());  h = fnv(h, res.data(), 32);
        std::vector<uint64_t> v(4 * nn);
        for (auto& t : v) t = r.next();
        q120_ntt_bb_avx2(S.qntt, (q120b*)v.data());                       h = fnv(h, v.data(), v.size() * 8);
        q120_intt_bb_avx2(S.qintt, (q120b*)v.data());                     h = fnv(h, v.data(), v.size() * 8);
      }
    }
    if (S.simple) {
      for (uint64_t i = 0; i < nn; i++) d[i] = (double)r.sbits(30);
      reim_fft_simple(m, d.data());
      reim_ifft_simple(m, d.data());
      cplx_fft_simple(m, d.data());
      reim_fftvec_mul_simple(m, e.data(), d.data(), d.data());
      reim_to_znx64_simple(m, (double)m, 63, c.data(), e.data());
      reim_from_znx64_simple(m, 50, d.data(), a.data());
      reim4_fftvec_mul_simple(m, e.data(), d.data(), d.data());
      h = fnv(h, e.data(), nn * 8);
      h = fnv(h, c.data(), nn * 8);
    }
  }
  return h;
}

struct Arg {
  const Shared* S;
  uint64_t seed;
  uint64_t out;
  std::atomic<int>* gate;
};
static void* thread_main(void* p) {
  Arg* a = (Arg*)p;
  while (a->gate->load() == 0) {}
  a->out = work(*a->S, a->seed);
  return nullptr;
}

static void mt_case(Out& out, Rng& rng, uint64_t nn, int nthreads, int iters, int simple, int mask) {
  spqlios_verif_set_cpu_mask(mask, mask, mask);
  Shared S;
  S.nn = nn;
  S.iters = iters;
  S.simple = simple;
  S.fft = new_module_info(nn, FFT64);
  spqlios_verif_set_cpu_mask(0, 0, 0);
  S.ntt = new_module_info(nn, NTT120);  // NTT120 has no generic kernels
  spqlios_verif_set_cpu_mask(mask, mask, mask);
  S.rfft = new_reim_fft_precomp(nn / 2, 0);
  S.rifft = new_reim_ifft_precomp(nn / 2, 0);
  S.cfft = new_cplx_fft_precomp(nn / 2, 0);
  S.ppol = new_svp_ppol(S.fft);
  S.pmat = new_vmp_pmat(S.fft, 2, 3);
  if (mask == 0 && nn >= 8) make_more(S);
  std::vector<int64_t> pol(nn), mat(6 * nn);
  for (auto& x : pol) x = rng.sbits(10);
  for (auto& x : mat) x = rng.sbits(10);
  std::vector<uint8_t> tmp(1 << 18);
  svp_prepare(S.fft, S.ppol, pol.data());
  vmp_prepare_contiguous(S.fft, S.pmat, mat.data(), 2, 3, tmp.data());
  if (simple) {
    // documented warm-up protocol: one call per dimension before concurrent use
    std::vector<double> d(2 * nn, 1.0), e(2 * nn, 1.0);
    std::vector<int64_t> c(nn, 1);
    uint64_t m = nn / 2;
    reim_fft_simple(m, d.data());
    reim_ifft_simple(m, d.data());
    cplx_fft_simple(m, d.data());
    reim_fftvec_mul_simple(m, e.data(), d.data(), d.data());
    reim_from_znx64_simple(m, 50, d.data(), c.data());
    reim4_fftvec_mul_simple(m, e.data(), d.data(), d.data());
  }
  uint64_t base = rng.next();
  std::vector<Arg> args(nthreads);
  std::vector<pthread_t> th(nthreads);
  std::atomic<int> gate(0);
  for (int i = 0; i < nthreads; i++) {
    args[i] = Arg{&S, base + i, 0, &gate};
    pthread_create(&th[i], 0, thread_main, &args[i]);
  }
  gate.store(1);
  for (int i = 0; i < nthreads; i++) pthread_join(th[i], 0);
  std::string verdict = "ok";
  for (int i = 0; i < nthreads; i++) {
    uint64_t solo = work(S, base + i);
    if (solo != args[i].out) {
      char buf[160];
      snprintf(buf, sizeof buf, "FAIL thread %d of %d (nn=%" PRIu64 " simple=%d mask=%d) differs from its solo run", i, nthreads, nn, simple, mask);
      verdict = buf;
      break;
    }
  }
  fprintf(out.ops, "ca nop mt_module nn=%lu threads=%d iters=%d simple_api=%d mask=%d", (unsigned long)nn, nthreads, iters, simple, mask);
  fprintf(out.real, "nop");
  out.endcase(verdict);
  out.count("threads", nthreads);
  out.count("calls", (long)nthreads * iters * (simple ? 24 : 17));
  delete_module_info(S.fft);
  delete_module_info(S.ntt);
  free(S.rfft); free(S.rifft); free(S.cfft);
  delete_svp_ppol(S.ppol);
  delete_vmp_pmat(S.pmat);
  free_more(S);
  spqlios_verif_set_cpu_mask(0, 0, 0);
}

// every thread CREATES its own module / tables (concurrently with the others), prepares its own scalar and matrix and
// then works on them; a call must return what it returns when the whole thing runs alone.  Catches scratch or
// tables shared between constructors.
struct OwnArg { uint64_t nn, seed, out; std::atomic<int>* gate; };
static uint64_t own_work(uint64_t nn, uint64_t seed) {
  Rng r(seed);
  Shared S;
  S.nn = nn; S.iters = 1; S.simple = 0;
  S.fft = new_module_info(nn, FFT64);
  S.ntt = new_module_info(nn, NTT120);
  S.rfft = new_reim_fft_precomp(nn / 2, 0);
  S.rifft = new_reim_ifft_precomp(nn / 2, 0);
  S.cfft = new_cplx_fft_precomp(nn / 2, 0);
  S.ppol = new_svp_ppol(S.fft);
  S.pmat = new_vmp_pmat(S.fft, 2, 3);
  if (nn >= 8) make_more(S);   // every table family constructed concurrently too (incl. the q120 product precomputations)
  std::vector<int64_t> pol(nn), mat(6 * nn);
  for (auto& x : pol) x = r.sbits(10);
  for (auto& x : mat) x = r.sbits(10);
  std::vector<uint8_t> tmp(1 << 18);
  svp_prepare(S.fft, S.ppol, pol.data());
  vmp_prepare_contiguous(S.fft, S.pmat, mat.data(), 2, 3, tmp.data());
  uint64_t h = work(S, seed ^ 0x5bd1e995);
  delete_module_info(S.fft);
  delete_module_info(S.ntt);
  free(S.rfft); free(S.rifft); free(S.cfft);
  delete_svp_ppol(S.ppol);
  delete_vmp_pmat(S.pmat);
  free_more(S);
  return h;
}
static void* own_main(void* p) {
  OwnArg* a = (OwnArg*)p;
  while (a->gate->load() == 0) {}
  a->out = own_work(a->nn, a->seed);
  return nullptr;
}
static void mt_construct(Out& out, Rng& rng, uint64_t nn, int nthreads) {
  uint64_t base = rng.next();
  std::vector<OwnArg> args(nthreads);
  std::vector<pthread_t> th(nthreads);
  std::atomic<int> gate(0);
  for (int i = 0; i < nthreads; i++) {
    args[i] = OwnArg{nn, base + i, 0, &gate};
    pthread_create(&th[i], 0, own_main, &args[i]);
  }
  gate.store(1);
  for (int i = 0; i < nthreads; i++) pthread_join(th[i], 0);
  std::string verdict = "ok";
  for (int i = 0; i < nthreads; i++)
    if (own_work(nn, base + i) != args[i].out) {
      char buf[200];
      snprintf(buf, sizeof buf, "FAIL thread %d of %d (nn=%" PRIu64 "): calls on objects created while other threads created theirs differ from the solo run", i, nthreads, nn);
      verdict = buf;
      break;
    }
  fprintf(out.ops, "ca nop mt_construct nn=%lu threads=%d", (unsigned long)nn, nthreads);
  fprintf(out.real, "nop");
  out.endcase(verdict);
  out.count("construct_threads", nthreads);
}

STREAM(mt_module) {
  // very first: every constructor runs for the first time in this process on 16 threads at once
  mt_construct(out, rng, 64, 16);
  // fresh objects, module-level API only, first uses concurrent
  mt_case(out, rng, 64, 16, thorough ? 40 : 6, 0, 0);
  mt_case(out, rng, 16, 16, thorough ? 40 : 6, 0, 1);
  mt_case(out, rng, 256, 8, thorough ? 20 : 3, 0, 0);
  mt_case(out, rng, 4096, 8, 1, 0, 0);  // large tables: anything built lazily on first use shows here
  // objects created concurrently (one set per thread)
  mt_construct(out, rng, 2048, 8);
  // then the convenience API after its documented warm-up
  mt_case(out, rng, 64, 16, thorough ? 40 : 6, 1, 0);
  mt_case(out, rng, 32, 8, thorough ? 20 : 4, 1, 1);
  if (thorough)
    for (uint64_t nn : {(uint64_t)8, (uint64_t)1024, (uint64_t)4096}) mt_case(out, rng, nn, 16, 10, 1, 0);
}
