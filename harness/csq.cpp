// Stream cs_q120: the q120 REFERENCE arithmetic (spqlios/q120/q120_arithmetic_ref.c, q120_arithmetic_simple.c)
// against the CIR interpreter running the terms GENERATED from their C source (local arrays as slots, uint32 views of
// 64-bit cells, inlined static helpers, the precomputation struct as a buffer of 64-bit cells).
//   cs <fn> scalars… | ptr… | cells of buffer 0 | cells of buffer 1 | …      ->  ok | all buffers
// Buffer 0 of the product kernels is the LIVE precomputation object (its uint64 fields copied cell by cell), so the
// stream also ties the struct layout the translator computed to the compiled one.  Cells are printed as uint64
// (int64 for the znx input of q120_b_from_znx64_simple); layout c is two uint32 per cell, little endian.
#include "hcommon.h"

extern "C" {
#include "spqlios/q120/q120_arithmetic.h"
#include "spqlios/q120/q120_arithmetic_private.h"
#include "spqlios/q120/q120_common.h"
}

namespace {
typedef std::vector<uint64_t> U;

uint64_t lane(Rng& rng, int cls) {
  switch (cls) {
    case 0: return rng.next();
    case 1: return ~0ull;
    case 2: return rng.next() & 0xFFFFFFFFull;
    case 3: return rng.next() | (1ull << 63);
    case 4: return rng.below(4);
    default: return (rng.next() & 1) ? ~0ull : 0;
  }
}
U vec(Rng& rng, size_t n, int cls) {
  U v(n);
  for (auto& x : v) x = lane(rng, cls);
  return v;
}

void emit(Out& out, const char* fn, const std::vector<uint64_t>& scalars, const std::vector<int>& ptrs,
          const std::vector<U>& before, const std::vector<U>& after, const std::string& verdict, int signed_buf = -1) {
  fprintf(out.ops, "cs %s", fn);
  for (uint64_t s : scalars) fprintf(out.ops, " %" PRIu64, s);
  fprintf(out.ops, " |");
  for (int b : ptrs) fprintf(out.ops, " %d:0", b);
  for (size_t b = 0; b < before.size(); b++) {
    fprintf(out.ops, " | ");
    if ((int)b == signed_buf) put_i64s(out.ops, (const int64_t*)before[b].data(), before[b].size());
    else put_u64s(out.ops, before[b].data(), before[b].size());
  }
  fprintf(out.real, "ok");
  for (size_t b = 0; b < after.size(); b++) {
    fprintf(out.real, " | ");
    if ((int)b == signed_buf) put_i64s(out.real, (const int64_t*)after[b].data(), after[b].size());
    else put_u64s(out.real, after[b].data(), after[b].size());
  }
  out.endcase(verdict);
  out.count(fn);
}

// independent oracle for the products: 128-bit arithmetic modulo each prime
const uint64_t QS[4] = {Q1, Q2, Q3, Q4};
typedef unsigned __int128 u128;

void prod_case(Out& out, Rng& rng, int kind, uint64_t ell, int cls) {
  // kind 0 baa, 1 bbb, 2 bbc, 3 x2 1col, 4 x2 2cols;  5, 6, 7: the AVX2 kernels baa, bbb, bbc
  const int avx = kind >= 5;
  if (avx) kind -= 5;
  static q120_mat1col_product_baa_precomp* pa = q120_new_vec_mat1col_product_baa_precomp();
  static q120_mat1col_product_bbb_precomp* pb = q120_new_vec_mat1col_product_bbb_precomp();
  static q120_mat1col_product_bbc_precomp* pc = q120_new_vec_mat1col_product_bbc_precomp();
  U P;
  if (kind == 0) { P.push_back(pa->h); for (int k = 0; k < 4; k++) P.push_back(pa->h_pow_red[k]); }
  else if (kind == 1) {
    P.push_back(pb->h);
    const uint64_t* f[7] = {pb->s1h_pow_red, pb->s2l_pow_red, pb->s2h_pow_red, pb->s3l_pow_red, pb->s3h_pow_red, pb->s4l_pow_red, pb->s4h_pow_red};
    for (auto a : f) for (int k = 0; k < 4; k++) P.push_back(a[k]);
  } else { P.push_back(pc->h); for (int k = 0; k < 4; k++) P.push_back(pc->s2l_pow_red[k]); for (int k = 0; k < 4; k++) P.push_back(pc->s2h_pow_red[k]); }
  size_t xrow = kind >= 3 ? 8 : 4, yrow = kind == 4 ? 16 : (kind == 3 ? 8 : 4), rsz = kind == 4 ? 16 : (kind == 3 ? 8 : 4);
  const int c0 = (kind == 0 && !avx) ? 2 : cls;   // layout a = 32-bit values; the AVX2 a*a kernel is also run on raw 64-bit lanes (it uses their low halves)
  U x = vec(rng, xrow * ell, c0), y = vec(rng, yrow * ell, c0), r = vec(rng, rsz, 0);
  std::vector<U> before = {P, r, x, y};
  U res(rsz);
  if (avx) switch (kind) {
    case 0: q120_vec_mat1col_product_baa_avx2(pa, ell, (q120b*)res.data(), (q120a*)x.data(), (q120a*)y.data()); break;
    case 1: q120_vec_mat1col_product_bbb_avx2(pb, ell, (q120b*)res.data(), (q120b*)x.data(), (q120b*)y.data()); break;
    case 2: q120_vec_mat1col_product_bbc_avx2(pc, ell, (q120b*)res.data(), (q120b*)x.data(), (q120c*)y.data()); break;
  }
  else switch (kind) {
    case 0: q120_vec_mat1col_product_baa_ref(pa, ell, (q120b*)res.data(), (q120a*)x.data(), (q120a*)y.data()); break;
    case 1: q120_vec_mat1col_product_bbb_ref(pb, ell, (q120b*)res.data(), (q120b*)x.data(), (q120b*)y.data()); break;
    case 2: q120_vec_mat1col_product_bbc_ref(pc, ell, (q120b*)res.data(), (q120b*)x.data(), (q120c*)y.data()); break;
    case 3: q120x2_vec_mat1col_product_bbc_ref(pc, ell, (q120b*)res.data(), (q120b*)x.data(), (q120c*)y.data()); break;
    case 4: q120x2_vec_mat2cols_product_bbc_ref(pc, ell, (q120b*)res.data(), (q120b*)x.data(), (q120c*)y.data()); break;
  }
  std::vector<U> after = {P, res, x, y};
  std::string verdict = "ok";
  if (kind <= 1 && ell <= 10000 && !(avx && kind == 0 && cls != 2)) {   // oracle: lane j = sum x*y mod q_j
    for (int j = 0; j < 4; j++) {
      u128 acc = 0;
      for (uint64_t i = 0; i < ell; i++) acc = (acc + (u128)(x[4 * i + j] % QS[j]) * (y[4 * i + j] % QS[j])) % QS[j];
      if (res[j] % QS[j] != (uint64_t)acc) verdict = "FAIL C10 product lane is not the sum of products modulo its prime";
    }
  }
  static const char* N[5] = {"q120_vec_mat1col_product_baa_ref", "q120_vec_mat1col_product_bbb_ref", "q120_vec_mat1col_product_bbc_ref",
                             "q120x2_vec_mat1col_product_bbc_ref", "q120x2_vec_mat2cols_product_bbc_ref"};
  static const char* NA[3] = {"q120_vec_mat1col_product_baa_avx2", "q120_vec_mat1col_product_bbb_avx2", "q120_vec_mat1col_product_bbc_avx2"};
  emit(out, avx ? NA[kind] : N[kind], {ell}, {0, 1, 2, 3}, before, after, verdict);
}

void block_case(Out& out, Rng& rng, int kind, uint64_t nn, uint64_t nrows, uint64_t blk) {
  // kind 0 extract_1blk_from_q120b, 1 extract contiguous, 2 save
  if (kind == 0) {
    U src = vec(rng, 4 * nn, 0), dst = vec(rng, 8, 0);
    std::vector<U> before = {dst, src};
    q120x2_extract_1blk_from_q120b_ref(nn, blk, (q120x2b*)dst.data(), (q120b*)src.data());
    emit(out, "q120x2_extract_1blk_from_q120b_ref", {nn, blk}, {0, 1}, before, {dst, src}, "ok");
  } else if (kind == 1) {
    U src = vec(rng, 4 * nn * nrows, 0), dst = vec(rng, 8 * nrows, 0);
    std::vector<U> before = {dst, src};
    q120x2_extract_1blk_from_contiguous_q120b_ref(nn, nrows, blk, (q120x2b*)dst.data(), (q120b*)src.data());
    emit(out, "q120x2_extract_1blk_from_contiguous_q120b_ref", {nn, nrows, blk}, {0, 1}, before, {dst, src}, "ok");
  } else {
    U src = vec(rng, 8, 0), dst = vec(rng, 4 * nn, 0);
    std::vector<U> before = {dst, src};
    q120x2b_save_1blk_to_q120b_ref(nn, blk, (q120b*)dst.data(), (q120x2b*)src.data());
    emit(out, "q120x2b_save_1blk_to_q120b_ref", {nn, blk}, {0, 1}, before, {dst, src}, "ok");
  }
}

void simple_case(Out& out, Rng& rng, int kind, uint64_t nn, int cls, int alias) {
  // kind 0 add_bbb, 1 add_ccc, 2 c_from_b, 3 b_from_znx64;  alias 1: res == x (add_*), in place
  if (kind <= 1) {
    U x = vec(rng, 4 * nn, cls), y = vec(rng, 4 * nn, cls), r = vec(rng, 4 * nn, 0);
    if (alias) {
      std::vector<U> before = {x, y};
      if (kind == 0) q120_add_bbb_simple(nn, (q120b*)x.data(), (q120b*)x.data(), (q120b*)y.data());
      else q120_add_ccc_simple(nn, (q120c*)x.data(), (q120c*)x.data(), (q120c*)y.data());
      emit(out, kind == 0 ? "q120_add_bbb_simple" : "q120_add_ccc_simple", {nn}, {0, 0, 1}, before, {x, y}, "ok");
    } else {
      std::vector<U> before = {r, x, y};
      if (kind == 0) q120_add_bbb_simple(nn, (q120b*)r.data(), (q120b*)x.data(), (q120b*)y.data());
      else q120_add_ccc_simple(nn, (q120c*)r.data(), (q120c*)x.data(), (q120c*)y.data());
      emit(out, kind == 0 ? "q120_add_bbb_simple" : "q120_add_ccc_simple", {nn}, {0, 1, 2}, before, {r, x, y}, "ok");
    }
  } else if (kind == 2) {
    U x = vec(rng, 4 * nn, cls), r = vec(rng, 4 * nn, 0);
    std::vector<U> before = {r, x};
    q120_c_from_b_simple(nn, (q120c*)r.data(), (q120b*)x.data());
    emit(out, "q120_c_from_b_simple", {nn}, {0, 1}, before, {r, x}, "ok");
  } else {
    U x = vec(rng, nn, cls), r = vec(rng, 4 * nn, 0);
    std::vector<U> before = {r, x};
    q120_b_from_znx64_simple(nn, (q120b*)r.data(), (const int64_t*)x.data());
    std::string verdict = "ok";
    for (uint64_t j = 0; j < nn; j++)
      for (int k = 0; k < 4; k++) {
        int64_t v = (int64_t)x[j];
        int64_t m = v % (int64_t)QS[k];
        if (m < 0) m += QS[k];
        if (r[4 * j + k] % QS[k] != (uint64_t)m) verdict = "FAIL C10 q120_b_from_znx64_simple lane is not congruent to the input";
      }
    emit(out, "q120_b_from_znx64_simple", {nn}, {0, 1}, before, {r, x}, verdict, 1);
  }
}
}  // namespace

STREAM(cs_q120) {
  std::vector<uint64_t> ells = {0, 1, 2, 3, 5, 8};
  if (thorough) { ells.push_back(17); ells.push_back(64); ells.push_back(1000); ells.push_back(10000); }
  else ells.push_back(100);
  for (int kind = 0; kind < 8; kind++)
    for (uint64_t ell : ells)
      for (int cls = 0; cls < 6; cls++) {
        int reps = ell <= 8 ? 2 : 1;
        for (int t = 0; t < reps; t++) prod_case(out, rng, kind, ell, cls);
      }
  for (uint64_t nn : {2ull, 4ull, 8ull, 16ull})
    for (uint64_t blk = 0; blk < nn / 2; blk++) {
      block_case(out, rng, 0, nn, 0, blk);
      block_case(out, rng, 2, nn, 0, blk);
      for (uint64_t nrows : {0ull, 1ull, 2ull, 5ull}) block_case(out, rng, 1, nn, nrows, blk);
    }
  for (int kind = 0; kind < 4; kind++)
    for (uint64_t nn : {0ull, 1ull, 2ull, 3ull, 7ull, 32ull})
      for (int cls = 0; cls < 6; cls++)
        for (int alias = 0; alias < (kind <= 1 ? 2 : 1); alias++) simple_case(out, rng, kind, nn, cls, alias);
}
