// Module-level streams (FFT64 / NTT120 pipelines): independent integer oracles for C01, C02, C03 (module
// level), plus the cross-cutting observations C18 (sources / prepared objects / tables unchanged), C13 (in-place
// inverse DFT), C15 (scratch and output pre-fill independence), C11 (exact-size buffers: run under ASan).
#include <cstdarg>
#include "hcommon.h"
extern "C" {
#include "spqlios/reim/reim_fft.h"
extern "C" {
#include "spqlios/q120/q120_common.h"
#include "spqlios/q120/q120_ntt.h"
#include "spqlios/q120/q120_ntt_private.h"
}
}

typedef __int128 i128;

// exact-size heap buffer whose start is offset by `mis` bytes (a multiple of 8) from the malloc'ed block
struct Buf {
  uint8_t* base;
  uint8_t* p;
  size_t n;
  Buf(size_t bytes, size_t mis, Rng& rng, int fill) : n(bytes) {
    base = (uint8_t*)malloc(bytes + mis + 1);
    p = base + mis;
    for (size_t i = 0; i < bytes; i++) p[i] = fill == 0 ? 0 : (fill == 1 ? 0xFF : (uint8_t)rng.next());
  }
  ~Buf() { free(base); }
  template <class T> T* as() { return (T*)p; }
};

static uint64_t fnv(const void* p, size_t n) {
  uint64_t h = 1469598103934665603ull;
  const uint8_t* b = (const uint8_t*)p;
  for (size_t i = 0; i < n; i++) h = (h ^ b[i]) * 1099511628211ull;
  return h;
}

// snapshot of the module and of every table it owns (C18: shared tables are never written).  Each precomputation is
// one malloc'ed block, so malloc_usable_size gives its full extent.
#include <malloc.h>
struct ModSnap {
  uint64_t h;
  explicit ModSnap(const MODULE* m) { h = hash(m); }
  static uint64_t blk(const void* p) { return p ? fnv(p, malloc_usable_size((void*)p)) : 0; }
  static uint64_t hash(const MODULE* m) {
    uint64_t h = fnv(m, sizeof(MODULE));
    if (m->module_type == FFT64) {
      h = h * 31 + blk(m->mod.fft64.p_fft);
      h = h * 31 + blk(m->mod.fft64.p_ifft);
      h = h * 31 + blk(m->mod.fft64.p_conv);
      h = h * 31 + blk(m->mod.fft64.p_reim_to_znx);
      h = h * 31 + blk(m->mod.fft64.p_addmul);
      h = h * 31 + blk(m->mod.fft64.mul_fft);
    } else {
      for (q120_ntt_precomp* t : {m->mod.q120.p_ntt, m->mod.q120.p_intt}) {
        if (!t) continue;
        h = h * 31 + fnv(t, sizeof(*t));
        h = h * 31 + blk(t->level_metadata);
        h = h * 31 + blk(t->powomega);
      }
    }
    return h;
  }
  bool same(const MODULE* m) const { return hash(m) == h; }
};

MODULE* get_module(uint64_t nn, int type, int mask);  // vz.cpp

static void negacyclic(std::vector<i128>& r, const int64_t* a, const int64_t* b, uint64_t n) {
  r.assign(n, 0);
  for (uint64_t i = 0; i < n; i++) {
    if (!a[i]) continue;
    for (uint64_t j = 0; j < n; j++) {
      i128 t = (i128)a[i] * b[j];
      if (i + j < n) r[i + j] += t; else r[i + j - n] -= t;
    }
  }
}

// data classes for C01 (all inside the 52-bit budget): returns vectors a (small) and b
static void gen_pair(Rng& rng, int cls, uint64_t n, std::vector<int64_t>& a, std::vector<int64_t>& b, int abits, int bbits) {
  a.assign(n, 0);
  b.assign(n, 0);
  int64_t A = ((int64_t)1 << abits) - 1, B = ((int64_t)1 << bbits) - 1;
  if (cls == 6) {
    // large results inside the budget: three coefficients of a just below 2^50 whose products with +-1 entries of b
    // add up in one output coefficient to about 3*2^50 (>= 2^51, < 2^52); |a|_inf*|b|_1 = 3*2^50 < 2^52
    uint64_t t = rng.below(n), k = n >= 4 ? 3 : n;
    for (uint64_t u = 0; u < k; u++) {
      uint64_t p = (rng.below(n / k ? n / k : 1) + u * (n / k)) % n;
      int64_t sa = (rng.next() & 1) ? 1 : -1;
      a[p] = sa * ((((int64_t)1) << 50) - 1 - (int64_t)rng.below(1000));
      uint64_t q = (t + n - p) % n;
      bool wrapped = p + q >= n;
      b[q] = sa * (wrapped ? -1 : 1);
    }
    return;
  }
  if (cls == 8) {
    // OUTSIDE the numeric contract (C01 verdict is "na"): magnitudes at and beyond 2^51.  The call is still a call:
    // sources, prepared objects, module and tables must come out unchanged (C18), and nothing may fault (C11)
    static const int64_t BIGS[] = {(int64_t)1 << 51, -((int64_t)1 << 51) - 1, (int64_t)1 << 52, INT64_MAX, INT64_MIN, (int64_t)1 << 62, ((int64_t)1 << 51) - 1, -((int64_t)1 << 51)};
    for (uint64_t i = 0; i < n; i++) { a[i] = rng.sbits(8); b[i] = rng.sbits(8); }
    a[rng.below(n)] = BIGS[rng.below(8)];
    b[rng.below(n)] = BIGS[rng.below(8)];
    return;
  }
  if (cls == 7) {
    // every coefficient of b is a multiple of 2^s, s in {32, 33, 40} (low words all zero); a sparse and small
    int s = (int[]){32, 33, 40}[rng.below(3)];
    for (uint64_t i = 0; i < n; i++) b[i] = (int64_t)((uint64_t)rng.sbits(9) << s);
    b[rng.below(n)] = (int64_t)1 << s;
    for (int u = 0; u < 3; u++) a[rng.below(n)] = rng.range(-64, 64);
    a[rng.below(n)] = 1;
    return;
  }
  for (uint64_t i = 0; i < n; i++) {
    switch (cls) {
      case 0: a[i] = rng.sbits(abits); b[i] = rng.sbits(bbits); break;            // random
      case 1: a[i] = A; b[i] = B; break;                                          // all-max, equal sign
      case 2: a[i] = (i & 1) ? -A : A; b[i] = (i & 1) ? B : -B; break;            // alternating
      case 3: {                                                                   // resonant: sign pattern of a root's powers
        double w = M_PI * (2 * (double)(rng.s % 7) + 1) * (double)i / (double)n;
        a[i] = cos(w) >= 0 ? A : -A; b[i] = sin(w) >= 0 ? B : -B; break;
      }
      case 4: a[i] = (rng.below(n / 4 + 1) == 0) ? (rng.next() & 1 ? A : -A) : 0; b[i] = rng.sbits(bbits); break;  // sparse
      default: a[i] = rng.sbits(1 + (int)rng.below(abits)); b[i] = rng.sbits(1 + (int)rng.below(bbits)); break;   // mixed magnitudes
    }
  }
}

static double norm1(const std::vector<int64_t>& v) { long double s = 0; for (auto x : v) s += fabsl((long double)x); return (double)s; }
static double norm2(const std::vector<int64_t>& v) { long double s = 0; for (auto x : v) s += (long double)x * x; return (double)sqrtl(s); }
static double norminf(const std::vector<int64_t>& v) { double s = 0; for (auto x : v) s = fmax(s, fabs((double)x)); return s; }

// C01 verdict for one computed product row
static std::string check_product(const char* what, uint64_t n, const int64_t* got, const std::vector<int64_t>& a, const std::vector<int64_t>& b) {
  std::vector<i128> ex;
  negacyclic(ex, a.data(), b.data(), n);
  double E = 8.0 * log2((double)n) * ldexp(1.0, -53) * (norm1(a) * norm2(b) + norm2(a) * norm1(b));
  bool inbudget = norminf(a) < ldexp(1.0, 50) && norminf(b) < ldexp(1.0, 50) &&
                  fmin(norm1(a) * norminf(b), norminf(a) * norm1(b)) < ldexp(1.0, 52);
  if (!inbudget) return "na";
  long double tol = (long double)E + 0.5L;
  for (uint64_t i = 0; i < n; i++) {
    long double d = fabsl((long double)((i128)got[i] - ex[i]));
    if (d > tol) {
      char buf[240];
      snprintf(buf, sizeof buf, "FAIL C01 %s n=%" PRIu64 " coeff %" PRIu64 " differs from the exact product by %.3Lf > E+1/2 = %.3Lf", what, n, i, d, tol);
      return buf;
    }
  }
  return "ok";
}

static void nop_lines(Out& out, const char* fmt, ...) {
  char buf[300];
  va_list ap;
  va_start(ap, fmt);
  vsnprintf(buf, sizeof buf, fmt, ap);
  va_end(ap);
  fprintf(out.ops, "ca nop %s", buf);
  fprintf(out.real, "nop");
}

// ------------------------------------------------------------------------------------------------------
STREAM(md_prod) {
  std::vector<uint64_t> dims = thorough ? std::vector<uint64_t>{2, 4, 8, 16, 32, 64, 128, 256, 512, 1024, 2048, 4096}
                                        : std::vector<uint64_t>{2, 4, 8, 16, 32, 64, 256, 1024};
  if (thorough) { dims.push_back(16384); dims.push_back(65536); } else dims.push_back(8192);  // m = 4096: the recursive FFT path
  for (uint64_t n : dims)
    for (int mask = 0; mask < 2; mask++)
      for (int cls = 0; cls < 9; cls++) {
        if (n > 4096 && cls != 4 && cls != 6 && cls != 7) continue;  // the schoolbook oracle is O(nnz(a)·N): only sparse a at the largest dimensions
        MODULE* mod = get_module(n, 0, mask);
        // operand sizes chosen so that min(|a|_1 |b|_inf, …) stays below 2^52: |a| < 2^abits dense
        int lg = 0; while ((1ull << lg) < n) lg++;
        int abits = 1 + (int)rng.below(16), bbits = 50 - abits - lg - 1;
        if (bbits > 34) bbits = 34;  // keep E small enough to be informative on mid sizes too
        if (cls == 5) { abits = 20; bbits = 51 - 20 - lg; }
        if (bbits < 1) bbits = 1;
        std::vector<int64_t> a, b;
        gen_pair(rng, cls, n, a, b, abits, bbits);
        std::string verdict = "ok";
        // keeps the first failure of EACH property tag ("FAIL Cxx …"), joined by " ;; "
        auto worse = [&](const std::string& v) {
          if (v == "ok") return;
          if (verdict == "ok" || verdict == "na") { verdict = v; return; }
          if (v == "na") return;
          if (verdict.find(v.substr(0, 8)) == std::string::npos) verdict += " ;; " + v;
        };
        // 1. small single product: exact-size buffers, garbage scratch
        {
          Buf ra(n * 8, 8 * rng.below(4), rng, 2), rb(n * 8, 8 * rng.below(4), rng, 2), rr(n * 8, 8 * rng.below(4), rng, 2);
          Buf tmp(znx_small_single_product_tmp_bytes(mod), 8 * rng.below(4), rng, 1 + (int)rng.below(2));
          memcpy(ra.p, a.data(), n * 8);
          memcpy(rb.p, b.data(), n * 8);
          ModSnap ms(mod);
          znx_small_single_product(mod, rr.as<int64_t>(), ra.as<int64_t>(), rb.as<int64_t>(), tmp.p);
          worse(check_product("znx_small_single_product", n, rr.as<int64_t>(), a, b));
          if (memcmp(ra.p, a.data(), n * 8) || memcmp(rb.p, b.data(), n * 8)) worse("FAIL C18 znx_small_single_product modified a source operand");
          if (!ms.same(mod)) worse("FAIL C18 znx_small_single_product modified the module");
          // C15: same call again with a differently pre-filled scratch and output gives the same bits
          Buf rr2(n * 8, 0, rng, 0), tmp2(znx_small_single_product_tmp_bytes(mod), 0, rng, 0);
          znx_small_single_product(mod, rr2.as<int64_t>(), ra.as<int64_t>(), rb.as<int64_t>(), tmp2.p);
          if (memcmp(rr.p, rr2.p, n * 8)) worse("FAIL C15 znx_small_single_product depends on scratch/output pre-fill");
        }
        // 2. svp: prepare(a) ; apply_dft to a limb vector whose limbs are b, 0-extended ; idft
        {
          uint64_t asz = 1 + rng.below(3), rsz = asz + rng.below(3) - (rng.below(3) == 0 && asz > 1 ? 1 : 0), asl = n + rng.below(3);
          Buf ppol(bytes_of_svp_ppol(mod), 8 * rng.below(4), rng, 2);
          Buf pa(n * 8, 0, rng, 2);
          memcpy(pa.p, a.data(), n * 8);
          ModSnap ms2(mod);
          svp_prepare(mod, (SVP_PPOL*)ppol.p, pa.as<int64_t>());
          if (memcmp(pa.p, a.data(), n * 8)) worse("FAIL C18 svp_prepare modified its source");
          if (!ms2.same(mod)) worse("FAIL C18 svp_prepare modified the module or one of its tables");
          std::vector<int64_t> vb(asz * asl, 0x5555);
          std::vector<std::vector<int64_t>> limbs(asz);
          for (uint64_t i = 0; i < asz; i++) {
            std::vector<int64_t> dummy;
            gen_pair(rng, i == 0 ? cls : 0, n, dummy, limbs[i], abits, bbits);
            if (i == 0) limbs[i] = b;
            memcpy(&vb[i * asl], limbs[i].data(), n * 8);
          }
          Buf vin(asz * asl * 8, 8 * rng.below(4), rng, 2);
          memcpy(vin.p, vb.data(), asz * asl * 8);
          Buf dft(bytes_of_vec_znx_dft(mod, rsz), 8 * rng.below(4), rng, 2);
          uint64_t ppol_h = fnv(ppol.p, ppol.n);
          svp_apply_dft(mod, (VEC_ZNX_DFT*)dft.p, rsz, (SVP_PPOL*)ppol.p, vin.as<int64_t>(), asz, asl);
          if (fnv(ppol.p, ppol.n) != ppol_h) worse("FAIL C18 svp_apply_dft modified the prepared scalar");
          if (memcmp(vin.p, vb.data(), asz * asl * 8)) worse("FAIL C18 svp_apply_dft modified its source vector (or its stride padding)");
          {
            // (C15) same data through buffers at other byte offsets: bit-identical DFT-space result
            Buf ppol2(ppol.n, 8 * (1 + rng.below(7)), rng, 2), vin2(vin.n, 8 * (1 + rng.below(7)), rng, 2), dft2(dft.n, 8 * (1 + rng.below(7)), rng, 0);
            memcpy(ppol2.p, ppol.p, ppol.n);
            memcpy(vin2.p, vin.p, vin.n);
            svp_apply_dft(mod, (VEC_ZNX_DFT*)dft2.p, rsz, (SVP_PPOL*)ppol2.p, vin2.as<int64_t>(), asz, asl);
            if (memcmp(dft.p, dft2.p, dft.n)) worse("FAIL C15 svp_apply_dft result depends on the byte alignment of its buffers");
          }
          uint64_t dft_h = fnv(dft.p, dft.n);
          int variant = rng.below(3);  // 0 idft separate, 1 idft in place (res == a_dft), 2 idft_tmp_a
          Buf big(bytes_of_vec_znx_big(mod, rsz), 8 * rng.below(4), rng, 2);
          Buf itmp(vec_znx_idft_tmp_bytes(mod), 0, rng, 2);
          int64_t* res;
          if (variant == 0) {
            vec_znx_idft(mod, (VEC_ZNX_BIG*)big.p, rsz, (VEC_ZNX_DFT*)dft.p, rsz, itmp.p);
            res = big.as<int64_t>();
            if (fnv(dft.p, dft.n) != dft_h) worse("FAIL C18 vec_znx_idft modified its DFT source");
          } else if (variant == 1) {
            vec_znx_idft(mod, (VEC_ZNX_BIG*)dft.p, rsz, (VEC_ZNX_DFT*)dft.p, rsz, itmp.p);
            res = dft.as<int64_t>();
          } else {
            vec_znx_idft_tmp_a(mod, (VEC_ZNX_BIG*)big.p, rsz, (VEC_ZNX_DFT*)dft.p, rsz);
            res = big.as<int64_t>();
          }
          for (uint64_t i = 0; i < rsz; i++) {
            if (i < asz) worse(check_product(variant == 1 ? "svp+idft(in place)" : (variant == 2 ? "svp+idft_tmp_a" : "svp+idft"), n, res + i * n, a, limbs[i]));
            else
              for (uint64_t j = 0; j < n; j++)
                if (res[i * n + j] != 0) { worse("FAIL C01 svp: output row beyond the input size is not exactly zero"); break; }
          }
          out.count(variant == 1 ? "idft_inplace" : (variant == 2 ? "idft_tmp_a" : "idft_separate"));
        }
        nop_lines(out, "md_prod n=%lu mask=%d class=%d abits=%d bbits=%d seedword=%lu", (unsigned long)n, mask, cls, abits, bbits, (unsigned long)(rng.s & 0xffffff));
        out.endcase(verdict);
        out.count("products");
        out.count(std::string("mask_") + std::to_string(mask));
      }
}

// ------------------------------------------------------------------------------------------------------
// C02: vmp for all shapes, small-integer operands (results exact)
static void vmp_case(Out& out, Rng& rng, uint64_t n, int mask, uint64_t nrows, uint64_t ncols, uint64_t a_size, uint64_t res_size, int large = 0) {
  MODULE* mod = get_module(n, 0, mask);
  std::string verdict = "ok";
  auto worse = [&](const std::string& v) {
    if (v == "ok") return;
    if (verdict == "ok") { verdict = v; return; }
    if (verdict.find(v.substr(0, 8)) == std::string::npos) verdict += " ;; " + v;
  };
  uint64_t a_sl = n + rng.below(3);
  std::vector<int64_t> mat(nrows * ncols * n), av((a_size ? a_size : 1) * a_sl, 77);
  for (auto& x : mat) x = rng.sbits(8);
  std::vector<std::vector<int64_t>> arows(a_size, std::vector<int64_t>(n));
  for (uint64_t i = 0; i < a_size; i++)
    for (uint64_t j = 0; j < n; j++) av[i * a_sl + j] = arows[i][j] = rng.sbits(8);
  if (large == 1) {
    // large results inside the budget: monomials of about 2^25 in every row of a and every matrix entry, aligned so that
    // column j collects min(nrows, a_size) * 2^50 (>= 2^51 for two rows or more, < 2^52 for at most three) in one coefficient
    for (auto& x : mat) x = 0;
    for (uint64_t i = 0; i < a_size; i++) {
      uint64_t p = rng.below(n);
      for (uint64_t j = 0; j < n; j++) av[i * a_sl + j] = arows[i][j] = 0;
      av[i * a_sl + p] = arows[i][p] = (((int64_t)1 << 25) - 1 - (int64_t)rng.below(100)) * ((rng.next() & 1) ? 1 : -1);
      if (i < nrows)
        for (uint64_t c = 0; c < ncols; c++) {
          uint64_t t = (7 * c + 3) % n, q = (t + n - p) % n;
          int64_t sgn = (arows[i][p] < 0 ? -1 : 1) * (p + q >= n ? -1 : 1);
          mat[(i * ncols + c) * n + q] = sgn * (((int64_t)1 << 25) - 1 - (int64_t)rng.below(100));
        }
    }
  }
  if (large == 2) {
    // input limbs whose coefficients are all multiples of 2^32 (low words zero), still far inside the budget
    for (uint64_t i = 0; i < a_size; i++)
      for (uint64_t j = 0; j < n; j++) av[i * a_sl + j] = arows[i][j] = (int64_t)((uint64_t)rng.sbits(5) << 32);
    for (auto& x : mat) x = rng.sbits(4);
    if (a_size) av[0] = arows[0][0] = (int64_t)1 << 32;
  }
  Buf bmat(mat.size() * 8, 8 * rng.below(4), rng, 2), ba(a_size * a_sl * 8, 8 * rng.below(4), rng, 2);
  memcpy(bmat.p, mat.data(), mat.size() * 8);
  memcpy(ba.p, av.data(), a_size * a_sl * 8);
  Buf pmat(bytes_of_vmp_pmat(mod, nrows, ncols), 8 * rng.below(4), rng, 2);
  Buf ptmp(vmp_prepare_contiguous_tmp_bytes(mod, nrows, ncols), 8 * rng.below(4), rng, 2);
  ModSnap msnap(mod);
  vmp_prepare_contiguous(mod, (VMP_PMAT*)pmat.p, bmat.as<int64_t>(), nrows, ncols, ptmp.p);
  if (memcmp(bmat.p, mat.data(), mat.size() * 8)) worse("FAIL C18 vmp_prepare_contiguous modified the integer matrix");
  if (!msnap.same(mod)) worse("FAIL C18 vmp_prepare_contiguous modified the module or one of its tables");
  uint64_t pmat_h = fnv(pmat.p, pmat.n);
  // path 1: integer entry point
  Buf r1(bytes_of_vec_znx_dft(mod, res_size), 8 * rng.below(4), rng, 2);
  Buf t1(vmp_apply_dft_tmp_bytes(mod, res_size, a_size, nrows, ncols), 8 * rng.below(4), rng, 1 + (int)rng.below(2));
  vmp_apply_dft(mod, (VEC_ZNX_DFT*)r1.p, res_size, ba.as<int64_t>(), a_size, a_sl, (VMP_PMAT*)pmat.p, nrows, ncols, t1.p);
  if (fnv(pmat.p, pmat.n) != pmat_h) worse("FAIL C18 vmp_apply_dft modified the prepared matrix");
  if (a_size && memcmp(ba.p, av.data(), a_size * a_sl * 8)) worse("FAIL C18 vmp_apply_dft modified its source vector");
  // path 2: dft then dft_to_dft
  Buf adft(bytes_of_vec_znx_dft(mod, a_size), 8 * rng.below(4), rng, 2);
  vec_znx_dft(mod, (VEC_ZNX_DFT*)adft.p, a_size, ba.as<int64_t>(), a_size, a_sl);
  uint64_t adft_h = fnv(adft.p, adft.n);
  Buf r2(bytes_of_vec_znx_dft(mod, res_size), 8 * rng.below(4), rng, 0);
  Buf t2(vmp_apply_dft_to_dft_tmp_bytes(mod, res_size, a_size, nrows, ncols), 8 * rng.below(4), rng, 0);
  vmp_apply_dft_to_dft(mod, (VEC_ZNX_DFT*)r2.p, res_size, (VEC_ZNX_DFT*)adft.p, a_size, (VMP_PMAT*)pmat.p, nrows, ncols, t2.p);
  if (fnv(adft.p, adft.n) != adft_h) worse("FAIL C18 vmp_apply_dft_to_dft modified its DFT source");
  if (fnv(pmat.p, pmat.n) != pmat_h) worse("FAIL C18 vmp_apply_dft_to_dft modified the prepared matrix");
  if (r1.n && memcmp(r1.p, r2.p, r1.n)) worse("FAIL C02 vmp_apply_dft and vmp_apply_dft_to_dft(vec_znx_dft) give different results");
  if (!msnap.same(mod)) worse("FAIL C18 vmp apply / vec_znx_dft modified the module or one of its tables");
  // (C15) history independence: the same call again through the SAME pointers after the input was overwritten in place
  // and the scratch refilled must give the result of the new input (= a fresh computation on other buffers)
  if (a_size && res_size && !large) {
    for (uint64_t i = 0; i < a_size; i++)
      for (uint64_t j = 0; j < n; j++) ((int64_t*)ba.p)[i * a_sl + j] = arows[i][j] = rng.sbits(8);
    for (size_t i = 0; i < t1.n; i++) t1.p[i] = (uint8_t)rng.next();
    vmp_apply_dft(mod, (VEC_ZNX_DFT*)r1.p, res_size, ba.as<int64_t>(), a_size, a_sl, (VMP_PMAT*)pmat.p, nrows, ncols, t1.p);
    Buf ba2(a_size * a_sl * 8, 8 * rng.below(4), rng, 2), r3(r1.n, 8 * rng.below(4), rng, 2), t3(t1.n, 8 * rng.below(4), rng, 0);
    memcpy(ba2.p, ba.p, ba.n);
    vmp_apply_dft(mod, (VEC_ZNX_DFT*)r3.p, res_size, ba2.as<int64_t>(), a_size, a_sl, (VMP_PMAT*)pmat.p, nrows, ncols, t3.p);
    if (memcmp(r1.p, r3.p, r1.n)) worse("FAIL C15 vmp_apply_dft: repeating the call through the same pointers after the input changed differs from a fresh call");
  }
  // inverse DFT and comparison with the integer matrix-vector product
  Buf big(bytes_of_vec_znx_big(mod, res_size), 0, rng, 2);
  vec_znx_idft_tmp_a(mod, (VEC_ZNX_BIG*)big.p, res_size, (VEC_ZNX_DFT*)r1.p, res_size);
  const int64_t* res = big.as<int64_t>();
  uint64_t rows = nrows < a_size ? nrows : a_size;
  std::vector<i128> acc(n), t;
  for (uint64_t j = 0; j < res_size; j++) {
    std::fill(acc.begin(), acc.end(), 0);
    if (j < ncols)
      for (uint64_t i = 0; i < rows; i++) {
        negacyclic(t, arows[i].data(), &mat[(i * ncols + j) * n], n);
        for (uint64_t k = 0; k < n; k++) acc[k] += t[k];
      }
    // summed C01 budget of the rows (0 for the small-operand cases, where the result must be exact)
    long double tol = 0;
    if (large == 1 && j < ncols)
      for (uint64_t i = 0; i < rows; i++) {
        std::vector<int64_t> mij(&mat[(i * ncols + j) * n], &mat[(i * ncols + j) * n] + n);
        tol += 8.0L * log2l((long double)n) * ldexpl(1.0L, -53) * (norm1(arows[i]) * norm2(mij) + norm2(arows[i]) * norm1(mij));
      }
    if (large == 1) tol += 0.5L;
    for (uint64_t k = 0; k < n; k++)
      if (fabsl((long double)((i128)res[j * n + k] - acc[k])) > tol) {
        char buf[240];
        snprintf(buf, sizeof buf, "FAIL C02 vmp n=%" PRIu64 " nrows=%" PRIu64 " ncols=%" PRIu64 " a_size=%" PRIu64 " res_size=%" PRIu64 " mask=%d column %" PRIu64 " coeff %" PRIu64 " got %" PRId64,
                 n, nrows, ncols, a_size, res_size, mask, j, k, res[j * n + k]);
        worse(buf);
        j = res_size;
        break;
      }
  }
  nop_lines(out, "md_vmp n=%lu mask=%d nrows=%lu ncols=%lu a_size=%lu res_size=%lu a_sl=%lu", (unsigned long)n, mask, (unsigned long)nrows, (unsigned long)ncols, (unsigned long)a_size, (unsigned long)res_size, (unsigned long)a_sl);
  out.endcase(verdict);
  out.count("vmp_cases");
  if (!a_size || !res_size) out.count("vmp_zero_size");
  if (n < 8) out.count("vmp_small_layout");
}

STREAM(md_vmp) {
  std::vector<uint64_t> dims = thorough ? std::vector<uint64_t>{2, 4, 8, 16, 64} : std::vector<uint64_t>{2, 4, 8, 16};
  uint64_t top = thorough ? 5 : 3;
  for (uint64_t n : dims)
    for (uint64_t nrows = 1; nrows <= top; nrows++)
      for (uint64_t ncols = 1; ncols <= top; ncols++)
        for (uint64_t a_size = 0; a_size <= top + 1; a_size++)
          for (uint64_t res_size = 0; res_size <= top + 1; res_size++) {
            if (!thorough && ((nrows + ncols + a_size + res_size + n / 2) % 2)) continue;  // half of the box per run
            vmp_case(out, rng, n, (int)rng.below(2), nrows, ncols, a_size, res_size);
          }
  for (uint64_t n : (thorough ? std::vector<uint64_t>{256, 1024, 4096} : std::vector<uint64_t>{256}))
    for (int t = 0; t < 4; t++) vmp_case(out, rng, n, t & 1, 1 + rng.below(6), 1 + rng.below(6), rng.below(7), rng.below(7));
  // many rows (every unroll factor of the row loops of the extraction and product kernels), both masks
  for (int mask = 0; mask < 2; mask++)
    for (uint64_t rows : {(uint64_t)7, (uint64_t)8, (uint64_t)9, (uint64_t)12, (uint64_t)13, (uint64_t)16, (uint64_t)17})
      vmp_case(out, rng, 16, mask, rows + rng.below(2), 1 + rng.below(3), rows + rng.below(3), 1 + rng.below(4));
  // input limbs that are multiples of 2^32
  for (uint64_t n : {(uint64_t)4, (uint64_t)16})
    for (int mask = 0; mask < 2; mask++) vmp_case(out, rng, n, mask, 2 + rng.below(2), 1 + rng.below(3), 2 + rng.below(2), 1 + rng.below(4), 2);
  // results of magnitude 2^51..2^52 (top binade of the budget)
  for (uint64_t n : {(uint64_t)4, (uint64_t)16, (uint64_t)64})
    for (int mask = 0; mask < 2; mask++)
      for (uint64_t rows = 2; rows <= 3; rows++) vmp_case(out, rng, n, mask, rows + rng.below(2), 1 + rng.below(3), rows, 1 + rng.below(4), 1);
}

// ------------------------------------------------------------------------------------------------------
// C03 at module level: NTT120 vec_znx_dft -> vec_znx_idft is the identity on int64 (zero-extend / truncate)
STREAM(md_ntt) {
  std::vector<uint64_t> dims = thorough ? std::vector<uint64_t>{1, 2, 4, 8, 16, 64, 256, 1024, 4096, 65536} : std::vector<uint64_t>{1, 2, 4, 8, 64, 1024, 4096};
  for (uint64_t n : dims)
    for (int cls = 0; cls < 4; cls++)
      for (int variant = 0; variant < 3; variant++) {
        MODULE* mod = get_module(n, 1, 0);
        uint64_t a_size = rng.below(4), dsz = rng.below(4), rsz = rng.below(5), a_sl = n + rng.below(3);
        std::vector<int64_t> av((a_size ? a_size : 1) * a_sl);
        for (auto& x : av) x = cls == 0 ? (int64_t)rng.next() : (cls == 1 ? ((rng.next() & 1) ? INT64_MAX : INT64_MIN) : (cls == 2 ? rng.sbits(62) : rng.range(-1, 1)));
        Buf ba(a_size * a_sl * 8, 8 * rng.below(4), rng, 2);
        memcpy(ba.p, av.data(), a_size * a_sl * 8);
        Buf dft(n * 4 * 8 * dsz, 8 * rng.below(4), rng, 2);
        ModSnap nsnap(mod);
        vec_znx_dft(mod, (VEC_ZNX_DFT*)dft.p, dsz, ba.as<int64_t>(), a_size, a_sl);
        std::string verdict = "ok";
        if (a_size && memcmp(ba.p, av.data(), a_size * a_sl * 8)) verdict = "FAIL C18 ntt120 vec_znx_dft modified its source";
        uint64_t dh = fnv(dft.p, dft.n);
        Buf big(n * 16 * rsz, 8 * rng.below(2) * 2, rng, 2);
        Buf tmp(vec_znx_idft_tmp_bytes(mod), 8 * rng.below(4), rng, 2);
        if (variant == 0) {
          vec_znx_idft(mod, (VEC_ZNX_BIG*)big.p, rsz, (VEC_ZNX_DFT*)dft.p, dsz, tmp.p);
          if (fnv(dft.p, dft.n) != dh && verdict == "ok") verdict = "FAIL C18 ntt120 vec_znx_idft modified its DFT source";
        } else if (variant == 1) {
          vec_znx_idft_tmp_a(mod, (VEC_ZNX_BIG*)big.p, rsz, (VEC_ZNX_DFT*)dft.p, dsz);
        } else {
          // in place (res == a_dft): limb i of the result (16n bytes) lands on DFT limbs that were consumed before
          size_t need = std::max((size_t)(n * 32 * dsz), (size_t)(n * 16 * rsz));
          Buf io(need, 0, rng, 2);
          memcpy(io.p, dft.p, dft.n);
          vec_znx_idft(mod, (VEC_ZNX_BIG*)io.p, rsz, (VEC_ZNX_DFT*)io.p, dsz, tmp.p);
          memcpy(big.p, io.p, big.n);
        }
        if (!nsnap.same(mod) && verdict == "ok") verdict = "FAIL C18 an NTT120 transform modified the module or one of its tables (tables must be immutable after creation)";
        const __int128* r = big.as<__int128>();
        for (uint64_t i = 0; i < rsz && verdict == "ok"; i++)
          for (uint64_t j = 0; j < n; j++) {
            __int128 e = (i < dsz && i < a_size) ? (__int128)av[i * a_sl + j] : 0;
            __int128 g;
            memcpy(&g, (const uint8_t*)r + (i * n + j) * 16, 16);
            if (g != e) {
              char buf[200];
              snprintf(buf, sizeof buf, "FAIL %s ntt120 dft->idft n=%" PRIu64 " limb %" PRIu64 " coeff %" PRIu64 " expected %" PRId64 " (variant %d%s)", variant == 2 ? "C13" : "C03", n, i, j, (int64_t)e, variant, variant == 2 ? ": in place, res == a_dft" : "");
              verdict = buf;
              break;
            }
          }
        nop_lines(out, "md_ntt n=%lu class=%d variant=%d a_size=%lu dft_size=%lu res_size=%lu a_sl=%lu", (unsigned long)n, cls, variant, (unsigned long)a_size, (unsigned long)dsz, (unsigned long)rsz, (unsigned long)a_sl);
        out.endcase(verdict);
        out.count("ntt_roundtrips");
      }
}

// ------------------------------------------------------------------------------------------------------
// md_model: the same pipelines with full op lines for the Lean module-level model (bit-exact correspondence:
// prepared objects, DFT-space bit patterns and final integers), plus the integer oracles.
extern "C" {
#include "spqlios/reim/reim_fft_internal.h"
#include "spqlios/reim/reim_fft_private.h"
}
static int ilog2u(size_t m) { int k = 0; while (((size_t)1 << k) < m) k++; return k; }
static size_t r_bfs_len(size_t m) {
  size_t n = 0, mm = m;
  if (ilog2u(m) & 1) { n += 2; mm /= 2; }
  while (mm > 16) { n += (m / mm) * 4; mm /= 4; }
  return n + m;
}
static size_t r_rec_len(size_t m) { return m <= 2048 ? r_bfs_len(m) : 2 + 2 * r_rec_len(m / 2); }
static size_t r_table_len(size_t m) { return m == 1 ? 0 : m <= 16 ? m : r_rec_len(m); }

extern "C" {
void reim_from_znx64_bnd50_fma(const REIM_FROM_ZNX64_PRECOMP* precomp, void* r, const int64_t* x);
void reim_to_znx64_avx2_bnd63_fma(const REIM_TO_ZNX64_PRECOMP* precomp, int64_t* r, const void* x);
void reim_to_znx64_avx2_bnd50_fma(const REIM_TO_ZNX64_PRECOMP* precomp, int64_t* r, const void* x);
}

static void put_cfg(Out& out, const char* op, MODULE* mod, const char* shape) {
  const uint64_t m = mod->m;
  auto* pf = mod->mod.fft64.p_fft;
  auto* pi = mod->mod.fft64.p_ifft;
  int fftFma = (void*)pf->function == (void*)reim_fft_avx2_fma;
  int ifftFma = (void*)pi->function == (void*)reim_ifft_avx2_fma;
  int fromB = (void*)mod->mod.fft64.p_conv->function == (void*)reim_from_znx64_bnd50_fma;
  void* tf = (void*)mod->mod.fft64.p_reim_to_znx->function;
  int toV = tf == (void*)reim_to_znx64_avx2_bnd63_fma ? 2 : (tf == (void*)reim_to_znx64_avx2_bnd50_fma ? 1 : 0);
  int mulFma = (void*)mod->mod.fft64.mul_fft->function == (void*)reim_fftvec_mul_fma;
  int addmulFma = (void*)mod->mod.fft64.p_addmul->function == (void*)reim_fftvec_addmul_fma;
  int vmpAvx = (void*)mod->func.vmp_apply_dft_to_dft == (void*)fft64_vmp_apply_dft_to_dft_avx;
  fprintf(out.ops, "md %s %" PRIu64 " %d %d %d %d %d %d %d %s | ", op, mod->nn, fftFma, ifftFma, fromB, toV, mulFma, addmulFma, vmpAvx, shape);
  put_f64bits(out.ops, pf->powomegas, r_table_len(m));
  fprintf(out.ops, " | ");
  put_f64bits(out.ops, pi->powomegas, r_table_len(m));
}

STREAM(md_model) {
  std::vector<uint64_t> dims = thorough ? std::vector<uint64_t>{2, 4, 8, 16, 32, 64, 128, 256, 1024, 4096, 8192} : std::vector<uint64_t>{2, 4, 8, 16, 32, 64, 256};
  for (uint64_t n : dims)
    for (int mask = 0; mask < 2; mask++) {
      MODULE* mod = get_module(n, 0, mask);
      int lg = ilog2u(n);
      for (int cls = 0; cls < (n <= 64 ? 6 : 2); cls++) {
        // small single product
        int abits = 1 + (int)rng.below(16), bbits = 50 - abits - lg - 1;
        if (bbits > 34) bbits = 34;
        if (bbits < 1) bbits = 1;
        std::vector<int64_t> a, b, r(n);
        gen_pair(rng, cls, n, a, b, abits, bbits);
        std::vector<uint8_t> tmp(znx_small_single_product_tmp_bytes(mod) + 8, 0xA5);
        znx_small_single_product(mod, r.data(), a.data(), b.data(), tmp.data());
        put_cfg(out, "small", mod, "");
        fprintf(out.ops, " | "); put_i64s(out.ops, a.data(), n);
        fprintf(out.ops, " | "); put_i64s(out.ops, b.data(), n);
        put_i64s(out.real, r.data(), n);
        out.endcase(check_product("znx_small_single_product", n, r.data(), a, b));
        out.count("small");
        // svp + idft
        uint64_t asz = rng.below(4), rsz = rng.below(4), asl = n + rng.below(3);
        std::vector<int64_t> vin((asz ? asz : 1) * asl, 0);
        for (uint64_t i = 0; i < asz; i++) for (uint64_t j = 0; j < n; j++) vin[i * asl + j] = rng.sbits(bbits);
        std::vector<double> ppol(n), dft(rsz * n + 1);
        svp_prepare(mod, (SVP_PPOL*)ppol.data(), a.data());
        svp_apply_dft(mod, (VEC_ZNX_DFT*)dft.data(), rsz, (SVP_PPOL*)ppol.data(), vin.data(), asz, asl);
        std::vector<int64_t> big(rsz * n + 1);
        std::vector<double> dcopy(dft);
        vec_znx_idft_tmp_a(mod, (VEC_ZNX_BIG*)big.data(), rsz, (VEC_ZNX_DFT*)dcopy.data(), rsz);
        char shape[100];
        snprintf(shape, sizeof shape, "%" PRIu64 " %" PRIu64 " %" PRIu64, rsz, asz, asl);
        put_cfg(out, "svp", mod, shape);
        fprintf(out.ops, " | "); put_i64s(out.ops, a.data(), n);
        fprintf(out.ops, " | "); put_i64s(out.ops, vin.data(), asz * asl);
        put_f64bits(out.real, dft.data(), rsz * n);
        fprintf(out.real, " | ");
        put_i64s(out.real, big.data(), rsz * n);
        out.endcase("ok");
        out.count("svp");
      }
      // vmp: a few shapes per dimension (small integers)
      for (int t = 0; t < (n <= 64 ? 6 : 2); t++) {
        uint64_t nrows = 1 + rng.below(3), ncols = 1 + rng.below(4), asz = rng.below(4), rsz = rng.below(5), asl = n + rng.below(2);
        std::vector<int64_t> mat(nrows * ncols * n), av((asz ? asz : 1) * asl, 0);
        for (auto& x : mat) x = rng.sbits(8);
        for (uint64_t i = 0; i < asz; i++) for (uint64_t j = 0; j < n; j++) av[i * asl + j] = rng.sbits(8);
        std::vector<double> pmat(nrows * ncols * n), res(rsz * n + 1);
        std::vector<uint8_t> t1(vmp_prepare_contiguous_tmp_bytes(mod, nrows, ncols) + 8, 0x5A), t2(vmp_apply_dft_tmp_bytes(mod, rsz, asz, nrows, ncols) + 8, 0x5A);
        vmp_prepare_contiguous(mod, (VMP_PMAT*)pmat.data(), mat.data(), nrows, ncols, t1.data());
        vmp_apply_dft(mod, (VEC_ZNX_DFT*)res.data(), rsz, av.data(), asz, asl, (VMP_PMAT*)pmat.data(), nrows, ncols, t2.data());
        std::vector<double> rcopy(res);
        std::vector<int64_t> big(rsz * n + 1);
        vec_znx_idft_tmp_a(mod, (VEC_ZNX_BIG*)big.data(), rsz, (VEC_ZNX_DFT*)rcopy.data(), rsz);
        char shape[160];
        snprintf(shape, sizeof shape, "%" PRIu64 " %" PRIu64 " %" PRIu64 " %" PRIu64 " %" PRIu64, nrows, ncols, asz, asl, rsz);
        put_cfg(out, "vmp", mod, shape);
        fprintf(out.ops, " | "); put_i64s(out.ops, mat.data(), mat.size());
        fprintf(out.ops, " | "); put_i64s(out.ops, av.data(), asz * asl);
        put_f64bits(out.real, pmat.data(), pmat.size());
        fprintf(out.real, " | ");
        put_f64bits(out.real, res.data(), rsz * n);
        fprintf(out.real, " | ");
        put_i64s(out.real, big.data(), rsz * n);
        out.endcase("ok");
        out.count("vmp");
      }
    }
}
