// Streams over the q120 NTT / iNTT (q120_ntt_bb_avx2, q120_intt_bb_avx2) and their precomputed tables.
//
//   qn_ntt    : n = 2^0..2^16, forward and inverse, extremal lane patterns; op line carries the per-level
//               metadata of the REAL precomp object + the input lanes; real line = raw output lanes.
//   qn_tables : the used prefix of the real powomega table (4 lanes interleaved) vs the model's table.
//
// Oracles (unsigned __int128 arithmetic, no code shared with the Lean model):
//   * n <= 256: every output lane is congruent mod q_k to the direct evaluation
//        forward:  out[j] = sum_i a_i * w^(i*(2*brev(j)+1))          (w = OMEGA_k^(2^16/n), a primitive 2n-th root;
//                                                                     the output is in BIT-REVERSED order: no permutation pass)
//        inverse:  out[i] = n^-1 * sum_j y_j * w^(-i*(2*brev(j)+1))  (takes bit-reversed input, includes the 1/n)
//   * every n: the opposite real transform applied to the real output gives back the input mod q_k.
//   * tables: every word is (t*2^half_bs mod q)<<32 | t with t the expected power of w (or w^-1, times n^-1
//     in the last inverse slice), recomputed with an independent modular exponentiation.
#include "hcommon.h"

extern "C" {
#include "spqlios/q120/q120_common.h"
#include "spqlios/q120/q120_ntt.h"
#include "spqlios/q120/q120_ntt_private.h"
}

typedef unsigned __int128 u128;
static const uint64_t QS[4] = {Q1, Q2, Q3, Q4};
static const uint64_t WS[4] = {OMEGA1, OMEGA2, OMEGA3, OMEGA4};

static uint64_t mulm(uint64_t a, uint64_t b, uint64_t q) { return (uint64_t)(((u128)a * b) % q); }
static uint64_t powm(uint64_t b, uint64_t e, uint64_t q) {
  uint64_t r = 1 % q;
  b %= q;
  while (e) {
    if (e & 1) r = mulm(r, b, q);
    b = mulm(b, b, q);
    e >>= 1;
  }
  return r;
}
static uint64_t invm(uint64_t a, uint64_t q) { return powm(a, q - 2, q); }  // q prime
static uint64_t brev(uint64_t j, int k) {
  uint64_t r = 0;
  for (int b = 0; b < k; b++)
    if (j >> b & 1) r |= 1ull << (k - 1 - b);
  return r;
}

struct Pre {
  q120_ntt_precomp* f;
  q120_ntt_precomp* i;
};
static Pre get_pre(int k) {
  static Pre cache[17];
  if (!cache[k].f) {
    cache[k].f = q120_new_ntt_bb_precomp(1ull << k);
    cache[k].i = q120_new_intt_bb_precomp(1ull << k);
  }
  return cache[k];
}

// head of an op line: k dir q0..3 w0..3 h mask c0..3 nl {bs half mask reduce q2bs0..3}*nl
static void put_head(FILE* f, const char* op, int k, int dir, const q120_ntt_precomp* p) {
  fprintf(f, "qn %s %d %d", op, k, dir);
  for (int j = 0; j < 4; j++) fprintf(f, " %" PRIu64, QS[j]);
  for (int j = 0; j < 4; j++) fprintf(f, " %" PRIu64, WS[j]);
  if (k == 0) {  // nothing is initialised for n = 1 (and nothing is read by the drivers)
    fprintf(f, " 0 0 0 0 0 0 0");
    return;
  }
  const q120_ntt_reduc_step_precomp* r = &p->reduc_metadata;
  fprintf(f, " %" PRIu64 " %" PRIu64, r->h, r->mask);
  for (int j = 0; j < 4; j++) fprintf(f, " %" PRIu64, r->modulo_red_cst[j]);
  fprintf(f, " %d", k + 1);
  for (int l = 0; l <= k; l++) {
    const q120_ntt_step_precomp* s = p->level_metadata + l;
    int uninit = (dir == 0 && l == 0);  // forward first level: reduce/q2bs never written, never read
    fprintf(f, " %" PRIu64 " %" PRIu64 " %" PRIu64 " %d", s->bs, s->half_bs, s->mask, uninit ? 0 : (int)(s->reduce != 0));
    for (int j = 0; j < 4; j++) fprintf(f, " %" PRIu64, uninit ? (uint64_t)0 : s->q2bs[j]);
  }
}

enum { PAT_ONES, PAT_ALT, PAT_KQ, PAT_RANDOM, PAT_B63, PAT_IMPULSE, PAT_MIX, PAT_ALTLANE, NPAT };
static const char* PATN[] = {"ones", "alt", "kq-1", "random", "below2^63", "impulse", "mix", "altlane"};

static uint64_t cell(Rng& rng, int pat, uint64_t i, int lane, uint64_t n, uint64_t imp) {
  const uint64_t q = QS[lane];
  switch (pat) {
    case PAT_ONES: return ~0ull;
    case PAT_ALT: return (i & 1) ? ~0ull : 0;
    case PAT_ALTLANE: return (((i >> (lane + 0)) ^ (uint64_t)lane) & 1) ? ~0ull : 0;
    case PAT_KQ: {
      uint64_t kmax = ~0ull / q;
      uint64_t kk = (rng.next() & 3) ? kmax - rng.below(4) : 1 + rng.below(kmax);
      return kk * q - 1;
    }
    case PAT_RANDOM: return rng.next();
    case PAT_B63: return (1ull << 63) - 1 - rng.below(3);
    case PAT_IMPULSE: return i == imp ? ~0ull : 0;
    default: {
      int c = (int)rng.below(6);
      return cell(rng, c == PAT_IMPULSE ? PAT_RANDOM : c, i, lane, n, imp);
    }
  }
}

// direct evaluation oracle (n <= 256)
static std::string direct_oracle(int k, int dir, const std::vector<uint64_t>& in, const std::vector<uint64_t>& out) {
  const uint64_t n = 1ull << k;
  for (int lane = 0; lane < 4; lane++) {
    const uint64_t q = QS[lane];
    const uint64_t w = powm(WS[lane], (1ull << 16) / n, q);
    const uint64_t winv = invm(w, q), ninv = invm(n % q, q);
    if (powm(w, n, q) != q - 1) return "FAIL oracle: w^n != -1";
    for (uint64_t o = 0; o < n; o++) {
      uint64_t acc = 0;
      for (uint64_t s = 0; s < n; s++) {
        uint64_t e;
        uint64_t base;
        if (dir == 0) {  // out[o] = sum_s in[s] w^(s(2 brev(o)+1))
          e = (s * (2 * brev(o, k) + 1)) % (2 * n);
          base = w;
        } else {  // out[o] = 1/n sum_s in[s] w^-(o(2 brev(s)+1))
          e = (o * (2 * brev(s, k) + 1)) % (2 * n);
          base = winv;
        }
        acc = (acc + mulm(in[4 * s + lane] % q, powm(base, e, q), q)) % q;
      }
      if (dir == 1) acc = mulm(acc, ninv, q);
      if (out[4 * o + lane] % q != acc) {
        char buf[200];
        snprintf(buf, sizeof buf, "FAIL direct-eval n=%" PRIu64 " dir=%d lane=%d pos=%" PRIu64 " got=%" PRIu64 " (mod q %" PRIu64 ") want=%" PRIu64,
                 n, dir, lane, o, out[4 * o + lane], out[4 * o + lane] % q, acc);
        return buf;
      }
    }
  }
  return "ok";
}

static void run_real(int k, int dir, std::vector<uint64_t>& v) {
  Pre p = get_pre(k);
  if (dir == 0)
    q120_ntt_bb_avx2(p.f, (q120b*)v.data());
  else
    q120_intt_bb_avx2(p.i, (q120b*)v.data());
}

static void ntt_case(Out& out, Rng& rng, int k, int dir, int pat) {
  const uint64_t n = 1ull << k;
  Pre p = get_pre(k);
  std::vector<uint64_t> in(4 * n);
  uint64_t imp = rng.below(n);
  for (uint64_t i = 0; i < n; i++)
    for (int lane = 0; lane < 4; lane++) in[4 * i + lane] = cell(rng, pat, i, lane, n, imp);
  put_head(out.ops, "ntt", k, dir, dir ? p.i : p.f);
  fprintf(out.ops, " | ");
  put_u64s(out.ops, in.data(), in.size());
  std::vector<uint64_t> res = in;
  run_real(k, dir, res);
  put_u64s(out.real, res.data(), res.size());
  // oracles
  std::string verdict = "ok";
  if (k <= 8) verdict = direct_oracle(k, dir, in, res);
  if (verdict == "ok") {
    std::vector<uint64_t> back = res;
    run_real(k, 1 - dir, back);
    for (uint64_t i = 0; i < 4 * n && verdict == "ok"; i++) {
      uint64_t q = QS[i & 3];
      if (back[i] % q != in[i] % q) {
        char buf[200];
        snprintf(buf, sizeof buf, "FAIL roundtrip n=%" PRIu64 " dir=%d lane=%d pos=%" PRIu64 " in=%" PRIu64 " back=%" PRIu64, n, dir,
                 (int)(i & 3), i / 4, in[i], back[i]);
        verdict = buf;
      }
    }
  }
  out.count(std::string("k=") + std::to_string(k));
  out.count(std::string("dir=") + std::to_string(dir));
  out.count(std::string("pat=") + PATN[pat]);
  out.endcase(verdict);
}

STREAM(qn_ntt) {
  const int kmax_all = thorough ? 16 : 12;
  for (int k = 0; k <= kmax_all; k++)
    for (int dir = 0; dir < 2; dir++)
      for (int pat = 0; pat < NPAT; pat++) {
        int reps = (k <= 6) ? (thorough ? 6 : 2) : 1;
        if (pat == PAT_ONES || pat == PAT_ALT || pat == PAT_ALTLANE) reps = 1;
        for (int r = 0; r < reps; r++) ntt_case(out, rng, k, dir, pat);
      }
  if (!thorough) {
    ntt_case(out, rng, 16, 0, PAT_MIX);
    ntt_case(out, rng, 16, 1, PAT_MIX);
  }
}

// ------------------------------------------------------------------------------------------------------------------
static std::string table_oracle(int k, int dir, const q120_ntt_precomp* p) {
  const uint64_t n = 1ull << k;
  char buf[200];
  for (int lane = 0; lane < 4; lane++) {
    const uint64_t q = QS[lane];
    const uint64_t w0 = powm(WS[lane], (1ull << 16) / n, q);
    const uint64_t w = dir ? invm(w0, q) : w0;
    const uint64_t ninv = invm(n % q, q);
    uint64_t idx = 0;  // index in the lane
    auto chk = [&](uint64_t word, uint64_t t, uint64_t h) -> bool {
      uint64_t t1 = mulm(t, powm(2, h, q), q);
      return word == ((t1 << 32) | t);
    };
    auto fail = [&](const char* what, uint64_t i) {
      snprintf(buf, sizeof buf, "FAIL table n=%" PRIu64 " dir=%d lane=%d %s i=%" PRIu64, n, dir, lane, what, i);
      return std::string(buf);
    };
    if (dir == 0) {
      uint64_t h = p->level_metadata[0].half_bs;
      for (uint64_t i = 0; i < n; i++, idx++)
        if (!chk(p->powomega[4 * idx + lane], powm(w, i, q), h)) return fail("twist", i);
      int l = 1;
      for (uint64_t nn = n; nn >= 4; nn /= 2, l++) {
        uint64_t m = n / (nn / 2);
        h = p->level_metadata[l].half_bs;
        for (uint64_t i = 1; i < nn / 2; i++, idx++)
          if (!chk(p->powomega[4 * idx + lane], powm(w, i * m, q), h)) return fail("level", nn);
      }
    } else {
      int l = 1;
      for (uint64_t nn = 4; nn <= n; nn *= 2, l++) {
        uint64_t m = n / (nn / 2);
        uint64_t h = p->level_metadata[l].half_bs;
        for (uint64_t i = 1; i < nn / 2; i++, idx++)
          if (!chk(p->powomega[4 * idx + lane], powm(w, i * m, q), h)) return fail("level", nn);
      }
      uint64_t h = p->level_metadata[k].half_bs;
      for (uint64_t i = 0; i < n; i++, idx++)
        if (!chk(p->powomega[4 * idx + lane], mulm(powm(w, i, q), ninv, q), h)) return fail("untwist", i);
    }
    if (idx != 2 * n - 1 - (uint64_t)k) return fail("count", idx);
  }
  return "ok";
}

STREAM(qn_tables) {
  const int kmax = thorough ? 16 : 12;
  for (int k = 0; k <= kmax; k++)
    for (int dir = 0; dir < 2; dir++) {
      Pre pp = get_pre(k);
      const q120_ntt_precomp* p = dir ? pp.i : pp.f;
      put_head(out.ops, "tables", k, dir, p);
      std::string verdict = "ok";
      if (k > 0) {
        const uint64_t n = 1ull << k;
        put_u64s(out.real, p->powomega, 4 * (2 * n - 1 - (uint64_t)k));
        verdict = table_oracle(k, dir, p);
      }
      out.count(std::string("k=") + std::to_string(k));
      out.count(std::string("dir=") + std::to_string(dir));
      out.endcase(verdict);
    }
}

// ------------------------------------------------------------------------------------------------------------------
// qn_stages: the level kernels of q120_ntt_avx2.c (external symbols of the library) are driven stage by stage in
// the plain level-by-level schedule; real line = per stage, the maximum of each lane (exact tie of every
// intermediate stage with the model).  Oracle (independent of the Lean model):
//   (a) the stage-by-stage result equals what q120_(i)ntt_bb_avx2 returns on the same input (so the harness's
//       own driving of the kernels is the driver's schedule up to the block/level reordering);
//   (b) every stage maximum is below 2^bs of that level -- the CHECK_BOUNDS assertion of the drivers, which is
//       compiled out in the NDEBUG build that is tested;
//   (c) every stage maximum is below the bound of an exact interval computation done here in unsigned __int128.
#include <immintrin.h>
extern "C" {
void ntt_iter_first(__m256i* const begin, const __m256i* const end, const q120_ntt_step_precomp* const itData, const __m256i* powomega);
void ntt_iter_first_red(__m256i* const begin, const __m256i* const end, const q120_ntt_step_precomp* const itData,
                        const __m256i* powomega, const q120_ntt_reduc_step_precomp* const reduc_precomp);
void ntt_iter(const uint64_t nn, __m256i* const begin, const __m256i* const end, const q120_ntt_step_precomp* const itData,
              const __m256i* const powomega);
void ntt_iter_red(const uint64_t nn, __m256i* const begin, const __m256i* const end, const q120_ntt_step_precomp* const itData,
                  const __m256i* const powomega, const q120_ntt_reduc_step_precomp* const reduc_precomp);
void intt_iter(const uint64_t nn, __m256i* const begin, const __m256i* const end, const q120_ntt_step_precomp* const itData,
               const __m256i* const powomega);
void intt_iter_red(const uint64_t nn, __m256i* const begin, const __m256i* const end, const q120_ntt_step_precomp* const itData,
                   const __m256i* const powomega, const q120_ntt_reduc_step_precomp* const reduc_precomp);
}

// exact interval arithmetic (exclusive bounds), 0 = rejected
static u128 iv_red(u128 B, const q120_ntt_reduc_step_precomp* r, int lane) {
  uint64_t h = r->h, c = r->modulo_red_cst[lane];
  if (r->mask + 1 != (1ull << h) || c >> 32 || ((B - 1) >> h) >> 32) return 0;
  u128 m = ((u128)1 << h) - 1 + ((B - 1) >> h) * c;
  if (m >> 64) return 0;
  return m + 1;
}
static u128 iv_mul(u128 B, const q120_ntt_step_precomp* s, uint64_t q) {
  uint64_t h = s->half_bs;
  if (h > 32 || s->mask + 1 != (1ull << h) || ((B - 1) >> h) >> 32) return 0;
  u128 m = (((u128)1 << h) - 1 + ((B - 1) >> h)) * (q - 1);
  if (m >> 64) return 0;
  return m + 1;
}
static u128 umax(u128 a, u128 b) { return a > b ? a : b; }
static const u128 W = (u128)1 << 64;
static u128 iv_fwd(u128 B, const q120_ntt_step_precomp* s, const q120_ntt_reduc_step_precomp* r, int lane, uint64_t nn) {
  uint64_t q = QS[lane], q2 = s->q2bs[lane];
  u128 B1 = s->reduce ? iv_red(B, r, lane) : B;
  if (!B1 || 2 * B1 - 1 > W || q2 % q || B1 - 1 + q2 >= W || B1 - 1 > q2) return 0;
  u128 out = umax(2 * B1 - 1, B1 + q2);
  if (nn > 2) {
    u128 Bm = iv_mul(B1 + q2, s, q);
    if (!Bm) return 0;
    out = umax(out, Bm);
  }
  return out;
}
static u128 iv_inv(u128 B, const q120_ntt_step_precomp* s, const q120_ntt_reduc_step_precomp* r, int lane, uint64_t nn) {
  uint64_t q = QS[lane], q2 = s->q2bs[lane];
  u128 B1 = s->reduce ? iv_red(B, r, lane) : B;
  if (!B1) return 0;
  u128 Bbo = B1;
  if (nn > 2) {
    u128 Bm = iv_mul(B1, s, q);
    if (!Bm) return 0;
    Bbo = umax(B1, Bm);
  }
  if (B1 + Bbo - 1 > W || q2 % q || B1 - 1 + q2 >= W || Bbo - 1 > q2) return 0;
  return umax(B1 + Bbo - 1, B1 + q2);
}

static void stage_case(Out& out, Rng& rng, int k, int dir, int pat) {
  const uint64_t n = 1ull << k;
  Pre pp = get_pre(k);
  const q120_ntt_precomp* p = dir ? pp.i : pp.f;
  std::vector<uint64_t> in(4 * n);
  uint64_t imp = rng.below(n);
  for (uint64_t i = 0; i < n; i++)
    for (int lane = 0; lane < 4; lane++) in[4 * i + lane] = cell(rng, pat, i, lane, n, imp);
  put_head(out.ops, "stages", k, dir, p);
  fprintf(out.ops, " | ");
  put_u64s(out.ops, in.data(), in.size());
  std::vector<uint64_t> v = in;
  __m256i* begin = (__m256i*)v.data();
  __m256i* end = begin + n;
  const q120_ntt_step_precomp* it = p->level_metadata;
  const __m256i* po = (const __m256i*)p->powomega;
  std::string verdict = "ok";
  u128 B[4] = {W, W, W, W};
  bool first = true;
  auto record = [&](const q120_ntt_step_precomp* s, int kind, uint64_t nn) {
    // kind 0: twist without reduction, 1: forward level, 2: inverse level, 3: twist with s->reduce
    uint64_t mx[4] = {0, 0, 0, 0};
    for (uint64_t i = 0; i < 4 * n; i++)
      if (v[i] > mx[i & 3]) mx[i & 3] = v[i];
    if (!first) fputc(' ', out.real);
    first = false;
    put_u64s(out.real, mx, 4);
    for (int lane = 0; lane < 4; lane++) {
      u128 nb = 0;
      if (B[lane]) {
        if (kind == 0) nb = iv_mul(B[lane], s, QS[lane]);
        if (kind == 3) { u128 b1 = s->reduce ? iv_red(B[lane], &p->reduc_metadata, lane) : B[lane]; nb = b1 ? iv_mul(b1, s, QS[lane]) : 0; }
        if (kind == 1) nb = iv_fwd(B[lane], s, &p->reduc_metadata, lane, nn);
        if (kind == 2) nb = iv_inv(B[lane], s, &p->reduc_metadata, lane, nn);
      }
      B[lane] = nb;
      char buf[200];
      if (!nb && verdict == "ok") {
        snprintf(buf, sizeof buf, "FAIL interval certificate rejects n=%" PRIu64 " dir=%d lane=%d level nn=%" PRIu64, n, dir, lane, nn);
        verdict = buf;
      }
      if (nb && (u128)mx[lane] >= nb && verdict == "ok") {
        snprintf(buf, sizeof buf, "FAIL stage max above interval bound n=%" PRIu64 " dir=%d lane=%d nn=%" PRIu64, n, dir, lane, nn);
        verdict = buf;
      }
      if (s->bs < 64 && (mx[lane] >> s->bs) && verdict == "ok") {
        snprintf(buf, sizeof buf, "FAIL CHECK_BOUNDS: stage max %" PRIu64 " >= 2^%" PRIu64 " n=%" PRIu64 " dir=%d lane=%d nn=%" PRIu64, mx[lane],
                 s->bs, n, dir, lane, nn);
        verdict = buf;
      }
    }
  };
  if (k > 0) {
    if (dir == 0) {
      ntt_iter_first(begin, end, it, po);
      record(it, 0, n);
      po += n;
      it++;
      for (uint64_t nn = n; nn >= 2; nn /= 2) {
        if (it->reduce) ntt_iter_red(nn, begin, end, it, po, &p->reduc_metadata); else ntt_iter(nn, begin, end, it, po);
        record(it, 1, nn);
        po += nn / 2 - 1;
        it++;
      }
    } else {
      for (uint64_t nn = 2; nn <= n; nn *= 2) {
        if (it->reduce) intt_iter_red(nn, begin, end, it, po, &p->reduc_metadata); else intt_iter(nn, begin, end, it, po);
        record(it, 2, nn);
        po += nn / 2 - 1;
        it++;
      }
      if (it->reduce) ntt_iter_first_red(begin, end, it, po, &p->reduc_metadata); else ntt_iter_first(begin, end, it, po);
      record(it, 3, n);
    }
  }
  std::vector<uint64_t> ref = in;
  run_real(k, dir, ref);
  if (ref != v && verdict == "ok") verdict = "FAIL stage-by-stage result differs from the driver's result";
  out.count(std::string("k=") + std::to_string(k));
  out.count(std::string("pat=") + PATN[pat]);
  out.endcase(verdict);
}

STREAM(qn_stages) {
  const int kmax = thorough ? 14 : 11;
  for (int k = 0; k <= kmax; k++)
    for (int dir = 0; dir < 2; dir++)
      for (int pat = 0; pat < NPAT; pat++) stage_case(out, rng, k, dir, pat);
}
