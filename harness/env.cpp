// Streams about the ENVIRONMENT of a call rather than its arguments (oracle only):
//   env_state  : floating-point exception flags raised at entry must not change any result (C15), and a call made under a
//                directed rounding mode must leave the rounding mode and MXCSR control bits as it found them (C15)
//   small_stack: module creation and the limb-vector / module entry points at the largest dimension on a thread with a
//                128 KiB stack (C11: no unbounded stack usage: alloca / VLA proportional to N or to the limb count)
//   huge_span  : limb offsets and pointer distances beyond 2^32 elements inside a sparse 40 GiB mapping (C08/C01/C11:
//                index arithmetic in 64 bits), results compared with the same call on small strides
#include <fenv.h>
#include <pthread.h>
#include <sys/mman.h>
#include <xmmintrin.h>

#include "hcommon.h"
extern "C" {
#include "spqlios/reim/reim_fft.h"
#include "spqlios/cplx/cplx_fft.h"
#include "spqlios/q120/q120_arithmetic.h"
}
#include <malloc.h>

MODULE* get_module(uint64_t nn, int type, int mask);  // vz.cpp

namespace {
uint64_t fnv1(uint64_t h, const void* p, size_t n) {
  const uint8_t* b = (const uint8_t*)p;
  for (size_t i = 0; i < n; i++) h = (h ^ b[i]) * 1099511628211ull;
  return h;
}

// a batch of calls on fixed data; returns a hash of every output.  `probe` is called after every library call.
template <class F>
uint64_t batch(uint64_t nn, int mask, uint64_t seed, F probe) {
  Rng r(seed);
  MODULE* mod = get_module(nn, 0, mask);
  uint64_t h = 1469598103934665603ull;
  std::vector<int64_t> a(3 * nn), b(3 * nn), c(3 * nn);
  std::vector<double> d(3 * nn), e(3 * nn), pp(nn);
  std::vector<uint8_t> tmp(1 << 18);
  for (auto& x : a) x = r.sbits(20);
  for (auto& x : b) x = r.sbits(20);
  vec_znx_add(mod, c.data(), 3, nn, a.data(), 3, nn, b.data(), 2, nn); probe("vec_znx_add"); h = fnv1(h, c.data(), c.size() * 8);
  vec_znx_normalize_base2k(mod, 12, c.data(), 3, nn, a.data(), 3, nn, tmp.data()); probe("vec_znx_normalize_base2k"); h = fnv1(h, c.data(), c.size() * 8);
  vec_znx_dft(mod, (VEC_ZNX_DFT*)d.data(), 3, a.data(), 3, nn); probe("vec_znx_dft"); h = fnv1(h, d.data(), d.size() * 8);
  svp_prepare(mod, (SVP_PPOL*)pp.data(), b.data()); probe("svp_prepare"); h = fnv1(h, pp.data(), pp.size() * 8);
  svp_apply_dft(mod, (VEC_ZNX_DFT*)e.data(), 3, (SVP_PPOL*)pp.data(), a.data(), 2, nn); probe("svp_apply_dft"); h = fnv1(h, e.data(), e.size() * 8);
  vec_znx_idft(mod, (VEC_ZNX_BIG*)c.data(), 3, (VEC_ZNX_DFT*)e.data(), 3, tmp.data()); probe("vec_znx_idft"); h = fnv1(h, c.data(), c.size() * 8);
  vec_znx_idft_tmp_a(mod, (VEC_ZNX_BIG*)c.data(), 2, (VEC_ZNX_DFT*)d.data(), 3); probe("vec_znx_idft_tmp_a"); h = fnv1(h, c.data(), c.size() * 8);
  znx_small_single_product(mod, c.data(), a.data(), b.data(), tmp.data()); probe("znx_small_single_product"); h = fnv1(h, c.data(), nn * 8);
  const uint32_t m = (uint32_t)(nn / 2);
  for (uint64_t i = 0; i < nn; i++) d[i] = (double)r.sbits(24) / 16.0;
  reim_fft_simple(m, d.data()); probe("reim_fft_simple"); h = fnv1(h, d.data(), nn * 8);
  reim_ifft_simple(m, d.data()); probe("reim_ifft_simple"); h = fnv1(h, d.data(), nn * 8);
  reim_to_znx64_simple(m, (double)m, 63, c.data(), d.data()); probe("reim_to_znx64_simple"); h = fnv1(h, c.data(), nn * 8);
  reim_from_znx64_simple(m, 50, d.data(), a.data()); probe("reim_from_znx64_simple"); h = fnv1(h, d.data(), nn * 8);
  cplx_fft_simple(m, d.data()); probe("cplx_fft_simple"); h = fnv1(h, d.data(), nn * 8);
  return h;
}
}  // namespace

STREAM(env_state) {
  (void)thorough;
  for (uint64_t nn : {(uint64_t)4, (uint64_t)8, (uint64_t)16, (uint64_t)64, (uint64_t)8192})
    for (int mask = 0; mask < 2; mask++) {
      const uint64_t seed = rng.next();
      std::string verdict = "ok";
      feclearexcept(FE_ALL_EXCEPT);
      const uint64_t h0 = batch(nn, mask, seed, [](const char*) {});
      // 1. exception flags raised by unrelated caller arithmetic (0/0, overflow, inexact …) must not change a result
      {
        volatile double z = 0.0, big = 1e308;
        volatile double t = z / z; (void)t;
        t = big * big; (void)t;
        feraiseexcept(FE_INVALID | FE_DIVBYZERO | FE_OVERFLOW | FE_UNDERFLOW | FE_INEXACT);
        const uint64_t h1 = batch(nn, mask, seed, [](const char*) { feraiseexcept(FE_INVALID | FE_OVERFLOW | FE_INEXACT); });
        feclearexcept(FE_ALL_EXCEPT);
        if (h1 != h0) verdict = "FAIL C15 results depend on the floating-point exception flags raised before the call";
      }
      // 2. directed rounding modes at entry: the call must leave the rounding mode and the MXCSR control bits as found
      for (int mode : {FE_UPWARD, FE_DOWNWARD, FE_TOWARDZERO}) {
        fesetround(mode);
        const unsigned csr0 = _mm_getcsr() & ~0x3Fu;
        const char* bad = nullptr;
        batch(nn, mask, seed, [&](const char* what) {
          if (!bad && (fegetround() != mode || (_mm_getcsr() & ~0x3Fu) != csr0)) bad = what;
          fesetround(mode);
          _mm_setcsr((_mm_getcsr() & 0x3Fu) | csr0);
        });
        fesetround(FE_TONEAREST);
        if (bad && verdict == "ok") verdict = std::string("FAIL C15 ") + bad + " does not restore the caller's rounding mode / MXCSR control bits (directed rounding at entry)";
      }
      // 3. and afterwards the default environment gives the original bits again (nothing sticky was left behind)
      feclearexcept(FE_ALL_EXCEPT);
      if (batch(nn, mask, seed, [](const char*) {}) != h0 && verdict == "ok") verdict = "FAIL C15 results differ after calls made under another floating-point environment";
      fprintf(out.ops, "ca nop env_state nn=%lu mask=%d", (unsigned long)nn, mask);
      fprintf(out.real, "nop");
      out.endcase(verdict);
    }
}

// ------------------------------------------------------------------------------------------------
namespace {
struct StackArg { uint64_t nn; uint64_t hash; };
void* small_stack_main(void* p) {
  StackArg* s = (StackArg*)p;
  const uint64_t nn = s->nn;
  uint64_t h = 1469598103934665603ull;
  MODULE* f = new_module_info(nn, FFT64);
  MODULE* q = new_module_info(nn, NTT120);
  const uint64_t L = 24;   // limbs: L * nn * 8 bytes = 12 MiB at nn = 65536, far above the stack of this thread
  std::vector<int64_t> a(L * nn), c(L * nn);
  for (uint64_t i = 0; i < a.size(); i += 97) a[i] = (int64_t)(i * 2654435761u) >> 40;
  std::vector<uint8_t> tmp(vec_znx_normalize_base2k_tmp_bytes(f) + vec_znx_big_normalize_base2k_tmp_bytes(f) + 64);
  vec_znx_rotate(f, 12345, c.data(), L, nn, a.data(), L, nn);
  vec_znx_rotate(f, -777, c.data(), L, nn, c.data(), L, nn);                 // in place
  vec_znx_automorphism(f, 5, c.data(), L, nn, c.data(), L, nn);              // in place
  vec_znx_big_rotate(f, 3, (VEC_ZNX_BIG*)c.data(), L, (VEC_ZNX_BIG*)c.data(), L);
  vec_znx_normalize_base2k(f, 17, c.data(), L, nn, c.data(), L, nn, tmp.data());
  vec_znx_big_normalize_base2k(f, 17, c.data(), L, nn, (VEC_ZNX_BIG*)a.data(), L, tmp.data());
  h = fnv1(h, c.data(), 4096);
  std::vector<double> d(2 * nn);
  vec_znx_dft(f, (VEC_ZNX_DFT*)d.data(), 2, a.data(), 2, nn);
  vec_znx_idft_tmp_a(f, (VEC_ZNX_BIG*)c.data(), 2, (VEC_ZNX_DFT*)d.data(), 2);
  std::vector<uint8_t> t2(znx_small_single_product_tmp_bytes(f));
  znx_small_single_product(f, c.data(), a.data(), a.data() + nn, t2.data());
  std::vector<uint64_t> qd(4 * nn * 2);
  std::vector<uint8_t> t3(vec_znx_idft_tmp_bytes(q));
  vec_znx_dft(q, (VEC_ZNX_DFT*)qd.data(), 2, a.data(), 2, nn);
  vec_znx_idft(q, (VEC_ZNX_BIG*)c.data(), 1, (VEC_ZNX_DFT*)qd.data(), 2, t3.data());
  h = fnv1(h, c.data(), 4096);
  delete_module_info(f);
  delete_module_info(q);
  s->hash = h;
  return nullptr;
}
}  // namespace

STREAM(small_stack) {
  (void)rng;
  for (uint64_t nn : (thorough ? std::vector<uint64_t>{4096, 65536} : std::vector<uint64_t>{65536})) {
    pthread_attr_t at;
    pthread_attr_init(&at);
    pthread_attr_setstacksize(&at, 128 * 1024);
    StackArg s{nn, 0};
    pthread_t th;
    pthread_create(&th, &at, small_stack_main, &s);
    pthread_join(th, nullptr);     // a stack overflow is a crash of the harness = implementation fault
    pthread_attr_destroy(&at);
    fprintf(out.ops, "ca nop small_stack nn=%lu stack=128KiB", (unsigned long)nn);
    fprintf(out.real, "nop");
    out.endcase(s.hash ? "ok" : "FAIL C11 the small-stack thread did not finish");
  }
}

// ------------------------------------------------------------------------------------------------
STREAM(huge_span) {
  (void)thorough;
  const size_t SPAN = (size_t)40 << 30;
  uint8_t* base = (uint8_t*)mmap(nullptr, SPAN, PROT_READ | PROT_WRITE, MAP_PRIVATE | MAP_ANONYMOUS | MAP_NORESERVE, -1, 0);
  if (base == MAP_FAILED) {
    fprintf(out.ops, "ca nop huge_span unavailable");
    fprintf(out.real, "nop");
    out.endcase("na");
    out.count("huge_span_unavailable");
    return;
  }
  const uint64_t nn = 64;
  for (int mask = 0; mask < 2; mask++) {
    MODULE* mod = get_module(nn, 0, mask);
    std::string verdict = "ok";
    auto add = [&](const std::string& v) { if (verdict == "ok") verdict = v; else if (verdict.find(v.substr(0, 8)) == std::string::npos) verdict += " ;; " + v; };
    auto fail = [&](const char* what) { add(std::string("FAIL C08 ") + what + ": a limb offset beyond 2^32 elements is computed in fewer than 64 bits"); };
    // limbs 2^31 coefficients apart: limb 2 starts at offset 2^32
    const uint64_t SL = (uint64_t)1 << 31;
    int64_t* big = (int64_t*)base;
    std::vector<int64_t> a(3 * nn), b(3 * nn), ref(3 * nn), got(3 * nn);
    for (auto& x : a) x = rng.sbits(40);
    for (auto& x : b) x = rng.sbits(40);
    auto put = [&](const std::vector<int64_t>& v) { for (int i = 0; i < 3; i++) memcpy(big + i * SL, &v[i * nn], nn * 8); };
    auto get = [&](std::vector<int64_t>& v) { for (int i = 0; i < 3; i++) memcpy(&v[i * nn], big + i * SL, nn * 8); };
    // source with a huge stride
    put(a);
    vec_znx_add(mod, ref.data(), 3, nn, a.data(), 3, nn, b.data(), 3, nn);
    vec_znx_add(mod, got.data(), 3, nn, big, 3, SL, b.data(), 3, nn);
    if (ref != got) fail("vec_znx_add (source stride 2^31)");
    vec_znx_rotate(mod, 7, ref.data(), 3, nn, a.data(), 3, nn);
    vec_znx_rotate(mod, 7, got.data(), 3, nn, big, 3, SL);
    if (ref != got) fail("vec_znx_rotate (source stride 2^31)");
    // destination with a huge stride, incl. zero-extension of the last limb
    for (int i = 0; i < 3; i++) memset(big + i * SL, 0x5a, nn * 8);
    vec_znx_copy(mod, ref.data(), 3, nn, a.data(), 2, nn);
    vec_znx_copy(mod, big, 3, SL, a.data(), 2, nn);
    get(got);
    if (ref != got) fail("vec_znx_copy (destination stride 2^31, zero-extended limb at offset 2^32)");
    for (int i = 0; i < 3; i++) memset(big + i * SL, 0x5a, nn * 8);
    vec_znx_negate(mod, ref.data(), 3, nn, a.data(), 1, nn);
    vec_znx_negate(mod, big, 3, SL, a.data(), 1, nn);
    get(got);
    if (ref != got) fail("vec_znx_negate (destination stride 2^31)");
    for (int i = 0; i < 3; i++) memset(big + i * SL, 0x5a, nn * 8);
    vec_znx_zero(mod, big, 3, SL);
    get(got);
    for (auto x : got) if (x) { fail("vec_znx_zero (stride 2^31)"); break; }
    // svp_apply_dft reading a vector with a huge stride; idft between two buffers exactly 2^32 doubles apart
    {
      std::vector<double> pp(nn), d1(3 * nn), d2(3 * nn);
      std::vector<uint8_t> tmp(1 << 16);
      svp_prepare(mod, (SVP_PPOL*)pp.data(), b.data());
      put(a);
      svp_apply_dft(mod, (VEC_ZNX_DFT*)d1.data(), 3, (SVP_PPOL*)pp.data(), a.data(), 3, nn);
      svp_apply_dft(mod, (VEC_ZNX_DFT*)d2.data(), 3, (SVP_PPOL*)pp.data(), big, 3, SL);
      if (memcmp(d1.data(), d2.data(), d1.size() * 8)) add("FAIL C01 svp_apply_dft (source stride 2^31): a limb offset beyond 2^32 elements is computed in fewer than 64 bits");
      double* src = (double*)base + 16;                       // a_dft
      double* dst = src + ((uint64_t)1 << 32);                // res, exactly 2^32 doubles further
      memcpy(src, d1.data(), d1.size() * 8);
      memset(dst, 0x33, d1.size() * 8);
      vec_znx_idft(mod, (VEC_ZNX_BIG*)ref.data(), 3, (VEC_ZNX_DFT*)d1.data(), 3, tmp.data());
      vec_znx_idft(mod, (VEC_ZNX_BIG*)dst, 3, (VEC_ZNX_DFT*)src, 3, tmp.data());
      if (memcmp(ref.data(), dst, ref.size() * 8)) add("FAIL C01 vec_znx_idft between buffers 2^32 doubles apart differs from the ordinary call (pointer distance truncated)");
      if (memcmp(src, d1.data(), d1.size() * 8)) add("FAIL C18 vec_znx_idft modified its DFT source (buffers 2^32 doubles apart)");
    }
    fprintf(out.ops, "ca nop huge_span nn=%lu mask=%d", (unsigned long)nn, mask);
    fprintf(out.real, "nop");
    out.endcase(verdict);
  }
  // q120 block extraction from a contiguous matrix larger than 4 GiB (row 2048 of nn = 65536 starts at byte 2^32), reference kernel
  {
    const uint64_t nn = 65536, nrows = 2050, blk = 5;
    uint64_t* mat = (uint64_t*)base;
    std::vector<uint64_t> dst(8 * nrows);
    std::string verdict = "ok";
    for (uint64_t row : {(uint64_t)0, (uint64_t)1, (uint64_t)2047, (uint64_t)2048, (uint64_t)2049})
      for (int i = 0; i < 8; i++) mat[row * 4 * nn + 8 * blk + i] = 0x1000 * (row + 1) + i;
    q120x2_extract_1blk_from_contiguous_q120b_ref(nn, nrows, blk, (q120x2b*)dst.data(), (q120b*)mat);
    // (the _avx twin is declared in the header but not defined in the library)
    for (uint64_t row : {(uint64_t)0, (uint64_t)1, (uint64_t)2047, (uint64_t)2048, (uint64_t)2049})
      for (int i = 0; i < 8; i++) {
        if (dst[8 * row + i] != 0x1000 * (row + 1) + i && verdict == "ok") verdict = "FAIL C10 q120x2_extract_1blk_from_contiguous_q120b_ref reads the wrong row beyond 4 GiB (offset computed in 32 bits)";
      }
    fprintf(out.ops, "ca nop huge_span q120 contiguous extract nn=65536 nrows=2050");
    fprintf(out.real, "nop");
    out.endcase(verdict);
  }
  munmap(base, SPAN);
  // objects of 4 GiB and more from the library's own allocators: the block really has the announced size
  {
    MODULE* mod = get_module(1024, 0, 0);
    const uint64_t limbs = ((uint64_t)1 << 19) + 1;             // bytes_of = limbs * 1024 * 8 = 4 GiB + 8 KiB
    std::string verdict = "ok";
    // only where the allocator hands out two such blocks at all (overcommit): otherwise not applicable here
    void* probe1 = malloc(bytes_of_vec_znx_big(mod, limbs) + 64);
    void* probe2 = malloc(bytes_of_vec_znx_dft(mod, limbs) + 64);
    const bool can = probe1 && probe2;
    free(probe1);
    free(probe2);
    if (!can) {
      fprintf(out.ops, "ca nop huge_span 4GiB objects unavailable");
      fprintf(out.real, "nop");
      out.endcase("na");
      out.count("huge_alloc_unavailable");
      return;
    }
    VEC_ZNX_BIG* b = new_vec_znx_big(mod, limbs);
    VEC_ZNX_DFT* d = new_vec_znx_dft(mod, limbs);
    if (malloc_usable_size(b) < bytes_of_vec_znx_big(mod, limbs)) verdict = "FAIL C11 new_vec_znx_big returned a block smaller than bytes_of_vec_znx_big (size truncated to 32 bits)";
    else if (malloc_usable_size(d) < bytes_of_vec_znx_dft(mod, limbs)) verdict = "FAIL C11 new_vec_znx_dft returned a block smaller than bytes_of_vec_znx_dft (size truncated to 32 bits)";
    else { ((int64_t*)b)[limbs * 1024 - 1] = 1; ((double*)d)[limbs * 1024 - 1] = 1.0; }   // last cell is ours
    delete_vec_znx_big(b);
    delete_vec_znx_dft(d);
    fprintf(out.ops, "ca nop huge_span 4GiB objects");
    fprintf(out.real, "nop");
    out.endcase(verdict);
  }
}
