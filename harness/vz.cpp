// Streams over the limb-vector API (vec_znx_* and the int64 big wrappers), whole-arena comparison.
#include "hcommon.h"

struct ModKey {
  uint64_t nn;
  int type;
  int mask;
  bool operator<(const ModKey& o) const {
    if (nn != o.nn) return nn < o.nn;
    if (type != o.type) return type < o.type;
    return mask < o.mask;
  }
};
static std::map<ModKey, MODULE*> g_mods;
// mask: 0 = all features, 1 = avx2/fma/avx512 masked off (generic C dispatch)
MODULE* get_module(uint64_t nn, int type, int mask) {
  ModKey k{nn, type, mask};
  auto it = g_mods.find(k);
  if (it != g_mods.end()) return it->second;
  spqlios_verif_set_cpu_mask(mask, mask, mask);
  MODULE* m;
  if (nn >= 2 || type == 1) {
    // (an NTT120 module exists for N = 1 too: its transform of size 1 is the identity)
    m = new_module_info(nn, type == 0 ? FFT64 : NTT120);
  } else {
    // nn = 1 has no FFT tables: build a bare module carrying only the generic table
    MODULE* m2 = new_module_info(2, type == 0 ? FFT64 : NTT120);
    m = (MODULE*)malloc(sizeof(MODULE));
    memcpy(m, m2, sizeof(MODULE));
    m->nn = 1;
    m->m = 0;
  }
  spqlios_verif_set_cpu_mask(0, 0, 0);
  g_mods[k] = m;
  return m;
}

static const char* OPS[] = {"zero", "copy", "negate", "add", "sub", "rotate", "automorphism", "normalize"};
enum { OP_ZERO, OP_COPY, OP_NEG, OP_ADD, OP_SUB, OP_ROT, OP_AUT, OP_NORM, NOPS };

struct Case {
  int op;
  uint64_t nn;
  int64_t p;
  uint64_t k;
  uint64_t rsz, rsl, asz, asl, bsz, bsl;
  int alias;    // 0 none, 1 res==a, 2 res==b
  int variant;  // 0 api, 1 _ref direct, 2 _avx direct, 3 big wrapper (api)
  int mtype, mask;
  int dclass;
};


// ---------------------------------------------------------------------------------------------
// independent oracle for the property statements C08/C09/C05/C13/C18 at the vector level:
// pointwise definition on zero-extended inputs + every other cell unchanged.
typedef __int128 i128;
static inline int64_t w64(i128 x) { return (int64_t)(uint64_t)x; }
static int64_t coef_rot(const int64_t* a, uint64_t nn, int64_t p, uint64_t k) {
  // (X^p * a)_k = sign * a_{(k-p) mod nn}
  i128 twoN = 2 * (i128)nn;
  i128 src = (((i128)k - (i128)p) % twoN + twoN) % twoN;
  if (src < (i128)nn) return a[(uint64_t)src];
  return w64(-(i128)a[(uint64_t)(src - nn)]);
}
static void poly_aut(int64_t* r, const int64_t* a, uint64_t nn, int64_t p) {
  i128 twoN = 2 * (i128)nn;
  for (uint64_t i = 0; i < nn; i++) {
    i128 e = ((((i128)i * (((i128)p % twoN + twoN) % twoN))) % twoN);
    if (e < (i128)nn) r[(uint64_t)e] = a[i]; else r[(uint64_t)(e - nn)] = w64(-(i128)a[i]);
  }
}
static std::string vz_oracle(const Case& c, const int64_t* before, const int64_t* after, uint64_t S, uint64_t res_off,
                             uint64_t a_off, uint64_t b_off) {
  const uint64_t nn = c.nn;
  std::vector<int64_t> exp(before, before + S);
  bool two = (c.op == OP_ADD || c.op == OP_SUB);
  uint64_t asz = (c.op == OP_ZERO) ? 0 : c.asz, bsz = two ? c.bsz : 0;
  std::vector<int64_t> tmp(nn);
  if (c.op == OP_NORM) {
    // balanced base-2^k digits by floor division, least significant limb first
    if (c.rsz > 0) {
      std::vector<i128> carry(nn, 0);
      std::vector<int64_t> dig(asz * nn, 0);
      i128 B = (i128)1 << c.k, H = B >> 1;
      for (uint64_t ii = asz; ii-- > 0;) {
        for (uint64_t j = 0; j < nn; j++) {
          i128 v = (i128)before[a_off + ii * c.asl + j] + carry[j];
          i128 d = (((v + H) % B) + B) % B - H;
          carry[j] = (v - d) / B;
          dig[ii * nn + j] = (int64_t)d;
        }
      }
      for (uint64_t i = 0; i < c.rsz; i++)
        for (uint64_t j = 0; j < nn; j++) exp[res_off + i * c.rsl + j] = (i < asz) ? dig[i * nn + j] : 0;
    }
  } else {
    for (uint64_t i = 0; i < c.rsz; i++) {
      for (uint64_t j = 0; j < nn; j++) {
        int64_t av = (i < asz) ? before[a_off + i * c.asl + j] : 0;
        int64_t bv = (i < bsz) ? before[b_off + i * c.bsl + j] : 0;
        int64_t r = 0;
        switch (c.op) {
          case OP_ZERO: r = 0; break;
          case OP_COPY: r = av; break;
          case OP_NEG: r = w64(-(i128)av); break;
          case OP_ADD: r = w64((i128)av + bv); break;
          case OP_SUB: r = w64((i128)av - bv); break;
          case OP_ROT: r = (i < asz) ? coef_rot(before + a_off + i * c.asl, nn, c.p, j) : 0; break;
          default: break;
        }
        if (c.op != OP_AUT) exp[res_off + i * c.rsl + j] = r;
      }
      if (c.op == OP_AUT) {
        if (i < asz) poly_aut(tmp.data(), before + a_off + i * c.asl, nn, c.p);
        else std::fill(tmp.begin(), tmp.end(), 0);
        for (uint64_t j = 0; j < nn; j++) exp[res_off + i * c.rsl + j] = tmp[j];
      }
    }
  }
  for (uint64_t i = 0; i < S; i++)
    if (exp[i] != after[i]) {
      char buf[200];
      snprintf(buf, sizeof buf, "FAIL cell %" PRIu64 " expected %" PRId64 " got %" PRId64, i, exp[i], after[i]);
      return buf;
    }
  return "ok";
}

static void run_case(Out& out, Rng& rng, const Case& c) {
  const uint64_t nn = c.nn;
  const uint64_t PAD = 1 + rng.below(4);  // pointer misalignments 8/16/24/32 bytes relative to malloc
  bool two = (c.op == OP_ADD || c.op == OP_SUB);
  bool one = (c.op != OP_ZERO);
  uint64_t rext = c.rsz ? (c.rsz - 1) * c.rsl + nn : 0;
  uint64_t aext = (one && c.asz) ? (c.asz - 1) * c.asl + nn : 0;
  uint64_t bext = (two && c.bsz) ? (c.bsz - 1) * c.bsl + nn : 0;
  uint64_t res_off = PAD, a_off, b_off, end;
  if (c.alias == 3) {
    // compaction: same pointer, a's stride larger by at least nn: limb 0 is rotated in place, every other limb out of place,
    // and no limb of a is overwritten before it is read
    a_off = res_off;
    b_off = res_off;
    end = res_off + (rext > aext ? rext : aext) + PAD;
  } else if (c.alias == 4) {
    // exactly one coinciding limb: res = buf (stride 2nn), a = buf + nn (stride nn): limb 1 of both is the same memory
    a_off = res_off + nn;
    b_off = res_off;
    end = res_off + (rext > nn + aext ? rext : nn + aext) + PAD;
  } else if (c.alias == 1) {
    a_off = res_off;
    uint64_t e = res_off + (rext > aext ? rext : aext) + PAD;
    b_off = e;
    end = b_off + bext + PAD;
  } else if (c.alias == 2) {
    b_off = res_off;
    uint64_t e = res_off + (rext > bext ? rext : bext) + PAD;
    a_off = e;
    end = a_off + aext + PAD;
  } else {
    a_off = res_off + rext + PAD;
    b_off = a_off + aext + PAD;
    end = b_off + bext + PAD;
  }
  uint64_t S = end;
  // heap buffer of exactly S cells (so that ASan sees any access outside the arena)
  int64_t* arena = (int64_t*)malloc(S * 8 + 8);
  for (uint64_t i = 0; i < S; i++) {
    int64_t v = pick_i64(rng, c.dclass);
    if (c.op == OP_NORM && (v > ((int64_t)1 << 62) || v < -((int64_t)1 << 62))) v >>= 2;
    arena[i] = v;
  }
  fprintf(out.ops, "vz %s %" PRIu64 " %" PRId64 " %" PRIu64 " %" PRIu64 " %" PRIu64 " %" PRIu64 " %" PRIu64 " %" PRIu64
                   " %" PRIu64 " %" PRIu64 " %" PRIu64 " %" PRIu64 " | ",
          OPS[c.op], nn, c.p, c.k, res_off, c.rsz, c.rsl, a_off, one ? c.asz : 0, c.asl, b_off, two ? c.bsz : 0, c.bsl);
  put_i64s(out.ops, arena, S);
  std::vector<int64_t> before(arena, arena + S);
  MODULE* mod = get_module(nn, c.mtype, c.mask);
  int64_t* res = arena + res_off;
  const int64_t* a = arena + a_off;
  const int64_t* b = arena + b_off;
  uint8_t* tmp = nullptr;
  if (c.op == OP_NORM) {
    uint64_t tb = vec_znx_normalize_base2k_tmp_bytes(mod);
    tmp = (uint8_t*)malloc(tb ? tb : 1);
    for (uint64_t i = 0; i < tb; i++) tmp[i] = (uint8_t)rng.next();
  }
  switch (c.variant) {
    case 0:
      switch (c.op) {
        case OP_ZERO: vec_znx_zero(mod, res, c.rsz, c.rsl); break;
        case OP_COPY: vec_znx_copy(mod, res, c.rsz, c.rsl, a, c.asz, c.asl); break;
        case OP_NEG: vec_znx_negate(mod, res, c.rsz, c.rsl, a, c.asz, c.asl); break;
        case OP_ADD: vec_znx_add(mod, res, c.rsz, c.rsl, a, c.asz, c.asl, b, c.bsz, c.bsl); break;
        case OP_SUB: vec_znx_sub(mod, res, c.rsz, c.rsl, a, c.asz, c.asl, b, c.bsz, c.bsl); break;
        case OP_ROT: vec_znx_rotate(mod, c.p, res, c.rsz, c.rsl, a, c.asz, c.asl); break;
        case OP_AUT: vec_znx_automorphism(mod, c.p, res, c.rsz, c.rsl, a, c.asz, c.asl); break;
        case OP_NORM: vec_znx_normalize_base2k(mod, c.k, res, c.rsz, c.rsl, a, c.asz, c.asl, tmp); break;
      }
      break;
    case 1:
      switch (c.op) {
        case OP_ZERO: vec_znx_zero_ref(mod, res, c.rsz, c.rsl); break;
        case OP_COPY: vec_znx_copy_ref(mod, res, c.rsz, c.rsl, a, c.asz, c.asl); break;
        case OP_NEG: vec_znx_negate_ref(mod, res, c.rsz, c.rsl, a, c.asz, c.asl); break;
        case OP_ADD: vec_znx_add_ref(mod, res, c.rsz, c.rsl, a, c.asz, c.asl, b, c.bsz, c.bsl); break;
        case OP_SUB: vec_znx_sub_ref(mod, res, c.rsz, c.rsl, a, c.asz, c.asl, b, c.bsz, c.bsl); break;
        case OP_ROT: vec_znx_rotate_ref(mod, c.p, res, c.rsz, c.rsl, a, c.asz, c.asl); break;
        case OP_AUT: vec_znx_automorphism_ref(mod, c.p, res, c.rsz, c.rsl, a, c.asz, c.asl); break;
        case OP_NORM: vec_znx_normalize_base2k_ref(mod, c.k, res, c.rsz, c.rsl, a, c.asz, c.asl, tmp); break;
      }
      break;
    case 2:
      switch (c.op) {
        case OP_NEG: vec_znx_negate_avx(mod, res, c.rsz, c.rsl, a, c.asz, c.asl); break;
        case OP_ADD: vec_znx_add_avx(mod, res, c.rsz, c.rsl, a, c.asz, c.asl, b, c.bsz, c.bsl); break;
        case OP_SUB: vec_znx_sub_avx(mod, res, c.rsz, c.rsl, a, c.asz, c.asl, b, c.bsz, c.bsl); break;
        default: abort();
      }
      break;
    case 3:  // big wrappers: all strides are nn
      switch (c.op) {
        case OP_ADD: vec_znx_big_add(mod, (VEC_ZNX_BIG*)res, c.rsz, (const VEC_ZNX_BIG*)a, c.asz, (const VEC_ZNX_BIG*)b, c.bsz); break;
        case OP_SUB: vec_znx_big_sub(mod, (VEC_ZNX_BIG*)res, c.rsz, (const VEC_ZNX_BIG*)a, c.asz, (const VEC_ZNX_BIG*)b, c.bsz); break;
        case OP_ROT: vec_znx_big_rotate(mod, c.p, (VEC_ZNX_BIG*)res, c.rsz, (const VEC_ZNX_BIG*)a, c.asz); break;
        case OP_AUT: vec_znx_big_automorphism(mod, c.p, (VEC_ZNX_BIG*)res, c.rsz, (const VEC_ZNX_BIG*)a, c.asz); break;
        case OP_NORM: vec_znx_big_normalize_base2k(mod, c.k, res, c.rsz, c.rsl, (const VEC_ZNX_BIG*)a, c.asz, tmp); break;
        default: abort();
      }
      break;
    case 4:  // big, small b
      switch (c.op) {
        case OP_ADD: vec_znx_big_add_small(mod, (VEC_ZNX_BIG*)res, c.rsz, (const VEC_ZNX_BIG*)a, c.asz, b, c.bsz, c.bsl); break;
        case OP_SUB: vec_znx_big_sub_small_b(mod, (VEC_ZNX_BIG*)res, c.rsz, (const VEC_ZNX_BIG*)a, c.asz, b, c.bsz, c.bsl); break;
        default: abort();
      }
      break;
    case 5:  // big, small a (sub) / small2 (add)
      switch (c.op) {
        case OP_ADD: vec_znx_big_add_small2(mod, (VEC_ZNX_BIG*)res, c.rsz, a, c.asz, c.asl, b, c.bsz, c.bsl); break;
        case OP_SUB: vec_znx_big_sub_small_a(mod, (VEC_ZNX_BIG*)res, c.rsz, a, c.asz, c.asl, (const VEC_ZNX_BIG*)b, c.bsz); break;
        default: abort();
      }
      break;
    case 6:
      vec_znx_big_sub_small2(mod, (VEC_ZNX_BIG*)res, c.rsz, a, c.asz, c.asl, b, c.bsz, c.bsl);
      break;
  }
  fprintf(out.real, "1 ");
  put_i64s(out.real, arena, S);
  out.endcase(vz_oracle(c, before.data(), arena, S, res_off, a_off, b_off));
  out.count(std::string("op_") + OPS[c.op]);
  out.count(std::string("variant_") + std::to_string(c.variant));
  out.count(std::string("alias_") + std::to_string(c.alias));
  out.count(std::string("mask_") + std::to_string(c.mask));
  out.count(std::string("mtype_") + std::to_string(c.mtype));
  if (c.rsz == 0 || (one && c.asz == 0) || (two && c.bsz == 0)) out.count("has_zero_size");
  if (c.rsl > nn || c.asl > nn || c.bsl > nn) out.count("has_padding");
  free(arena);
  free(tmp);
}

static int64_t pick_p(Rng& rng, uint64_t nn, bool odd) {
  int64_t p;
  switch (rng.below(5)) {
    case 0: p = rng.range(-(int64_t)(2 * nn), 2 * nn); break;
    case 1: p = rng.range(0, 2 * nn - 1); break;
    case 2: p = (int64_t)(rng.next() >> 1) - ((int64_t)1 << 62); break;
    case 3: p = (rng.next() & 1) ? INT64_MAX - (int64_t)rng.below(4) : INT64_MIN + 1 + (int64_t)rng.below(4); break;
    default: p = rng.sbits(33); break;
  }
  if (odd && !(p & 1)) p ^= 1;
  return p;
}

// valid variants for an op
static void fill_variant(Rng& rng, Case& c) {
  // 0 api, 1 ref, 2 avx, 3.. big (fft64 only)
  std::vector<int> v = {0, 1};
  if (c.op == OP_NEG || c.op == OP_ADD || c.op == OP_SUB) v.push_back(2);
  if (c.nn >= 2 && (c.op == OP_ADD || c.op == OP_SUB)) { v.push_back(3); v.push_back(4); v.push_back(5); }
  if (c.nn >= 2 && c.op == OP_SUB) v.push_back(6);
  if (c.nn >= 2 && (c.op == OP_ROT || c.op == OP_AUT || c.op == OP_NORM)) v.push_back(3);
  c.variant = v[rng.below(v.size())];
  if (c.variant >= 3) c.mtype = 0;
  // big operands have stride nn
  if (c.variant == 3) {
    if (c.op != OP_NORM) c.rsl = c.nn;
    c.asl = c.nn;
    c.bsl = c.nn;
  } else if (c.variant == 4) {
    c.rsl = c.nn; c.asl = c.nn;
  } else if (c.variant == 5) {
    c.rsl = c.nn;
    if (c.op == OP_SUB) c.bsl = c.nn;
  } else if (c.variant == 6) {
    c.rsl = c.nn;
  }
}

static void gen_case(Out& out, Rng& rng, uint64_t nn, int op, uint64_t rsz, uint64_t asz, uint64_t bsz, int alias) {
  Case c{};
  c.op = op; c.nn = nn; c.rsz = rsz; c.asz = asz; c.bsz = bsz; c.alias = alias;
  auto stride = [&]() -> uint64_t {
    switch (rng.below(4)) { case 0: return nn; case 1: return nn + 1; case 2: return nn + 2; default: return 2 * nn + 5; }
  };
  c.rsl = stride(); c.asl = stride(); c.bsl = stride();
  c.mtype = rng.below(2); c.mask = rng.below(2);
  c.dclass = rng.below(6);
  c.k = 1 + rng.below(62);
  c.p = pick_p(rng, nn, op == OP_AUT);
  fill_variant(rng, c);
  // aliasing means same pointer *and* same stride; big operands keep stride nn
  bool res_big = c.variant >= 3 && !(c.variant == 3 && c.op == OP_NORM);
  bool a_big = (c.variant == 3) || (c.variant == 4);
  bool b_big = (c.variant == 3) || (c.variant == 5 && c.op == OP_SUB);
  if (alias == 1) { if (res_big || a_big) c.rsl = c.asl = c.nn; else c.asl = c.rsl; }
  if (alias == 2) { if (res_big || b_big) c.rsl = c.bsl = c.nn; else c.bsl = c.rsl; }
  run_case(out, rng, c);
}


// ---------------------------------------------------------------------------------------------
// C05 at the vector level: exhaustive small boxes, every k, maximal carry chains, range variant.
static MODULE* fake_module(uint64_t nn) {
  MODULE* m2 = get_module(2, 0, 0);
  MODULE* m = (MODULE*)malloc(sizeof(MODULE));
  memcpy(m, m2, sizeof(MODULE));
  m->nn = nn;
  m->m = nn / 2;
  return m;
}

// normalises `limbs` (asz limbs of nn coefficients, most significant first) into rsz limbs, optionally in place,
// through entry point `how`: 0 = vec_znx_normalize_base2k_ref, 1 = api, 2 = big, 3 = big range (begin,end,step)
static void norm_vec_case(Out& out, Rng& rng, MODULE* mod, uint64_t nn, uint64_t k, const std::vector<int64_t>& limbs, uint64_t asz,
                          uint64_t rsz, int how, int inplace, uint64_t begin, uint64_t step) {
  const uint64_t PAD = 2;
  uint64_t asl = nn, rsl = inplace ? nn : nn + (rng.below(2) ? 0 : 3);
  uint64_t total_limbs = (how == 3) ? begin + (asz ? (asz - 1) * step + 1 : 0) + rng.below(2) : asz;
  uint64_t a_stride = (how == 3) ? nn : ((how == 2 || inplace) ? nn : nn + (rng.below(2) ? 0 : 2));
  if (how != 3) asl = a_stride;
  uint64_t aext = total_limbs ? (total_limbs - 1) * a_stride + nn : 0;
  uint64_t rext = rsz ? (rsz - 1) * rsl + nn : 0;
  uint64_t a_off = PAD, res_off = inplace ? a_off : a_off + aext + PAD;
  if (inplace && how == 3) res_off = a_off + begin * nn;  // in place on the first selected limb only makes sense for step 1
  uint64_t S = (inplace ? a_off + (aext > rext + (res_off - a_off) ? aext : rext + (res_off - a_off)) : res_off + rext) + PAD;
  int64_t* arena = (int64_t*)malloc(S * 8 + 8);
  for (uint64_t i = 0; i < S; i++) arena[i] = rng.sbits(62);
  // place the limbs
  for (uint64_t i = 0; i < asz; i++) {
    uint64_t li = (how == 3) ? begin + i * step : i;
    for (uint64_t j = 0; j < nn; j++) arena[a_off + li * a_stride + j] = limbs[i * nn + j];
  }
  uint64_t aend = (how == 3) ? begin + asz * step - (asz ? rng.below(step) : 0) : 0;  // any end with ceil((end-begin)/step) = asz
  if (how == 3 && asz == 0) aend = begin;
  std::vector<int64_t> before(arena, arena + S);
  if (how == 3)
    fprintf(out.ops, "vz range_normalize %" PRIu64 " 0 %" PRIu64 " %" PRIu64 " %" PRIu64 " %" PRIu64 " %" PRIu64 " %" PRIu64 " %" PRIu64 " %" PRIu64 " 0 0 | ",
            nn, k, res_off, rsz, rsl, a_off, begin, aend, step);
  else
    fprintf(out.ops, "vz %s %" PRIu64 " 0 %" PRIu64 " %" PRIu64 " %" PRIu64 " %" PRIu64 " %" PRIu64 " %" PRIu64 " %" PRIu64 " 0 0 0 | ",
            how == 2 ? "big_normalize" : "normalize", nn, k, res_off, rsz, rsl, a_off, asz, asl);
  put_i64s(out.ops, arena, S);
  uint64_t tb = nn * 8;
  uint8_t* tmp = (uint8_t*)malloc(tb ? tb : 1);
  for (uint64_t i = 0; i < tb; i++) tmp[i] = (uint8_t)rng.next();
  int64_t* res = arena + res_off;
  const int64_t* a = arena + a_off;
  switch (how) {
    case 0: vec_znx_normalize_base2k_ref(mod, k, res, rsz, rsl, a, asz, asl, tmp); break;
    case 1: vec_znx_normalize_base2k(mod, k, res, rsz, rsl, a, asz, asl, tmp); break;
    case 2: vec_znx_big_normalize_base2k(mod, k, res, rsz, rsl, (const VEC_ZNX_BIG*)a, asz, tmp); break;
    case 3: vec_znx_big_range_normalize_base2k(mod, k, res, rsz, rsl, (const VEC_ZNX_BIG*)a, begin, aend, step, tmp); break;
  }
  fprintf(out.real, "1 ");
  put_i64s(out.real, arena, S);
  // oracle: balanced digits by floor division in 128-bit arithmetic
  std::string verdict = "ok";
  {
    std::vector<int64_t> exp(before);
    if (rsz > 0) {
      std::vector<i128> carry(nn, 0);
      std::vector<int64_t> dig(asz * nn, 0);
      i128 B = (i128)1 << k, H = B >> 1;
      for (uint64_t ii = asz; ii-- > 0;)
        for (uint64_t j = 0; j < nn; j++) {
          i128 v = (i128)limbs[ii * nn + j] + carry[j];
          i128 d = (((v + H) % B) + B) % B - H;
          carry[j] = (v - d) / B;
          dig[ii * nn + j] = (int64_t)d;
        }
      for (uint64_t i = 0; i < rsz; i++)
        for (uint64_t j = 0; j < nn; j++) exp[res_off + i * rsl + j] = (i < asz) ? dig[i * nn + j] : 0;
    }
    for (uint64_t i = 0; i < S; i++)
      if (exp[i] != arena[i]) {
        char buf[220];
        snprintf(buf, sizeof buf, "FAIL normalize how=%d k=%" PRIu64 " rsz=%" PRIu64 " asz=%" PRIu64 " inplace=%d cell %" PRIu64 " expected %" PRId64 " got %" PRId64, how, k, rsz, asz, inplace, i, exp[i], arena[i]);
        verdict = buf;
        break;
      }
  }
  out.endcase(verdict);
  out.count("norm_how_" + std::to_string(how));
  if (inplace) out.count("norm_inplace");
  if (!rsz || !asz) out.count("norm_zero_size");
  free(arena);
  free(tmp);
}

STREAM(vz_norm) {
  // 1. exhaustive boxes: every combination of limb values in [-2^(2k), 2^(2k)] laid out along the coefficient axis
  struct Box { uint64_t k, limbs; };
  std::vector<Box> boxes = {{1, 1}, {1, 2}, {1, 3}, {2, 1}, {2, 2}, {3, 1}, {3, 2}};
  if (thorough) { boxes.push_back({2, 3}); boxes.push_back({4, 2}); }
  for (auto bx : boxes) {
    int64_t R = (int64_t)1 << (2 * bx.k);
    uint64_t V = 2 * R + 1, nn = 1;
    for (uint64_t i = 0; i < bx.limbs; i++) nn *= V;
    std::vector<int64_t> limbs(bx.limbs * nn);
    for (uint64_t j = 0; j < nn; j++) {
      uint64_t t = j;
      for (uint64_t i = 0; i < bx.limbs; i++) { limbs[i * nn + j] = (int64_t)(t % V) - R; t /= V; }
    }
    MODULE* mod = fake_module(nn);
    for (uint64_t rsz = 0; rsz <= bx.limbs + 1; rsz++) norm_vec_case(out, rng, mod, nn, bx.k, limbs, bx.limbs, rsz, 0, 0, 0, 1);
    norm_vec_case(out, rng, mod, nn, bx.k, limbs, bx.limbs, bx.limbs, 0, 1, 0, 1);
    free(mod);
    out.count("exhaustive_boxes");
  }
  // 2. every k: boundary magnitudes, maximal carry chains (all digits at the boundary), all entry points, sizes incl. 0
  for (uint64_t k = 1; k <= 62; k++) {
    if (!thorough && !(k <= 3 || k == 19 || k == 32 || k == 51 || k >= 61)) continue;
    for (uint64_t nn : {(uint64_t)8, (uint64_t)2}) {
      for (uint64_t asz = 0; asz <= (thorough ? 8u : 4u); asz++) {
        std::vector<int64_t> limbs(asz * nn);
        int64_t H = (int64_t)1 << (k - 1), M = (int64_t)1 << 62;
        for (uint64_t j = 0; j < nn; j++)
          for (uint64_t i = 0; i < asz; i++) {
            int64_t v;
            switch (j % 8) {
              case 0: v = H - 1; break;             // all digits at the upper boundary
              case 1: v = -H; break;                // all at the lower boundary
              case 2: v = H; break;                 // just above: carries ripple all the way
              case 3: v = (i % 2) ? M : -M; break;  // extremes of the contract
              case 4: v = M - (int64_t)rng.below(4); break;
              case 5: v = -M + (int64_t)rng.below(4); break;
              case 6: v = rng.sbits(62); break;
              default: v = rng.sbits((int)k + 2 > 62 ? 62 : (int)k + 2); break;
            }
            limbs[i * nn + j] = v;
          }
        MODULE* mod = get_module(nn, rng.below(2), rng.below(2));
        for (uint64_t rsz : {(uint64_t)0, (uint64_t)1, asz, asz + 2, (asz > 1 ? asz - 1 : (uint64_t)3)}) {
          int how = rng.below(3);
          if (how == 2) mod = get_module(nn, 0, rng.below(2));
          norm_vec_case(out, rng, mod, nn, k, limbs, asz, rsz, how, 0, 0, 1);
          if (rsz > 0 || asz > 0) norm_vec_case(out, rng, mod, nn, k, limbs, asz, rsz, how == 2 ? 2 : how, 1, 0, 1);
        }
        // long inputs, few output limbs: a carry that ripples through all the dropped limbs
        if (nn == 8 && asz == 0) {
          for (uint64_t longsz : {(uint64_t)24, (uint64_t)70, (uint64_t)(64 / k + 6), (uint64_t)(k <= 2 ? 130 : 9), (uint64_t)(k <= 2 ? 200 : 10)}) {
            std::vector<int64_t> ll(longsz * nn);
            for (uint64_t j = 0; j < nn; j++)
              for (uint64_t i = 0; i < longsz; i++) {
                int64_t v = (i == longsz - 1) ? ((j & 1) ? -H - 1 : H) : ((j & 1) ? -H : H - 1);  // lowest limb tips the chain over
                if (j >= 4) v = (j == 4) ? H - 1 : ((j == 5) ? -H : rng.sbits((int)k + 1 > 62 ? 62 : (int)k + 1));
                // extremes of the contract in every limb: the running carry keeps growing towards 2^62
                if (j == 6) v = (int64_t)1 << 62;
                if (j == 7) v = -((int64_t)1 << 62);
                ll[i * nn + j] = v;
              }
            for (uint64_t rsz : {(uint64_t)1, (uint64_t)2, longsz - 1, longsz / 2 + 1}) {
              norm_vec_case(out, rng, mod, nn, k, ll, longsz, rsz, rng.below(2), 0, 0, 1);
              // the big-coefficient wrapper on the same chains (out of place and in place)
              MODULE* modb = get_module(nn, 0, rng.below(2));
              norm_vec_case(out, rng, modb, nn, k, ll, longsz, rsz, 2, (int)rng.below(2), 0, 1);
            }
          }
        }
        // range variant: begin/step triples
        MODULE* modf = get_module(nn, 0, rng.below(2));
        for (uint64_t step : {(uint64_t)1, (uint64_t)2, (uint64_t)3})
          norm_vec_case(out, rng, modf, nn, k, limbs, asz, rng.below(asz + 2), 3, 0, rng.below(3), step);
      }
    }
  }
}

STREAM(vz_box) {
  std::vector<uint64_t> sizes = thorough ? std::vector<uint64_t>{0, 1, 2, 3, 5} : std::vector<uint64_t>{0, 1, 2, 3};
  std::vector<uint64_t> nns = thorough ? std::vector<uint64_t>{1, 2, 4, 8, 16, 64} : std::vector<uint64_t>{1, 2, 4, 8};
  for (uint64_t nn : nns)
    for (int op = 0; op < NOPS; op++)
      for (uint64_t rsz : sizes)
        for (uint64_t asz : sizes) {
          if (op == OP_ZERO && asz != sizes[0]) continue;
          bool two = (op == OP_ADD || op == OP_SUB);
          for (uint64_t bsz : sizes) {
            if (!two && bsz != sizes[0]) continue;
            int nalias = (op == OP_ZERO) ? 1 : (two ? 3 : 2);
            for (int alias = 0; alias < nalias; alias++) gen_case(out, rng, nn, op, rsz, asz, bsz, alias);
          }
        }
  // per-limb aliasing decisions: layouts in which some limbs coincide and others do not (pointer equality is tested per limb)
  for (uint64_t nn : nns)
    for (int op : {OP_COPY, OP_NEG, OP_ROT, OP_AUT})
      for (int mode = 3; mode <= 4; mode++)
        for (int rep = 0; rep < (thorough ? 6 : 3); rep++) {
          Case c{};
          c.op = op; c.nn = nn; c.alias = mode;
          c.mtype = rng.below(2); c.mask = rng.below(2); c.dclass = rng.below(6); c.k = 1;
          c.p = pick_p(rng, nn, op == OP_AUT);
          c.variant = rng.below(2);
          if (mode == 3) { c.rsz = 1 + rng.below(3); c.asz = 1 + rng.below(3); c.rsl = nn + rng.below(2); c.asl = c.rsl + nn + rng.below(3); }
          else { c.rsz = 1 + rng.below(2); c.asz = 1 + rng.below(2); c.rsl = 2 * nn; c.asl = nn; }
          c.bsl = nn;
          run_case(out, rng, c);
          out.count("per_limb_alias_layouts");
        }
  // a few large dimensions
  std::vector<uint64_t> big = thorough ? std::vector<uint64_t>{256, 1024, 4096, 65536} : std::vector<uint64_t>{256, 2048};
  for (uint64_t nn : big)
    for (int op = 0; op < NOPS; op++) {
      int reps = (nn >= 4096) ? 1 : 3;
      for (int t = 0; t < reps; t++) {
        bool two = (op == OP_ADD || op == OP_SUB);
        int nalias = (op == OP_ZERO) ? 1 : (two ? 3 : 2);
        gen_case(out, rng, nn, op, rng.below(4), rng.below(4), rng.below(4), rng.below(nalias));
      }
    }
}
