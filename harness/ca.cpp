// C15 / C12: the `*_simple` convenience API.  One program (= the whole call history of this process) per
// cached function:   ca prog <function> | m=…,divisor=…,… ; m=… ; …
// real line: one bit per call = "a table constructor ran during this call" (observed through the guarded
// CPU_SUPPORTS query counter; every constructor performs at least one query).
// oracle: every call's output is compared bit-for-bit with the same kernel run on a freshly built table.
#include <functional>

#include "hcommon.h"
extern "C" {
#include "spqlios/cplx/cplx_fft.h"
#include "spqlios/reim/reim_fft.h"
#include "spqlios/reim4/reim4_fftvec_public.h"
}

struct P {
  uint32_t m;
  double divisor;
  uint32_t log2bound;
  uint32_t log2overhead;
};
struct Fn {
  const char* name;
  int uses_div, uses_bound, uses_ovh;
  size_t in_doubles;   // per unit of m
  size_t out_doubles;  // per unit of m
  // in/out are byte buffers large enough for 4*m doubles
  std::function<void(const P&, const uint8_t* in1, const uint8_t* in2, uint8_t* out)> simple, fresh;
  int in_kind;  // 0 doubles (moderate), 1 int64 (<2^50), 2 int32, 3 doubles small (|x/d| < 2^18)
  int accumulates;
};

static uint64_t dbits(double d) { uint64_t b; memcpy(&b, &d, 8); return b; }

#define FRESH(T, NEW, CALL, DEL) \
  [](const P& p, const uint8_t* a, const uint8_t* b, uint8_t* o) { T* t = NEW; CALL; DEL(t); }

static std::vector<Fn> fns() {
  std::vector<Fn> v;
  v.push_back({"reim_fft_simple", 0, 0, 0, 2, 2,
               [](const P& p, const uint8_t* a, const uint8_t*, uint8_t* o) { memcpy(o, a, 16 * p.m); reim_fft_simple(p.m, o); },
               [](const P& p, const uint8_t* a, const uint8_t*, uint8_t* o) { memcpy(o, a, 16 * p.m); auto* t = new_reim_fft_precomp(p.m, 0); reim_fft(t, (double*)o); free(t); }, 0, 0});
  v.push_back({"reim_ifft_simple", 0, 0, 0, 2, 2,
               [](const P& p, const uint8_t* a, const uint8_t*, uint8_t* o) { memcpy(o, a, 16 * p.m); reim_ifft_simple(p.m, o); },
               [](const P& p, const uint8_t* a, const uint8_t*, uint8_t* o) { memcpy(o, a, 16 * p.m); auto* t = new_reim_ifft_precomp(p.m, 0); reim_ifft(t, (double*)o); free(t); }, 0, 0});
  v.push_back({"cplx_fft_simple", 0, 0, 0, 2, 2,
               [](const P& p, const uint8_t* a, const uint8_t*, uint8_t* o) { memcpy(o, a, 16 * p.m); cplx_fft_simple(p.m, o); },
               [](const P& p, const uint8_t* a, const uint8_t*, uint8_t* o) { memcpy(o, a, 16 * p.m); auto* t = new_cplx_fft_precomp(p.m, 0); cplx_fft(t, o); free(t); }, 0, 0});
  v.push_back({"cplx_ifft_simple", 0, 0, 0, 2, 2,
               [](const P& p, const uint8_t* a, const uint8_t*, uint8_t* o) { memcpy(o, a, 16 * p.m); cplx_ifft_simple(p.m, o); },
               [](const P& p, const uint8_t* a, const uint8_t*, uint8_t* o) { memcpy(o, a, 16 * p.m); auto* t = new_cplx_ifft_precomp(p.m, 0); cplx_ifft(t, o); free(t); }, 0, 0});
  v.push_back({"reim_fftvec_mul_simple", 0, 0, 0, 2, 2,
               [](const P& p, const uint8_t* a, const uint8_t* b, uint8_t* o) { reim_fftvec_mul_simple(p.m, o, a, b); },
               [](const P& p, const uint8_t* a, const uint8_t* b, uint8_t* o) { auto* t = new_reim_fftvec_mul_precomp(p.m); reim_fftvec_mul(t, (double*)o, (const double*)a, (const double*)b); free(t); }, 0, 0});
  v.push_back({"reim_fftvec_addmul_simple", 0, 0, 0, 2, 2,
               [](const P& p, const uint8_t* a, const uint8_t* b, uint8_t* o) { reim_fftvec_addmul_simple(p.m, o, a, b); },
               [](const P& p, const uint8_t* a, const uint8_t* b, uint8_t* o) { auto* t = new_reim_fftvec_addmul_precomp(p.m); reim_fftvec_addmul(t, (double*)o, (const double*)a, (const double*)b); free(t); }, 0, 1});
  v.push_back({"cplx_fftvec_mul_simple", 0, 0, 0, 2, 2,
               [](const P& p, const uint8_t* a, const uint8_t* b, uint8_t* o) { cplx_fftvec_mul_simple(p.m, o, a, b); },
               [](const P& p, const uint8_t* a, const uint8_t* b, uint8_t* o) { auto* t = new_cplx_fftvec_mul_precomp(p.m); cplx_fftvec_mul(t, o, a, b); free(t); }, 0, 0});
  v.push_back({"cplx_fftvec_addmul_simple", 0, 0, 0, 2, 2,
               [](const P& p, const uint8_t* a, const uint8_t* b, uint8_t* o) { cplx_fftvec_addmul_simple(p.m, o, a, b); },
               [](const P& p, const uint8_t* a, const uint8_t* b, uint8_t* o) { auto* t = new_cplx_fftvec_addmul_precomp(p.m); cplx_fftvec_addmul(t, o, a, b); free(t); }, 0, 1});
  v.push_back({"reim4_fftvec_mul_simple", 0, 0, 0, 2, 2,
               [](const P& p, const uint8_t* a, const uint8_t* b, uint8_t* o) { reim4_fftvec_mul_simple(p.m, (double*)o, (const double*)a, (const double*)b); },
               [](const P& p, const uint8_t* a, const uint8_t* b, uint8_t* o) { auto* t = new_reim4_fftvec_mul_precomp(p.m); reim4_fftvec_mul(t, (double*)o, (const double*)a, (const double*)b); free(t); }, 0, 0});
  v.push_back({"reim4_fftvec_addmul_simple", 0, 0, 0, 2, 2,
               [](const P& p, const uint8_t* a, const uint8_t* b, uint8_t* o) { reim4_fftvec_addmul_simple(p.m, (double*)o, (const double*)a, (const double*)b); },
               [](const P& p, const uint8_t* a, const uint8_t* b, uint8_t* o) { auto* t = new_reim4_fftvec_addmul_precomp(p.m); reim4_fftvec_addmul(t, (double*)o, (const double*)a, (const double*)b); free(t); }, 0, 1});
  v.push_back({"reim4_from_cplx_simple", 0, 0, 0, 2, 2,
               [](const P& p, const uint8_t* a, const uint8_t*, uint8_t* o) { reim4_from_cplx_simple(p.m, (double*)o, a); },
               [](const P& p, const uint8_t* a, const uint8_t*, uint8_t* o) { auto* t = new_reim4_from_cplx_precomp(p.m); reim4_from_cplx(t, (double*)o, a); free(t); }, 0, 0});
  v.push_back({"reim4_to_cplx_simple", 0, 0, 0, 2, 2,
               [](const P& p, const uint8_t* a, const uint8_t*, uint8_t* o) { reim4_to_cplx_simple(p.m, o, (const double*)a); },
               [](const P& p, const uint8_t* a, const uint8_t*, uint8_t* o) { auto* t = new_reim4_to_cplx_precomp(p.m); reim4_to_cplx(t, o, (const double*)a); free(t); }, 0, 0});
  v.push_back({"reim_from_znx64_simple", 0, 1, 0, 2, 2,
               [](const P& p, const uint8_t* a, const uint8_t*, uint8_t* o) { reim_from_znx64_simple(p.m, p.log2bound, o, (const int64_t*)a); },
               [](const P& p, const uint8_t* a, const uint8_t*, uint8_t* o) { auto* t = new_reim_from_znx64_precomp(p.m, p.log2bound); reim_from_znx64(t, o, (const int64_t*)a); free(t); }, 1, 0});
  v.push_back({"reim_to_znx64_simple", 1, 1, 0, 2, 2,
               [](const P& p, const uint8_t* a, const uint8_t*, uint8_t* o) { reim_to_znx64_simple(p.m, p.divisor, p.log2bound, (int64_t*)o, a); },
               [](const P& p, const uint8_t* a, const uint8_t*, uint8_t* o) { auto* t = new_reim_to_znx64_precomp(p.m, p.divisor, p.log2bound); reim_to_znx64(t, (int64_t*)o, a); free(t); }, 4, 0});
  v.push_back({"cplx_from_znx32_simple", 0, 0, 0, 1, 2,
               [](const P& p, const uint8_t* a, const uint8_t*, uint8_t* o) { cplx_from_znx32_simple(p.m, o, (const int32_t*)a); },
               [](const P& p, const uint8_t* a, const uint8_t*, uint8_t* o) { auto* t = new_cplx_from_znx32_precomp(p.m); cplx_from_znx32(t, o, (const int32_t*)a); free(t); }, 2, 0});
  v.push_back({"cplx_from_tnx32_simple", 0, 0, 0, 1, 2,
               [](const P& p, const uint8_t* a, const uint8_t*, uint8_t* o) { cplx_from_tnx32_simple(p.m, o, (const int32_t*)a); },
               [](const P& p, const uint8_t* a, const uint8_t*, uint8_t* o) { auto* t = new_cplx_from_tnx32_precomp(p.m); cplx_from_tnx32(t, o, (const int32_t*)a); free(t); }, 2, 0});
  v.push_back({"cplx_to_tnx32_simple", 1, 0, 1, 2, 1,
               [](const P& p, const uint8_t* a, const uint8_t*, uint8_t* o) { cplx_to_tnx32_simple(p.m, p.divisor, p.log2overhead, (int32_t*)o, a); },
               [](const P& p, const uint8_t* a, const uint8_t*, uint8_t* o) { auto* t = new_cplx_to_tnx32_precomp(p.m, p.divisor, p.log2overhead); cplx_to_tnx32(t, (int32_t*)o, a); free(t); }, 3, 0});
  return v;
}

STREAM(ca_prog) {
  auto F = fns();
  int ncalls = thorough ? 400 : 120;
  // m >= 8: below that some constructors take a shortcut that performs no CPU_SUPPORTS query, so the
  // 'a constructor ran' observation would be blind (the output oracle still covers small m in the other streams)
  const uint32_t MS[] = {8, 16, 32, 64, 128, 256, 8, 16, 32};
  const double DIVS[] = {1.0, 2.0, 4.0, 0.5, -4.0};   // -4.0: same exponent as 4.0 (a key on the exponent alone is not enough)
  const uint32_t BNDS[] = {50, 40, 63, 52, 50};
  const uint32_t OVHS[] = {18, 10, 18, 12};
  for (auto& f : F) {
    fprintf(out.ops, "ca prog %s |", f.name);
    std::string verdict = "ok";
    P prev{0, 0, 0, 0};
    for (int c = 0; c < ncalls; c++) {
      P p;
      // mostly-repeating parameters with occasional changes of one of them (that is what exercises the keys)
      if (c > 0 && rng.below(3) == 0) p = prev;
      else {
        p.m = MS[rng.below(9)];
        p.divisor = DIVS[rng.below(5)];
        p.log2bound = BNDS[rng.below(5)];
        p.log2overhead = OVHS[rng.below(4)];
        if (c > 0 && rng.below(2)) {  // change exactly one parameter
          P q = prev;
          switch (rng.below(4)) { case 0: q.m = p.m; break; case 1: q.divisor = p.divisor; break; case 2: q.log2bound = p.log2bound; break; default: q.log2overhead = p.log2overhead; }
          p = q;
        }
      }
      if (std::string(f.name) == "reim_from_znx64_simple" && p.log2bound > 50) p.log2bound = 50;  // constructor rejects > 50 (abort)
      prev = p;
      size_t nb = 4 * p.m * 8 + 64;
      std::vector<uint8_t> a(nb), b(nb), o1(nb), o2(nb);
      for (size_t i = 0; i < 4 * p.m; i++) {
        double x, y;
        int64_t xi;
        switch (f.in_kind) {
          case 1: xi = rng.sbits(49); memcpy(&a[8 * i], &xi, 8); break;
          case 2: { int32_t t = (int32_t)rng.next(); memcpy(&a[4 * i], &t, 4); break; }
          case 3: x = (double)rng.sbits(17) * p.divisor + (double)rng.sbits(20) / 1048576.0; memcpy(&a[8 * i], &x, 8); break;
          case 4: x = (rng.below(2) ? ((double)rng.sbits(20) + 0.5) * p.divisor : (double)rng.sbits(30) / 1024.0 + 1.0 / 3.0); memcpy(&a[8 * i], &x, 8); break;  // exact ties k+1/2
          default: x = (double)rng.sbits(30) / 1024.0 + 1.0 / 3.0; memcpy(&a[8 * i], &x, 8); break;
        }
        y = (double)rng.sbits(30) / 4096.0 + 1.0 / 7.0;  // not exactly representable products: fused and unfused roundings differ
        memcpy(&b[8 * i], &y, 8);
        double z = (double)rng.sbits(20);
        memcpy(&o1[8 * i], &z, 8);
      }
      o2 = o1;
      // the convenience call runs on copies placed at other byte offsets (C15: no dependence on alignment)
      size_t oa = 8 * rng.below(8), ob = 8 * rng.below(8), oo = 8 * rng.below(8);
      std::vector<uint8_t> a_s(nb + 64), b_s(nb + 64), o_s(nb + 64);
      memcpy(a_s.data() + oa, a.data(), nb);
      memcpy(b_s.data() + ob, b.data(), nb);
      memcpy(o_s.data() + oo, o1.data(), nb);
      uint64_t q0 = spqlios_verif_cpu_query_count();
      f.simple(p, a_s.data() + oa, b_s.data() + ob, o_s.data() + oo);
      uint64_t q1 = spqlios_verif_cpu_query_count();
      memcpy(o1.data(), o_s.data() + oo, nb);
      f.fresh(p, a.data(), b.data(), o2.data());
      if (memcmp(o1.data(), o2.data(), nb) != 0 && verdict == "ok") {
        char buf[200];
        snprintf(buf, sizeof buf, "FAIL %s call %d (m=%u divisor=%g log2bound=%u log2overhead=%u) differs from a fresh table", f.name, c, p.m, p.divisor, p.log2bound, p.log2overhead);
        verdict = buf;
      }
      fprintf(out.ops, "%s m=%u", c ? " ;" : "", p.m);
      if (f.uses_div) fprintf(out.ops, ",divisor=%" PRIu64, dbits(p.divisor));
      if (f.uses_bound) fprintf(out.ops, ",log2bound=%u", p.log2bound);
      if (f.uses_ovh) fprintf(out.ops, ",log2overhead=%u", p.log2overhead);
      fprintf(out.real, c ? " %d" : "%d", q1 != q0 ? 1 : 0);
      out.count("calls");
      if (q1 != q0) out.count("rebuilds");
    }
    out.endcase(verdict);
    out.count("functions");
  }
}

// the same histories over the small dimensions (m = 1, 2, 4 mixed with 8, 16), where kernels switch between their
// scalar and vector forms: operands in exactly-sized heap blocks (an overrun is a sanitizer report in the asan
// variant) and the fresh-table comparison.  Oracle only (the rebuild observation needs m >= 8, see ca_prog).
STREAM(ca_small) {
  auto F = fns();
  int ncalls = thorough ? 300 : 100;
  const uint32_t MS[] = {1, 2, 4, 8, 16, 8, 4, 8, 16};
  const double DIVS[] = {1.0, 2.0, 4.0, -2.0, -4.0};
  const uint32_t BNDS[] = {50, 40, 63, 52, 50};
  const uint32_t OVHS[] = {18, 10, 18, 12};
  for (auto& f : F) {
    const bool r4 = std::string(f.name).rfind("reim4_", 0) == 0;   // reim4 kernels are defined for m >= 4
    std::string verdict = "ok";
    P prev{0, 0, 0, 0};
    for (int c = 0; c < ncalls; c++) {
      P p;
      if (c > 0 && prev.m >= 8 && rng.below(3) == 0) { p = prev; p.m = rng.below(3) ? 1 : 2; }  // vector-sized table, then the smallest dimensions, same key otherwise
      else if (c > 0 && rng.below(3) == 0) p = prev;
      else {
        p.m = MS[rng.below(9)];
        p.divisor = DIVS[rng.below(5)];
        p.log2bound = BNDS[rng.below(5)];
        p.log2overhead = OVHS[rng.below(4)];
        if (c > 0 && rng.below(2)) {  // change exactly one parameter (most often m)
          P q = prev;
          switch (rng.below(5)) { case 0: q.divisor = p.divisor; break; case 1: q.log2bound = p.log2bound; break; case 2: q.log2overhead = p.log2overhead; break;
            default: q.m = p.m; }
          p = q;
        }
      }
      if (r4 && p.m < 4) p.m = 4 << rng.below(3);
      if (std::string(f.name) == "reim_from_znx64_simple" && p.log2bound > 50) p.log2bound = 50;
      prev = p;
      size_t nin = f.in_doubles * p.m * 8, nout = f.out_doubles * p.m * 8, nio = nin > nout ? nin : nout;
      uint8_t *a = (uint8_t*)malloc(nin), *b = (uint8_t*)malloc(nin), *o1 = (uint8_t*)malloc(nio), *o2 = (uint8_t*)malloc(nio);
      for (size_t i = 0; i < nin / 8; i++) {
        double x, y;
        int64_t xi;
        switch (f.in_kind) {
          case 1: xi = rng.sbits(49); memcpy(&a[8 * i], &xi, 8); break;
          case 2: { int32_t t[2] = {(int32_t)rng.next(), (int32_t)rng.next()}; memcpy(&a[8 * i], t, 8); break; }
          case 3: x = (double)rng.sbits(17) * p.divisor + (double)rng.sbits(20) / 1048576.0; memcpy(&a[8 * i], &x, 8); break;
          case 4: x = (rng.below(2) ? ((double)rng.sbits(20) + 0.5) * p.divisor : (double)rng.sbits(30) / 1024.0 + 1.0 / 3.0); memcpy(&a[8 * i], &x, 8); break;
          default: x = (double)rng.sbits(30) / 1024.0 + 1.0 / 3.0; memcpy(&a[8 * i], &x, 8); break;
        }
        y = (double)rng.sbits(30) / 4096.0 + 1.0 / 7.0;
        memcpy(&b[8 * i], &y, 8);
      }
      for (size_t i = 0; i < nio / 8; i++) { double z = (double)rng.sbits(20); memcpy(&o1[8 * i], &z, 8); }
      if (nio % 8) memset(o1 + nio - nio % 8, 0, nio % 8);
      memcpy(o2, o1, nio);
      f.simple(p, a, b, o1);
      f.fresh(p, a, b, o2);
      if (memcmp(o1, o2, nout) != 0 && verdict == "ok") {
        char buf[200];
        snprintf(buf, sizeof buf, "FAIL C15 %s call %d (m=%u divisor=%g log2bound=%u log2overhead=%u) differs from a fresh table", f.name, c, p.m, p.divisor, p.log2bound, p.log2overhead);
        verdict = buf;
      }
      free(a); free(b); free(o1); free(o2);
      out.count("calls");
      if (p.m < 8) out.count("calls_m_below_8");
    }
    fprintf(out.ops, "ca nop ca_small %s calls=%d", f.name, ncalls);
    fprintf(out.real, "nop");
    out.endcase(verdict);
  }
}

// the lazily filled per-dimension slot arrays of the convenience functions at the largest dimensions (index log2 m)
STREAM(ca_bigdim) {
  (void)rng;
  for (uint32_t lg : (thorough ? std::vector<uint32_t>{16, 17, 18, 20} : std::vector<uint32_t>{17, 18})) {
    const uint32_t m = 1u << lg;
    std::vector<double> d(2 * (size_t)m), e(2 * (size_t)m), r(2 * (size_t)m);
    for (size_t i = 0; i < d.size(); i++) { d[i] = (double)((i * 2654435761u) & 0xffff) / 64.0; e[i] = (double)(i & 0xff) / 8.0; }
    std::vector<double> d0 = d;
    reim_fft_simple(m, d.data());
    { auto* t = new_reim_fft_precomp(m, 0); reim_fft(t, d0.data()); free(t); }
    std::string verdict = memcmp(d.data(), d0.data(), d.size() * 8) ? "FAIL C15 reim_fft_simple differs from a fresh table at a large dimension" : "ok";
    reim_ifft_simple(m, d.data());
    reim_fftvec_mul_simple(m, r.data(), d.data(), e.data());
    reim_fftvec_addmul_simple(m, r.data(), d.data(), e.data());
    cplx_fft_simple(m, d.data());
    cplx_ifft_simple(m, d.data());
    std::vector<int64_t> z(2 * (size_t)m, 5);
    reim_from_znx64_simple(m, 50, d.data(), z.data());
    reim_to_znx64_simple(m, 1.0, 63, z.data(), d.data());
    fprintf(out.ops, "ca nop ca_bigdim log2m=%u", lg);
    fprintf(out.real, "nop");
    out.endcase(verdict);
  }
}

// tables built with different values of a parameter that is NOT part of the cache key must be identical
// byte for byte (this validates the hand-declared `irrelevant` list used by the C15 theorem)
STREAM(ca_irrelevant) {
  for (uint32_t m : {1u, 2u, 4u, 8u, 16u, 64u, 1024u}) {
    for (int mask = 0; mask < 2; mask++) {
      spqlios_verif_set_cpu_mask(mask, mask, mask);
      std::vector<uint8_t> ref;
      std::string verdict = "ok";
      for (uint32_t lb = 0; lb <= 50; lb++) {
        REIM_FROM_ZNX64_PRECOMP* t = new_reim_from_znx64_precomp(m, lb);
        // the object is { function pointer, m }: compare the bytes
        std::vector<uint8_t> cur((uint8_t*)t, (uint8_t*)t + 16);
        if (lb == 0) ref = cur;
        else if (cur != ref) verdict = "FAIL reim_from_znx64 table depends on log2bound";
        free(t);
      }
      spqlios_verif_set_cpu_mask(0, 0, 0);
      fprintf(out.ops, "ca nop ca_irrelevant reim_from_znx64 m=%u mask=%d log2bound=0..50", m, mask);
      fprintf(out.real, "nop");
      out.endcase(verdict);
    }
  }
}
