// Common helpers of the correspondence harness.  The harness links the library built from
// /repo's current tree (hooks on), drives the real code in-process and writes
//   <out>.ops  : one operation per line for the Lean model driver
//   <out>.real : the canonical result line the real code produced for the same operation
//   <out>.meta : JSON-ish counters about the generated distribution
#pragma once
#include <cinttypes>
#include <cmath>
#include <cstdint>
#include <cstdio>
#include <cstdlib>
#include <cstring>
#include <map>
#include <string>
#include <vector>

extern "C" {
#include "spqlios/arithmetic/vec_znx_arithmetic_private.h"
#include "spqlios/coeffs/coeffs_arithmetic.h"
#include "spqlios/commons_private.h"
}

struct Rng {
  uint64_t s;
  explicit Rng(uint64_t seed) : s(seed * 0x9E3779B97F4A7C15ull + 0x1234567ull) {
    if (!s) s = 1;
    for (int i = 0; i < 4; i++) next();
  }
  uint64_t next() {
    s ^= s >> 12;
    s ^= s << 25;
    s ^= s >> 27;
    return s * 0x2545F4914F6CDD1Dull;
  }
  uint64_t below(uint64_t n) { return n ? next() % n : 0; }
  int64_t range(int64_t lo, int64_t hi) { return lo + (int64_t)below((uint64_t)(hi - lo + 1)); }
  // signed value with |x| < 2^bits
  int64_t sbits(int bits) {
    if (bits <= 0) return 0;
    uint64_t m = (bits >= 64) ? ~0ull : ((1ull << bits) - 1);
    int64_t v = (int64_t)(next() & m);
    return (next() & 1) ? v : -v;
  }
};

struct Out {
  FILE* ops;
  FILE* real;
  FILE* oracle;  // one line per case: "ok" or "FAIL <reason>" -- verdict of an oracle that is independent of the Lean model
  std::map<std::string, long> counters;
  long cases = 0;
  void count(const std::string& k, long n = 1) { counters[k] += n; }
  long oracle_fail = 0;
  void endcase(const std::string& verdict = "ok") {
    fputc('\n', ops);
    fputc('\n', real);
    fprintf(oracle, "%s\n", verdict.c_str());
    if (verdict != "ok" && verdict != "na") oracle_fail++;
    cases++;
  }
};

static inline void put_i64s(FILE* f, const int64_t* v, size_t n) {
  for (size_t i = 0; i < n; i++) fprintf(f, i ? " %" PRId64 : "%" PRId64, v[i]);
}
static inline void put_u64s(FILE* f, const uint64_t* v, size_t n) {
  for (size_t i = 0; i < n; i++) fprintf(f, i ? " %" PRIu64 : "%" PRIu64, v[i]);
}
static inline void put_f64bits(FILE* f, const double* v, size_t n) {
  for (size_t i = 0; i < n; i++) {
    uint64_t b;
    memcpy(&b, v + i, 8);
    fprintf(f, i ? " %" PRIu64 : "%" PRIu64, b);
  }
}

// interesting int64 values for a data class
static inline int64_t pick_i64(Rng& r, int cls) {
  switch (cls) {
    case 0: return r.sbits(62);
    case 1: return r.sbits(20);
    case 2: return (r.next() & 1) ? INT64_MAX : INT64_MIN;
    case 3: return (int64_t)r.next();
    case 4: return r.range(-2, 2);
    case 5: { int64_t e = (int64_t)1 << 62; return (r.next() & 1) ? e : -e; }
    default: return r.sbits(62);
  }
}

typedef void (*StreamFn)(Out& out, Rng& rng, int thorough);
struct StreamReg {
  const char* name;
  StreamFn fn;
};
void register_stream(const char* name, StreamFn fn);
#define STREAM(name)                                              \
  static void stream_##name(Out& out, Rng& rng, int thorough);    \
  static struct Reg_##name {                                      \
    Reg_##name() { register_stream(#name, stream_##name); }       \
  } reg_##name;                                                   \
  static void stream_##name(Out& out, Rng& rng, int thorough)
