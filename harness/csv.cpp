// Stream cs_vec: the reference limb-vector wrappers of spqlios/arithmetic/vec_znx.c against the CIR interpreter
// running the terms GENERATED from their C source (calls of the generated kernel terms with `ptr + i*sl`
// pointer arguments, per-limb pointer-equality tests, `module->nn` read as the scalar nn), whole-arena comparison.
//   cs vec_znx_add_ref nn rsz rsl asz asl bsz bsl | 0:res 0:a 0:b | arena…      ->  ok | arena…
//   cs vec_znx_rotate_ref nn p rsz rsl asz asl | 0:res 0:a | arena…
//   cs vec_znx_normalize_base2k_ref nn k rsz rsl asz asl | 0:res 0:a 1:0 | arena… | scratch (nn cells)…
#include "hcommon.h"

MODULE* get_module(uint64_t nn, int type, int mask);  // harness/vz.cpp

namespace {
// the *_ref wrappers read nothing but module->nn
MODULE* fake_module(uint64_t nn) {
  static std::map<uint64_t, MODULE*> cache;
  auto it = cache.find(nn);
  if (it != cache.end()) return it->second;
  MODULE* m2 = get_module(2, 0, 1);
  MODULE* m = (MODULE*)malloc(sizeof(MODULE));
  memcpy(m, m2, sizeof(MODULE));
  m->nn = nn;
  m->m = nn / 2;
  cache[nn] = m;
  return m;
}

enum { V_ZERO, V_COPY, V_NEG, V_ADD, V_SUB, V_ROT, V_AUT, V_NORM, NV, V_NEGX = NV, V_ADDX, V_SUBX, NVX };
const char* VN[NVX] = {"vec_znx_zero_ref", "vec_znx_copy_ref", "vec_znx_negate_ref", "vec_znx_add_ref", "vec_znx_sub_ref",
                       "vec_znx_rotate_ref", "vec_znx_automorphism_ref", "vec_znx_normalize_base2k_ref",
                       // spqlios/arithmetic/vec_znx_avx.c (stream cs_vavx)
                       "vec_znx_negate_avx", "vec_znx_add_avx", "vec_znx_sub_avx"};

struct Lay { uint64_t off, sz, sl; };

// layout kinds for a source relative to res: 0 disjoint (own region), 1 exactly aliased (same offset and stride),
// 2 (out of contract, still well-defined C): shifted by one limb of res
void vec_case(Out& out, Rng& rng, int op, uint64_t nn, int64_t p, uint64_t k, uint64_t rsz, uint64_t asz, uint64_t bsz, int la, int lb,
              int gaps) {
  uint64_t rsl = nn + (gaps ? rng.below(3) : 0), asl = nn + (gaps ? rng.below(3) : 0), bsl = nn + (gaps ? rng.below(3) : 0);
  if (la == 1 || la == 2) asl = rsl;
  if (lb == 1 || lb == 2) bsl = rsl;
  uint64_t pad = 1 + rng.below(2);
  uint64_t need_r = rsz ? (rsz - 1) * rsl + nn : 0, need_a = asz ? (asz - 1) * asl + nn : 0, need_b = bsz ? (bsz - 1) * bsl + nn : 0;
  Lay R{pad, rsz, rsl}, A{0, asz, asl}, B{0, bsz, bsl};
  uint64_t end = pad + need_r;
  if (la == 1) A.off = R.off;
  else if (la == 2) A.off = R.off + rsl;
  else { A.off = end + pad; end = A.off + need_a; }
  if (lb == 1) B.off = R.off;
  else if (lb == 2) B.off = R.off + rsl;
  else { B.off = end + pad; end = B.off + need_b; }
  end = std::max(end, std::max(A.off + need_a, B.off + need_b)) + pad;
  std::vector<int64_t> arena(end), scratch(nn);
  for (auto& x : arena) x = (op == V_NORM) ? rng.sbits(61) : pick_i64(rng, (int)rng.below(6));
  for (auto& x : scratch) x = (int64_t)rng.next();
  MODULE* mod = fake_module(nn);
  fprintf(out.ops, "cs %s %" PRIu64, VN[op], nn);
  if (op == V_ROT || op == V_AUT) fprintf(out.ops, " %" PRId64, p);
  if (op == V_NORM) fprintf(out.ops, " %" PRIu64, k);
  fprintf(out.ops, " %" PRIu64 " %" PRIu64, rsz, rsl);
  if (op != V_ZERO) fprintf(out.ops, " %" PRIu64 " %" PRIu64, asz, asl);
  const bool two = (op == V_ADD || op == V_SUB || op == V_ADDX || op == V_SUBX);
  if (two) fprintf(out.ops, " %" PRIu64 " %" PRIu64, bsz, bsl);
  fprintf(out.ops, " | 0:%" PRIu64, R.off);
  if (op != V_ZERO) fprintf(out.ops, " 0:%" PRIu64, A.off);
  if (two) fprintf(out.ops, " 0:%" PRIu64, B.off);
  if (op == V_NORM) fprintf(out.ops, " 1:0");
  fprintf(out.ops, " | ");
  put_i64s(out.ops, arena.data(), arena.size());
  if (op == V_NORM) { fprintf(out.ops, " | "); put_i64s(out.ops, scratch.data(), scratch.size()); }
  std::vector<int64_t> before = arena;
  int64_t* r = arena.data() + R.off;
  const int64_t* a = arena.data() + A.off;
  const int64_t* b = arena.data() + B.off;
  switch (op) {
    case V_ZERO: vec_znx_zero_ref(mod, r, rsz, rsl); break;
    case V_COPY: vec_znx_copy_ref(mod, r, rsz, rsl, a, asz, asl); break;
    case V_NEG: vec_znx_negate_ref(mod, r, rsz, rsl, a, asz, asl); break;
    case V_ADD: vec_znx_add_ref(mod, r, rsz, rsl, a, asz, asl, b, bsz, bsl); break;
    case V_SUB: vec_znx_sub_ref(mod, r, rsz, rsl, a, asz, asl, b, bsz, bsl); break;
    case V_ROT: vec_znx_rotate_ref(mod, p, r, rsz, rsl, a, asz, asl); break;
    case V_AUT: vec_znx_automorphism_ref(mod, p, r, rsz, rsl, a, asz, asl); break;
    case V_NORM: vec_znx_normalize_base2k_ref(mod, k, r, rsz, rsl, a, asz, asl, (uint8_t*)scratch.data()); break;
    case V_NEGX: vec_znx_negate_avx(mod, r, rsz, rsl, a, asz, asl); break;
    case V_ADDX: vec_znx_add_avx(mod, r, rsz, rsl, a, asz, asl, b, bsz, bsl); break;
    case V_SUBX: vec_znx_sub_avx(mod, r, rsz, rsl, a, asz, asl, b, bsz, bsl); break;
  }
  fprintf(out.real, "ok | ");
  put_i64s(out.real, arena.data(), arena.size());
  if (op == V_NORM) { fprintf(out.real, " | "); put_i64s(out.real, scratch.data(), scratch.size()); }
  // independent check: frame (cells outside the result limbs are unchanged)
  std::string verdict = "ok";
  if (op >= NV) {  // AVX wrapper: the reference wrapper on the same arena gives the same arena
    std::vector<int64_t> ref = before;
    int64_t* rr = ref.data() + R.off;
    const int64_t* ra = ref.data() + A.off;
    const int64_t* rb = ref.data() + B.off;
    if (op == V_NEGX) vec_znx_negate_ref(mod, rr, rsz, rsl, ra, asz, asl);
    if (op == V_ADDX) vec_znx_add_ref(mod, rr, rsz, rsl, ra, asz, asl, rb, bsz, bsl);
    if (op == V_SUBX) vec_znx_sub_ref(mod, rr, rsz, rsl, ra, asz, asl, rb, bsz, bsl);
    if (ref != arena) verdict = std::string("FAIL C07 ") + VN[op] + " differs from the reference wrapper";
  }
  for (uint64_t x = 0; x < arena.size(); x++) {
    bool in_res = false;
    for (uint64_t i = 0; i < rsz; i++) if (x >= R.off + i * rsl && x < R.off + i * rsl + nn) in_res = true;
    if (!in_res && arena[x] != before[x]) {
      // tagged for the property whose check runs this op (C05 normalize wrapper, C07 AVX wrappers, C08 otherwise), joined
      // with an earlier verdict instead of replacing it
      const char* tag = (op == V_NORM) ? "FAIL C05 " : (op >= NV ? "FAIL C07 " : "FAIL C08 ");
      std::string v = std::string(tag) + VN[op] + " wrote outside its result limbs";
      verdict = (verdict == "ok" || verdict == "na") ? v : verdict + " ;; " + v;
      break;
    }
  }
  out.endcase(verdict);
  out.count(VN[op]);
  out.count(std::string("lay_") + std::to_string(la) + std::to_string(lb));
}
}  // namespace

// value-returning function: `cs vec_znx_normalize_base2k_tmp_bytes_ref nn |`  ->  `ok = bytes`
static void tmp_bytes_case(Out& out, uint64_t nn) {
  MODULE* mod = fake_module(nn);
  fprintf(out.ops, "cs vec_znx_normalize_base2k_tmp_bytes_ref %" PRIu64 " |", nn);
  uint64_t b = vec_znx_normalize_base2k_tmp_bytes_ref(mod);
  fprintf(out.real, "ok = %" PRIu64, b);
  out.endcase(b == 8 * nn ? "ok" : "FAIL C05 vec_znx_normalize_base2k_tmp_bytes_ref is not 8*nn");
  out.count("vec_znx_normalize_base2k_tmp_bytes_ref");
}

// ops V_ZERO … V_AUT (stream cs_vec, property C08) or V_NORM (stream cs_vnorm, property C05)
static void vec_stream(Out& out, Rng& rng, bool thorough, bool norm_only) {
  uint64_t maxsz = thorough ? 4 : 3;
  std::vector<uint64_t> nns = {1, 2, 3, 4, 5, 8};
  if (thorough) { nns.push_back(7); nns.push_back(16); nns.push_back(64); }
  for (uint64_t nn : nns) {
    bool pow2 = !(nn & (nn - 1));
    for (int op = 0; op < NV; op++) {
      if ((op == V_NORM) != norm_only) continue;
      if ((op == V_ROT || op == V_AUT) && !pow2) continue;
      for (uint64_t rsz = 0; rsz <= maxsz; rsz++)
        for (uint64_t asz = 0; asz <= maxsz; asz++) {
          if (op == V_ZERO && asz > 0) continue;
          for (uint64_t bsz = 0; bsz <= maxsz; bsz++) {
            bool two = (op == V_ADD || op == V_SUB);
            if (!two && bsz > 0) continue;
            if (two && !thorough && rng.below(3)) continue;
            for (int la = 0; la < 3; la++)
              for (int lb = 0; lb < (two ? 3 : 1); lb++) {
                if (op == V_ZERO && la) continue;
                if ((la == 2 || lb == 2) && (rng.below(4) || op == V_NORM)) continue;
                int64_t p = (op == V_AUT) ? (int64_t)(2 * rng.below(2 * nn) + 1) - (int64_t)(2 * nn) : rng.range(-(int64_t)(2 * nn) - 1, (int64_t)(2 * nn) + 1);
                if (op == V_ROT && rng.below(8) == 0) p = rng.below(2) ? INT64_MIN : INT64_MAX;
                uint64_t k = 1 + rng.below(20);
                int reps = norm_only ? 3 : 1;
                for (int t = 0; t < reps; t++) vec_case(out, rng, op, nn, p, k, rsz, asz, bsz, la, lb, (int)rng.below(2));
              }
          }
        }
    }
  }
}

STREAM(cs_vec) { vec_stream(out, rng, thorough, false); }

// Stream cs_vnorm: vec_znx_normalize_base2k_ref (scratch in a second buffer) and its _tmp_bytes
STREAM(cs_vnorm) {
  for (uint64_t nn : {1ull, 2ull, 3ull, 64ull, 65536ull, 1ull << 40, (1ull << 61) - 1, 1ull << 61, (1ull << 63) + 5}) tmp_bytes_case(out, nn);
  vec_stream(out, rng, thorough, true);
}

// Stream cs_vavx: the AVX limb-vector wrappers of spqlios/arithmetic/vec_znx_avx.c (nn the AVX kernels accept)
STREAM(cs_vavx) {
  uint64_t maxsz = thorough ? 4 : 3;
  std::vector<uint64_t> nns = {1, 2, 4, 8, 12};
  if (thorough) { nns.push_back(16); nns.push_back(20); nns.push_back(64); }
  for (uint64_t nn : nns)
    for (int op = V_NEGX; op < NVX; op++)
      for (uint64_t rsz = 0; rsz <= maxsz; rsz++)
        for (uint64_t asz = 0; asz <= maxsz; asz++)
          for (uint64_t bsz = 0; bsz <= maxsz; bsz++) {
            bool two = (op != V_NEGX);
            if (!two && bsz > 0) continue;
            if (two && !thorough && rng.below(3)) continue;
            for (int la = 0; la < 2; la++)
              for (int lb = 0; lb < (two ? 2 : 1); lb++)
                vec_case(out, rng, op, nn, 0, 0, rsz, asz, bsz, la, lb, (int)rng.below(2));
          }
}
