// Module-level NTT120 transforms with FULL op lines for the Lean model `Spq/ModuleNtt.lean` (driver family `mn`):
//
//   mn_model : ntt120 vec_znx_dft / vec_znx_idft / vec_znx_idft_tmp_a through the module's function table, n = 1..4096
//              (thorough: ..65536), limb counts 0..4 (unequal), strides a_sl >= n, int64 classes random / INT64_MIN,MAX /
//              62-bit / tiny, the three inverse variants (disjoint, tmp_a, in place res == a_dft), plus inverse
//              transforms of ARBITRARY 64-bit cells (not the DFT of anything).
//              real line  = the uint64 residues of the DFT vector            (op dft)
//                           the 128-bit coefficients of the big vector       (op idft)
//                           coefficients " | " clobbered DFT cells           (op idfta)
//                           the whole shared buffer as 64-bit cells          (op idfti)
//              every line is compared bit-exactly with the model.
//
// Oracles (independent of the Lean model, unsigned __int128 arithmetic):
//   * dft : zero-filled limbs are exactly 0; n <= 128: cell (limb i, position p, lane j) is congruent mod q_j to the value
//           of the limb polynomial at w_j^(2 brev(p)+1) (w_j = OMEGA_j^(2^16/n)); source unchanged.
//   * idft of a DFT vector: limb i = the int64 limb (sign-extended) for i < min(a_size, dft_size, res_size), 0 otherwise.
//   * idft of arbitrary cells: every coefficient lies in [-(Q-1)/2, (Q-1)/2]; tmp_a and in-place results equal the
//     disjoint call on the same cells (C13); disjoint call leaves its source unchanged (C18).
#include "hcommon.h"

extern "C" {
#include "spqlios/q120/q120_common.h"
#include "spqlios/q120/q120_ntt.h"
#include "spqlios/q120/q120_ntt_private.h"
}

typedef __int128 i128;
typedef unsigned __int128 u128;

MODULE* get_module(uint64_t nn, int type, int mask);  // vz.cpp

static const uint64_t MQ[4] = {Q1, Q2, Q3, Q4};
static const uint64_t MW[4] = {OMEGA1, OMEGA2, OMEGA3, OMEGA4};
static const uint64_t MC[4] = {Q1_CRT_CST, Q2_CRT_CST, Q3_CRT_CST, Q4_CRT_CST};

static uint64_t mulm(uint64_t a, uint64_t b, uint64_t q) { return (uint64_t)(((u128)a * b) % q); }
static uint64_t powm(uint64_t b, uint64_t e, uint64_t q) {
  uint64_t r = 1 % q;
  b %= q;
  while (e) {
    if (e & 1) r = mulm(r, b, q);
    b = mulm(b, b, q);
    e >>= 1;
  }
  return r;
}
static uint64_t brev(uint64_t j, int k) {
  uint64_t r = 0;
  for (int b = 0; b < k; b++)
    if (j >> b & 1) r |= 1ull << (k - 1 - b);
  return r;
}
static int ilog2(uint64_t n) { int k = 0; while ((1ull << k) < n) k++; return k; }

static void put_i128(FILE* f, i128 v) {
  char buf[48];
  int p = 47;
  buf[p] = 0;
  bool neg = v < 0;
  u128 u = neg ? (u128)0 - (u128)v : (u128)v;
  if (!u) buf[--p] = '0';
  while (u) { buf[--p] = (char)('0' + (int)(u % 10)); u /= 10; }
  if (neg) buf[--p] = '-';
  fputs(buf + p, f);
}

// <h> <mask> <c0..c3> <nl> {bs half mask reduce q2bs0..3}*nl
static void put_pre(FILE* f, int k, int dir, const q120_ntt_precomp* p) {
  if (k == 0) {  // nothing is initialised for n = 1 (and nothing is read by the drivers)
    fprintf(f, " 0 0 0 0 0 0 0");
    return;
  }
  const q120_ntt_reduc_step_precomp* r = &p->reduc_metadata;
  fprintf(f, " %" PRIu64 " %" PRIu64, r->h, r->mask);
  for (int j = 0; j < 4; j++) fprintf(f, " %" PRIu64, r->modulo_red_cst[j]);
  fprintf(f, " %d", k + 1);
  for (int l = 0; l <= k; l++) {
    const q120_ntt_step_precomp* s = p->level_metadata + l;
    int uninit = (dir == 0 && l == 0);  // forward first level: reduce/q2bs never written, never read
    fprintf(f, " %" PRIu64 " %" PRIu64 " %" PRIu64 " %d", s->bs, s->half_bs, s->mask, uninit ? 0 : (int)(s->reduce != 0));
    for (int j = 0; j < 4; j++) fprintf(f, " %" PRIu64, uninit ? (uint64_t)0 : s->q2bs[j]);
  }
}

static void put_head(FILE* f, const char* op, uint64_t p0, uint64_t p1, uint64_t p2, const MODULE* mod) {
  int k = ilog2(mod->nn);
  fprintf(f, "mn %s %" PRIu64 " %" PRIu64 " %" PRIu64 " %d", op, p0, p1, p2, k);
  for (int j = 0; j < 4; j++) fprintf(f, " %" PRIu64, MQ[j]);
  for (int j = 0; j < 4; j++) fprintf(f, " %" PRIu64, MW[j]);
  for (int j = 0; j < 4; j++) fprintf(f, " %" PRIu64, MC[j]);
  put_pre(f, k, 0, mod->mod.q120.p_ntt);
  put_pre(f, k, 1, mod->mod.q120.p_intt);
  fprintf(f, " | ");
}

// exact-size heap buffer (so that ASan sees every out-of-bounds access), 8-byte aligned start + optional offset
struct XBuf {
  uint8_t* base;
  uint8_t* p;
  size_t n;
  XBuf(size_t bytes, size_t mis, Rng& rng) : n(bytes) {
    base = (uint8_t*)malloc(bytes + mis + 1);
    p = base + mis;
    for (size_t i = 0; i < bytes; i++) p[i] = (uint8_t)rng.next();
  }
  ~XBuf() { free(base); }
  uint64_t cell(size_t i) const { uint64_t v; memcpy(&v, p + 8 * i, 8); return v; }
  i128 big(size_t i) const { i128 v; memcpy(&v, p + 16 * i, 16); return v; }
};

static void put_cells(FILE* f, const XBuf& b) {
  for (size_t i = 0; i < b.n / 8; i++) fprintf(f, i ? " %" PRIu64 : "%" PRIu64, b.cell(i));
}
static void put_bigs(FILE* f, const XBuf& b) {
  for (size_t i = 0; i < b.n / 16; i++) {
    if (i) fputc(' ', f);
    put_i128(f, b.big(i));
  }
}

static int64_t mn_pick(Rng& rng, int cls) {
  switch (cls) {
    case 0: return (int64_t)rng.next();
    case 1: return (rng.next() & 1) ? INT64_MAX : INT64_MIN;
    case 2: return rng.sbits(62);
    default: return rng.range(-1, 1);
  }
}
static const char* CLSN[] = {"random64", "minmax", "62bit", "tiny", "rawcells"};

static std::string dft_oracle(uint64_t n, const XBuf& dft, uint64_t dsz, const std::vector<int64_t>& av, uint64_t a_size, uint64_t a_sl) {
  const int k = ilog2(n);
  char buf[240];
  for (uint64_t i = 0; i < dsz; i++) {
    if (i >= a_size) {
      for (uint64_t c = 0; c < 4 * n; c++)
        if (dft.cell(i * 4 * n + c)) {
          snprintf(buf, sizeof buf, "FAIL C03 ntt120 vec_znx_dft n=%" PRIu64 ": extra limb %" PRIu64 " not zero-filled (cell %" PRIu64 ")", n, i, c);
          return buf;
        }
      continue;
    }
    if (n > 128) continue;
    for (int j = 0; j < 4; j++) {
      const uint64_t q = MQ[j], w = powm(MW[j], (1ull << 16) / n, q);
      for (uint64_t p = 0; p < n; p++) {
        uint64_t acc = 0;
        for (uint64_t t = 0; t < n; t++) {
          int64_t x = av[i * a_sl + t];
          uint64_t xr = x >= 0 ? (uint64_t)x % q : (q - ((uint64_t)(-(x + 1)) + 1) % q) % q;  // x mod q, no overflow at INT64_MIN
          acc = (acc + mulm(xr, powm(w, (t * (2 * brev(p, k) + 1)) % (2 * n), q), q)) % q;
        }
        uint64_t got = dft.cell(i * 4 * n + 4 * p + j);
        if (got % q != acc) {
          snprintf(buf, sizeof buf, "FAIL C03 ntt120 vec_znx_dft n=%" PRIu64 " limb %" PRIu64 " pos %" PRIu64 " lane %d: %" PRIu64 " mod q = %" PRIu64 ", evaluation gives %" PRIu64, n, i, p, j, got, got % q, acc);
          return buf;
        }
      }
    }
  }
  return "ok";
}

// one inverse call of the given variant on the cells `src` (dsz limbs); writes op + real lines, returns the big vector
// variant 0: disjoint, 1: tmp_a, 2: in place (res == a_dft; `tail` = content of the shared buffer beyond the DFT vector)
static std::vector<i128> idft_case(Out& out, Rng& rng, MODULE* mod, int variant, const XBuf& src, uint64_t dsz, uint64_t rsz, std::string& verdict) {
  const uint64_t n = mod->nn;
  std::vector<i128> res(rsz * n);
  XBuf tmp(vec_znx_idft_tmp_bytes(mod), 8 * rng.below(4), rng);
  if (variant == 0) {
    XBuf a(src.n, 8 * rng.below(4), rng);
    memcpy(a.p, src.p, src.n);
    XBuf big(n * 16 * rsz, 16 * rng.below(2), rng);
    put_head(out.ops, "idft", rsz, dsz, 0, mod);
    put_cells(out.ops, a);
    vec_znx_idft(mod, (VEC_ZNX_BIG*)big.p, rsz, (VEC_ZNX_DFT*)a.p, dsz, tmp.p);
    put_bigs(out.real, big);
    if (memcmp(a.p, src.p, src.n) && verdict == "ok") verdict = "FAIL C18 ntt120 vec_znx_idft modified its DFT source";
    for (size_t i = 0; i < res.size(); i++) res[i] = big.big(i);
  } else if (variant == 1) {
    XBuf a(src.n, 8 * rng.below(4), rng);
    memcpy(a.p, src.p, src.n);
    XBuf big(n * 16 * rsz, 16 * rng.below(2), rng);
    put_head(out.ops, "idfta", rsz, dsz, 0, mod);
    put_cells(out.ops, a);
    vec_znx_idft_tmp_a(mod, (VEC_ZNX_BIG*)big.p, rsz, (VEC_ZNX_DFT*)a.p, dsz);
    put_bigs(out.real, big);
    fprintf(out.real, " | ");
    put_cells(out.real, a);
    for (size_t i = 0; i < res.size(); i++) res[i] = big.big(i);
  } else {
    // in place: limb i of the result (16n bytes) lands on DFT limbs that were consumed before
    size_t need = std::max((size_t)(n * 32 * dsz), (size_t)(n * 16 * rsz));
    XBuf io(need, 0, rng);
    memcpy(io.p, src.p, src.n);
    put_head(out.ops, "idfti", rsz, dsz, 0, mod);
    put_cells(out.ops, io);
    vec_znx_idft(mod, (VEC_ZNX_BIG*)io.p, rsz, (VEC_ZNX_DFT*)io.p, dsz, tmp.p);
    put_cells(out.real, io);
    for (size_t i = 0; i < res.size(); i++) res[i] = io.big(i);
  }
  return res;
}

static void mn_roundtrip(Out& out, Rng& rng, uint64_t n, int cls, int variant, uint64_t a_size, uint64_t dsz, uint64_t rsz) {
  MODULE* mod = get_module(n, 1, 0);
  const uint64_t a_sl = n + rng.below(3);
  std::vector<int64_t> av((a_size ? a_size : 1) * a_sl);
  for (auto& x : av) x = mn_pick(rng, cls);
  XBuf ba(a_size * a_sl * 8, 8 * rng.below(4), rng);
  memcpy(ba.p, av.data(), ba.n);
  XBuf dft(n * 32 * dsz, 8 * rng.below(4), rng);
  // ---- forward
  put_head(out.ops, "dft", dsz, a_size, a_sl, mod);
  put_i64s(out.ops, av.data(), a_size * a_sl);
  vec_znx_dft(mod, (VEC_ZNX_DFT*)dft.p, dsz, (const int64_t*)ba.p, a_size, a_sl);
  put_cells(out.real, dft);
  std::string verdict = dft_oracle(n, dft, dsz, av, a_size, a_sl);
  if (memcmp(ba.p, av.data(), ba.n) && verdict == "ok") verdict = "FAIL C18 ntt120 vec_znx_dft modified its source";
  out.endcase(verdict);
  out.count("dft_cases");
  // ---- inverse
  verdict = "ok";
  std::vector<i128> r = idft_case(out, rng, mod, variant, dft, dsz, rsz, verdict);
  for (uint64_t i = 0; i < rsz && verdict == "ok"; i++)
    for (uint64_t j = 0; j < n; j++) {
      i128 e = (i < dsz && i < a_size) ? (i128)av[i * a_sl + j] : 0;
      if (r[i * n + j] != e) {
        char buf[240];
        snprintf(buf, sizeof buf, "FAIL %s ntt120 dft->idft n=%" PRIu64 " limb %" PRIu64 " coeff %" PRIu64 " expected %" PRId64 " (variant %d%s, a_size=%" PRIu64 " dft_size=%" PRIu64 " res_size=%" PRIu64 ")",
                 variant == 2 ? "C13" : "C03", n, i, j, (int64_t)e, variant, variant == 2 ? ": in place, res == a_dft" : "", a_size, dsz, rsz);
        verdict = buf;
        break;
      }
    }
  out.endcase(verdict);
  out.count("idft_cases");
  out.count(std::string("class_") + CLSN[cls]);
  out.count(std::string("variant_") + std::to_string(variant));
  out.count(std::string("n=") + std::to_string(n));
  if (!a_size || !dsz || !rsz) out.count("zero_size");
  if (variant == 2 && rsz > 2 * dsz) out.count("inplace_result_longer_than_source");
}

// inverse transforms of arbitrary cells: the three variants must agree, results are centred
static void mn_raw(Out& out, Rng& rng, uint64_t n, int pat, uint64_t dsz, uint64_t rsz) {
  MODULE* mod = get_module(n, 1, 0);
  const i128 Q = (i128)Q1 * Q2 * Q3 * Q4;
  XBuf src(n * 32 * dsz, 0, rng);
  for (size_t i = 0; i < src.n / 8; i++) {
    uint64_t v = pat == 0 ? rng.next() : (pat == 1 ? ~0ull : ((rng.next() & 1) ? ~0ull - rng.below(3) : rng.below(3)));
    memcpy(src.p + 8 * i, &v, 8);
  }
  std::vector<i128> ref;
  for (int variant = 0; variant < 3; variant++) {
    std::string verdict = "ok";
    std::vector<i128> r = idft_case(out, rng, mod, variant, src, dsz, rsz, verdict);
    if (variant == 0) {
      ref = r;
      for (size_t i = 0; i < r.size() && verdict == "ok"; i++)
        if (r[i] > (Q - 1) / 2 || r[i] < -((Q - 1) / 2)) verdict = "FAIL C03 ntt120 vec_znx_idft: coefficient outside the centred range of Q";
      for (size_t i = std::min(dsz, rsz) * n; i < r.size() && verdict == "ok"; i++)
        if (r[i] != 0) verdict = "FAIL C03 ntt120 vec_znx_idft: extra limb not zero-filled";
    } else if (r != ref && verdict == "ok") {
      verdict = variant == 1 ? "FAIL C03 ntt120 vec_znx_idft_tmp_a differs from vec_znx_idft on the same cells"
                             : "FAIL C13 ntt120 vec_znx_idft in place (res == a_dft) differs from the disjoint call on the same cells";
    }
    out.endcase(verdict);
    out.count("idft_cases");
    out.count(std::string("variant_") + std::to_string(variant));
  }
  out.count(std::string("class_") + CLSN[4]);
  out.count(std::string("n=") + std::to_string(n));
}

STREAM(mn_model) {
  std::vector<uint64_t> dims = thorough ? std::vector<uint64_t>{1, 2, 4, 8, 16, 32, 64, 128, 256, 512, 1024, 2048, 4096, 16384, 65536}
                                        : std::vector<uint64_t>{1, 2, 4, 8, 16, 64, 256, 1024, 4096};
  for (uint64_t n : dims) {
    const int reps = n <= 64 ? (thorough ? 4 : 2) : 1;
    const uint64_t cap = n >= 16384 ? 1 : (n >= 1024 ? (thorough ? 3 : 2) : 3);  // limb counts of the large dimensions (model time)
    for (int rep = 0; rep < reps; rep++)
      for (int cls = 0; cls < 4; cls++)
        for (int variant = 0; variant < 3; variant++) {
          if (n == 4096 && !thorough && (cls + variant) % 2 != 0) continue;  // 6 of the 12 combinations (model time)
          uint64_t a_size = rng.below(cap + 1), dsz = rng.below(cap + 1), rsz = rng.below(cap + 2);
          if (rep == 0 && cls == 0) { a_size = cap; dsz = cap; rsz = cap + (variant == 2); }  // full sizes at least once
          mn_roundtrip(out, rng, n, cls, variant, a_size, dsz, rsz);
        }
    // in place with a result longer than the source vector and vice versa
    if (n <= 256) {
      mn_roundtrip(out, rng, n, 0, 2, 1, 1, 4);
      mn_roundtrip(out, rng, n, 1, 2, 3, 3, 1);
      mn_roundtrip(out, rng, n, 2, 2, 2, 3, 3);
    }
    if (n <= 1024 || thorough)
      for (int pat = 0; pat < 3; pat++) {
        if (n >= 1024 && !thorough && pat != 1) continue;
        uint64_t c2 = n >= 1024 ? 1 : 3;
        mn_raw(out, rng, n, pat, 1 + rng.below(c2), 1 + rng.below(c2 + 1));
      }
  }
}
